#!/usr/bin/env python3
"""rs2lean.py -- translate the straight-line limb arithmetic of /repo/src/fp/ops.rs and the
parameter tables of /repo/src/fp.rs into Lean 4 definitions over Nat.

usage: rs2lean.py <repo> <outdir>      (writes <outdir>/FpOps.lean, <outdir>/FpParams.lean)

Fragment covered (anything else is a translation error, exit code 3, message on stderr):
  let pat = expr;   ident = expr;   trailing expression
  expr ::= ident | literal | path-constant | closure-call | tuple
         | e.overflowing_add(&e) | e.overflowing_sub(&e) | e.wrapping_add/sub/mul(&e) | e.as_()
         | <T as From<bool>>::from(e) | e op e (op in * + - >> << & |) | !e | (e)
Each Rust integer type is a modulus: W -> R, DoubleWord -> R*R, HalfWord -> B, with R = B*B for the
split-word code.  Translation rules (each one is backed by a lemma in PrioProofs/TranslatorRules.lean):
  e >> (BITS/2)                  ->  e / B           (Nat.shiftRight_eq_div_pow)
  e >> BITS  (in DoubleWord)     ->  e / R
  e & ((ONE << (BITS/2)) - ONE)  ->  e % B           (Nat.and_two_pow_sub_one_eq_mod)
  a | (b << (BITS/2)), a < B     ->  a + b * B       (or_shl_rule)
  mask = ZERO.wrapping_sub(&from(b));  (u & mask) | (v & !mask)  ->  if b = 1 then u else v   (select_rule)
  mask & e  (mask as above)      ->  if b = 1 then e else 0                                     (mask_and_rule)
  plain  + - * on a type of modulus M: the Nat operation, and `result < M` (resp. `b <= a`) is added
  to the generated  *_fits  proposition (dev-profile overflow check).
  wrapping ops are reduced mod M; overflowing ops give (value mod M, carry/borrow as 0/1).
  x.as_() to a narrower type reduces mod the target modulus; to a wider type it is the identity.
"""
import re, sys, os

class TErr(Exception):
    pass

# ---------------------------------------------------------------- tokenizer
TOK = re.compile(r"\s*(?:(//[^\n]*)|(\d[\d_]*)|([A-Za-z_][A-Za-z_0-9]*)|(::|>>|<<|->|[-+*/&|!<>=(),;.{}\[\]:]))")

def tokenize(src):
    out = []
    i = 0
    while i < len(src):
        m = TOK.match(src, i)
        if not m:
            if src[i:].strip() == "":
                break
            raise TErr("cannot tokenize at: %r" % src[i:i + 40])
        i = m.end()
        if m.group(1):
            continue
        if m.group(2):
            out.append(("num", m.group(2).replace("_", "")))
        elif m.group(3):
            out.append(("id", m.group(3)))
        else:
            out.append(("op", m.group(4)))
    return out

# ---------------------------------------------------------------- parser (AST as tuples)
class P:
    def __init__(self, toks):
        self.t = toks
        self.i = 0

    def peek(self, k=0):
        return self.t[self.i + k] if self.i + k < len(self.t) else ("eof", "")

    def next(self):
        x = self.peek()
        self.i += 1
        return x

    def accept(self, kind, val=None):
        k, v = self.peek()
        if k == kind and (val is None or v == val):
            self.i += 1
            return True
        return False

    def expect(self, kind, val=None):
        k, v = self.next()
        if k != kind or (val is not None and v != val):
            raise TErr("expected %s %s, got %s %r" % (kind, val, k, v))
        return v

    # types: only what occurs: W, Self::DoubleWord, (W, W)
    def ty(self):
        if self.accept("op", "("):
            ts = [self.ty()]
            while self.accept("op", ","):
                ts.append(self.ty())
            self.expect("op", ")")
            return ("tuple", ts)
        name = self.expect("id")
        while self.accept("op", "::"):
            name += "::" + self.expect("id")
        return name

    def block(self):
        """parse `{ stmts }` -> list of statements"""
        self.expect("op", "{")
        stmts = []
        while not self.accept("op", "}"):
            stmts.append(self.stmt())
        return stmts

    def stmt(self):
        if self.accept("id", "let"):
            mut = self.accept("id", "mut")
            if self.accept("op", "("):
                names = [self.expect("id")]
                while self.accept("op", ","):
                    names.append(self.expect("id"))
                self.expect("op", ")")
                pat = names
            else:
                pat = self.expect("id")
            self.expect("op", "=")
            # closure definition?
            if self.peek() == ("op", "|"):
                self.next()
                param = self.expect("id")
                pty = None
                if self.accept("op", ":"):
                    pty = self.ty()
                self.expect("op", "|")
                rty = None
                if self.accept("op", "->"):
                    rty = self.ty()
                if self.peek() == ("op", "{"):
                    body = self.block()
                    if len(body) != 1 or body[0][0] != "expr":
                        raise TErr("closure body must be a single expression")
                    body = body[0][1]
                else:
                    body = self.expr()
                self.expect("op", ";")
                return ("closure", pat, param, pty, rty, body)
            e = self.expr()
            self.expect("op", ";")
            return ("let", pat, e, mut)
        # assignment or trailing expression
        if self.peek()[0] == "id" and self.peek(1) == ("op", "="):
            name = self.expect("id")
            self.expect("op", "=")
            e = self.expr()
            self.expect("op", ";")
            return ("assign", name, e)
        e = self.expr()
        if self.accept("op", ";"):
            raise TErr("expression statement with `;` is outside the fragment")
        return ("expr", e)

    PREC = [("|",), ("&",), ("<<", ">>"), ("+", "-"), ("*",)]

    def expr(self, lvl=0):
        if lvl == len(self.PREC):
            return self.unary()
        l = self.expr(lvl + 1)
        while self.peek()[0] == "op" and self.peek()[1] in self.PREC[lvl]:
            # `&` directly after an operator/open paren is a reference, handled in unary
            op = self.next()[1]
            r = self.expr(lvl + 1)
            l = ("bin", op, l, r)
        return l

    def unary(self):
        if self.accept("op", "!"):
            return ("not", self.unary())
        if self.accept("op", "&"):
            return self.unary()  # reference: transparent
        return self.postfix(self.primary())

    def postfix(self, e):
        while True:
            if self.accept("op", "."):
                name = self.expect("id")
                self.expect("op", "(")
                args = []
                if not self.accept("op", ")"):
                    args.append(self.expr())
                    while self.accept("op", ","):
                        args.append(self.expr())
                    self.expect("op", ")")
                e = ("method", name, e, args)
            else:
                return e

    def primary(self):
        k, v = self.peek()
        if k == "num":
            self.next()
            return ("num", int(v))
        if k == "op" and v == "(":
            self.next()
            e = self.expr()
            if self.accept("op", ","):
                es = [e, self.expr()]
                while self.accept("op", ","):
                    es.append(self.expr())
                self.expect("op", ")")
                return ("tuple", es)
            self.expect("op", ")")
            return e
        if k == "op" and v == "<":
            # <T as Trait<..>>::item  -- qualified path
            self.next()
            t = self.ty()
            self.expect("id", "as")
            trait = self.expect("id")
            if self.accept("op", "<"):
                depth = 1
                targ = []
                while depth > 0:
                    kk, vv = self.next()
                    if vv == "<":
                        depth += 1
                    elif vv == ">":
                        depth -= 1
                    elif vv == ">>":
                        depth -= 2
                    if depth > 0:
                        targ.append(vv)
                trait += "<" + "".join(targ) + ">"
                if depth < 0:
                    # consumed the closing `>` of the qualified path as part of `>>`
                    self.expect("op", "::")
                    item = self.expect("id")
                    return self.call_or_path(("qpath", t, trait, item))
            self.expect("op", ">")
            self.expect("op", "::")
            item = self.expect("id")
            return self.call_or_path(("qpath", t, trait, item))
        if k == "id":
            self.next()
            name = v
            while self.accept("op", "::"):
                name += "::" + self.expect("id")
            return self.call_or_path(("path", name))
        raise TErr("unexpected token %s %r" % (k, v))

    def call_or_path(self, p):
        if self.peek() == ("op", "("):
            self.next()
            args = []
            if not self.accept("op", ")"):
                args.append(self.expr())
                while self.accept("op", ","):
                    args.append(self.expr())
                self.expect("op", ")")
            return ("call", p, args)
        return p

# ---------------------------------------------------------------- typed translation
# types: 'W' (modulus R), 'DW' (R*R), 'HW' (B), 'bool' (0/1 carried as Nat)

class Fn:
    def __init__(self, kind):
        self.kind = kind          # 'generic' | 'single' | 'split'
        self.lines = []           # (leanName, leanExpr)
        self.fits = []            # lean Prop strings (may mention let names)
        self.env = {}             # rust name -> (leanName, type)
        self.ver = {}
        self.closures = {}
        self.masks = {}           # rust var -> lean name of the 0/1 selector

    def mod(self, ty):
        return {"W": "R", "DW": "(R * R)", "HW": "B", "bool": "2"}[ty]

    def fresh(self, name):
        n = self.ver.get(name, 0)
        self.ver[name] = n + 1
        return name if n == 0 else "%s_%d" % (name, n)

    def bind(self, rname, ty, lexpr):
        if rname.startswith("_"):
            return
        ln = self.fresh(rname)
        self.lines.append((ln, lexpr))
        self.env[rname] = (ln, ty)
        self.masks.pop(rname, None)

HALFBITS = ("bin", "*", None, None)

def is_half_bits(e):
    """W::BITS / 2"""
    return e == ("bin", "/", ("path", "W::BITS"), ("num", 2))

def is_bits(e):
    return e == ("path", "W::BITS")

def low_mask(e):
    """((W::ONE << (W::BITS / 2)) - W::ONE)"""
    return (e[0] == "bin" and e[1] == "-" and e[3] == ("path", "W::ONE") and e[2][0] == "bin"
            and e[2][1] == "<<" and e[2][2] == ("path", "W::ONE") and is_half_bits_tok(e[2][3]))

def is_half_bits_tok(e):
    # the tokenizer has no `/` precedence level in PREC; BITS / 2 is parsed by the special case below
    return e == ("halfbits",)

def paren(s):
    return s if re.fullmatch(r"[A-Za-z_0-9']+", s) else "(" + s + ")"

def tr(fn, e, want=None):
    """translate expression -> (leanExpr, type).  `want` is the expected type for `.as_()`."""
    k = e[0]
    if k == "num":
        return (str(e[1]), want or "W")
    if k == "halfbits":
        raise TErr("bare W::BITS/2 outside a shift")
    if k == "path":
        name = e[1]
        if name in fn.env:
            return fn.env[name]
        if name == "Self::PRIME":
            return ("p", "W")
        if name == "Self::MU":
            return ("mu", "W")
        if name == "W::ZERO":
            return ("0", "W")
        if name == "W::ONE":
            return ("1", "W")
        raise TErr("unknown name %s" % name)
    if k == "qpath":
        t, trait, item = e[1], e[2], e[3]
        if t == "Self" and trait.startswith("FieldMulOpsSplitWord") and item == "MU":
            return ("mu", "HW")
        raise TErr("unknown qualified path %r" % (e,))
    if k == "tuple":
        raise TErr("tuple outside a let pattern")
    if k == "not":
        raise TErr("bitwise not outside the select idiom")
    if k == "call":
        f, args = e[1], e[2]
        if f[0] == "qpath" and f[3] == "from" and f[2] == "From<bool>":
            ty = {"W": "W", "Self::DoubleWord": "DW", "Self::HalfWord": "HW"}.get(f[1])
            if ty is None or len(args) != 1:
                raise TErr("bad From<bool> call")
            a, at = tr(fn, args[0])
            if at != "bool":
                raise TErr("From<bool>::from applied to a non-bool")
            return (a, ty)
        if f[0] == "path" and f[1] in fn.closures:
            param, pty, body = fn.closures[f[1]]
            if len(args) != 1:
                raise TErr("closure arity")
            a, at = tr(fn, args[0], want=pty)
            if pty and at != pty:
                raise TErr("closure %s: argument type %s, expected %s" % (f[1], at, pty))
            # closure arguments here are always names or simple expressions: substitute textually
            saved = fn.env.get(param)
            fn.env[param] = (paren(a), at)
            try:
                if body[0] == "tuple":
                    r = ("tuple", [tr(fn, b, want="W") for b in body[1]])
                else:
                    r = tr(fn, body, want=at)
            finally:
                if saved is None:
                    del fn.env[param]
                else:
                    fn.env[param] = saved
            return r
        raise TErr("unknown call %r" % (f,))
    if k == "method":
        name, recv, args = e[1], e[2], e[3]
        if name == "as_":
            if args:
                raise TErr("as_ takes no arguments")
            a, at = tr(fn, recv)
            if want is None:
                raise TErr("cannot infer the target type of .as_()")
            order = {"bool": 0, "HW": 1, "W": 2, "DW": 3}
            if order[want] >= order[at]:
                return (a, want)              # widening: identity
            return ("%s %% %s" % (paren(a), fn.mod(want)), want)   # truncation
        if name in ("overflowing_add", "overflowing_sub", "wrapping_add", "wrapping_sub", "wrapping_mul"):
            if len(args) != 1:
                raise TErr(name + " arity")
            a, at = tr(fn, recv)
            b, bt = tr(fn, args[0], want=at)
            if at != bt:
                raise TErr("%s: operand types %s and %s differ" % (name, at, bt))
            M = fn.mod(at)
            if name == "overflowing_add":
                return ("tuple", [("(%s + %s) %% %s" % (a, b, M), at),
                                  ("if %s ≤ %s + %s then 1 else 0" % (M, a, b), "bool")])
            if name == "overflowing_sub":
                return ("tuple", [("(%s + %s - %s) %% %s" % (a, M, b, M), at),
                                  ("if %s < %s then 1 else 0" % (paren(a), paren(b)), "bool")])
            if name == "wrapping_add":
                return ("(%s + %s) %% %s" % (a, b, M), at)
            if name == "wrapping_sub":
                return ("(%s + %s - %s) %% %s" % (a, M, b, M), at)
            if name == "wrapping_mul":
                return ("(%s * %s) %% %s" % (paren(a), paren(b), M), at)
        raise TErr("unknown method %s" % name)
    if k == "bin":
        op, l, r = e[1], e[2], e[3]
        if op == ">>":
            a, at = tr(fn, l, want=want)
            if r == ("halfbits",) and at == "W":
                return ("%s / B" % paren(a), "W")
            if is_bits(r) and at == "DW":
                return ("%s / R" % paren(a), "DW")
            raise TErr("shift right by an unsupported amount")
        if op == "&":
            # select idiom handled in the caller of `|`; here: low-mask and mask&e
            if low_mask(r):
                a, at = tr(fn, l, want=want)
                if at != "W":
                    raise TErr("low mask on non-word")
                return ("%s %% B" % paren(a), "W")
            if l[0] == "path" and l[1] in fn.masks:
                b = fn.masks[l[1]]
                a, at = tr(fn, r, want=want)
                return ("if %s = 1 then %s else 0" % (b, a), at)
            raise TErr("`&` outside the low-mask / mask idioms")
        if op == "|":
            # (u & mask) | (v & !mask)
            if (l[0] == "bin" and l[1] == "&" and r[0] == "bin" and r[1] == "&" and l[3][0] == "path"
                    and l[3][1] in fn.masks and r[3] == ("not", l[3])):
                b = fn.masks[l[3][1]]
                u, ut = tr(fn, l[2], want=want)
                v, vt = tr(fn, r[2], want=want)
                if ut != vt:
                    raise TErr("select of different types")
                return ("if %s = 1 then %s else %s" % (b, u, v), ut)
            # a | (b << (BITS/2))
            if r[0] == "bin" and r[1] == "<<" and r[3] == ("halfbits",):
                a, at = tr(fn, l, want=want)
                b, bt = tr(fn, r[2], want=want)
                if at != "W" or bt != "W":
                    raise TErr("or-shift on non-words")
                fn.fits.append("%s < B" % paren(a))
                fn.fits.append("%s * B < R" % paren(b))
                return ("%s + %s * B" % (a, paren(b)), "W")
            raise TErr("`|` outside the select / or-shift idioms")
        if op in ("+", "-", "*"):
            a, at = tr(fn, l, want=want)
            b, bt = tr(fn, r, want=at)
            if at != bt:
                # retry with the right operand's type driving the left (x.as_() * y)
                a, at = tr(fn, l, want=bt)
            if at != bt:
                raise TErr("operand types %s and %s differ in %s" % (at, bt, op))
            M = fn.mod(at)
            if op == "+":
                s = "%s + %s" % (a, paren(b))
                fn.fits.append("%s < %s" % (s, M))
            elif op == "*":
                s = "%s * %s" % (paren(a), paren(b))
                fn.fits.append("%s < %s" % (s, M))
            else:
                s = "%s - %s" % (a, paren(b))
                fn.fits.append("%s ≤ %s" % (paren(b), paren(a)))
            return (s, at)
        raise TErr("unsupported operator %s" % op)
    raise TErr("unsupported expression %r" % (e,))

def pre(e):
    """rewrite  W::BITS / 2  (which the Pratt table does not parse) before parsing: done textually"""
    return e

def translate_fn(body_src, kind, params):
    src = body_src.replace("W::BITS / 2", "HALFBITS__")
    toks = tokenize(src)
    toks = [("hb", "") if t == ("id", "HALFBITS__") else t for t in toks]
    p = P(toks)
    # let the parser see the half-bits token as a primary
    orig_primary = p.primary
    def primary():
        if p.peek()[0] == "hb":
            p.next()
            return ("halfbits",)
        return orig_primary()
    p.primary = primary
    stmts = []
    while p.peek()[0] != "eof":
        stmts.append(p.stmt())
    fn = Fn(kind)
    for nm in params:
        fn.env[nm] = (nm, "W")
        fn.ver[nm] = 1
    result = None
    for st in stmts:
        if result is not None:
            raise TErr("statement after the trailing expression")
        if st[0] == "closure":
            _, name, param, pty, rty, body = st
            pt = {None: None, "W": "W", "Self::DoubleWord": "DW", "Self::HalfWord": "HW"}[pty]
            fn.closures[name] = (param, pt, body)
        elif st[0] == "let":
            _, pat, e, mut = st
            # mask idiom:  let mask = W::ZERO.wrapping_sub(&<W as From<bool>>::from(b));
            if (isinstance(pat, str) and e[0] == "method" and e[1] == "wrapping_sub"
                    and e[2] == ("path", "W::ZERO") and len(e[3]) == 1 and e[3][0][0] == "call"
                    and e[3][0][1][0] == "qpath" and e[3][0][1][3] == "from"):
                b, bt = tr(fn, e[3][0])
                fn.masks[pat] = b
                fn.env.pop(pat, None)
                continue
            if isinstance(pat, list):
                if e[0] == "tuple":
                    vals = [tr(fn, x) for x in e[1]]
                else:
                    r = tr(fn, e)
                    if r[0] != "tuple":
                        raise TErr("tuple pattern bound to a non-tuple")
                    vals = r[1]
                if len(vals) != len(pat):
                    raise TErr("tuple arity mismatch")
                # evaluate all components before binding any (Rust semantics)
                for nm, (lx, ty) in zip(pat, vals):
                    fn.bind(nm, ty, lx)
            else:
                lx, ty = tr(fn, e)
                if lx == "tuple":
                    raise TErr("tuple bound to a single name")
                fn.bind(pat, ty, lx)
        elif st[0] == "assign":
            _, name, e = st
            if name not in fn.env:
                raise TErr("assignment to unknown variable %s" % name)
            oldty = fn.env[name][1]
            lx, ty = tr(fn, e, want=oldty)
            if lx == "tuple":
                raise TErr("tuple assigned to a name")
            if ty != oldty:
                raise TErr("assignment changes the type of %s (%s -> %s)" % (name, oldty, ty))
            fn.bind(name, ty, lx)
        elif st[0] == "expr":
            result = tr(fn, st[1])
            if result[0] == "tuple":
                raise TErr("function returns a tuple")
    if result is None:
        raise TErr("no trailing expression")
    return fn, result

def emit(name, sig, fn, result):
    out = []
    out.append("def %s %s : Nat :=" % (name, sig))
    for ln, lx in fn.lines:
        out.append("  let %s := %s" % (ln, lx))
    out.append("  %s" % result[0])
    out.append("")
    out.append("/-- dev-profile overflow checks of `%s`: every non-wrapping operation stays in range -/" % name)
    out.append("def %s_fits %s : Prop :=" % (name, sig))
    for ln, lx in fn.lines:
        out.append("  let %s := %s" % (ln, lx))
    conds = fn.fits or ["True"]
    out.append("  " + " ∧\n  ".join("(" + c + ")" for c in conds))
    out.append("")
    return "\n".join(out)

def find_fn(src, trait, fname):
    """return the body text of `fn fname(...) -> W { ... }` inside `trait <trait>`"""
    m = re.search(r"trait\s+%s\b" % re.escape(trait), src)
    if not m:
        raise TErr("trait %s not found" % trait)
    i = src.index("{", m.end())
    depth, j = 1, i + 1
    while depth:
        c = src[j]
        depth += (c == "{") - (c == "}")
        j += 1
    tsrc = src[i + 1:j - 1]
    m = re.search(r"fn\s+%s\s*\(([^)]*)\)\s*->\s*W\s*\{" % re.escape(fname), tsrc)
    if not m:
        raise TErr("fn %s not found in trait %s" % (fname, trait))
    params = [a.split(":")[0].strip() for a in m.group(1).split(",") if a.strip()]
    i = m.end() - 1
    depth, j = 1, i + 1
    while depth:
        c = tsrc[j]
        depth += (c == "{") - (c == "}")
        j += 1
    return tsrc[i + 1:j - 1], params

def strip_comments(s):
    return re.sub(r"//[^\n]*", "", s)

def simple_call_body(body):
    """Self::f(args) one-liners of FieldOps: neg, modp, inv, montgomery, residue"""
    return " ".join(strip_comments(body).split())

def gen_ops(repo):
    src = open(os.path.join(repo, "src/fp/ops.rs")).read()
    out = ["/-! GENERATED by /verif/translator/rs2lean.py from src/fp/ops.rs -- do not edit.",
           "    Words are natural numbers below `R` (= 2^W); half words below `B`, `R = B * B`. -/",
           "set_option linter.unusedVariables false", "namespace Gen", ""]
    body, params = find_fn(src, "FieldOps", "add")
    fn, res = translate_fn(body, "generic", params)
    out.append(emit("add", "(R p x y : Nat)", fn, res))
    body, params = find_fn(src, "FieldOps", "sub")
    fn, res = translate_fn(body, "generic", params)
    out.append(emit("sub", "(R p x y : Nat)", fn, res))
    body, params = find_fn(src, "FieldMulOpsSingleWord", "mul")
    fn, res = translate_fn(body, "single", params)
    out.append(emit("mulSW", "(R p mu x y : Nat)", fn, res))
    body, params = find_fn(src, "FieldMulOpsSplitWord", "mul")
    fn, res = translate_fn(body, "split", params)
    fn.lines.insert(0, ("R", "B * B"))
    out.append(emit("mulSplit", "(B p mu x y : Nat)", fn, res))
    # the one-line compositions: checked textually, emitted over an abstract `mul`
    expected = {
        "neg": "Self::sub(W::ZERO, x)",
        "modp": "Self::sub(x, Self::PRIME)",
        "inv": "Self::pow(x, Self::PRIME - W::ONE - W::ONE)",
        "montgomery": "Self::modp(Self::mul(x, Self::R2))",
        "residue": "Self::modp(Self::mul(x, W::ONE))",
    }
    for f, want in expected.items():
        body, params = find_fn(src, "FieldOps", f)
        got = simple_call_body(body)
        if got != want:
            raise TErr("FieldOps::%s is `%s`, the model was written for `%s`" % (f, got, want))
    out.append("def neg (R p x : Nat) : Nat := sub R p 0 x")
    out.append("def modp (R p x : Nat) : Nat := sub R p x p")
    out.append("def montgomery (mul : Nat → Nat → Nat) (R p r2 x : Nat) : Nat := modp R p (mul x r2)")
    out.append("def residue (mul : Nat → Nat → Nat) (R p x : Nat) : Nat := modp R p (mul x 1)")
    out.append("")
    # pow: the loop is transcribed by hand in PrioModel/Field.lean; pin the loop text
    body, params = find_fn(src, "FieldOps", "pow")
    got = " ".join(strip_comments(body).split())
    want = ("let mut t = Self::ROOTS[0]; for i in (0..W::BITS - (exp.leading_zeros() as usize)).rev() { "
            "t = Self::mul(t, t); if (exp >> i) & W::ONE != W::ZERO { t = Self::mul(t, x); } } t")
    if got != want:
        raise TErr("FieldOps::pow changed: `%s`" % got)
    out.append("end Gen")
    return "\n".join(out) + "\n"

def gen_params(repo):
    src = open(os.path.join(repo, "src/fp.rs")).read()
    out = ["/-! GENERATED by /verif/translator/rs2lean.py from src/fp.rs -- do not edit. -/",
           "namespace Gen", "",
           "structure FpParams where",
           "  name : String", "  bits : Nat", "  split : Bool",
           "  prime : Nat", "  mu : Nat", "  r2 : Nat", "  g : Nat", "  numRoots : Nat",
           "  bitMask : Nat", "  roots : List Nat", "  half : Nat", ""]
    names = []
    mr = re.search(r"const MAX_ROOTS: usize = (\d+);", src)
    if not mr:
        raise TErr("MAX_ROOTS not found")
    out.append("def MAX_ROOTS : Nat := %s\n" % mr.group(1))
    ops = {}
    for m in re.finditer(r"impl_field_ops_(single|split)_word!\((\w+),\s*(u\d+),\s*(u\d+)\);", src):
        ops[m.group(2)] = (m.group(1), int(m.group(3 if False else 3)[1:]), int(m.group(3)[1:]), int(m.group(4)[1:]))
    for m in re.finditer(r"impl FieldParameters<(u\d+)> for (\w+) \{(.*?)\n\}", src, re.S):
        w, name, body = int(m.group(1)[1:]), m.group(2), m.group(3)
        if name not in ops:
            raise TErr("no impl_field_ops_* for %s" % name)
        def const(c, body=body):
            mm = re.search(r"const %s: \w+ = ([\d_]+);" % c, body)
            if not mm:
                raise TErr("%s::%s not found" % (name, c))
            return int(mm.group(1).replace("_", ""))
        mm = re.search(r"const ROOTS: \[\w+; MAX_ROOTS \+ 1\] = \[(.*?)\];", body, re.S)
        if not mm:
            raise TErr("%s::ROOTS not found" % name)
        roots = [int(x.strip().replace("_", "")) for x in mm.group(1).split(",") if x.strip()]
        out.append("def %s : FpParams where" % name)
        out.append("  name := \"%s\"" % name)
        out.append("  bits := %d" % w)
        out.append("  split := %s" % ("true" if ops[name][0] == "split" else "false"))
        for lean, c in [("prime", "PRIME"), ("mu", "MU"), ("r2", "R2"), ("g", "G"),
                        ("numRoots", "NUM_ROOTS"), ("bitMask", "BIT_MASK"), ("half", "HALF")]:
            out.append("  %s := %d" % (lean, const(c)))
        out.append("  roots := [%s]" % ", ".join(map(str, roots)))
        out.append("")
        names.append(name)
    for need in ("FP32", "FP64", "FP128"):
        if need not in names:
            raise TErr("parameter set %s not found" % need)
    out.append("def allParams : List FpParams := [%s]" % ", ".join(names))
    out.append("")
    out.append("end Gen")
    return "\n".join(out) + "\n"

def write_if_changed(path, text):
    try:
        if open(path).read() == text:
            return False
    except FileNotFoundError:
        pass
    os.makedirs(os.path.dirname(path), exist_ok=True)
    with open(path, "w") as f:
        f.write(text)
    return True

def main():
    repo, outdir = sys.argv[1], sys.argv[2]
    # the two generated files are independent: the constants (FpParams) feed every model, the limb
    # arithmetic (FpOps) only the theorems of C09.  Exit 3: the arithmetic could not be translated
    # (FpOps.lean is left as it was); exit 4: the constants could not be translated.
    rc = 0
    ch = False
    try:
        b = gen_params(repo)
        ch |= write_if_changed(os.path.join(outdir, "FpParams.lean"), b)
    except TErr as e:
        sys.stderr.write("TRANSLATION-ERROR (constants, src/fp.rs): %s\n" % e)
        rc = 4
    try:
        a = gen_ops(repo)
        ch |= write_if_changed(os.path.join(outdir, "FpOps.lean"), a)
    except TErr as e:
        sys.stderr.write("TRANSLATION-ERROR (limb arithmetic, src/fp/ops.rs): %s\n" % e)
        rc = rc or 3
    if rc:
        sys.exit(rc)
    print("rs2lean: ok%s" % (" (regenerated)" if ch else " (unchanged)"))

if __name__ == "__main__":
    main()
