//! C12: the ping-pong topology follows the specified state machine and survives restarts.
//!
//! `TraceVdaf` is an order-sensitive, multi-round aggregator whose states, shares and messages carry
//! role and round (the same toy is defined in lean/PrioModel/TraceVdaf.lean).  Delivery scripts
//! built from correct, corrupted, truncated, re-typed and stale messages are run through the real
//! `PingPongTopology` routines, with a persist-and-reload of every continuation.
use crate::util::{catch, hex, Out, Sm};
use prio::codec::{CodecError, Decode, Encode, ParameterizedDecode};
use prio::topology::ping_pong::{PingPongContinuation, PingPongMessage, PingPongState, PingPongTopology};
use prio::vdaf::{self, Aggregatable, Aggregator, VdafError, VerifyTransition};
use std::io::{Cursor, Read};

#[derive(Clone, Debug)]
pub struct TraceVdaf {
    rounds: u8,
}
#[derive(Clone, Debug, PartialEq, Eq)]
pub struct TSt {
    role: u8,
    round: u8,
    acc: u8,
}
#[derive(Clone, Debug, PartialEq, Eq)]
pub struct TSh {
    role: u8,
    round: u8,
    val: u8,
}
#[derive(Clone, Debug, PartialEq, Eq)]
pub struct TMsg {
    round: u8,
    val: u8,
}
#[derive(Clone, Debug, PartialEq, Eq)]
pub struct TOut {
    role: u8,
    acc: u8,
}
#[derive(Clone, Debug)]
pub struct TIn {
    secret: u8,
}
#[derive(Clone, Debug)]
pub struct TAgg(u64);

fn rd(bytes: &mut Cursor<&[u8]>) -> Result<u8, CodecError> {
    let mut b = [0u8; 1];
    bytes.read_exact(&mut b)?;
    Ok(b[0])
}
macro_rules! enc {
    ($t:ty, |$s:ident| $body:expr) => {
        impl Encode for $t {
            fn encode(&self, bytes: &mut Vec<u8>) -> Result<(), CodecError> {
                let $s = self;
                bytes.extend_from_slice(&$body);
                Ok(())
            }
        }
    };
}
enc!(TSt, |s| [s.role, s.round, s.acc]);
enc!(TSh, |s| [s.role, s.round, s.val, ((s.role as u32 * 17 + s.round as u32 * 29 + s.val as u32 * 53 + 101) % 256) as u8]);
enc!(TMsg, |s| [s.round, s.val, ((s.round as u32 * 29 + s.val as u32 * 53 + 7) % 256) as u8]);
enc!(TOut, |s| [s.role, s.acc]);
enc!(TIn, |s| [s.secret]);
enc!(TAgg, |s| s.0.to_be_bytes());
impl Decode for TSt {
    fn decode(b: &mut Cursor<&[u8]>) -> Result<Self, CodecError> {
        Ok(TSt { role: rd(b)?, round: rd(b)?, acc: rd(b)? })
    }
}
impl Decode for TOut {
    fn decode(b: &mut Cursor<&[u8]>) -> Result<Self, CodecError> {
        Ok(TOut { role: rd(b)?, acc: rd(b)? })
    }
}
impl Decode for TIn {
    fn decode(b: &mut Cursor<&[u8]>) -> Result<Self, CodecError> {
        Ok(TIn { secret: rd(b)? })
    }
}
impl Decode for TAgg {
    fn decode(b: &mut Cursor<&[u8]>) -> Result<Self, CodecError> {
        Ok(TAgg(u64::decode(b)?))
    }
}
impl ParameterizedDecode<TSt> for TSh {
    fn decode_with_param(st: &TSt, b: &mut Cursor<&[u8]>) -> Result<Self, CodecError> {
        let s = TSh { role: rd(b)?, round: rd(b)?, val: rd(b)? };
        let mac = rd(b)?;
        if s.round != st.round || mac != ((s.role as u32 * 17 + s.round as u32 * 29 + s.val as u32 * 53 + 101) % 256) as u8 {
            return Err(CodecError::UnexpectedValue);
        }
        Ok(s)
    }
}
impl ParameterizedDecode<TSt> for TMsg {
    fn decode_with_param(st: &TSt, b: &mut Cursor<&[u8]>) -> Result<Self, CodecError> {
        let m = TMsg { round: rd(b)?, val: rd(b)? };
        let mac = rd(b)?;
        if m.round != st.round || mac != ((m.round as u32 * 29 + m.val as u32 * 53 + 7) % 256) as u8 {
            return Err(CodecError::UnexpectedValue);
        }
        Ok(m)
    }
}
impl From<TOut> for TAgg {
    fn from(o: TOut) -> Self {
        TAgg(o.acc as u64)
    }
}
impl Aggregatable for TAgg {
    type OutputShare = TOut;
    fn merge(&mut self, o: &Self) -> Result<(), VdafError> {
        self.0 += o.0;
        Ok(())
    }
    fn accumulate(&mut self, o: &TOut) -> Result<(), VdafError> {
        self.0 += o.acc as u64;
        Ok(())
    }
}
fn share_of(role: u8, round: u8, acc: u8) -> TSh {
    TSh { role, round, val: ((acc as u32 * 7 + role as u32 + 1) % 256) as u8 }
}
impl vdaf::Vdaf for TraceVdaf {
    type Measurement = u8;
    type AggregateResult = u64;
    type AggregationParam = ();
    type PublicShare = ();
    type InputShare = TIn;
    type OutputShare = TOut;
    type AggregateShare = TAgg;
    fn algorithm_id(&self) -> u32 {
        0xFFFF_1234
    }
    fn num_aggregators(&self) -> usize {
        2
    }
}
impl Aggregator<0, 16> for TraceVdaf {
    type VerifyState = TSt;
    type VerifierShare = TSh;
    type VerifierMessage = TMsg;
    fn verify_init(&self, _: &[u8; 0], _: &[u8], agg_id: usize, _: &(), _: &[u8; 16], _: &(), input: &TIn) -> Result<(TSt, TSh), VdafError> {
        if agg_id > 1 {
            return Err(VdafError::Uncategorized("bad id".into()));
        }
        Ok((TSt { role: agg_id as u8, round: 0, acc: input.secret }, share_of(agg_id as u8, 0, input.secret)))
    }
    fn verifier_shares_to_message<M: IntoIterator<Item = TSh>>(&self, _: &[u8], _: &(), inputs: M) -> Result<TMsg, VdafError> {
        let v: Vec<TSh> = inputs.into_iter().collect();
        if v.len() != 2 || v[0].role != 0 || v[1].role != 1 || v[0].round != v[1].round {
            return Err(VdafError::Uncategorized("shares out of aggregator order".into()));
        }
        Ok(TMsg { round: v[0].round, val: ((v[0].val as u32 * 3 + v[1].val as u32 * 5 + 1) % 256) as u8 })
    }
    fn verify_next(&self, _: &[u8], st: TSt, m: TMsg) -> Result<VerifyTransition<Self, 0, 16>, VdafError> {
        if m.round != st.round {
            return Err(VdafError::Uncategorized("message of another round".into()));
        }
        let acc = ((st.acc as u32 * 31 + m.val as u32 + st.role as u32) % 256) as u8;
        if st.round + 1 == self.rounds {
            Ok(VerifyTransition::Finish(TOut { role: st.role, acc }))
        } else {
            Ok(VerifyTransition::Continue(TSt { role: st.role, round: st.round + 1, acc }, share_of(st.role, st.round + 1, acc)))
        }
    }
    fn aggregate_init(&self, _: &()) -> TAgg {
        TAgg(0)
    }
    fn is_agg_param_valid(_: &(), prev: &[()]) -> bool {
        prev.is_empty()
    }
}

#[derive(Clone)]
enum Party {
    New,
    Waiting(TSt),
    Finished(TOut),
}
fn show(p: &Party) -> String {
    match p {
        Party::New => "new".into(),
        Party::Waiting(s) => format!("wait:{}", hex(&s.get_encoded().unwrap())),
        Party::Finished(o) => format!("done:{}", hex(&o.get_encoded().unwrap())),
    }
}
fn payloads(m: &PingPongMessage) -> (Vec<u8>, Vec<u8>) {
    match m {
        PingPongMessage::Initialize { verifier_share } => (verifier_share.clone(), verifier_share.clone()),
        PingPongMessage::Continue { verifier_message, verifier_share } => (verifier_message.clone(), verifier_share.clone()),
        PingPongMessage::Finish { verifier_message } => (verifier_message.clone(), verifier_message.clone()),
    }
}
fn mutate(tok: &str, m: &PingPongMessage, stale: &Option<PingPongMessage>) -> Option<PingPongMessage> {
    let (a, b) = payloads(m);
    match tok {
        "c" => Some(m.clone()),
        "x" => {
            let mut e = m.get_encoded().unwrap();
            let n = e.len();
            e[n - 1] ^= 1;
            PingPongMessage::get_decoded(&e).ok()
        }
        "u" => {
            let e = m.get_encoded().unwrap();
            PingPongMessage::get_decoded(&e[..e.len() - 1]).ok()
        }
        "t0" => Some(PingPongMessage::Initialize { verifier_share: b }),
        "t1" => Some(PingPongMessage::Continue { verifier_message: a, verifier_share: b }),
        "t2" => Some(PingPongMessage::Finish { verifier_message: a }),
        "s" => stale.clone(),
        // the embedded payload followed by one extra byte: the outer message still decodes, the payload must not
        "p" => Some(match m {
            PingPongMessage::Initialize { verifier_share } => PingPongMessage::Initialize { verifier_share: [verifier_share.as_slice(), &[0]].concat() },
            PingPongMessage::Continue { verifier_message, verifier_share } => PingPongMessage::Continue { verifier_message: verifier_message.clone(), verifier_share: [verifier_share.as_slice(), &[0]].concat() },
            PingPongMessage::Finish { verifier_message } => PingPongMessage::Finish { verifier_message: [verifier_message.as_slice(), &[0]].concat() },
        }),
        _ => None,
    }
}

struct World {
    leader: Party,
    helper: Party,
    outbox: Option<(bool, PingPongMessage)>,
    stale: Option<PingPongMessage>,
}

type Cont = PingPongContinuation<0, 16, TraceVdaf>;

fn run_script(out: &mut Out, v: &TraceVdaf, s_l: u8, s_h: u8, toks: &[&str], line: &str) -> String {
    let nonce = [0u8; 16];
    let mut w = World { leader: Party::New, helper: Party::New, outbox: None, stale: None };
    let mut events = vec![];
    let mut released_on_error = false;
    for tok in toks {
        if *tok == "Li" {
            match v.leader_initialized(&[], b"", &(), &nonce, &(), &TIn { secret: s_l }) {
                Ok(c) => {
                    events.push(format!("Li:{}", hex(&c.message.get_encoded().unwrap())));
                    w.leader = Party::Waiting(c.verifier_state);
                    w.outbox = Some((false, c.message));
                }
                Err(_) => events.push("Li:err".into()),
            }
            continue;
        }
        let Some((to_leader, m)) = w.outbox.clone() else {
            events.push("nothing".into());
            continue;
        };
        let Some(m2) = mutate(tok, &m, &w.stale) else {
            events.push("undecodable".into());
            continue;
        };
        let kind = |m: &PingPongMessage| match m {
            PingPongMessage::Initialize { .. } => 0,
            PingPongMessage::Continue { .. } => 1,
            PingPongMessage::Finish { .. } => 2,
        };
        // is this delivery anything other than the message the peer really sent?
        let altered = *tok != "c" && m2.get_encoded().ok() != m.get_encoded().ok();
        let wrong_kind = kind(&m2) != kind(&m);
        let party = if to_leader { w.leader.clone() } else { w.helper.clone() };
        let cont: Option<Result<Cont, ()>> = match &party {
            Party::New => {
                if to_leader {
                    None
                } else {
                    Some(v.helper_initialized(&[], b"", &(), &nonce, &(), &TIn { secret: s_h }, &m2).map_err(|_| ()))
                }
            }
            Party::Waiting(st) => Some(
                if to_leader { v.leader_continued(b"", &(), st.clone(), &m2) } else { v.helper_continued(b"", &(), st.clone(), &m2) }.map_err(|_| ()),
            ),
            Party::Finished(_) => None,
        };
        let Some(cont) = cont else {
            events.push("idle".into());
            continue;
        };
        let Ok(cont) = cont else {
            events.push("err".into());
            continue;
        };
        // restart: persist the continuation, reload it, evaluate both (twice) and compare
        let first = cont.evaluate(b"", v);
        if let Ok(bytes) = cont.get_encoded() {
            let reloaded = Cont::get_decoded_with_param(&(), &bytes);
            match reloaded {
                Ok(r) => {
                    let again = r.evaluate(b"", v);
                    let again2 = r.evaluate(b"", v);
                    out.oracle(
                        format!("{:?}", first.as_ref().ok()) == format!("{:?}", again.as_ref().ok()) && format!("{:?}", again.as_ref().ok()) == format!("{:?}", again2.as_ref().ok())
                            && r.get_encoded().ok() == Some(bytes.clone()) && r == cont,
                        || line.to_string(),
                        || "a reloaded continuation evaluates differently".into(),
                    );
                }
                Err(_) => out.oracle(false, || line.to_string(), || "an encoded continuation does not decode".into()),
            }
        } else {
            // only a finished continuation may be unencodable
            out.oracle(matches!(first, Ok(PingPongState::Finished { .. })), || line.to_string(), || "a transition continuation failed to encode".into());
        }
        let Ok(state) = first else {
            events.push("err".into());
            continue;
        };
        let stale = w.outbox.as_ref().map(|x| x.1.clone());
        let newp;
        match state {
            PingPongState::Continued(c) => {
                events.push(format!("C:{}", hex(&c.message.get_encoded().unwrap())));
                newp = Party::Waiting(c.verifier_state);
                w.outbox = Some((!to_leader, c.message));
            }
            PingPongState::FinishedWithOutbound { output_share, message } => {
                events.push(format!("FO:{}:{}", hex(&output_share.get_encoded().unwrap()), hex(&message.get_encoded().unwrap())));
                newp = Party::Finished(output_share);
                w.outbox = Some((!to_leader, message));
            }
            PingPongState::Finished { output_share } => {
                events.push(format!("F:{}", hex(&output_share.get_encoded().unwrap())));
                newp = Party::Finished(output_share);
                w.outbox = None;
            }
        }
        // "any message of the wrong kind, from the wrong round, duplicated or undecodable is refused
        // without releasing an output share": an altered delivery must not be processed at all
        if altered {
            released_on_error |= matches!(newp, Party::Finished(_));
            out.oracle(false, || line.to_string(), || format!("delivery '{}' ({}) was accepted{}", tok, if wrong_kind { "message of the wrong kind" } else { "altered, replayed or stale message" }, if matches!(newp, Party::Finished(_)) { " and released an output share" } else { "" }));
        }
        w.stale = stale;
        if to_leader {
            w.leader = newp;
        } else {
            w.helper = newp;
        }
    }
    events.push(format!("end:{},{}", show(&w.leader), show(&w.helper)));
    // oracle: whoever finished holds the output of the broadcast execution
    let expect = broadcast(v, s_l, s_h);
    if let Party::Finished(o) = &w.leader {
        out.oracle(Some(o) == expect.as_ref().map(|e| &e.0), || line.to_string(), || "leader finished with an output that is not the broadcast output".into());
    }
    if let Party::Finished(o) = &w.helper {
        out.oracle(Some(o) == expect.as_ref().map(|e| &e.1), || line.to_string(), || "helper finished with an output that is not the broadcast output".into());
    }
    let _ = released_on_error;
    // a script of correct deliveries long enough to complete must complete, at both parties
    let correct = toks.iter().filter(|t| **t == "c").count();
    if toks.iter().all(|t| *t == "c" || *t == "Li") && toks.first() == Some(&"Li") && correct >= v.rounds as usize + 1 {
        out.oracle(matches!(w.leader, Party::Finished(_)) && matches!(w.helper, Party::Finished(_)), || line.to_string(), || format!("an honest exchange of {} rounds did not finish at both parties: {}, {}", v.rounds, show(&w.leader), show(&w.helper)));
    }
    events.join(" ")
}

fn broadcast(v: &TraceVdaf, s_l: u8, s_h: u8) -> Option<(TOut, TOut)> {
    let nonce = [0u8; 16];
    let (mut st_l, mut sh_l) = v.verify_init(&[], b"", 0, &(), &nonce, &(), &TIn { secret: s_l }).ok()?;
    let (mut st_h, mut sh_h) = v.verify_init(&[], b"", 1, &(), &nonce, &(), &TIn { secret: s_h }).ok()?;
    loop {
        let m = v.verifier_shares_to_message(b"", &(), [sh_l.clone(), sh_h.clone()]).ok()?;
        match (v.verify_next(b"", st_l, m.clone()).ok()?, v.verify_next(b"", st_h, m).ok()?) {
            (VerifyTransition::Finish(a), VerifyTransition::Finish(b)) => return Some((a, b)),
            (VerifyTransition::Continue(a, x), VerifyTransition::Continue(b, y)) => {
                st_l = a;
                sh_l = x;
                st_h = b;
                sh_h = y;
            }
            _ => return None,
        }
    }
}

/// real VDAFs through ping-pong vs the broadcast helper of the library
pub fn pp<V, const K: usize>(v: &V, vk: &[u8; K], ctx: &[u8], ap: &V::AggregationParam, nonce: &[u8; 16], ps: &V::PublicShare, ins: &[V::InputShare]) -> Option<(Vec<u8>, Vec<u8>, Vec<&'static str>)>
where
    V: Aggregator<K, 16>,
    V::VerifyState: Encode,
{
    let mut kinds = vec![];
    let l = v.leader_initialized(vk, ctx, ap, nonce, ps, &ins[0]).ok()?;
    kinds.push("initialize");
    let mut leader_state = Some(l.verifier_state);
    let mut helper_state: Option<V::VerifyState> = None;
    let mut msg = l.message;
    let mut to_helper = true;
    let (mut lo, mut ho) = (None, None);
    let mut first = true;
    for _ in 0..10 {
        let cont = if to_helper {
            if first {
                first = false;
                v.helper_initialized(vk, ctx, ap, nonce, ps, &ins[1], &msg).ok()?
            } else {
                v.helper_continued(ctx, ap, helper_state.take()?, &msg).ok()?
            }
        } else {
            v.leader_continued(ctx, ap, leader_state.take()?, &msg).ok()?
        };
        match cont.evaluate(ctx, v).ok()? {
            PingPongState::Continued(c) => {
                kinds.push("continue");
                if to_helper { helper_state = Some(c.verifier_state) } else { leader_state = Some(c.verifier_state) }
                msg = c.message;
            }
            PingPongState::FinishedWithOutbound { output_share, message } => {
                kinds.push("finish");
                if to_helper { ho = Some(output_share) } else { lo = Some(output_share) }
                msg = message;
            }
            PingPongState::Finished { output_share } => {
                if to_helper { ho = Some(output_share) } else { lo = Some(output_share) }
                break;
            }
        }
        to_helper = !to_helper;
    }
    Some((lo?.get_encoded().ok()?, ho?.get_encoded().ok()?, kinds))
}
pub fn bc<V, const K: usize>(v: &V, vk: &[u8; K], ctx: &[u8], ap: &V::AggregationParam, nonce: &[u8; 16], ps: &V::PublicShare, ins: &[V::InputShare]) -> Option<(Vec<u8>, Vec<u8>)>
where
    V: Aggregator<K, 16>,
{
    let (mut s0, mut h0) = v.verify_init(vk, ctx, 0, ap, nonce, ps, &ins[0]).ok()?;
    let (mut s1, mut h1) = v.verify_init(vk, ctx, 1, ap, nonce, ps, &ins[1]).ok()?;
    loop {
        let m = v.verifier_shares_to_message(ctx, ap, [h0.clone(), h1.clone()]).ok()?;
        match (v.verify_next(ctx, s0, m.clone()).ok()?, v.verify_next(ctx, s1, m).ok()?) {
            (VerifyTransition::Finish(a), VerifyTransition::Finish(b)) => return Some((a.get_encoded().ok()?, b.get_encoded().ok()?)),
            (VerifyTransition::Continue(a, x), VerifyTransition::Continue(b, y)) => {
                s0 = a;
                h0 = x;
                s1 = b;
                h1 = y;
            }
            _ => return None,
        }
    }
}

/// Prio3 types with joint randomness and with several proofs through the ping-pong topology: same output
/// shares as the broadcast execution (the combiner must see the shares in aggregator order)
pub fn prio3_pingpong(out: &mut Out, rng: &mut Sm, i: usize) {
    use prio::field::Field128;
    use prio::flp::gadgets::{Mul, ParallelSum};
    use prio::flp::types::SumVec;
    use prio::vdaf::prio3::Prio3;
    use prio::vdaf::xof::XofTurboShake128;
    use prio::vdaf::Client;
    let nonce: [u8; 16] = rng.bytes(16).try_into().unwrap();
    let vk: [u8; 32] = rng.bytes(32).try_into().unwrap();
    let ctx = rng.bytes(i % 5);
    let v = Prio3::new_histogram(2, 7, 3).unwrap();
    let (ps, ins) = v.shard(&ctx, &(rng.below(7) as usize), &nonce).unwrap();
    let a = pp(&v, &vk, &ctx, &(), &nonce, &ps, &ins);
    let b = bc(&v, &vk, &ctx, &(), &nonce, &ps, &ins);
    out.oracle(b.is_some() && a.as_ref().map(|x| (x.0.clone(), x.1.clone())) == b, || format!("prio3histogram pingpong {}", i), || "ping-pong and broadcast outputs differ (or an honest report was rejected)".into());
    let v = Prio3::<SumVec<Field128, ParallelSum<Field128, Mul>>, XofTurboShake128, 32>::new(2, 2, 0xFFFF_0000, SumVec::new(3, 4, 3).unwrap()).unwrap();
    let (ps, ins) = v.shard(&ctx, &vec![3, 0, 1, 2], &nonce).unwrap();
    let a = pp(&v, &vk, &ctx, &(), &nonce, &ps, &ins);
    let b = bc(&v, &vk, &ctx, &(), &nonce, &ps, &ins);
    out.oracle(b.is_some() && a.as_ref().map(|x| (x.0.clone(), x.1.clone())) == b, || format!("prio3sumvec(2 proofs) pingpong {}", i), || "ping-pong and broadcast outputs differ (or an honest report was rejected)".into());
    let v = Prio3::new_multihot_count_vec(2, 5, 2, 3).unwrap();
    let (ps, ins) = v.shard(&ctx, &vec![true, false, false, true, false], &nonce).unwrap();
    let a = pp(&v, &vk, &ctx, &(), &nonce, &ps, &ins);
    let b = bc(&v, &vk, &ctx, &(), &nonce, &ps, &ins);
    out.oracle(b.is_some() && a.as_ref().map(|x| (x.0.clone(), x.1.clone())) == b, || format!("prio3multihot pingpong {}", i), || "ping-pong and broadcast outputs differ (or an honest report was rejected)".into());
    let v = Prio3::new_l1_bound_sum(2, 7, 3, 4).unwrap();
    let (ps, ins) = v.shard(&ctx, &vec![3, 0, 4], &nonce).unwrap();
    let a = pp(&v, &vk, &ctx, &(), &nonce, &ps, &ins);
    let b = bc(&v, &vk, &ctx, &(), &nonce, &ps, &ins);
    out.oracle(b.is_some() && a.as_ref().map(|x| (x.0.clone(), x.1.clone())) == b, || format!("prio3l1 pingpong {}", i), || "ping-pong and broadcast outputs differ (or an honest report was rejected)".into());
    out.count("prio3.pingpong");
}

fn real_vdafs(out: &mut Out, rng: &mut Sm, rounds: usize) {
    use prio::idpf::IdpfInput;
    use prio::vdaf::poplar1::{Poplar1, Poplar1AggregationParam};
    use prio::vdaf::prio3::Prio3;
    use prio::vdaf::Client;
    for i in 0..rounds {
        let nonce: [u8; 16] = rng.bytes(16).try_into().unwrap();
        let vk: [u8; 32] = rng.bytes(32).try_into().unwrap();
        let ctx = rng.bytes(i % 5);
        // Prio3 (one round) with joint randomness
        let v = Prio3::new_sum(2, 1000).unwrap();
        let (ps, ins) = v.shard(&ctx, &(rng.below(1001)), &nonce).unwrap();
        let a = pp(&v, &vk, &ctx, &(), &nonce, &ps, &ins);
        let b = bc(&v, &vk, &ctx, &(), &nonce, &ps, &ins);
        out.oracle(a.is_some() && a.as_ref().map(|x| (x.0.clone(), x.1.clone())) == b, || format!("prio3sum pingpong {}", i), || "ping-pong and broadcast outputs differ".into());
        out.oracle(a.as_ref().map(|x| x.2.clone()) == Some(vec!["initialize", "finish"]), || format!("prio3sum kinds {}", i), || format!("message kinds {:?}", a.as_ref().map(|x| x.2.clone())));
        prio3_pingpong(out, rng, i);
        // Poplar1 (two rounds)
        let bits = 1 + (i % 7);
        let v = Poplar1::new_turboshake128(bits);
        let bools: Vec<bool> = (0..bits).map(|_| rng.below(2) == 1).collect();
        let (ps, ins) = v.shard(&ctx, &IdpfInput::from_bools(&bools), &nonce).unwrap();
        let level = i % bits;
        let ap = Poplar1AggregationParam::try_from_prefixes(vec![IdpfInput::from_bools(&bools[..=level])]).unwrap();
        let a = pp(&v, &vk, &ctx, &ap, &nonce, &ps, &ins);
        let b = bc(&v, &vk, &ctx, &ap, &nonce, &ps, &ins);
        out.oracle(a.is_some() && a.as_ref().map(|x| (x.0.clone(), x.1.clone())) == b, || format!("poplar1 pingpong bits={} level={}", bits, level), || "ping-pong and broadcast outputs differ".into());
        out.oracle(a.as_ref().map(|x| x.2.clone()) == Some(vec!["initialize", "continue", "finish"]), || format!("poplar1 kinds {}", i), || format!("message kinds {:?}", a.as_ref().map(|x| x.2.clone())));
        // a Continue whose embedded verifier share is followed by extra bytes must be refused by the leader
        {
            let l = v.leader_initialized(&vk, &ctx, &ap, &nonce, &ps, &ins[0]);
            if let Ok(l) = l {
                if let Ok(hc) = v.helper_initialized(&vk, &ctx, &ap, &nonce, &ps, &ins[1], &l.message) {
                    if let Ok(PingPongState::Continued(c)) = hc.evaluate(&ctx, &v) {
                        if let PingPongMessage::Continue { verifier_message, verifier_share } = &c.message {
                            for extra in [1usize, 8, 32] {
                                let padded = PingPongMessage::Continue { verifier_message: verifier_message.clone(), verifier_share: [verifier_share.as_slice(), &vec![0u8; extra]].concat() };
                                let accepted = match v.leader_continued(&ctx, &ap, l.verifier_state.clone(), &padded) {
                                    Ok(cont) => cont.evaluate(&ctx, &v).is_ok(),
                                    Err(_) => false,
                                };
                                out.oracle(!accepted, || format!("poplar1 pingpong bits={} level={} padded share +{}", bits, level, extra), || "a verifier share followed by extra bytes was accepted".into());
                            }
                        }
                    }
                }
            }
        }
        out.count("real_vdaf_runs");
    }
}

pub fn run(out: &mut Out, thorough: bool, seed: u64) {
    let mut rng = Sm::new(seed ^ 0xC12);
    let alphabet = ["c", "x", "u", "t0", "t1", "t2", "s", "p"];
    let depth = if thorough { 5 } else { 4 };
    for rounds in 1u8..=4 {
        let (s_l, s_h) = (rng.next() as u8, rng.next() as u8);
        let v = TraceVdaf { rounds };
        // every delivery sequence up to `depth`, followed by correct deliveries to completion
        let mut idx = vec![0usize; depth];
        loop {
            let mut toks: Vec<&str> = vec!["Li"];
            for i in &idx {
                toks.push(alphabet[*i]);
            }
            for _ in 0..(2 * rounds as usize + 1) {
                toks.push("c");
            }
            let line = format!("pp {} {} {} {}", rounds, s_l, s_h, toks.join(" "));
            let r = catch(std::panic::AssertUnwindSafe(|| run_script(out, &v, s_l, s_h, &toks, &line)));
            out.count(&format!("scripts.rounds{}", rounds));
            out.case(line, r.unwrap_or_else(|_| "panic".into()));
            // next index vector
            let mut k = 0;
            while k < depth {
                idx[k] += 1;
                if idx[k] < alphabet.len() {
                    break;
                }
                idx[k] = 0;
                k += 1;
            }
            if k == depth {
                break;
            }
        }
    }
    real_vdafs(out, &mut rng, if thorough { 400 } else { 60 });
    out.samples = out.ops.iter().step_by(out.ops.len() / 12 + 1).map(|s| s.chars().take(300).collect()).collect();
}
