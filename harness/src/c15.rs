//! C15: the DP samplers realise the exact discrete Laplace / Gaussian laws and the noise is scaled
//! and applied right.  Every sampler layer is run on recorded tapes of random bytes through the
//! `verif-hooks` wrappers and compared with the Lean model (value and number of bytes consumed);
//! oracles: exhaustive enumeration of the uniform and Bernoulli layers for small parameters, and
//! frequency tests of the upper layers against the closed-form laws.
use crate::c05::{enc, modulus};
use crate::util::{catch, hex, Out, Sm};
use num_bigint::{BigInt, BigUint};
use num_traits::{One, ToPrimitive, Zero};
use prio::dp::distributions::{verif, DiscreteGaussian, DiscreteLaplace, PureDpDiscreteLaplace};
use prio::dp::{DifferentialPrivacyStrategy, PureDpBudget, Rational};
use prio::field::{Field128, Field64, FieldElementWithInteger};
use prio::flp::gadgets::{Mul, ParallelSum};
use prio::flp::types::verif_dp;
use prio::flp::types::{Histogram, L1BoundSum, SumVec};
use rand::distr::Distribution;
use rand_core::{utils::next_word_via_fill, TryRng};
use std::convert::Infallible;
use std::panic::AssertUnwindSafe;

/// replays a tape and panics (caught by the caller) when it is exhausted, so that a sampler that
/// would loop on a degenerate tape cannot hang the harness
struct Tape {
    data: Vec<u8>,
    pos: usize,
}
impl TryRng for Tape {
    type Error = Infallible;
    fn try_fill_bytes(&mut self, dest: &mut [u8]) -> Result<(), Infallible> {
        if self.pos + dest.len() > self.data.len() {
            panic!("tape exhausted");
        }
        dest.copy_from_slice(&self.data[self.pos..self.pos + dest.len()]);
        self.pos += dest.len();
        Ok(())
    }
    fn try_next_u32(&mut self) -> Result<u32, Infallible> {
        next_word_via_fill(self)
    }
    fn try_next_u64(&mut self) -> Result<u64, Infallible> {
        next_word_via_fill(self)
    }
}

/// a seeded generator for the frequency tests
struct Gen(Sm);
impl TryRng for Gen {
    type Error = Infallible;
    fn try_fill_bytes(&mut self, dest: &mut [u8]) -> Result<(), Infallible> {
        for chunk in dest.chunks_mut(8) {
            let w = self.0.next().to_le_bytes();
            chunk.copy_from_slice(&w[..chunk.len()]);
        }
        Ok(())
    }
    fn try_next_u32(&mut self) -> Result<u32, Infallible> {
        next_word_via_fill(self)
    }
    fn try_next_u64(&mut self) -> Result<u64, Infallible> {
        next_word_via_fill(self)
    }
}

fn big(x: u128) -> BigUint {
    BigUint::from(x)
}

/// run one layer on a tape; the case line carries the tape up to what was consumed plus a margin
fn layer(out: &mut Out, op: &str, num: &BigUint, den: &BigUint, tape: Vec<u8>) {
    let mut t = Tape { data: tape, pos: 0 };
    let r = catch(AssertUnwindSafe(|| match op {
        "bern" => verif::bernoulli(num.clone(), den.clone(), &mut t).to_string(),
        "bexp1" => verif::bernoulli_exp1(num.clone(), den.clone(), &mut t).to_string(),
        "bexp" => verif::bernoulli_exp(num.clone(), den.clone(), &mut t).to_string(),
        "geo" => verif::geometric_exp(num.clone(), den.clone(), &mut t).to_string(),
        "lap" => verif::discrete_laplace(num.clone(), den.clone(), &mut t).to_string(),
        _ => verif::discrete_gaussian(num.clone(), den.clone(), &mut t).to_string(),
    }));
    out.count(&format!("layer.{}", op));
    match r {
        Ok(v) => {
            let used = t.pos;
            out.case(format!("dp {} {} {} {}", op, num, den, hex(&t.data[..(used + 64).min(t.data.len())])), format!("{} {}", v, used));
            out.count(&format!("bytes.{}.{}", op, match used { 0..=4 => "le4", 5..=16 => "le16", 17..=64 => "le64", _ => "more" }));
        }
        Err(_) => out.count("layer.tape-exhausted"),
    }
}

fn below_case(out: &mut Out, bound: &BigUint, tape: Vec<u8>) {
    let mut t = Tape { data: tape, pos: 0 };
    if let Ok(v) = catch(AssertUnwindSafe(|| verif::uniform_below(bound, &mut t))) {
        let used = t.pos;
        out.oracle(&v < bound, || format!("uniform_below {}", bound), || format!("returned {} >= bound", v));
        out.case(format!("dp below {} {}", bound, hex(&t.data[..(used + 16).min(t.data.len())])), format!("{} {}", v, used));
        out.count("layer.below");
    }
}

fn random_tape(rng: &mut Sm, n: usize) -> Vec<u8> {
    rng.bytes(n)
}

/// tapes whose first words are extreme (all ones, all zeros, one below / at / above a bound's top word)
fn planted(rng: &mut Sm, n: usize, k: usize) -> Vec<u8> {
    let mut t = rng.bytes(n);
    for w in 0..k {
        let v: u32 = match rng.below(5) {
            0 => 0,
            1 => u32::MAX,
            2 => 1,
            3 => 1 << 31,
            _ => rng.next() as u32,
        };
        t[4 * w..4 * w + 4].copy_from_slice(&v.to_le_bytes());
    }
    t
}

fn layers(out: &mut Out, rng: &mut Sm, thorough: bool) {
    let reps = if thorough { 40 } else { 10 };
    // uniform below a bound: single word, word boundaries, multi-word with and without a partial top word
    let mut bounds: Vec<BigUint> = [1u128, 2, 3, 5, 255, 256, 257, 1 << 31, (1 << 32) - 1, 1 << 32, (1 << 32) + 1, (1 << 33) + 5, (1 << 64) - 1, 1 << 64, (1 << 64) + 1, u128::MAX].iter().map(|x| big(*x)).collect();
    bounds.push(BigUint::from(3u8).pow(50));
    bounds.push(big(u128::MAX) + big(1));
    bounds.push((big(u128::MAX) + big(1)) * big(12345) + big(7));
    for b in &bounds {
        for i in 0..reps {
            below_case(out, b, if i % 2 == 0 { random_tape(rng, 1024) } else { planted(rng, 1024, 6) });
        }
    }
    let fracs: Vec<(u128, u128)> = vec![(0, 1), (1, 1), (1, 2), (1, 3), (2, 3), (7, 10), (999, 1000), (1, 1 << 40), ((1 << 40) - 1, 1 << 40), (3, 1 << 64), (12345678901234567890, 12345678901234567891)];
    for (n, d) in &fracs {
        for i in 0..reps {
            layer(out, "bern", &big(*n), &big(*d), if i % 2 == 0 { random_tape(rng, 1 << 12) } else { planted(rng, 1 << 12, 4) });
            layer(out, "bexp1", &big(*n), &big(*d), random_tape(rng, 1 << 14));
        }
    }
    // unreduced inputs: the library reduces them
    for (n, d) in [(2u128, 4u128), (50, 100), (6, 9)] {
        for _ in 0..reps {
            layer(out, "bern", &big(n), &big(d), random_tape(rng, 1 << 12));
            layer(out, "bexp1", &big(n), &big(d), random_tape(rng, 1 << 14));
        }
    }
    let gammas: Vec<(u128, u128)> = vec![(0, 1), (1, 4), (1, 1), (3, 2), (2, 1), (7, 2), (5, 1), (33, 10), (1, 1 << 20)];
    for (n, d) in &gammas {
        for _ in 0..reps {
            layer(out, "bexp", &big(*n), &big(*d), random_tape(rng, 1 << 15));
            layer(out, "geo", &big(*n), &big(*d), random_tape(rng, 1 << 15));
        }
    }
    let scales: Vec<(u128, u128)> = vec![(0, 1), (1, 10), (1, 2), (1, 1), (10, 3), (4, 1), (100, 1), (1 << 40, 3), (2, 4)];
    for (n, d) in &scales {
        for _ in 0..reps {
            layer(out, "lap", &big(*n), &big(*d), random_tape(rng, 1 << 16));
        }
    }
    let sigmas: Vec<(u128, u128)> = vec![(0, 1), (1, 2), (1, 1), (3, 2), (5, 1), (20, 1), (1000, 7), (9, 6)];
    for (n, d) in &sigmas {
        for _ in 0..reps {
            layer(out, "gauss", &big(*n), &big(*d), random_tape(rng, 1 << 17));
        }
    }
}

/// exhaustive: every raw draw of the lowest layer for small bounds, every draw of the Bernoulli layer
fn exhaustive(out: &mut Out, thorough: bool) {
    let top = if thorough { 600u32 } else { 130 };
    for bound in 1..=top {
        let bits = 32 - bound.leading_zeros();
        // the raw draw is the first word shifted right by 32 - bits: enumerate all raw values
        let mut hits = vec![0u32; bound as usize];
        let mut rejected = 0u32;
        for raw in 0..(1u32 << bits) {
            // first word yields `raw`; the second word (used only after a rejection) yields 0
            let w = raw << (32 - bits);
            let mut tape = w.to_le_bytes().to_vec();
            tape.extend_from_slice(&[0u8; 8]);
            let mut t = Tape { data: tape, pos: 0 };
            let v = verif::uniform_below(&BigUint::from(bound), &mut t).to_u32().unwrap();
            if t.pos == 4 {
                hits[v as usize] += 1;
                if v != raw {
                    out.oracle(false, || format!("uniform_below({}) raw={}", bound, raw), || format!("returned {}", v));
                }
            } else {
                rejected += 1;
            }
        }
        out.oracle(hits.iter().all(|h| *h == 1) && rejected == (1u32 << bits) - bound, || format!("uniform_below({}) exhaustive", bound), || "not every value below the bound is returned by exactly one raw draw".into());
        out.count("exhaustive.below");
    }
    let dtop = if thorough { 64u32 } else { 24 };
    for d in 1..=dtop {
        for n in 0..=d {
            if num_integer_gcd(n, d) != 1 {
                continue;
            }
            let bits = 32 - d.leading_zeros();
            let mut trues = 0;
            for raw in 0..d {
                let w = raw << (32 - bits);
                let mut t = Tape { data: w.to_le_bytes().to_vec(), pos: 0 };
                if verif::bernoulli(BigUint::from(n), BigUint::from(d), &mut t) {
                    trues += 1;
                }
            }
            let want = n;
            out.oracle(trues == want, || format!("bernoulli({}/{}) exhaustive", n, d), || format!("{} of {} equally likely draws give true, expected {}", trues, d, want));
            out.count("exhaustive.bernoulli");
        }
    }
}

fn num_integer_gcd(a: u32, b: u32) -> u32 {
    if b == 0 {
        a
    } else {
        num_integer_gcd(b, a % b)
    }
}

/// frequency tests of the public samplers against the closed-form laws
fn laws(out: &mut Out, seed: u64, thorough: bool) {
    let n: usize = if thorough { 1_000_000 } else { 120_000 };
    let check = |out: &mut Out, what: String, counts: &std::collections::BTreeMap<i64, usize>, pmf: &dyn Fn(i64) -> f64, support: std::ops::RangeInclusive<i64>| {
        let nf = n as f64;
        let mut worst = 0.0f64;
        let mut worst_at = 0;
        for y in support {
            let p = pmf(y);
            let f = *counts.get(&y).unwrap_or(&0) as f64 / nf;
            let sd = (p * (1.0 - p) / nf).sqrt();
            let z = (f - p).abs() / (sd + 1e-12);
            if p * nf >= 20.0 && z > worst {
                worst = z;
                worst_at = y;
            }
        }
        out.oracle(worst < 6.0, || what.clone(), || format!("frequency at {} deviates by {:.1} standard deviations from the law", worst_at, worst));
    };
    for (num, den) in [(1u32, 2u32), (1, 1), (5, 2), (10, 1)] {
        let b = num as f64 / den as f64;
        let d = DiscreteLaplace::new(Rational::from_unsigned(num, den).unwrap()).unwrap();
        let mut g = Gen(Sm::new(seed ^ (num as u64 * 131 + den as u64)));
        let mut counts = std::collections::BTreeMap::new();
        for _ in 0..n {
            let y: BigInt = d.sample(&mut g);
            *counts.entry(y.to_i64().unwrap()).or_insert(0usize) += 1;
        }
        let e = (-1.0 / b).exp();
        let pmf = move |y: i64| (1.0 - e) / (1.0 + e) * (-(y.abs() as f64) / b).exp();
        check(out, format!("discrete Laplace scale={}/{}", num, den), &counts, &pmf, -60..=60);
        // symmetry and no double zero are visible in the mass at 0 vs ±1
        out.count("law.laplace");
    }
    for (num, den) in [(1u32, 2u32), (1, 1), (3, 2), (4, 1), (15, 2)] {
        let s = num as f64 / den as f64;
        let d = DiscreteGaussian::new(Rational::from_unsigned(num, den).unwrap()).unwrap();
        let mut g = Gen(Sm::new(seed ^ (num as u64 * 977 + den as u64)));
        let mut counts = std::collections::BTreeMap::new();
        for _ in 0..n {
            let y: BigInt = d.sample(&mut g);
            *counts.entry(y.to_i64().unwrap()).or_insert(0usize) += 1;
        }
        let norm: f64 = (-400i64..=400).map(|y| (-((y * y) as f64) / (2.0 * s * s)).exp()).sum();
        let pmf = move |y: i64| (-((y * y) as f64) / (2.0 * s * s)).exp() / norm;
        check(out, format!("discrete Gaussian sigma={}/{}", num, den), &counts, &pmf, -80..=80);
        out.count("law.gaussian");
    }
    // Bernoulli(exp(-gamma)) through the hook
    for (num, den) in [(1u32, 3u32), (1, 1), (5, 2), (4, 1)] {
        let gamma = num as f64 / den as f64;
        let mut g = Gen(Sm::new(seed ^ (num as u64 * 31 + den as u64 * 7)));
        let mut trues = 0usize;
        for _ in 0..n {
            if verif::bernoulli_exp(BigUint::from(num), BigUint::from(den), &mut g) {
                trues += 1;
            }
        }
        let p = (-gamma).exp();
        let z = (trues as f64 / n as f64 - p).abs() / (p * (1.0 - p) / n as f64).sqrt();
        out.oracle(z < 6.0, || format!("bernoulli_exp gamma={}/{}", num, den), || format!("frequency of true deviates by {:.1} standard deviations from exp(-gamma)", z));
        out.count("law.bexp");
    }
    // geometric: P[v] = (1 - e^-g) e^(-g v)
    for (num, den) in [(1u32, 2u32), (1, 1), (3, 1)] {
        let gamma = num as f64 / den as f64;
        let mut g = Gen(Sm::new(seed ^ (num as u64 * 53 + den as u64 * 11)));
        let mut counts = std::collections::BTreeMap::new();
        for _ in 0..n {
            let v = verif::geometric_exp(BigUint::from(num), BigUint::from(den), &mut g);
            *counts.entry(v.to_i64().unwrap()).or_insert(0usize) += 1;
        }
        let pmf = move |v: i64| (1.0 - (-gamma).exp()) * (-gamma * v as f64).exp();
        check(out, format!("geometric gamma={}/{}", num, den), &counts, &pmf, 0..=60);
        out.count("law.geometric");
    }
}

fn noise(out: &mut Out, rng: &mut Sm, thorough: bool) {
    type PS64 = ParallelSum<Field64, Mul>;
    type PS128 = ParallelSum<Field128, Mul>;
    // the last two make the scale exceed the modulus (Field64, resp. both fields): the noise is then
    // routinely below -p or above p and has to be reduced, not merely shifted, into the field
    let eps: Vec<(u128, u128)> = vec![(1, 2), (1, 1), (2, 1), (1, 10), (7, 3), (1, 1 << 70), (3, u128::MAX)];
    let reps = if thorough { 12 } else { 3 };
    for &(en, ed) in &eps {
        let strategy = PureDpDiscreteLaplace::from_budget(PureDpBudget::new(Rational::from_unsigned(en, ed).unwrap()).unwrap());
        for _ in 0..reps {
            // SumVec over both fields
            let (bits_max, len) = [(1u64, 3usize), (7, 2), (255, 4)][rng.below(3) as usize];
            let bits = 64 - bits_max.leading_zeros() as usize;
            let t = SumVec::<Field64, PS64>::new(bits_max, len, 2).unwrap();
            let mut v: Vec<Field64> = (0..len).map(|_| Field64::from(rng.next() % (modulus::<Field64>() as u64))).collect();
            let before = v.clone();
            let mut tape = Tape { data: rng.bytes(1 << 16), pos: 0 };
            let r = catch(AssertUnwindSafe(|| verif_dp::sumvec_add_noise(&t, &strategy, &mut v, &mut tape)));
            noise_case(out, "FP64", &format!("svec:{}:{}", bits, len), en, ed, &before, &v, &tape, r.map(|x| x.is_ok()).unwrap_or(false));
            let t = SumVec::<Field128, PS128>::new(bits_max as u128, len, 2).unwrap();
            let mut v: Vec<Field128> = (0..len).map(|_| Field128::from(rng.u128() % modulus::<Field128>())).collect();
            let before = v.clone();
            let mut tape = Tape { data: rng.bytes(1 << 16), pos: 0 };
            let r = catch(AssertUnwindSafe(|| verif_dp::sumvec_add_noise(&t, &strategy, &mut v, &mut tape)));
            noise_case(out, "FP128", &format!("svec:{}:{}", bits, len), en, ed, &before, &v, &tape, r.map(|x| x.is_ok()).unwrap_or(false));
            // Histogram
            let hl = 1 + rng.below(5) as usize;
            let t = Histogram::<Field128, PS128>::new(hl, 2).unwrap();
            let mut v: Vec<Field128> = (0..hl).map(|i| if i == 0 { Field128::from(0) } else { Field128::from(rng.u128() % modulus::<Field128>()) }).collect();
            let before = v.clone();
            let mut tape = Tape { data: rng.bytes(1 << 16), pos: 0 };
            let r = catch(AssertUnwindSafe(|| verif_dp::histogram_add_noise(&t, &strategy, &mut v, &mut tape)));
            noise_case(out, "FP128", "hist", en, ed, &before, &v, &tape, r.map(|x| x.is_ok()).unwrap_or(false));
            // L1BoundSum
            let max = [1u64, 9, 1000][rng.below(3) as usize];
            let ll = 1 + rng.below(4) as usize;
            let t = L1BoundSum::<Field64, PS64>::new(max, ll, 2).unwrap();
            let mut v: Vec<Field64> = (0..ll).map(|_| Field64::from(rng.next() % 1000)).collect();
            let before = v.clone();
            let mut tape = Tape { data: rng.bytes(1 << 16), pos: 0 };
            let r = catch(AssertUnwindSafe(|| verif_dp::l1boundsum_add_noise(&t, &strategy, &mut v, &mut tape)));
            noise_case(out, "FP64", &format!("l1:{}", max), en, ed, &before, &v, &tape, r.map(|x| x.is_ok()).unwrap_or(false));
            // bounds that need the top bit of the field's integer type: the doubled sensitivity exceeds it
            let max = [(1u64 << 63) + 5, 1u64 << 63, modulus::<Field64>() as u64 - 1][rng.below(3) as usize];
            let t = L1BoundSum::<Field64, PS64>::new(max, 2, 2).unwrap();
            let mut v: Vec<Field64> = (0..2).map(|_| Field64::from(rng.next() % 1000)).collect();
            let before = v.clone();
            let mut tape = Tape { data: rng.bytes(1 << 16), pos: 0 };
            let r = catch(AssertUnwindSafe(|| verif_dp::l1boundsum_add_noise(&t, &strategy, &mut v, &mut tape)));
            noise_case(out, "FP64", &format!("l1:{}", max), en, ed, &before, &v, &tape, r.map(|x| x.is_ok()).unwrap_or(false));
            // the scale is 2 * max / epsilon >= 2^63 here: noise of that scale is, in at least one of two coordinates,
            // further than 2^32 from zero (all but a 2^-60 fraction of the time) — a sensitivity that lost its top bit is not
            if ed.checked_mul(8).map_or(true, |x| en <= x) {
                let pm = modulus::<Field64>();
                let far = before.iter().zip(&v).any(|(b, a)| {
                    let d = (u128::from(u64::from(*a)) + pm - u128::from(u64::from(*b))) % pm;
                    d.min(pm - d) >= 1 << 32
                });
                out.oracle(far, || format!("noise L1BoundSum<Field64> max={} epsilon={}/{}", max, en, ed), || "noise of scale >= 2^63 stayed within 2^32 of zero in every coordinate: the sensitivity 2*max was not used".into());
            }
            let max = [(1u128 << 127) + 5, 1u128 << 127, modulus::<Field128>() - 1][rng.below(3) as usize];
            let t = L1BoundSum::<Field128, PS128>::new(max, 2, 2).unwrap();
            let mut v: Vec<Field128> = (0..2).map(|_| Field128::from(rng.u128() % 1000)).collect();
            let before = v.clone();
            let mut tape = Tape { data: rng.bytes(1 << 16), pos: 0 };
            let r = catch(AssertUnwindSafe(|| verif_dp::l1boundsum_add_noise(&t, &strategy, &mut v, &mut tape)));
            noise_case(out, "FP128", &format!("l1:{}", max), en, ed, &before, &v, &tape, r.map(|x| x.is_ok()).unwrap_or(false));
            // SumVec with the widest element bound (bits = 63 / 127)
            let t = SumVec::<Field64, PS64>::new((1u64 << 63) + 1, 2, 2).unwrap();
            let mut v: Vec<Field64> = (0..2).map(|_| Field64::from(rng.next() % 1000)).collect();
            let before = v.clone();
            let mut tape = Tape { data: rng.bytes(1 << 16), pos: 0 };
            let r = catch(AssertUnwindSafe(|| verif_dp::sumvec_add_noise(&t, &strategy, &mut v, &mut tape)));
            noise_case(out, "FP64", "svec:64:2", en, ed, &before, &v, &tape, r.map(|x| x.is_ok()).unwrap_or(false));
        }
    }
}

#[allow(clippy::too_many_arguments)]
fn noise_case<F: prio::field::NttFriendlyFieldElement>(out: &mut Out, field: &str, kind: &str, en: u128, ed: u128, before: &[F], after: &[F], tape: &Tape, ok: bool)
where
    F::Integer: Into<u128>,
{
    let ints = |v: &[F]| v.iter().map(|x| { let i: u128 = F::Integer::from(*x).into(); i.to_string() }).collect::<Vec<_>>().join(",");
    out.count(&format!("noise.{}", kind.split(':').next().unwrap()));
    let line = format!("dp noise {} {} {} {} {} {}", field, kind, en, ed, ints(before), hex(&tape.data[..(tape.pos + 64).min(tape.data.len())]));
    // every integer has a residue modulo p: with a positive budget adding noise has no reason to fail
    out.oracle(ok, || line.chars().take(160).collect::<String>(), || "adding noise to the aggregate share failed (or panicked)".into());
    if ok {
        out.case(line, format!("ok {} {}", ints(after), tape.pos));
    } else {
        out.count("noise.failed");
        out.case(line, "err".into());
    }
    let _ = enc::<F>;
}

pub fn run(out: &mut Out, thorough: bool, seed: u64) {
    let mut rng = Sm::new(seed ^ 0x1501);
    layers(out, &mut rng, thorough);
    exhaustive(out, thorough);
    noise(out, &mut rng, thorough);
    laws(out, seed, thorough);
    let _ = (BigUint::one(), BigUint::zero(), <Field64 as FieldElementWithInteger>::modulus);
    out.samples = out.ops.iter().step_by(out.ops.len() / 6 + 1).map(|s| s.chars().take(200).collect()).collect();
}
