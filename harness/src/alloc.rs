//! Counting global allocator: current and peak live bytes (C08 allocation bound).
use std::alloc::{GlobalAlloc, Layout, System};
use std::sync::atomic::{AtomicUsize, Ordering};

pub struct Counting;
static CUR: AtomicUsize = AtomicUsize::new(0);
static PEAK: AtomicUsize = AtomicUsize::new(0);

/// single requests above this size are refused while a case is registered: the request and the case
/// are reported on stderr (without allocating) so that the check can name the failing input
const CAP: usize = 1 << 30;
static mut CASE_BUF: [u8; 4096] = [0; 4096];
static CASE_LEN: AtomicUsize = AtomicUsize::new(0);

/// register the input being processed (empty string: none)
pub fn set_case(s: &str) {
    let b = s.as_bytes();
    let n = b.len().min(4096);
    unsafe {
        let buf = &mut *std::ptr::addr_of_mut!(CASE_BUF);
        buf[..n].copy_from_slice(&b[..n]);
    }
    CASE_LEN.store(n, Ordering::SeqCst);
}

fn oversize(size: usize) -> bool {
    let n = CASE_LEN.load(Ordering::SeqCst);
    if size <= CAP || n == 0 {
        return false;
    }
    use std::io::Write;
    let mut digits = [0u8; 24];
    let mut k = digits.len();
    let mut v = size;
    loop {
        k -= 1;
        digits[k] = b'0' + (v % 10) as u8;
        v /= 10;
        if v == 0 {
            break;
        }
    }
    let mut e = std::io::stderr().lock();
    let _ = e.write_all(b"\nOVERSIZE-ALLOC bytes=");
    let _ = e.write_all(&digits[k..]);
    let _ = e.write_all(b" case=");
    let _ = e.write_all(unsafe { &(&*std::ptr::addr_of!(CASE_BUF))[..n] });
    let _ = e.write_all(b"\n");
    true
}

unsafe impl GlobalAlloc for Counting {
    unsafe fn alloc(&self, l: Layout) -> *mut u8 {
        if oversize(l.size()) {
            return std::ptr::null_mut();
        }
        let p = System.alloc(l);
        if !p.is_null() {
            let c = CUR.fetch_add(l.size(), Ordering::Relaxed) + l.size();
            PEAK.fetch_max(c, Ordering::Relaxed);
        }
        p
    }
    unsafe fn dealloc(&self, p: *mut u8, l: Layout) {
        CUR.fetch_sub(l.size(), Ordering::Relaxed);
        System.dealloc(p, l)
    }
    unsafe fn alloc_zeroed(&self, l: Layout) -> *mut u8 {
        if oversize(l.size()) {
            return std::ptr::null_mut();
        }
        let p = System.alloc_zeroed(l);
        if !p.is_null() {
            let c = CUR.fetch_add(l.size(), Ordering::Relaxed) + l.size();
            PEAK.fetch_max(c, Ordering::Relaxed);
        }
        p
    }
    unsafe fn realloc(&self, p: *mut u8, l: Layout, n: usize) -> *mut u8 {
        if oversize(n) {
            return std::ptr::null_mut();
        }
        let q = System.realloc(p, l, n);
        if !q.is_null() {
            if n >= l.size() {
                let c = CUR.fetch_add(n - l.size(), Ordering::Relaxed) + (n - l.size());
                PEAK.fetch_max(c, Ordering::Relaxed);
            } else {
                CUR.fetch_sub(l.size() - n, Ordering::Relaxed);
            }
        }
        q
    }
}

/// set the peak to the current live size and return it
pub fn reset_peak() -> usize {
    let c = CUR.load(Ordering::Relaxed);
    PEAK.store(c, Ordering::Relaxed);
    c
}
pub fn peak() -> usize {
    PEAK.load(Ordering::Relaxed)
}
