//! Counting global allocator: current and peak live bytes (C08 allocation bound).
use std::alloc::{GlobalAlloc, Layout, System};
use std::sync::atomic::{AtomicUsize, Ordering};

pub struct Counting;
static CUR: AtomicUsize = AtomicUsize::new(0);
static PEAK: AtomicUsize = AtomicUsize::new(0);

unsafe impl GlobalAlloc for Counting {
    unsafe fn alloc(&self, l: Layout) -> *mut u8 {
        let p = System.alloc(l);
        if !p.is_null() {
            let c = CUR.fetch_add(l.size(), Ordering::Relaxed) + l.size();
            PEAK.fetch_max(c, Ordering::Relaxed);
        }
        p
    }
    unsafe fn dealloc(&self, p: *mut u8, l: Layout) {
        CUR.fetch_sub(l.size(), Ordering::Relaxed);
        System.dealloc(p, l)
    }
    unsafe fn alloc_zeroed(&self, l: Layout) -> *mut u8 {
        let p = System.alloc_zeroed(l);
        if !p.is_null() {
            let c = CUR.fetch_add(l.size(), Ordering::Relaxed) + l.size();
            PEAK.fetch_max(c, Ordering::Relaxed);
        }
        p
    }
    unsafe fn realloc(&self, p: *mut u8, l: Layout, n: usize) -> *mut u8 {
        let q = System.realloc(p, l, n);
        if !q.is_null() {
            if n >= l.size() {
                let c = CUR.fetch_add(n - l.size(), Ordering::Relaxed) + (n - l.size());
                PEAK.fetch_max(c, Ordering::Relaxed);
            } else {
                CUR.fetch_sub(l.size() - n, Ordering::Relaxed);
            }
        }
        q
    }
}

/// set the peak to the current live size and return it
pub fn reset_peak() -> usize {
    let c = CUR.load(Ordering::Relaxed);
    PEAK.store(c, Ordering::Relaxed);
    c
}
pub fn peak() -> usize {
    PEAK.load(Ordering::Relaxed)
}
