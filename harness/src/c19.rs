//! C19: Prio2 — 0/1 vectors verify and sum, anything else is rejected; the query point is never an
//! interpolation node; shares, verifier shares and states round-trip through their encodings.
use crate::util::{catch, hex, Out, Sm};
use hmac::{KeyInit, Mac};
use prio::codec::{Decode, Encode, ParameterizedDecode};
use prio::field::{FieldElement, FieldElementWithInteger, FieldPrio2, NttFriendlyFieldElement};
use prio::vdaf::prio2::{Prio2, Prio2VerifierShare, Prio2VerifierState};
use prio::vdaf::xof::{Seed, SeedStreamAes128};
use prio::vdaf::{Aggregator, Client, Collector, Share, VerifyTransition};
use rand_core::Rng;
use std::panic::AssertUnwindSafe;

type F = FieldPrio2;
const P: u32 = 4293918721;

fn enc(v: &[F]) -> String {
    let mut b = vec![];
    for x in v {
        x.encode(&mut b).unwrap();
    }
    hex(&b)
}

/// the AES-128-CTR key stream of a Prio2 seed (public `SeedStreamAes128`)
fn keystream(seed: &[u8; 32], n: usize) -> Vec<u8> {
    let mut s = SeedStreamAes128::new(seed[..16].try_into().unwrap(), seed[16..].try_into().unwrap());
    let mut o = vec![0u8; n];
    s.fill_bytes(&mut o);
    o
}

/// successive accepted 4-byte little-endian chunks (what `Prng` yields, C11)
fn sample(stream: &[u8], n: usize) -> (Vec<F>, usize) {
    let mut v = vec![];
    let mut pos = 0;
    while v.len() < n && pos + 4 <= stream.len() {
        let x = u32::from_le_bytes(stream[pos..pos + 4].try_into().unwrap());
        pos += 4;
        if x < P {
            v.push(F::from(x));
        }
    }
    (v, pos)
}

fn proof_len(dim: usize) -> usize {
    dim + 3 + (dim + 1).next_power_of_two()
}

struct Run {
    dim: usize,
    vdaf: Prio2,
    leader: Vec<F>,
    helper_seed: [u8; 32],
    helper: Vec<F>,
    proof: Vec<F>,
}

fn shard(out: &mut Out, dim: usize, m: &[u32], nonce: &[u8; 16]) -> Option<Run> {
    let vdaf = Prio2::new(dim).ok()?;
    let ((), shares) = vdaf.shard(b"", &m.to_vec(), nonce).ok()?;
    let (Share::Leader(leader), Share::Helper(seed)) = (&shares[0], &shares[1]) else { return None };
    let helper_seed: [u8; 32] = *seed.as_ref();
    let pl = proof_len(dim);
    let (helper, _) = sample(&keystream(&helper_seed, 4 * pl + 256), pl);
    out.oracle(leader.len() == pl && helper.len() == pl, || format!("shard dim={}", dim), || format!("leader share has {} elements, expected {}", leader.len(), pl));
    let proof: Vec<F> = leader.iter().zip(&helper).map(|(a, b)| *a + *b).collect();
    Some(Run { dim, vdaf, leader: leader.clone(), helper_seed, helper, proof })
}

/// the evaluation point the aggregators derive from key and nonce, recomputed from public parts
fn eval_at(key: &[u8; 32], nonce: &[u8; 16], dim: usize) -> (F, Vec<u8>, usize) {
    let mut mac = <hmac::Hmac<sha2::Sha256> as KeyInit>::new_from_slice(key).unwrap();
    Mac::update(&mut mac, nonce);
    let tag: [u8; 32] = mac.finalize().into_bytes().into();
    let stream = keystream(&tag, 1024);
    let order = 2 * (dim + 1).next_power_of_two();
    let mut pos = 0;
    let mut draws = 0;
    loop {
        let x = u32::from_le_bytes(stream[pos..pos + 4].try_into().unwrap());
        pos += 4;
        if x < P {
            draws += 1;
            let e = F::from(x);
            if e.pow(order as u32) != F::one() {
                return (e, stream[..pos.max(128)].to_vec(), draws);
            }
        }
    }
}

fn show_vmsg(r: &Result<Result<(Prio2VerifierState, Prio2VerifierShare), prio::vdaf::VdafError>, String>) -> String {
    match r {
        Ok(Ok((st, sh))) => {
            let sb = st.get_encoded().unwrap();
            format!("ok {} {}", hex(&sh.get_encoded().unwrap()), hex(&sb))
        }
        Ok(Err(_)) => "err".into(),
        Err(_) => "panic".into(),
    }
}

fn accepted(v: &Prio2, a: &Prio2VerifierShare, b: &Prio2VerifierShare) -> bool {
    v.verifier_shares_to_message(b"", &(), [a.clone(), b.clone()]).is_ok()
}

fn one_report(out: &mut Out, rng: &mut Sm, dim: usize, m: &[u32], binary: bool, thorough: bool) {
    let nonce: [u8; 16] = rng.bytes(16).try_into().unwrap();
    let key: [u8; 32] = rng.bytes(32).try_into().unwrap();
    let Some(r) = shard(out, dim, m, &nonce) else {
        out.oracle(false, || format!("shard dim={}", dim), || "sharding failed".into());
        return;
    };
    let case = |what: &str| format!("{} dim={} binary={}", what, dim, binary);
    // --- the proof the client built, reconstructed from both shares
    let data: Vec<F> = m.iter().map(|x| F::from(*x)).collect();
    out.oracle(r.proof[..dim] == data[..], || case("proof"), || "data part of the proof differs from the measurement".into());
    out.case(format!("c19 proof {} {} {}", enc(&data), enc(&r.proof[dim..dim + 1]), enc(&r.proof[dim + 1..dim + 2])), format!("ok {}", enc(&r.proof)));
    out.case(format!("c19 leader {} {}", enc(&r.proof), enc(&r.helper)), format!("ok {}", enc(&r.leader)));
    out.case(format!("c19 plen {}", dim), format!("{}", r.leader.len()));
    out.count(if binary { "report.binary" } else { "report.nonbinary" });
    // --- the evaluation point
    let (e, stream, draws) = eval_at(&key, &nonce, dim);
    out.case(format!("c19 evalat {} {}", dim, hex(&stream)), format!("ok {}", enc(&[e])));
    out.count(&format!("evalat.draws.{}", draws.min(3)));
    let order = 2 * (dim + 1).next_power_of_two();
    out.oracle(e.pow(order as u32) != F::one(), || case("evalat"), || "the evaluation point is an interpolation node".into());
    // --- verify_init equals verify_init_with_query_rand at that point, and equals the model
    let shares = [Share::Leader(r.leader.clone()), Share::Helper(Seed::get_decoded(&r.helper_seed).unwrap())];
    let expanded = [r.leader.clone(), r.helper.clone()];
    let mut vs = vec![];
    for id in 0..2usize {
        let a = catch(AssertUnwindSafe(|| r.vdaf.verify_init(&key, b"", id, &(), &nonce, &(), &shares[id])));
        let b = catch(AssertUnwindSafe(|| r.vdaf.verify_init_with_query_rand(e, &shares[id], id == 0)));
        out.oracle(show_vmsg(&a) == show_vmsg(&b), || case("verify_init"), || format!("verify_init (id {}) differs from verify_init_with_query_rand at the recomputed point", id));
        // the state share in the model is the truncated share for the leader; the helper keeps its seed
        let imp = match &a {
            Ok(Ok((_, sh))) => format!("ok {} {}", hex(&sh.get_encoded().unwrap()), enc(&expanded[id][..dim])),
            Ok(Err(_)) => "err".into(),
            Err(_) => "panic".into(),
        };
        out.case(format!("c19 vmsg {} {} {} {}", dim, enc(&[e]), enc(&expanded[id]), if id == 0 { 1 } else { 0 }), imp);
        if let Ok(Ok((st, sh))) = a {
            // round trips
            let sb = st.get_encoded().unwrap();
            let back = Prio2VerifierState::get_decoded_with_param(&(&r.vdaf, id), &sb);
            out.oracle(back.as_ref().map(|b| b.get_encoded().unwrap() == sb).unwrap_or(false), || case("state round trip"), || "state does not round-trip".into());
            let vb = sh.get_encoded().unwrap();
            let back = Prio2VerifierShare::get_decoded_with_param(&st, &vb);
            out.oracle(back.as_ref().map(|b| b.get_encoded().unwrap() == vb).unwrap_or(false) && vb.len() == 12, || case("verifier share round trip"), || "verifier share does not round-trip".into());
            vs.push((st, sh));
        }
    }
    for (id, s) in shares.iter().enumerate() {
        let b = s.get_encoded().unwrap();
        let back = Share::<F, 32>::get_decoded_with_param(&(&r.vdaf, id), &b);
        out.oracle(back.map(|x| x.get_encoded().unwrap() == b).unwrap_or(false), || case("share round trip"), || "input share does not round-trip".into());
    }
    if vs.len() != 2 {
        out.oracle(false, || case("verify_init"), || "verify_init failed on an honest report".into());
        return;
    }
    let ok = accepted(&r.vdaf, &vs[0].1, &vs[1].1);
    let enc_v = |v: &Prio2VerifierShare| hex(&v.get_encoded().unwrap());
    out.case(format!("c19 valid {} {}", enc_v(&vs[0].1), enc_v(&vs[1].1)), format!("{}", ok));
    if binary {
        out.oracle(ok, || case("accept"), || "honest 0/1 report rejected".into());
        // outputs add up to the measurement
        let mut outs = vec![];
        for (st, _) in &vs {
            if let Ok(VerifyTransition::Finish(o)) = r.vdaf.verify_next(b"", st.clone(), ()) {
                outs.push(o);
            }
        }
        let aggs: Vec<_> = outs.iter().map(|o| r.vdaf.aggregate(&(), [o.clone()]).unwrap()).collect();
        let res = r.vdaf.unshard(&(), aggs, 1);
        out.oracle(res.as_ref().map(|x| x[..] == m[..]).unwrap_or(false), || case("unshard"), || "aggregate of one report differs from the measurement".into());
        // the helper's output share is the expansion of its seed (ties this harness's AES/sampler to the code)
        if outs.len() == 2 {
            out.oracle(outs[1].get_encoded().unwrap() == { let mut b = vec![]; for x in &r.helper[..dim] { x.encode(&mut b).unwrap(); } b }, || case("helper expansion"), || "helper output share differs from the recomputed expansion".into());
        }
    } else {
        out.oracle(!ok, || case("reject"), || format!("non-binary measurement accepted: {:?}", &m[..m.len().min(8)]));
    }
    // --- alterations of single elements of the leader's share are rejected
    if binary {
        let pl = proof_len(dim);
        let mut positions = vec![0, dim - 1, dim, dim + 1, dim + 2, dim + 3, pl - 1];
        if thorough {
            for _ in 0..6 {
                positions.push(rng.below(pl as u64) as usize);
            }
        }
        positions.sort();
        positions.dedup();
        for pos in positions {
            for delta in [F::one(), -F::one(), F::from(rng.next() as u32 % (P - 2) + 1)] {
                let mut alt = r.leader.clone();
                alt[pos] += delta;
                let a = r.vdaf.verify_init_with_query_rand(e, &Share::Leader(alt.clone()), true);
                let line = format!("c19 vmsg {} {} {} 1", dim, enc(&[e]), enc(&alt));
                match a {
                    Ok((_, sh)) => {
                        out.case(line, format!("ok {} {}", enc_v(&sh), enc(&alt[..dim])));
                        let acc = accepted(&r.vdaf, &sh, &vs[1].1);
                        out.case(format!("c19 valid {} {}", enc_v(&sh), enc_v(&vs[1].1)), format!("{}", acc));
                        out.oracle(!acc, || format!("alteration dim={} position={}", dim, pos), || "altered share accepted".into());
                    }
                    Err(_) => out.case(line, "err".into()),
                }
                out.count("alteration");
            }
        }
        // shares of the wrong length are refused by both
        for n in [0usize, pl - 1, pl + 1] {
            let alt: Vec<F> = (0..n).map(|i| r.leader[i % pl]).collect();
            let a = catch(AssertUnwindSafe(|| r.vdaf.verify_init_with_query_rand(e, &Share::Leader(alt.clone()), true)));
            out.case(format!("c19 vmsg {} {} {} 1", dim, enc(&[e]), enc(&alt)), show_vmsg(&a).split(' ').next().unwrap().to_string());
            out.oracle(matches!(a, Ok(Err(_))), || format!("wrong length dim={} len={}", dim, n), || "share of the wrong length not refused with an error".into());
        }
    }
    // --- explicit query points, including interpolation nodes (the function itself accepts any point)
    let gen_order = 1u32 << 20;
    let g = <F as NttFriendlyFieldElement>::generator();
    let node = g.pow(gen_order / order as u32);
    for q in [F::zero(), F::one(), node, node * node, F::from(rng.next() as u32 % P)] {
        for id in 0..2usize {
            let a = catch(AssertUnwindSafe(|| r.vdaf.verify_init_with_query_rand(q, &shares[id], id == 0)));
            let imp = match &a {
                Ok(Ok((_, sh))) => format!("ok {} {}", enc_v(sh), enc(&expanded[id][..dim])),
                Ok(Err(_)) => "err".into(),
                Err(_) => "panic".into(),
            };
            out.case(format!("c19 vmsg {} {} {} {}", dim, enc(&[q]), enc(&expanded[id]), if id == 0 { 1 } else { 0 }), imp);
        }
    }
    let _ = <F as FieldElementWithInteger>::modulus;
}

/// the evaluation point really used by `verify_init`, read through the public API: a leader share
/// whose `f` interpolates the identity (f(w^k) = w^k) makes the first element of the verifier share
/// equal to the point itself
fn real_eval_at(v: &Prio2, dim: usize, key: &[u8; 32], nonce: &[u8; 16]) -> Option<F> {
    let n = (dim + 1).next_power_of_two();
    let g = <F as NttFriendlyFieldElement>::generator();
    let w = g.pow((1u32 << 20) / n as u32); // primitive n-th root
    let mut share = vec![F::zero(); proof_len(dim)];
    let mut x = w;
    for k in 0..dim {
        share[k] = x; // f(w^(k+1))
        x *= w;
    }
    share[dim] = F::one(); // f0 = f(w^0)
    // the unused points of f (indices dim+1..n) are zero in the server's layout, so f is the identity
    // only if dim + 1 == n; callers pass such dimensions
    let (_, vs) = v.verify_init(key, b"", 0, &(), nonce, &(), &Share::Leader(share)).ok()?;
    let b = vs.get_encoded().ok()?;
    F::get_decoded(&b[..4]).ok()
}

/// search (with this harness's own HMAC/AES) for nonces whose first field draw is an interpolation
/// node of the second kind — a 2n-th root of unity that is not an n-th root — and check that the
/// aggregators skip it
fn planted_nodes(out: &mut Out, thorough: bool) {
    let dim = (1usize << 15) - 1; // n = 2^15, 2n = 2^16: one draw in 2^17 is such a node
    let n = dim + 1;
    let Ok(v) = Prio2::new(dim) else { return };
    let key = [0x42u8; 32];
    let mut found = 0;
    let want = if thorough { 3 } else { 1 };
    let mut nonce = [0u8; 16];
    for i in 0u64..(1 << 24) {
        nonce[..8].copy_from_slice(&i.to_le_bytes());
        let mut mac = <hmac::Hmac<sha2::Sha256> as KeyInit>::new_from_slice(&key).unwrap();
        Mac::update(&mut mac, &nonce);
        let tag: [u8; 32] = mac.finalize().into_bytes().into();
        let first = keystream(&tag, 4);
        let x = u32::from_le_bytes(first[..4].try_into().unwrap());
        if x >= P {
            continue;
        }
        let e = F::from(x);
        let en = e.pow(n as u32);
        if en * en == F::one() && en != F::one() {
            // the first draw is an odd 2n-th root: the point used must be a later draw
            let (expect, stream, draws) = eval_at(&key, &nonce, dim);
            out.oracle(draws >= 2, || format!("planted node nonce={}", i), || "harness search inconsistent".into());
            let real = real_eval_at(&v, dim, &key, &nonce);
            out.oracle(real == Some(expect), || format!("evaluation point dim={} key=42.. nonce={} (first draw {} is a 2n-th root of unity)", dim, hex(&nonce), x), || format!("verify_init evaluated at {:?}, expected the next admissible draw {:?}", real.map(u32::from), u32::from(expect)));
            if let Some(r) = real {
                out.oracle(r.pow(2 * n as u32) != F::one(), || format!("evaluation point dim={} nonce={}", dim, hex(&nonce)), || format!("the query point {} is an interpolation node", u32::from(r)));
                out.case(format!("c19 evalat {} {}", dim, hex(&stream)), format!("ok {}", enc(&[r])));
            }
            out.count("evalat.node-first");
            found += 1;
            if found >= want {
                break;
            }
        }
    }
    out.oracle(found >= 1, || "planted node search".into(), || "no nonce with a node as first draw found in 2^24 tries".into());
}

/// nonces (under the key 0x42…42) whose first TWO draws are both 2^20-th roots of unity, found once with
/// `harness search-c19` (about 2^24 trials each) and kept as a corpus: one such nonce in 2^24 occurs by chance
const DOUBLE_REJECTION_NONCES: &str = include_str!("../corpus/c19_double_rejection.txt");

/// the corpus search: prints nonces whose first two draws are 2^20-th roots of unity
pub fn search_double(count: usize) {
    let key = [0x42u8; 32];
    let mut nonce = [0u8; 16];
    let mut found = 0;
    for i in 0u64.. {
        nonce[..8].copy_from_slice(&i.to_le_bytes());
        let mut mac = <hmac::Hmac<sha2::Sha256> as KeyInit>::new_from_slice(&key).unwrap();
        Mac::update(&mut mac, &nonce);
        let tag: [u8; 32] = mac.finalize().into_bytes().into();
        let ks = keystream(&tag, 8);
        let a = u32::from_le_bytes(ks[..4].try_into().unwrap());
        let b = u32::from_le_bytes(ks[4..8].try_into().unwrap());
        if a >= P || b >= P {
            continue;
        }
        if F::from(a).pow(1 << 20) == F::one() && F::from(b).pow(1 << 20) == F::one() {
            println!("{}", hex(&nonce));
            found += 1;
            if found >= count {
                return;
            }
        }
    }
}

/// replay of the corpus: the evaluation point is the first draw that is NOT a 2n-th root of unity — the third one
fn double_rejections(out: &mut Out, thorough: bool) {
    let dim = (1usize << 19) - 1; // 2n = 2^20
    let key = [0x42u8; 32];
    let Ok(v) = Prio2::new(dim) else {
        out.oracle(false, || "Prio2::new(2^19 - 1)".to_string(), || "refused".into());
        return;
    };
    let lines: Vec<&str> = DOUBLE_REJECTION_NONCES.lines().filter(|l| !l.trim().is_empty() && !l.starts_with('#')).collect();
    for l in lines.iter().take(if thorough { 4 } else { 1 }) {
        let nb = crate::util::unhex(l.trim());
        let nonce: [u8; 16] = nb.as_slice().try_into().unwrap();
        let (expect, stream, draws) = eval_at(&key, &nonce, dim);
        out.oracle(draws >= 3, || format!("corpus nonce {}", l), || "the corpus entry does not start with two roots of unity (harness inconsistent)".into());
        let real = real_eval_at(&v, dim, &key, &nonce);
        out.oracle(real == Some(expect), || format!("evaluation point dim=2^19-1 key=42.. nonce={} (the first two draws are 2n-th roots of unity)", l), || format!("verify_init evaluated at {:?}, expected the first admissible draw {}", real.map(u32::from), u32::from(expect)));
        if let Some(r) = real {
            out.oracle(r.pow(1 << 20) != F::one(), || format!("evaluation point dim=2^19-1 nonce={}", l), || format!("the query point {} is an interpolation node", u32::from(r)));
            out.case(format!("c19 evalat {} {}", dim, hex(&stream)), format!("ok {}", enc(&[r])));
        }
        out.count("evalat.double-rejection");
    }
}

/// the largest dimensions `Prio2::new` admits (2n = 2^20 evaluation points): an honest 0/1 vector is sharded by the
/// real client, accepted by both aggregators and aggregated
fn largest_dimensions(out: &mut Out, rng: &mut Sm, thorough: bool) {
    use prio::vdaf::{Aggregator, Client, Collector};
    let dims: Vec<usize> = if thorough { vec![1 << 18, (1 << 19) - 1] } else { vec![(1 << 19) - 1] };
    for dim in dims {
        let Ok(v) = Prio2::new(dim) else {
            out.oracle(false, || format!("Prio2::new({})", dim), || "refused".into());
            continue;
        };
        let m: Vec<u32> = (0..dim).map(|i| ((i * 7 + (rng.next() as usize & 1)) % 3 == 0) as u32).collect();
        let nonce: [u8; 16] = rng.bytes(16).try_into().unwrap();
        let key: [u8; 32] = rng.bytes(32).try_into().unwrap();
        let r = crate::util::catch(std::panic::AssertUnwindSafe(|| -> Result<bool, String> {
            let (ps, ins) = v.shard(b"", &m, &nonce).map_err(|e| format!("shard: {e}"))?;
            let (s0, v0) = v.verify_init(&key, b"", 0, &(), &nonce, &ps, &ins[0]).map_err(|e| format!("verify_init 0: {e}"))?;
            let (s1, v1) = v.verify_init(&key, b"", 1, &(), &nonce, &ps, &ins[1]).map_err(|e| format!("verify_init 1: {e}"))?;
            let msg = v.verifier_shares_to_message(b"", &(), [v0, v1]).map_err(|e| format!("combine: {e}"))?;
            let (VerifyTransition::Finish(o0), VerifyTransition::Finish(o1)) = (v.verify_next(b"", s0, msg.clone()).map_err(|e| format!("verify_next 0: {e}"))?, v.verify_next(b"", s1, msg).map_err(|e| format!("verify_next 1: {e}"))?) else { return Err("no finish".into()) };
            let a0 = v.aggregate(&(), [o0]).map_err(|e| e.to_string())?;
            let a1 = v.aggregate(&(), [o1]).map_err(|e| e.to_string())?;
            let res = v.unshard(&(), [a0, a1], 1).map_err(|e| e.to_string())?;
            Ok(res == m)
        }));
        out.oracle(matches!(&r, Ok(Ok(true))), || format!("prio2 honest report at dimension {}", dim), || format!("{:?}", r));
        out.count("largest-dimension");
    }
}

pub fn run(out: &mut Out, thorough: bool, seed: u64) {
    let mut rng = Sm::new(seed ^ 0x1901);
    double_rejections(out, thorough);
    largest_dimensions(out, &mut rng, thorough);
    let dims: Vec<usize> = if thorough { vec![1, 2, 3, 4, 5, 7, 8, 15, 16, 31, 32, 100, 255, 256, 1000] } else { vec![1, 2, 3, 4, 7, 8, 15, 16, 33, 100] };
    let reps = if thorough { 4 } else { 2 };
    for &dim in &dims {
        for rep in 0..reps {
            let m: Vec<u32> = match rep {
                0 => vec![0; dim],
                1 => vec![1; dim],
                _ => (0..dim).map(|_| (rng.next() & 1) as u32).collect(),
            };
            one_report(out, &mut rng, dim, &m, true, thorough);
            // one non-binary entry: 2, p-1, or random, at a random place
            let mut bad = m.clone();
            let pos = rng.below(dim as u64) as usize;
            bad[pos] = [2, P - 1, (rng.next() as u32 % (P - 2)) + 2, 3][rep % 4];
            one_report(out, &mut rng, dim, &bad, false, thorough);
        }
    }
    planted_nodes(out, thorough);
    // keys and nonces for which the first draws of the evaluation point are rejected cannot be
    // searched for (the nodes have density 2n/p); the planted stream does it for the model
    for dim in [1usize, 3, 8] {
        let order = 2 * (dim + 1).next_power_of_two();
        let g = <F as NttFriendlyFieldElement>::generator();
        let node = g.pow((1u32 << 20) / order as u32);
        let mut stream = vec![];
        let mut want = F::zero();
        // out-of-range chunk, a node, the identity, another node, then a good point
        for (k, x) in [u32::MAX, u32::from(node), 1, u32::from(node * node), 123456789, 5].iter().enumerate() {
            stream.extend_from_slice(&x.to_le_bytes());
            if k == 4 {
                want = F::from(*x);
            }
        }
        stream.resize(128, 7);
        out.case(format!("c19 evalat {} {}", dim, hex(&stream)), format!("ok {}", enc(&[want])));
        out.oracle(want.pow(order as u32) != F::one(), || "planted stream".into(), || "planted good point is a node".into());
        out.count("evalat.planted");
    }
}
