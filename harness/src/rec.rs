//! `RecXof`: XofTurboShake128 behind the public `Xof<32>` trait, recording for every stream the
//! key (seed, concatenated dst, concatenated binder) and the bytes that were read from it.
use crate::util::hex;
use prio::vdaf::xof::{Xof, XofTurboShake128};
use rand_core::{utils::next_word_via_fill, Rng, TryRng};
use std::cell::RefCell;
use std::convert::Infallible;

thread_local! {
    static LOG: RefCell<Vec<(Vec<u8>, Vec<u8>, Vec<u8>, Vec<u8>)>> = const { RefCell::new(Vec::new()) };
}

#[derive(Clone, Debug)]
pub struct RecXof {
    inner: XofTurboShake128,
    seed: [u8; 32],
    dst: Vec<u8>,
    binder: Vec<u8>,
}

pub struct RecStream {
    inner: <XofTurboShake128 as Xof<32>>::SeedStream,
    key: (Vec<u8>, Vec<u8>, Vec<u8>),
    read: Vec<u8>,
}

impl Xof<32> for RecXof {
    type SeedStream = RecStream;
    fn init(seed: &[u8; 32], dst_parts: &[&[u8]]) -> Self {
        RecXof { inner: XofTurboShake128::init(seed, dst_parts), seed: *seed, dst: dst_parts.concat(), binder: vec![] }
    }
    fn update(&mut self, data: &[u8]) {
        self.inner.update(data);
        self.binder.extend_from_slice(data);
    }
    fn into_seed_stream(self) -> RecStream {
        RecStream { inner: self.inner.into_seed_stream(), key: (self.seed.to_vec(), self.dst, self.binder), read: vec![] }
    }
}
impl TryRng for RecStream {
    type Error = Infallible;
    fn try_fill_bytes(&mut self, dest: &mut [u8]) -> Result<(), Infallible> {
        self.inner.fill_bytes(dest);
        self.read.extend_from_slice(dest);
        Ok(())
    }
    fn try_next_u32(&mut self) -> Result<u32, Infallible> {
        next_word_via_fill(self)
    }
    fn try_next_u64(&mut self) -> Result<u64, Infallible> {
        next_word_via_fill(self)
    }
}
impl Drop for RecStream {
    fn drop(&mut self) {
        let (s, d, b) = std::mem::take(&mut self.key);
        let r = std::mem::take(&mut self.read);
        LOG.with(|l| l.borrow_mut().push((s, d, b, r)));
    }
}

/// forget everything recorded so far
pub fn start() {
    LOG.with(|l| l.borrow_mut().clear());
}

/// the table of everything recorded since `start`, one entry per key (longest read wins)
pub fn table() -> String {
    let log = LOG.with(|l| std::mem::take(&mut *l.borrow_mut()));
    let mut best: std::collections::BTreeMap<(Vec<u8>, Vec<u8>, Vec<u8>), Vec<u8>> = Default::default();
    for (s, d, b, r) in log {
        let e = best.entry((s, d, b)).or_default();
        if r.len() > e.len() {
            *e = r;
        }
    }
    if best.is_empty() {
        return "none".into();
    }
    best.into_iter().map(|((s, d, b), r)| format!("{}:{}:{}:{}", hex(&s), hex(&d), hex(&b), hex(&r))).collect::<Vec<_>>().join(",")
}
