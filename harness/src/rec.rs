//! `RecXof`: XofTurboShake128 behind the public `Xof<32>` trait, recording for every stream the
//! key (seed, concatenated dst, concatenated binder) and the bytes that were read from it.
use crate::util::hex;
use prio::vdaf::xof::{Xof, XofTurboShake128};
use rand_core::{utils::next_word_via_fill, Rng, TryRng};
use std::cell::RefCell;
use std::convert::Infallible;

thread_local! {
    static LOG: RefCell<Vec<(Vec<u8>, Vec<u8>, Vec<u8>, Vec<u8>)>> = const { RefCell::new(Vec::new()) };
    /// first 16 stream bytes -> the key that produced them (whole run)
    static SEEN: RefCell<std::collections::HashMap<Vec<u8>, (Vec<u8>, Vec<u8>, Vec<u8>)>> = RefCell::new(Default::default());
    /// pairs of distinct keys whose streams begin with the same 16 bytes
    static COLLISIONS: RefCell<Vec<String>> = const { RefCell::new(Vec::new()) };
    /// planted rejections: (every, size) = every `every`-th block of `size` bytes of EVERY stream (from byte 16 on)
    /// is replaced by 0xff bytes, i.e. by a value the rejection sampler refuses
    static PLANT: std::cell::Cell<Option<(usize, usize)>> = const { std::cell::Cell::new(None) };
}

/// Turn the planted rejections on or off.  The rule is a function of the stream position only, so client and
/// aggregators — which run the same XOF type — stay consistent, and the recorded table shows the planted bytes to
/// the model.
pub fn plant(rule: Option<(usize, usize)>) {
    PLANT.with(|p| p.set(rule));
}

#[derive(Clone, Debug)]
pub struct RecXof {
    inner: XofTurboShake128,
    seed: [u8; 32],
    dst: Vec<u8>,
    binder: Vec<u8>,
}

pub struct RecStream {
    inner: <XofTurboShake128 as Xof<32>>::SeedStream,
    key: (Vec<u8>, Vec<u8>, Vec<u8>),
    read: Vec<u8>,
}

impl Xof<32> for RecXof {
    type SeedStream = RecStream;
    fn init(seed: &[u8; 32], dst_parts: &[&[u8]]) -> Self {
        RecXof { inner: XofTurboShake128::init(seed, dst_parts), seed: *seed, dst: dst_parts.concat(), binder: vec![] }
    }
    fn update(&mut self, data: &[u8]) {
        self.inner.update(data);
        self.binder.extend_from_slice(data);
    }
    fn into_seed_stream(self) -> RecStream {
        RecStream { inner: self.inner.into_seed_stream(), key: (self.seed.to_vec(), self.dst, self.binder), read: vec![] }
    }
}
impl TryRng for RecStream {
    type Error = Infallible;
    fn try_fill_bytes(&mut self, dest: &mut [u8]) -> Result<(), Infallible> {
        self.inner.fill_bytes(dest);
        if let Some((every, size)) = PLANT.with(|p| p.get()) {
            let pos = self.read.len();
            for (i, b) in dest.iter_mut().enumerate() {
                let at = pos + i;
                if at >= 16 && (at / size) % every == every - 1 {
                    *b = 0xff;
                }
            }
        }
        self.read.extend_from_slice(dest);
        Ok(())
    }
    fn try_next_u32(&mut self) -> Result<u32, Infallible> {
        next_word_via_fill(self)
    }
    fn try_next_u64(&mut self) -> Result<u64, Infallible> {
        next_word_via_fill(self)
    }
}
impl Drop for RecStream {
    fn drop(&mut self) {
        let (s, d, b) = std::mem::take(&mut self.key);
        let r = std::mem::take(&mut self.read);
        // a stream is a function of (seed, dst, binder) and of nothing less: two different keys giving the
        // same 128 bits means some part of a key was not absorbed (or a 2^-128 accident)
        if r.len() >= 16 {
            let k = (s.clone(), d.clone(), b.clone());
            SEEN.with(|m| {
                let mut m = m.borrow_mut();
                match m.get(&r[..16]) {
                    Some(prev) if *prev != k => {
                        let what = if prev.0 != k.0 { "seed" } else if prev.1 != k.1 { "domain separation tag (context)" } else { "binder" };
                        COLLISIONS.with(|c| {
                            let mut c = c.borrow_mut();
                            if c.len() < 50 {
                                c.push(format!("streams of two XOF invocations that differ in the {} coincide: dst {} vs {}, binder {} vs {}", what, hex(&prev.1), hex(&k.1), hex(&prev.2), hex(&k.2)));
                            }
                        });
                    }
                    Some(_) => {}
                    None => {
                        if m.len() < 2_000_000 {
                            m.insert(r[..16].to_vec(), k);
                        }
                    }
                }
            });
        }
        LOG.with(|l| l.borrow_mut().push((s, d, b, r)));
    }
}

/// forget everything recorded so far
pub fn start() {
    LOG.with(|l| l.borrow_mut().clear());
}

/// the table of everything recorded since `start`, one entry per key (longest read wins)
pub fn table() -> String {
    let log = LOG.with(|l| std::mem::take(&mut *l.borrow_mut()));
    let mut best: std::collections::BTreeMap<(Vec<u8>, Vec<u8>, Vec<u8>), Vec<u8>> = Default::default();
    for (s, d, b, r) in log {
        let e = best.entry((s, d, b)).or_default();
        if r.len() > e.len() {
            *e = r;
        }
    }
    if best.is_empty() {
        return "none".into();
    }
    best.into_iter().map(|((s, d, b), r)| format!("{}:{}:{}:{}", hex(&s), hex(&d), hex(&b), hex(&r))).collect::<Vec<_>>().join(",")
}

/// distinct XOF inputs whose streams coincided during the run
pub fn collisions() -> Vec<String> {
    COLLISIONS.with(|c| std::mem::take(&mut *c.borrow_mut()))
}
