//! Shared helpers: deterministic PRNG, hex, output sinks.
use std::fmt::Write as _;
use std::io::Write as _;

/// SplitMix64: every random choice of the harness derives from one of these.
#[derive(Clone)]
pub struct Sm(pub u64);
impl Sm {
    pub fn new(seed: u64) -> Self {
        Sm(seed.wrapping_mul(0x9E3779B97F4A7C15) ^ 0xD1B54A32D192ED03)
    }
    pub fn next(&mut self) -> u64 {
        self.0 = self.0.wrapping_add(0x9E3779B97F4A7C15);
        let mut z = self.0;
        z = (z ^ (z >> 30)).wrapping_mul(0xBF58476D1CE4E5B9);
        z = (z ^ (z >> 27)).wrapping_mul(0x94D049BB133111EB);
        z ^ (z >> 31)
    }
    pub fn u128(&mut self) -> u128 {
        ((self.next() as u128) << 64) | self.next() as u128
    }
    pub fn below(&mut self, n: u64) -> u64 {
        if n == 0 {
            0
        } else {
            self.next() % n
        }
    }
    pub fn bytes(&mut self, n: usize) -> Vec<u8> {
        (0..n).map(|_| self.next() as u8).collect()
    }
    pub fn fork(&mut self) -> Sm {
        Sm::new(self.next())
    }
}

pub fn hex(b: &[u8]) -> String {
    if b.is_empty() {
        return "-".into();
    }
    let mut s = String::with_capacity(b.len() * 2);
    for x in b {
        write!(s, "{:02x}", x).unwrap();
    }
    s
}

pub fn unhex(s: &str) -> Vec<u8> {
    if s == "-" {
        return vec![];
    }
    (0..s.len() / 2)
        .map(|i| u8::from_str_radix(&s[2 * i..2 * i + 2], 16).unwrap())
        .collect()
}

/// Collects the operation lines, the implementation's answers, oracle failures and statistics of
/// one run.
pub struct Out {
    pub ops: Vec<String>,
    pub imp: Vec<String>,
    pub oracle_failures: Vec<(String, String)>,
    pub oracle_checks: u64,
    pub stats: std::collections::BTreeMap<String, u64>,
    pub samples: Vec<String>,
}

impl Out {
    pub fn new() -> Self {
        Out {
            ops: vec![],
            imp: vec![],
            oracle_failures: vec![],
            oracle_checks: 0,
            stats: Default::default(),
            samples: vec![],
        }
    }
    /// one correspondence case: the operation line sent to the model and the implementation's answer
    pub fn case(&mut self, op: String, imp: String) {
        debug_assert!(!op.contains('\n') && !imp.contains('\n'));
        self.ops.push(op);
        self.imp.push(imp);
    }
    pub fn count(&mut self, key: &str) {
        *self.stats.entry(key.to_string()).or_insert(0) += 1;
    }
    pub fn count_n(&mut self, key: &str, n: u64) {
        *self.stats.entry(key.to_string()).or_insert(0) += n;
    }
    /// result of one implementation-level oracle check
    pub fn oracle(&mut self, ok: bool, case: impl FnOnce() -> String, detail: impl FnOnce() -> String) {
        self.oracle_checks += 1;
        if !ok && self.oracle_failures.len() < 400000 {
            self.oracle_failures.push((case(), detail()));
        }
    }
    pub fn write(&self, dir: &str, prop: &str) -> std::io::Result<()> {
        std::fs::create_dir_all(dir)?;
        let mut f = std::io::BufWriter::new(std::fs::File::create(format!("{dir}/{prop}.ops"))?);
        for l in &self.ops {
            writeln!(f, "{}", l)?;
        }
        f.flush()?;
        let mut f = std::io::BufWriter::new(std::fs::File::create(format!("{dir}/{prop}.impl"))?);
        for l in &self.imp {
            writeln!(f, "{}", l)?;
        }
        f.flush()?;
        let mut f = std::fs::File::create(format!("{dir}/{prop}.stats.json"))?;
        let esc = |s: &str| s.replace('\\', "\\\\").replace('"', "\\\"");
        write!(f, "{{\"cases\": {}, \"oracle_checks\": {}, \"oracle_failures\": [", self.ops.len(), self.oracle_checks)?;
        for (i, (c, d)) in self.oracle_failures.iter().enumerate() {
            if i > 0 {
                write!(f, ",")?;
            }
            write!(f, "{{\"case\": \"{}\", \"detail\": \"{}\"}}", esc(c), esc(d))?;
        }
        write!(f, "], \"distribution\": {{")?;
        for (i, (k, v)) in self.stats.iter().enumerate() {
            if i > 0 {
                write!(f, ",")?;
            }
            write!(f, "\"{}\": {}", esc(k), v)?;
        }
        write!(f, "}}, \"samples\": [")?;
        for (i, s) in self.samples.iter().enumerate() {
            if i > 0 {
                write!(f, ",")?;
            }
            write!(f, "\"{}\"", esc(s))?;
        }
        writeln!(f, "]}}")?;
        Ok(())
    }
}

/// run `f`, mapping a panic to `Err(message)`
pub fn catch<T>(f: impl FnOnce() -> T + std::panic::UnwindSafe) -> Result<T, String> {
    std::panic::catch_unwind(f).map_err(|e| {
        if let Some(s) = e.downcast_ref::<&str>() {
            s.to_string()
        } else if let Some(s) = e.downcast_ref::<String>() {
            s.clone()
        } else {
            "panic".to_string()
        }
    })
}
