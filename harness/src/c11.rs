//! C11: seed streams are chunking-independent; field sampling follows the spec exactly.
use crate::util::{hex, unhex, Out, Sm};
use prio::codec::Encode;
use prio::field::{Field128, Field255, Field64, FieldElement, FieldPrio2};
use prio::idpf::IdpfValue;
use prio::vdaf::xof::{IntoFieldVec, Xof, XofFixedKeyAes128, XofFixedKeyAes128Key, XofHmacSha256Aes128, XofTurboShake128};
use rand_core::{utils::next_word_via_fill, Rng, TryRng};
use std::convert::Infallible;

/// replays a fixed tape; beyond its end it yields zeros. Counts the bytes handed out.
pub struct Tape {
    pub data: Vec<u8>,
    pub pos: usize,
    pub calls: Vec<usize>,
}
impl Tape {
    pub fn new(data: Vec<u8>) -> Self {
        Tape { data, pos: 0, calls: vec![] }
    }
}
impl TryRng for Tape {
    type Error = Infallible;
    fn try_fill_bytes(&mut self, dest: &mut [u8]) -> Result<(), Infallible> {
        for d in dest.iter_mut() {
            *d = self.data.get(self.pos).copied().unwrap_or(0);
            self.pos += 1;
        }
        self.calls.push(dest.len());
        Ok(())
    }
    fn try_next_u32(&mut self) -> Result<u32, Infallible> {
        next_word_via_fill(self)
    }
    fn try_next_u64(&mut self) -> Result<u64, Infallible> {
        next_word_via_fill(self)
    }
}
/// a second handle on the same tape, so that the position can be read after the consumer took ownership
pub struct Shared<'a>(pub &'a mut Tape);
impl TryRng for Shared<'_> {
    type Error = Infallible;
    fn try_fill_bytes(&mut self, dest: &mut [u8]) -> Result<(), Infallible> {
        self.0.try_fill_bytes(dest)
    }
    fn try_next_u32(&mut self) -> Result<u32, Infallible> {
        next_word_via_fill(self)
    }
    fn try_next_u64(&mut self) -> Result<u64, Infallible> {
        next_word_via_fill(self)
    }
}

fn fname<F: FieldElement>() -> &'static str {
    match F::ENCODED_SIZE {
        4 => "FP32",
        8 => "FP64",
        16 => "FP128",
        _ => "F255",
    }
}

fn enc<F: FieldElement>(v: &[F]) -> String {
    let mut b = vec![];
    for x in v {
        x.encode(&mut b).unwrap();
    }
    hex(&b)
}

/// a chunk that the sampler of field `F` must reject / accept
/// little-endian bytes of the field modulus plus `delta` (the moduli are written out here, not asked
/// of the library: the boundary chunks must not depend on the code under test)
fn modulus_plus(sz: usize, delta: i64) -> Vec<u8> {
    let mut b: Vec<u8> = match sz {
        4 => 4293918721u32.to_le_bytes().to_vec(),
        8 => 18446744069414584321u64.to_le_bytes().to_vec(),
        16 => 340282366920938462946865773367900766209u128.to_le_bytes().to_vec(),
        _ => {
            // 2^255 - 19
            let mut b = vec![0xffu8; 32];
            b[0] = 0xed;
            b[31] = 0x7f;
            b
        }
    };
    // the low byte of every modulus is far enough from 0 and 255 for |delta| <= 2
    b[0] = (b[0] as i64 + delta) as u8;
    b
}

fn chunk<F: FieldElement>(rng: &mut Sm, reject: bool) -> Vec<u8> {
    let sz = F::ENCODED_SIZE;
    // boundary chunks: exactly the modulus and modulus + 1 are rejected, modulus - 1 is accepted
    if rng.below(4) == 0 {
        return modulus_plus(sz, if reject { rng.below(2) as i64 } else { -1 });
    }
    loop {
        let mut b = if reject {
            let mut b = vec![0xff; sz];
            // vary the low bytes but stay at or above the modulus (all four moduli are 2^k - small)
            let keep = match sz { 4 => 2, 8 => 4, 16 => 8, _ => 1 };
            let r = rng.bytes(keep);
            if sz == 32 {
                b[0] = 0xed + (r[0] % 19);
            } else {
                b[..keep].copy_from_slice(&r);
                if sz == 16 {
                    // p128 = 2^128 - 2^66*7 + 1 roughly: keep the top bytes all ones, randomise only the low 8
                }
            }
            b
        } else {
            rng.bytes(sz)
        };
        if sz == 32 && !reject && rng.below(2) == 0 {
            b[31] |= 0x80; // the top bit is masked off by the sampler
        }
        let mut t = Tape::new(b.clone());
        t.data.extend_from_slice(&vec![0u8; sz]); // a zero chunk is always accepted
        let mut sh = Shared(&mut t);
        let _x: F = F::generate(&mut sh, &());
        let first_accepted = t.pos == sz;
        if first_accepted != reject {
            return b;
        }
    }
}

fn prng_cases<F: FieldElement>(out: &mut Out, rng: &mut Sm, thorough: bool) {
    let f = fname::<F>();
    let sz = F::ENCODED_SIZE;
    let mut patterns: Vec<Vec<bool>> = vec![];
    // one rejection at every position across two buffer refills; pairs; runs; rejection at the last slot
    let span = if thorough { 100 } else { 70 };
    for k in 0..span {
        let mut p = vec![false; span + 4];
        p[k] = true;
        patterns.push(p);
    }
    for k in [0usize, 30, 31, 32, 33, 62, 63, 64, 65] {
        let mut p = vec![false; 80];
        p[k] = true;
        p[k + 1] = true;
        patterns.push(p.clone());
        p[k + 2] = true;
        patterns.push(p);
    }
    patterns.push(vec![true; 40].into_iter().chain(vec![false; 40]).collect());
    for _ in 0..(if thorough { 300 } else { 40 }) {
        patterns.push((0..90).map(|_| rng.below(4) == 0).collect());
    }
    for pat in patterns {
        let mut tape = vec![];
        for r in &pat {
            tape.extend_from_slice(&chunk::<F>(rng, *r));
        }
        let accepted = pat.iter().filter(|r| !**r).count();
        for n in [accepted.min(1), accepted / 2, accepted.saturating_sub(3)] {
            let mut t = Tape::new(tape.clone());
            let v: Vec<F> = Shared(&mut t).into_field_vec(n);
            out.case(format!("prng {} {} {}", f, n, hex(&tape)), format!("{} {}", enc(&v), t.pos));
            // oracle: the elements are the accepted chunks in order (direct re-computation)
            let mut want = vec![];
            for (c, r) in tape.chunks(sz).zip(pat.iter()) {
                if want.len() == n {
                    break;
                }
                if !*r {
                    let mut c = c.to_vec();
                    if sz == 32 {
                        c[31] &= 0x7f;
                    }
                    want.push(c);
                }
            }
            let got: Vec<Vec<u8>> = v.iter().map(|x| x.get_encoded().unwrap()).collect();
            out.oracle(got == want, || format!("prng {} n={} pattern={:?}", f, n, pat.iter().map(|b| *b as u8).collect::<Vec<_>>()), || "elements are not the accepted chunks in order".into());
            out.oracle(t.calls.iter().all(|c| *c <= 32 * sz), || format!("prng {} reads", f), || "read larger than the buffer".into());
            out.count(&format!("prng.{}", f));
        }
        // unbuffered sampler
        let n = accepted.min(5);
        let mut t = Tape::new(tape.clone());
        let v: Vec<F> = (0..n).map(|_| F::generate(&mut Shared(&mut t), &())).collect();
        out.case(format!("genrand {} {} {}", f, n, hex(&tape)), format!("{} {}", enc(&v), t.pos));
        out.count(&format!("genrand.{}", f));
    }
}

fn switch_cases(out: &mut Out, rng: &mut Sm, thorough: bool) {
    for _ in 0..(if thorough { 600 } else { 80 }) {
        let n1 = rng.below(40) as usize;
        let n2 = rng.below(12) as usize;
        let mut tape = vec![];
        // Field64 part with planted rejections, then arbitrary bytes (Field255 chunks straddle the buffer)
        for _ in 0..n1 + 6 {
            let r = rng.below(5) == 0;
            tape.extend_from_slice(&chunk::<Field64>(rng, r));
        }
        for _ in 0..n2 + 12 {
            let r = rng.below(5) == 0;
            tape.extend_from_slice(&chunk::<Field255>(rng, r));
        }
        let mut t = Tape::new(tape.clone());
        let (a, b) = prio::verif_hooks::prng_switch_fields(Shared(&mut t), n1, n2);
        // the definition, independent of the buffering: successive accepted chunks of the tape, 8 bytes each for
        // the first field, then — from the byte after the last one consumed — 32 bytes each for the second
        {
            use prio::field::FieldElement;
            let mut pos = 0usize;
            let mut ea: Vec<Field64> = vec![];
            while ea.len() < n1 && pos + 8 <= tape.len() {
                if let Ok(x) = Field64::try_from_random(&tape[pos..pos + 8]) {
                    ea.push(x);
                }
                pos += 8;
            }
            let mut eb: Vec<Field255> = vec![];
            while eb.len() < n2 && pos + 32 <= tape.len() {
                if let Ok(x) = Field255::try_from_random(&tape[pos..pos + 32]) {
                    eb.push(x);
                }
                pos += 32;
            }
            out.oracle(a == ea && b == eb, || format!("prng2 {} {} {}", n1, n2, hex(&tape)), || "the outputs across the field switch are not the successive accepted chunks of the seed stream".into());
        }
        out.case(format!("prng2 {} {} {}", n1, n2, hex(&tape)), format!("{} {} {}", enc(&a), enc(&b), t.pos));
        out.count("prng2");
    }
}

fn parts(rng: &mut Sm, whole: &[u8]) -> Vec<Vec<u8>> {
    let mut out = vec![];
    let mut i = 0;
    while i < whole.len() {
        let n = 1 + rng.below((whole.len() - i) as u64) as usize;
        out.push(whole[i..i + n].to_vec());
        i += n;
        if rng.below(4) == 0 {
            out.push(vec![]);
        }
    }
    out
}

fn pstr(ps: &[Vec<u8>]) -> String {
    if ps.is_empty() {
        "none".into()
    } else {
        ps.iter().map(|p| hex(p)).collect::<Vec<_>>().join(",")
    }
}

fn stream_of<P: Xof<N>, const N: usize>(seed: &[u8; N], dst: &[Vec<u8>], binder: &[Vec<u8>], sizes: &[usize]) -> Vec<u8> {
    let d: Vec<&[u8]> = dst.iter().map(|x| x.as_slice()).collect();
    let b: Vec<&[u8]> = binder.iter().map(|x| x.as_slice()).collect();
    let mut s = P::seed_stream(seed, &d, &b);
    let mut out = vec![];
    for n in sizes {
        // sizes at or above WORD are word reads through the `rand` interface: WORD + 4 = next_u32, WORD + 8 = next_u64
        if *n == WORD + 4 {
            out.extend_from_slice(&s.next_u32().to_le_bytes());
        } else if *n == WORD + 8 {
            out.extend_from_slice(&s.next_u64().to_le_bytes());
        } else {
            let mut buf = vec![0u8; *n];
            s.fill_bytes(&mut buf);
            out.extend_from_slice(&buf);
        }
    }
    out
}

const WORD: usize = 1 << 20;

fn xof_cases<P: Xof<N>, const N: usize>(out: &mut Out, rng: &mut Sm, kind: &str, rounds: usize) {
    for i in 0..rounds {
        let seed: [u8; N] = rng.bytes(N).try_into().unwrap();
        let dl = [0usize, 1, 8, 9, 40, 200][i % 6];
        let bl = [0usize, 1, 16, 17, 100][i % 5];
        let dst = rng.bytes(dl);
        let binder = rng.bytes(bl);
        let one = stream_of::<P, N>(&seed, &[dst.clone()], &[binder.clone()], &[64]);
        // random splittings and read sizes give the same stream
        let dparts = parts(rng, &dst);
        let bparts = parts(rng, &binder);
        let mut sizes = vec![];
        let mut tot = 0;
        while tot < 64 {
            let n = rng.below(20) as usize;
            let n = n.min(64 - tot);
            // every fourth read goes through the word interface (4 or 8 bytes) when it fits
            if rng.below(4) == 0 && 64 - tot >= 8 {
                let w = if rng.below(2) == 0 { 4 } else { 8 };
                sizes.push(WORD + w);
                tot += w;
            } else {
                sizes.push(n);
                tot += n;
            }
        }
        let split = stream_of::<P, N>(&seed, &dparts, &bparts, &sizes);
        out.oracle(split == one, || format!("xof {} seed={} dst={} binder={} sizes={:?}", kind, hex(&seed), pstr(&dparts), pstr(&bparts), sizes.iter().map(|n| if *n >= WORD { format!("word{}", (n - WORD) * 8) } else { n.to_string() }).collect::<Vec<_>>()), || "stream depends on the splitting, the read sizes or the use of the word interface".into());
        // into_seed is the prefix
        let d: Vec<&[u8]> = dparts.iter().map(|x| x.as_slice()).collect();
        let mut x = P::init(&seed, &d);
        for b in &bparts {
            x.update(b);
        }
        let derived = x.into_seed();
        out.oracle(derived.as_ref()[..] == one[..N], || format!("xof {} into_seed", kind), || "derived seed is not the stream prefix".into());
        // correspondence: the model's absorbed message, hashed by the raw primitive, must give this stream
        out.case(format!("xofabs {} {} {} {}", kind, hex(&seed), pstr(&dparts), pstr(&bparts)), hex(&one));
        out.count(&format!("xof.{}", kind));
    }
}

fn fixed_key_reads(out: &mut Out, rng: &mut Sm, rounds: usize) {
    for _ in 0..rounds {
        let seed: [u8; 16] = rng.bytes(16).try_into().unwrap();
        let dst = rng.bytes(8);
        let binder = rng.bytes(16);
        let mut sizes = vec![];
        let mut tot = 0usize;
        for _ in 0..1 + rng.below(12) {
            let n = match rng.below(6) {
                0 => 0,
                1 => 16,
                2 => 1,
                3 => 15 + rng.below(3) as usize,
                _ => rng.below(50) as usize,
            };
            sizes.push(n);
            tot += n;
        }
        let one = stream_of::<XofFixedKeyAes128, 16>(&seed, &[dst.clone()], &[binder.clone()], &[tot.div_ceil(16) * 16 + 16]);
        let key = XofFixedKeyAes128Key::new(&[&dst], &binder);
        let mut s = key.with_seed(&seed);
        let mut reads = vec![];
        for n in &sizes {
            let mut buf = vec![0u8; *n];
            s.fill_bytes(&mut buf);
            reads.push(hex(&buf));
        }
        let joined: Vec<u8> = reads.iter().flat_map(|h| unhex(h)).collect();
        out.oracle(joined[..] == one[..tot], || format!("fkreads sizes={:?}", sizes), || "reads are not consecutive pieces of the one-shot stream".into());
        out.case(
            format!("fkreads {} {}", hex(&one), sizes.iter().map(|n| n.to_string()).collect::<Vec<_>>().join(",")),
            reads.join(" "),
        );
        out.count("fkreads");
    }
}

pub fn run(out: &mut Out, thorough: bool, seed: u64) {
    let mut rng = Sm::new(seed ^ 0xC11);
    prng_cases::<FieldPrio2>(out, &mut rng, thorough);
    prng_cases::<Field64>(out, &mut rng, thorough);
    prng_cases::<Field128>(out, &mut rng, thorough);
    prng_cases::<Field255>(out, &mut rng, thorough);
    switch_cases(out, &mut rng, thorough);
    let r = if thorough { 600 } else { 90 };
    xof_cases::<XofTurboShake128, 32>(out, &mut rng, "ts", r);
    xof_cases::<XofFixedKeyAes128, 16>(out, &mut rng, "fk", r);
    xof_cases::<XofHmacSha256Aes128, 32>(out, &mut rng, "hm", r);
    fixed_key_reads(out, &mut rng, r * 2);
    let _ = <Field128 as IdpfValue>::zero(&());
    out.samples = out.ops.iter().step_by(out.ops.len() / 12 + 1).map(|s| s.chars().take(300).collect()).collect();
}

/// Replace, in the model's answers, every absorbed message by the stream the raw primitives derive
/// from it, so that it can be compared with the stream the library produced.
pub fn posthash(ops_path: &str, model_path: &str) -> std::io::Result<()> {
    use aes::cipher::{Array, BlockCipherEncrypt, KeyInit, KeyIvInit, StreamCipher};
    use hmac::Mac;
    use turboshake::digest::{ExtendableOutput, Update, XofReader};
    let ops = std::fs::read_to_string(ops_path)?;
    let model = std::fs::read_to_string(model_path)?;
    let mut outl = vec![];
    for (op, m) in ops.lines().zip(model.lines()) {
        let w: Vec<&str> = op.split(' ').collect();
        if w[0] != "xofabs" || m == "panic" || m == "bad-op" {
            outl.push(m.to_string());
            continue;
        }
        let absorbed = unhex(m);
        let seed = unhex(w[2]);
        let stream: Vec<u8> = match w[1] {
            "ts" => {
                let mut h = turboshake::CTurboShake128::<1>::default();
                h.update(&absorbed);
                let mut o = vec![0u8; 64];
                h.finalize_xof().read(&mut o);
                o
            }
            "fk" => {
                let mut h = turboshake::CTurboShake128::<2>::default();
                h.update(&absorbed);
                let mut key = [0u8; 16];
                h.finalize_xof().read(&mut key);
                let cipher = aes::Aes128::new(&Array::from(key));
                let mut o = vec![];
                for ctr in 0u64..4 {
                    let mut block = [0u8; 16];
                    block.copy_from_slice(&seed);
                    for (b, c) in block.iter_mut().zip(ctr.to_le_bytes()) {
                        *b ^= c;
                    }
                    let mut sigma = [0u8; 16];
                    sigma[..8].copy_from_slice(&block[8..]);
                    for i in 0..8 {
                        sigma[8 + i] = block[8 + i] ^ block[i];
                    }
                    let mut enc = Array::from(sigma);
                    cipher.encrypt_block(&mut enc);
                    for i in 0..16 {
                        o.push(enc[i] ^ sigma[i]);
                    }
                }
                o
            }
            _ => {
                let mut mac = <hmac::Hmac<sha2::Sha256> as KeyInit>::new_from_slice(&seed).unwrap();
                Mac::update(&mut mac, &absorbed);
                let tag = mac.finalize().into_bytes();
                let key: [u8; 16] = tag[..16].try_into().unwrap();
                let iv: [u8; 16] = tag[16..].try_into().unwrap();
                let mut c = <ctr::Ctr64BE<aes::Aes128> as KeyIvInit>::new(&key.into(), &iv.into());
                let mut o = vec![0u8; 64];
                c.apply_keystream(&mut o);
                o
            }
        };
        outl.push(hex(&stream));
    }
    std::fs::write(model_path, outl.join("\n") + "\n")
}
