//! C13: aggregation is independent of order, grouping and batching of shares.
use crate::util::{hex, Out, Sm};
use prio::codec::Encode;
use prio::field::{Field128, Field255, Field64, FieldElement, FieldPrio2};
use prio::vdaf::poplar1::Poplar1FieldVec;
use prio::vdaf::prio3::Prio3;
use prio::vdaf::{Aggregatable, AggregateShare, Aggregator, OutputShare};
use prio::vdaf::xof::XofTurboShake128;
use prio::flp::types::Count;

fn fname<F: FieldElement>() -> &'static str {
    match F::ENCODED_SIZE {
        4 => "FP32",
        8 => "FP64",
        16 => "FP128",
        _ => "F255",
    }
}

fn rand_elem<F: FieldElement>(rng: &mut Sm) -> F {
    // rejection sampling through the canonical decoder; extremes with probability 1/4
    match rng.below(8) {
        0 => F::zero(),
        1 => -F::one(),
        _ => loop {
            let mut b = rng.bytes(F::ENCODED_SIZE);
            if F::ENCODED_SIZE == 32 {
                b[31] &= 0x7f;
            }
            if let Ok(x) = F::get_decoded(&b) {
                return x;
            }
        },
    }
}

fn rand_vec<F: FieldElement>(rng: &mut Sm, n: usize) -> Vec<F> {
    (0..n).map(|_| rand_elem(rng)).collect()
}

fn enc<F: FieldElement>(v: &[F]) -> String {
    let mut b = vec![];
    for x in v {
        x.encode(&mut b).unwrap();
    }
    hex(&b)
}

fn field_cases<F: FieldElement>(out: &mut Out, rng: &mut Sm, rounds: usize) {
    let f = fname::<F>();
    for _ in 0..rounds {
        let n = rng.below(6) as usize;
        let k = 1 + rng.below(7) as usize;
        let shares: Vec<Vec<F>> = (0..k).map(|_| rand_vec(rng, n)).collect();
        // single pass
        let mut acc = AggregateShare::from(vec![F::zero(); n]);
        for s in &shares {
            acc.accumulate(&OutputShare::from(s.clone())).unwrap();
        }
        let single = acc.get_encoded().unwrap();
        out.case(
            format!("agg {} {} {}", f, enc(&vec![F::zero(); n]), shares.iter().map(|s| enc(s)).collect::<Vec<_>>().join(" ")),
            format!("ok {}", hex(&single)),
        );
        // a random permutation, a random partition into batches, a random merge tree
        let mut perm = shares.clone();
        for i in (1..perm.len()).rev() {
            perm.swap(i, rng.below(i as u64 + 1) as usize);
        }
        let mut acc2 = AggregateShare::from(vec![F::zero(); n]);
        for s in &perm {
            acc2.accumulate(&OutputShare::from(s.clone())).unwrap();
        }
        out.oracle(acc2.get_encoded().unwrap() == single, || format!("perm {} n={} k={}", f, n, k), || "permuted pass differs".into());
        let mut batches: Vec<AggregateShare<F>> = vec![];
        let mut i = 0;
        while i < perm.len() {
            let sz = 1 + rng.below((perm.len() - i) as u64) as usize;
            let mut b = AggregateShare::from(vec![F::zero(); n]);
            for s in &perm[i..i + sz] {
                b.accumulate(&OutputShare::from(s.clone())).unwrap();
            }
            batches.push(b);
            i += sz;
        }
        // merge the batch aggregates in a random tree shape
        while batches.len() > 1 {
            let j = rng.below(batches.len() as u64 - 1) as usize;
            let r = batches.remove(j + 1);
            if rng.below(2) == 0 {
                batches[j].merge(&r).unwrap();
            } else {
                let mut r2 = r.clone();
                r2.merge(&batches[j]).unwrap();
                batches[j] = r2;
            }
        }
        out.oracle(batches[0].get_encoded().unwrap() == single, || format!("batched {} n={} k={}", f, n, k), || "batched/tree result differs".into());
        out.count(&format!("agg.{}", f));
        // pairwise merge incl. identity and mismatch
        let a = rand_vec::<F>(rng, n);
        let m = if rng.below(3) == 0 { n + 1 + rng.below(2) as usize } else { n };
        let b = rand_vec::<F>(rng, m);
        let mut x = AggregateShare::from(a.clone());
        let before = x.get_encoded().unwrap();
        let r = x.merge(&AggregateShare::from(b.clone()));
        let imp = if r.is_ok() { format!("ok {}", hex(&x.get_encoded().unwrap())) } else { "err".to_string() };
        out.oracle(r.is_ok() == (m == n), || format!("merge {} {} {}", f, n, m), || "mismatch not refused / match refused".into());
        if r.is_err() {
            out.oracle(x.get_encoded().unwrap() == before, || format!("merge {} {} {}", f, n, m), || "accumulator changed by a refused merge".into());
            let mut y = AggregateShare::from(a.clone());
            let r2 = y.accumulate(&OutputShare::from(b.clone()));
            out.oracle(r2.is_err() && y.get_encoded().unwrap() == before, || format!("accumulate {} {} {}", f, n, m), || "accumulate accepted or changed the accumulator".into());
        }
        out.case(format!("merge {} {} {}", f, enc(&a), enc(&b)), imp);
        out.count(&format!("merge.{}.{}", f, if m == n { "match" } else { "mismatch" }));
    }
}

fn fieldvec_cases(out: &mut Out, rng: &mut Sm, rounds: usize) {
    for _ in 0..rounds {
        let n = rng.below(4) as usize;
        let m = if rng.below(4) == 0 { n + 1 } else { n };
        let mk = |leaf: bool, len: usize, rng: &mut Sm| -> (Poplar1FieldVec, String) {
            if leaf {
                let v = rand_vec::<Field255>(rng, len);
                let s = format!("L {}", enc(&v));
                (Poplar1FieldVec::Leaf(v), s)
            } else {
                let v = rand_vec::<Field64>(rng, len);
                let s = format!("I {}", enc(&v));
                (Poplar1FieldVec::Inner(v), s)
            }
        };
        let (ka, kb) = (rng.below(2) == 1, rng.below(2) == 1);
        let (mut a, sa) = mk(ka, n, rng);
        let (b, sb) = mk(kb, m, rng);
        let before = a.get_encoded().unwrap();
        let use_acc = rng.below(2) == 0;
        let r = if use_acc { a.accumulate(&b) } else { a.merge(&b) };
        let imp = match (&r, &a) {
            (Ok(()), Poplar1FieldVec::Inner(_)) => format!("ok I {}", hex(&a.get_encoded().unwrap())),
            (Ok(()), Poplar1FieldVec::Leaf(_)) => format!("ok L {}", hex(&a.get_encoded().unwrap())),
            (Err(_), _) => "err".into(),
        };
        out.oracle(r.is_ok() == (ka == kb && n == m), || format!("fvmerge {} {}", sa, sb), || "kind/length mismatch handling".into());
        if r.is_err() {
            out.oracle(a.get_encoded().unwrap() == before, || format!("fvmerge {} {}", sa, sb), || "accumulator changed by a refused merge".into());
        }
        out.count(&format!("fvmerge.{}", if r.is_ok() { "ok" } else { "err" }));
        out.case(format!("fvmerge {} {}", sa, sb), imp);
    }
}

/// `Poplar1::unshard`: the aggregate shares must be of the kind (inner / leaf) and length the
/// aggregation parameter says; the result is their sum over the candidates
fn poplar1_unshard_cases(out: &mut Out, rng: &mut Sm, rounds: usize) {
    use prio::idpf::IdpfInput;
    use prio::vdaf::poplar1::{Poplar1, Poplar1AggregationParam};
    use prio::vdaf::Collector;
    for _ in 0..rounds {
        let bits = 1 + rng.below(5) as usize;
        let level = rng.below(bits as u64) as usize;
        let vdaf = Poplar1::new_turboshake128(bits);
        // distinct sorted prefixes of length level + 1
        let mut set: std::collections::BTreeSet<Vec<bool>> = Default::default();
        for _ in 0..(1 + rng.below(3)) {
            set.insert((0..level + 1).map(|_| rng.below(2) == 1).collect());
        }
        let prefixes: Vec<Vec<bool>> = set.into_iter().collect();
        let ap = Poplar1AggregationParam::try_from_prefixes(prefixes.iter().map(|p| IdpfInput::from_bools(p)).collect()).unwrap();
        let want_leaf = level + 1 == bits;
        let nshares = rng.below(4) as usize;
        let mut shares = vec![];
        let mut shown = vec![];
        let mut all_match = true;
        for _ in 0..nshares {
            let leaf = if rng.below(5) == 0 { !want_leaf } else { want_leaf };
            let len = match rng.below(6) {
                0 => prefixes.len() + 1,
                1 => prefixes.len().saturating_sub(1),
                _ => prefixes.len(),
            };
            all_match &= leaf == want_leaf && len == prefixes.len();
            if leaf {
                // small values so that the leaf sum converts to u64
                let v: Vec<Field255> = (0..len).map(|_| Field255::from(rng.next() % 1000)).collect();
                shown.push(format!("L:{}", enc(&v)));
                shares.push(Poplar1FieldVec::Leaf(v));
            } else {
                let v = rand_vec::<Field64>(rng, len);
                shown.push(format!("I:{}", enc(&v)));
                shares.push(Poplar1FieldVec::Inner(v));
            }
        }
        let r = vdaf.unshard(&ap, shares, nshares);
        out.oracle(r.is_ok() == all_match, || format!("poplar1 unshard bits={} level={} prefixes={} shares={}", bits, level, prefixes.len(), shown.join(" ")), || format!("unshard {} although the shares {} the aggregation parameter", if r.is_ok() { "succeeded" } else { "failed" }, if all_match { "match" } else { "do not match" }));
        let imp = match &r {
            Ok(v) => format!("ok {}", v.iter().map(|x| x.to_string()).collect::<Vec<_>>().join(",")),
            Err(_) => "err".into(),
        };
        out.case(format!("popunshard {} {} {}", if want_leaf { "L" } else { "I" }, prefixes.len(), if shown.is_empty() { "-".to_string() } else { shown.join(" ") }), imp);
        out.count(&format!("popunshard.{}", if r.is_ok() { "ok" } else { "err" }));
    }
}

pub fn run(out: &mut Out, thorough: bool, seed: u64) {
    let mut rng = Sm::new(seed ^ 0xC13);
    let rounds = if thorough { 4000 } else { 400 };
    poplar1_unshard_cases(out, &mut rng, rounds / 2);
    field_cases::<FieldPrio2>(out, &mut rng, rounds);
    field_cases::<Field64>(out, &mut rng, rounds);
    field_cases::<Field128>(out, &mut rng, rounds);
    field_cases::<Field255>(out, &mut rng, rounds / 2);
    fieldvec_cases(out, &mut rng, rounds * 2);
    // the trait-level `aggregate` of a real VDAF equals the single pass
    let vdaf: Prio3<Count<Field64>, XofTurboShake128, 32> = Prio3::new(2, 1, 1, Count::new()).unwrap();
    for _ in 0..rounds / 4 {
        let k = rng.below(6) as usize;
        let shares: Vec<Vec<Field64>> = (0..k).map(|_| rand_vec(&mut rng, 1)).collect();
        let agg = vdaf.aggregate(&(), shares.iter().map(|s| OutputShare::from(s.clone()))).unwrap();
        out.case(
            format!("agg FP64 {} {}", enc(&[Field64::zero()]), shares.iter().map(|s| enc(s)).collect::<Vec<_>>().join(" ")).trim_end().to_string(),
            format!("ok {}", hex(&agg.get_encoded().unwrap())),
        );
    }
    // `aggregate` refuses a share of the wrong shape wherever it stands in the batch — first position included —
    // and otherwise equals the fold from `aggregate_init`
    {
        use prio::field::Field128;
        use prio::flp::gadgets::{Mul, ParallelSum};
        use prio::flp::types::Histogram;
        use prio::idpf::IdpfInput;
        use prio::vdaf::poplar1::{Poplar1, Poplar1AggregationParam, Poplar1FieldVec};
        let h: Prio3<Histogram<Field128, ParallelSum<Field128, Mul>>, XofTurboShake128, 32> = Prio3::new(2, 1, 3, Histogram::new(4, 2).unwrap()).unwrap();
        for k in 1..=4usize {
            for bad_at in 0..k {
                for bad_len in [0usize, 3, 5] {
                    let shares: Vec<OutputShare<Field128>> = (0..k).map(|i| OutputShare::from(rand_vec::<Field128>(&mut rng, if i == bad_at { bad_len } else { 4 }))).collect();
                    let r = h.aggregate(&(), shares);
                    out.oracle(r.is_err(), || format!("Prio3Histogram(4) aggregate: {} shares, the one at position {} has length {}", k, bad_at, bad_len), || "a batch with a wrong-length output share was aggregated".into());
                    out.count("aggregate.wrong-shape");
                }
            }
        }
        let p = Poplar1::new_turboshake128(2);
        let leaf = Poplar1AggregationParam::try_from_prefixes(vec![IdpfInput::from_bools(&[false, true]), IdpfInput::from_bools(&[true, true])]).unwrap();
        let inner = Poplar1AggregationParam::try_from_prefixes(vec![IdpfInput::from_bools(&[false]), IdpfInput::from_bools(&[true])]).unwrap();
        let good_leaf = || Poplar1FieldVec::Leaf(rand_vec::<Field255>(&mut Sm::new(7), 2));
        let good_inner = || Poplar1FieldVec::Inner(rand_vec::<Field64>(&mut Sm::new(9), 2));
        let bads_for_leaf: Vec<(&str, Poplar1FieldVec)> = vec![("an inner-level share", good_inner()), ("a leaf share of length 3", Poplar1FieldVec::Leaf(rand_vec::<Field255>(&mut rng, 3))), ("an empty leaf share", Poplar1FieldVec::Leaf(vec![]))];
        for (what, bad) in &bads_for_leaf {
            for k in 1..=3usize {
                for bad_at in 0..k {
                    let shares: Vec<Poplar1FieldVec> = (0..k).map(|i| if i == bad_at { bad.clone() } else { good_leaf() }).collect();
                    let r = p.aggregate(&leaf, shares);
                    out.oracle(r.is_err(), || format!("Poplar1 aggregate at the leaf level with 2 candidates: {} shares, position {} is {}", k, bad_at, what), || "aggregated".into());
                    out.count("aggregate.wrong-shape");
                }
            }
        }
        let r = p.aggregate(&inner, vec![good_leaf()]);
        out.oracle(r.is_err(), || "Poplar1 aggregate at an inner level: a single leaf share".to_string(), || "aggregated".into());
        let r = p.aggregate(&inner, vec![good_inner(), good_inner()]);
        out.oracle(r.is_ok(), || "Poplar1 aggregate at an inner level: two good shares".to_string(), || "refused".into());
    }
    out.samples = out.ops.iter().step_by(out.ops.len() / 12 + 1).map(|s| s.chars().take(300).collect()).collect();
}
