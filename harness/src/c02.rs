//! C02, the malicious client: an encoded vector outside the type's language, with a proof computed
//! honestly for it, must be refused.  The language of each type is written here from its definition
//! (every entry a bit, plus the type's one linear relation), independently of the validity circuit:
//! a vector is built with every entry but one a random bit and the remaining entry *solved* from the
//! linear relation, so that the only thing wrong with it is one entry that is not a bit — at a chosen
//! position, for parameter choices whose last ParallelSum chunk is full, holds one element, or lacks
//! one element.  The client is the real Prio3 code over a wrapper type whose `encode_measurement` is
//! the identity; the aggregators run the real type.
use crate::prio3::{honest_views, no_msg, no_vs, shard, verify, Inst};
use crate::util::{hex, Out, Sm};
use prio::field::{Field128, Field64, FieldElement, FieldElementWithInteger};
use prio::flp::gadgets::{Mul, ParallelSum};
use prio::flp::types::{Count, Histogram, L1BoundSum, MultihotCountVec, Sum, SumVec};
use prio::flp::{Flp, FlpError, Gadget, Type};

type PS = ParallelSum<Field128, Mul>;

/// the type a malicious client runs: same circuit and lengths, free choice of the encoded vector
#[derive(Clone, Debug, PartialEq, Eq)]
pub struct Raw<T: Type>(pub T);

impl<T: Type> Flp for Raw<T> {
    type Field = T::Field;
    fn gadget(&self) -> Vec<Box<dyn Gadget<T::Field>>> {
        self.0.gadget()
    }
    fn num_gadgets(&self) -> usize {
        self.0.num_gadgets()
    }
    fn valid(&self, g: &mut Vec<Box<dyn Gadget<T::Field>>>, input: &[T::Field], jr: &[T::Field], n: usize) -> Result<Vec<T::Field>, FlpError> {
        self.0.valid(g, input, jr, n)
    }
    fn input_len(&self) -> usize {
        self.0.input_len()
    }
    fn proof_len(&self) -> usize {
        self.0.proof_len()
    }
    fn verifier_len(&self) -> usize {
        self.0.verifier_len()
    }
    fn joint_rand_len(&self) -> usize {
        self.0.joint_rand_len()
    }
    fn eval_output_len(&self) -> usize {
        self.0.eval_output_len()
    }
    fn prove_rand_len(&self) -> usize {
        self.0.prove_rand_len()
    }
}

impl<T: Type> Type for Raw<T> {
    type Measurement = Vec<T::Field>;
    type AggregateResult = T::AggregateResult;
    fn encode_measurement(&self, m: &Vec<T::Field>) -> Result<Vec<T::Field>, FlpError> {
        Ok(m.clone())
    }
    fn truncate(&self, input: Vec<T::Field>) -> Result<Vec<T::Field>, FlpError> {
        self.0.truncate(input)
    }
    fn decode_result(&self, data: &[T::Field], n: usize) -> Result<T::AggregateResult, FlpError> {
        self.0.decode_result(data, n)
    }
    fn output_len(&self) -> usize {
        self.0.output_len()
    }
}

fn bits_of(max: u128) -> usize {
    (128 - max.leading_zeros()) as usize
}
fn lw(max: u128) -> u128 {
    let b = bits_of(max);
    max - ((1u128 << (b - 1)) - 1)
}

/// the language of a type: every entry a bit and `sum coeff[j] * x[j] = k` (no relation: `None`)
pub struct Lang<F> {
    pub len: usize,
    pub rel: Option<(Vec<F>, F)>,
}

pub fn digit_weights<F: FieldElementWithInteger>(bits: usize, last: u128) -> Vec<F>
where
    F::Integer: TryFrom<u128>,
    <F::Integer as TryFrom<u128>>::Error: std::fmt::Debug,
{
    (0..bits).map(|j| if j + 1 == bits { fe::<F>(last) } else { fe::<F>(1u128 << j) }).collect()
}

fn fe<F: FieldElementWithInteger>(x: u128) -> F
where
    F::Integer: TryFrom<u128>,
    <F::Integer as TryFrom<u128>>::Error: std::fmt::Debug,
{
    F::from(F::Integer::try_from(x).unwrap())
}

fn in_language<F: FieldElement>(l: &Lang<F>, x: &[F]) -> bool {
    x.len() == l.len
        && x.iter().all(|e| *e == F::zero() || *e == F::one())
        && l.rel.as_ref().map_or(true, |(c, k)| c.iter().zip(x).fold(F::zero(), |a, (c, x)| a + *c * *x) == *k)
}

/// vectors whose only defect is the entry at `pos` (not a bit); `None` when the solved entry is a bit
pub fn one_bad_entry<F: FieldElementWithInteger>(rng: &mut Sm, l: &Lang<F>, pos: usize) -> Option<Vec<F>>
where
    F::Integer: TryFrom<u128>,
    <F::Integer as TryFrom<u128>>::Error: std::fmt::Debug,
{
    let mut x: Vec<F> = (0..l.len).map(|_| if rng.next() % 2 == 0 { F::zero() } else { F::one() }).collect();
    match &l.rel {
        None => {
            x[pos] = [fe::<F>(2), F::zero() - F::one(), fe::<F>(rng.next() as u128 | 2)][rng.below(3) as usize];
        }
        Some((c, k)) => {
            x[pos] = F::zero();
            let rest = c.iter().zip(&x).fold(F::zero(), |a, (c, x)| a + *c * *x);
            x[pos] = (*k - rest) * c[pos].inv();
        }
    }
    if in_language(l, &x) {
        None
    } else {
        Some(x)
    }
}

/// two entries that are not bits, the second solved so that the relation still holds
fn two_bad_entries<F: FieldElementWithInteger>(rng: &mut Sm, l: &Lang<F>, p1: usize, p2: usize) -> Option<Vec<F>>
where
    F::Integer: TryFrom<u128>,
    <F::Integer as TryFrom<u128>>::Error: std::fmt::Debug,
{
    if p1 == p2 {
        return None;
    }
    let mut x: Vec<F> = (0..l.len).map(|_| if rng.next() % 2 == 0 { F::zero() } else { F::one() }).collect();
    x[p1] = fe::<F>(2 + rng.below(1000) as u128);
    if let Some((c, k)) = &l.rel {
        x[p2] = F::zero();
        let rest = c.iter().zip(&x).fold(F::zero(), |a, (c, x)| a + *c * *x);
        x[p2] = (*k - rest) * c[p2].inv();
    }
    if in_language(l, &x) {
        None
    } else {
        Some(x)
    }
}

fn attack<T: Type>(out: &mut Out, rng: &mut Sm, real: &Inst<T>, lang: &Lang<T::Field>, thorough: bool)
where
    T::Field: FieldElementWithInteger,
    <T::Field as FieldElementWithInteger>::Integer: TryFrom<u128>,
    <<T::Field as FieldElementWithInteger>::Integer as TryFrom<u128>>::Error: std::fmt::Debug,
{
    let evil = Inst::new(Raw(real.typ.clone()), &real.spec, real.sum_lw, real.na, real.np, real.alg);
    let n = lang.len;
    assert_eq!(n, real.typ.input_len());
    let mut positions: Vec<usize> = if thorough || n <= 6 { (0..n).collect() } else { vec![0, 1, n / 2, n - 2, n - 1] };
    positions.sort();
    positions.dedup();
    let mut vectors: Vec<(String, Vec<T::Field>)> = vec![];
    for &p in &positions {
        for _ in 0..(if thorough { 3 } else { 2 }) {
            if let Some(v) = one_bad_entry(rng, lang, p) {
                vectors.push((format!("one-bad-entry@{}", p), v));
                break;
            }
        }
    }
    for &(a, b) in &[(0usize, n - 1), (n - 1, 0), (n - 1, n / 2)] {
        if let Some(v) = two_bad_entries(rng, lang, a, b) {
            vectors.push((format!("two-bad-entries@{},{}", a, b), v));
        }
    }
    for (what, v) in vectors {
        let ctx = rng.bytes(2);
        let nonce: [u8; 16] = rng.bytes(16).try_into().unwrap();
        let key: [u8; 32] = rng.bytes(32).try_into().unwrap();
        let rs = if real.typ.joint_rand_len() > 0 { 2 } else { 1 } * real.na as usize * 32;
        let random = rng.bytes(rs);
        let case = || format!("malicious-client {} na={} np={} {} nonce={}", real.spec, real.na, real.np, what, hex(&nonce));
        let Some(rep) = shard(out, &evil, &ctx, &v, &nonce, &random) else {
            out.count("malicious.shard-refused");
            continue;
        };
        let views = honest_views(real.na, &ctx, nonce, key);
        let r = verify(out, real, &views, &rep.public, &rep.inputs, &no_vs, &no_msg);
        out.oracle(r.failed_at.is_some(), case, || "a report whose encoded vector is outside the type's language (one entry is not a bit) was accepted by every aggregator".into());
        out.oracle(!r.failed_at.as_deref().unwrap_or("").contains("panic"), case, || "panic instead of an error".into());
        out.count("malicious.cases");
        out.count(&format!("malicious.{}", real.spec.split(':').next().unwrap()));
    }
}

pub fn malicious_clients(out: &mut Out, rng: &mut Sm, thorough: bool) {
    let (na, np) = (2u8, 1u8);
    // Count, Sum: no relation
    let ic = Inst::new(Count::<Field64>::new(), "count", 0, 2, 2, 1);
    attack(out, rng, &ic, &Lang { len: 1, rel: None }, thorough);
    for max in [1u64, 5, 255] {
        let b = bits_of(max as u128);
        let is = Inst::new(Sum::<Field64>::new(max).unwrap(), &format!("sum:{}", b), lw(max as u128), 2, 2, 2);
        attack(out, rng, &is, &Lang { len: b, rel: None }, thorough);
    }
    // chunked types: last chunk full / one element / one short / chunk longer than the input
    let chunks_for = |n: usize| -> Vec<usize> {
        let mut v = vec![];
        for c in 1..=n + 1 {
            let r = n % c;
            if r == 0 || r == 1 || r == c - 1 || c > n {
                v.push(c);
            }
        }
        v
    };
    let pick = |rng: &mut Sm, v: Vec<usize>, k: usize| -> Vec<usize> {
        if thorough || v.len() <= k {
            v
        } else {
            // always keep a remainder-one chunk length when there is one
            let mut keep: Vec<usize> = vec![];
            for _ in 0..k {
                keep.push(v[rng.below(v.len() as u64) as usize]);
            }
            keep.sort();
            keep.dedup();
            keep
        }
    };
    // SumVec
    for (max, len) in [(7u128, 3usize), (1, 5), (2, 2)] {
        let b = bits_of(max);
        let n = b * len;
        let mut cs: Vec<usize> = chunks_for(n).into_iter().filter(|c| *c > 1 && n % c == 1).collect();
        cs.extend(pick(rng, chunks_for(n), 2));
        cs.sort();
        cs.dedup();
        for c in cs {
            let i = Inst::new(SumVec::<Field128, PS>::new(max, len, c).unwrap(), &format!("svec:{}:{}:{}:{}", len, b, lw(max), c), 0, na, np, 4);
            attack(out, rng, &i, &Lang { len: n, rel: None }, thorough);
        }
    }
    // Histogram: entries sum to one
    for len in [4usize, 5, 7] {
        let mut cs: Vec<usize> = chunks_for(len).into_iter().filter(|c| *c > 1 && len % c == 1).collect();
        cs.extend(pick(rng, chunks_for(len), 2));
        cs.sort();
        cs.dedup();
        for c in cs {
            let i = Inst::new(Histogram::<Field128, PS>::new(len, c).unwrap(), &format!("hist:{}:{}", len, c), 0, na, np, 3);
            attack(out, rng, &i, &Lang { len, rel: Some((vec![Field128::one(); len], Field128::one())) }, thorough);
        }
    }
    // MultihotCountVec: weight of the counters = claimed weight (digits with offset... the encoding
    // stores `weight + offset`; the circuit compares against the decoded digits, offset included)
    for (len, mw) in [(4usize, 2usize), (3, 3), (6, 1)] {
        let bw = bits_of(mw as u128);
        let n = len + bw;
        let mut cs: Vec<usize> = chunks_for(n).into_iter().filter(|c| *c > 1 && n % c == 1).collect();
        cs.extend(pick(rng, chunks_for(n), 2));
        cs.sort();
        cs.dedup();
        for c in cs {
            let t = MultihotCountVec::<Field128, PS>::new(len, mw, c).unwrap();
            let i = Inst::new(t, &format!("mhot:{}:{}:{}:{}", len, bw, lw(mw as u128), c), 0, na, np, 5);
            let mut coeff = vec![Field128::one(); len];
            coeff.extend(digit_weights::<Field128>(bw, lw(mw as u128)).into_iter().map(|w| Field128::zero() - w));
            attack(out, rng, &i, &Lang { len: n, rel: Some((coeff, Field128::zero())) }, thorough);
        }
    }
    // L1BoundSum: the sum of the entries = the claimed norm
    for (max, len) in [(7u128, 4usize), (3, 2), (1, 3), (100, 2)] {
        let b = bits_of(max);
        let n = b * (len + 1);
        let mut cs: Vec<usize> = chunks_for(n).into_iter().filter(|c| *c > 1 && n % c == 1).collect();
        cs.extend(pick(rng, chunks_for(n), 2));
        cs.sort();
        cs.dedup();
        if !thorough {
            cs.truncate(4);
        }
        for c in cs {
            let t = L1BoundSum::<Field128, PS>::new(max, len, c).unwrap();
            let i = Inst::new(t, &format!("l1:{}:{}:{}:{}", len, b, lw(max), c), 0, na, np, 0xFFFF1003);
            let w = digit_weights::<Field128>(b, lw(max));
            let mut coeff: Vec<Field128> = (0..len * b).map(|j| w[j % b]).collect();
            coeff.extend(w.iter().map(|w| Field128::zero() - *w));
            attack(out, rng, &i, &Lang { len: n, rel: Some((coeff, Field128::zero())) }, thorough);
        }
    }
}

/// the languages of the chunked Field128 types, for other harness modules
pub fn lang_hist(len: usize) -> Lang<Field128> {
    Lang { len, rel: Some((vec![Field128::one(); len], Field128::one())) }
}
pub fn lang_mhot(len: usize, max_weight: usize) -> Lang<Field128> {
    let bw = bits_of(max_weight as u128);
    let mut coeff = vec![Field128::one(); len];
    coeff.extend(digit_weights::<Field128>(bw, lw(max_weight as u128)).into_iter().map(|w| Field128::zero() - w));
    Lang { len: len + bw, rel: Some((coeff, Field128::zero())) }
}
pub fn lang_l1(max: u128, len: usize) -> Lang<Field128> {
    let b = bits_of(max);
    let w = digit_weights::<Field128>(b, lw(max));
    let mut coeff: Vec<Field128> = (0..len * b).map(|j| w[j % b]).collect();
    coeff.extend(w.iter().map(|w| Field128::zero() - *w));
    Lang { len: b * (len + 1), rel: Some((coeff, Field128::zero())) }
}
/// vectors whose only defect is one non-bit entry, at the first, middle, last-but-one and last position
pub fn edge_defects(rng: &mut Sm, lang: &Lang<Field128>) -> Vec<Vec<Field128>> {
    let n = lang.len;
    let mut pos = vec![0, n / 2, n.saturating_sub(2), n - 1];
    pos.sort();
    pos.dedup();
    pos.into_iter().filter_map(|p| one_bad_entry(rng, lang, p).or_else(|| one_bad_entry(rng, lang, p))).collect()
}
