//! C16: fallible public operations answer out-of-domain arguments with `Err`, never a panic, an
//! arithmetic overflow or an instance whose accessors overflow.
//!
//! Every probe runs under `catch_unwind` in a build with overflow checks on.  Probes that the Lean
//! model also answers (`ctor`, `encm`, `p3new`, `prio2new`, `p3 vinitraw|vmsgraw|vnextraw`) are
//! emitted as correspondence cases; all probes are oracle checks ("no panic", and "is Err" where the
//! argument is out of domain by the documented contract).
use crate::c05::{enc, fe, fname, modulus, rand_vec};
use crate::prio3::Inst;
use crate::rec::{self, RecXof};
use crate::util::{catch, hex, Out, Sm};
use prio::codec::{Decode, Encode, ParameterizedDecode};
use prio::dp::distributions::{DiscreteGaussian, DiscreteLaplace, PureDpDiscreteLaplace, ZCdpDiscreteGaussian};
use prio::dp::{DifferentialPrivacyStrategy, PureDpBudget, Rational, ZCdpBudget};
use prio::field::{Field128, Field64, FieldElementWithInteger, FieldPrio2, NttFriendlyFieldElement};
use prio::flp::gadgets::{Mul, ParallelSum};
use prio::flp::types::{Average, Count, Histogram, L1BoundSum, MultihotCountVec, Sum, SumVec};
use prio::flp::Type;
use prio::idpf::IdpfInput;
use prio::vdaf::poplar1::{Poplar1, Poplar1AggregationParam, Poplar1FieldVec};
use prio::vdaf::prio2::Prio2;
use prio::vdaf::prio3::{Prio3, Prio3InputShare, Prio3PublicShare, Prio3VerifierMessage, Prio3VerifierShare, Prio3VerifyState};
use prio::vdaf::xof::{Seed, XofTurboShake128};
use prio::vdaf::test_utils::TestVectorClient;
use prio::vdaf::{AggregateShare, Aggregator, Client, Collector, OutputShare, Share, VerifyTransition};
use std::panic::AssertUnwindSafe;

/// what a probe must do
#[derive(Clone, Copy, PartialEq)]
enum Want {
    /// any `Result`, but no panic
    NoPanic,
    /// out of domain: must be `Err`
    Err,
    /// in domain: must be `Ok`
    Ok,
}

fn class<T, E>(r: &Result<Result<T, E>, String>) -> &'static str {
    match r {
        Ok(Ok(_)) => "ok",
        Ok(Err(_)) => "err",
        Err(_) => "panic",
    }
}

/// run one probe, record the oracle verdict, return the value if `Ok`
fn probe<T, E>(out: &mut Out, want: Want, name: impl Fn() -> String, f: impl FnOnce() -> Result<T, E>) -> (Option<T>, &'static str) {
    let r = catch(AssertUnwindSafe(f));
    let c = class(&r);
    out.count(&format!("outcome.{}", c));
    let good = match (want, c) {
        (_, "panic") => false,
        (Want::Err, "ok") | (Want::Ok, "err") => false,
        _ => true,
    };
    let detail = match &r {
        Err(m) => format!("panicked: {}", m),
        _ => format!("returned {} where {} was required", c, if want == Want::Err { "Err" } else { "Ok" }),
    };
    out.oracle(good, &name, || detail);
    (r.ok().and_then(|x| x.ok()), c)
}

fn ok_unit<T>(x: T) -> Result<T, ()> {
    Ok(x)
}

// ---------------------------------------------------------------------------------------------
// A. FLP type constructors
// ---------------------------------------------------------------------------------------------

fn usize_grid(thorough: bool, rng: &mut Sm) -> Vec<usize> {
    let mut g: Vec<usize> = vec![0, 1, 2, 3, 8, 1000, (1 << 32) - 2, (1 << 32) - 1, 1 << 32, (1 << 63) - 1, 1 << 63, usize::MAX - 1, usize::MAX];
    if thorough {
        g.extend([5, 64, 65535, 1 << 31, 1 << 62, (1 << 63) + 1, usize::MAX / 2 - 1, usize::MAX / 3, usize::MAX / 3 + 1]);
        for _ in 0..4 {
            g.push((rng.next() >> rng.below(64)) as usize);
        }
    }
    g
}

fn int_grid<F: NttFriendlyFieldElement>(thorough: bool, rng: &mut Sm) -> Vec<u128> {
    let p = modulus::<F>();
    let top: u128 = if F::ENCODED_SIZE == 8 { u64::MAX as u128 } else { u128::MAX };
    let mut g = vec![0, 1, 2, 3, 255, 256, p - 2, p - 1, p, p + 1, top];
    if thorough {
        g.extend([7, 1 << 32, (1 << 63) - 1, 1 << 63, p / 2, top - 1]);
        for _ in 0..3 {
            g.push((rng.u128() >> rng.below(128)) % (top / 2 + 1));
        }
    }
    g.retain(|x| *x <= top);
    g
}

/// the eight length accessors; `None` if one of them panics (arithmetic overflow)
fn lens<T: Type>(t: &T) -> Option<[usize; 8]> {
    catch(AssertUnwindSafe(|| [t.input_len(), t.proof_len(), t.verifier_len(), t.joint_rand_len(), t.eval_output_len(), t.prove_rand_len(), t.query_rand_len(), t.output_len()])).ok()
}

/// record a constructor case; on success check that the instance is usable
fn ctor_case<T: Type>(out: &mut Out, line: String, r: Result<Result<T, prio::flp::FlpError>, String>) -> Option<T> {
    let c = class(&r);
    out.count(&format!("ctor.{}", c));
    out.oracle(c != "panic", || line.clone(), || format!("constructor panicked: {}", r.as_ref().err().cloned().unwrap_or_default()));
    match r {
        Ok(Ok(t)) => {
            let l = lens(&t);
            out.oracle(l.is_some(), || line.clone(), || "constructor accepted the parameters but a length accessor overflows (unusable instance)".into());
            match l {
                Some(l) => {
                    out.case(line, format!("ok {}", l.iter().map(|x| x.to_string()).collect::<Vec<_>>().join(" ")));
                    Some(t)
                }
                None => {
                    out.count("ctor.unusable");
                    out.case(line, "unusable".into());
                    None
                }
            }
        }
        Ok(Err(_)) => {
            out.case(line, "err".into());
            None
        }
        Err(_) => {
            out.case(line, "panic".into());
            None
        }
    }
}

/// a small instance must work: the given measurements encode, prove, and verify
fn works<T: Type>(out: &mut Out, rng: &mut Sm, what: &str, t: &T, ms: &[T::Measurement])
where
    <T::Field as FieldElementWithInteger>::Integer: TryFrom<u128>,
{
    let Some(l) = lens(t) else { return };
    if l[0] > 2048 || l[1] > 1 << 14 {
        return;
    }
    for m in ms {
        let r = catch(AssertUnwindSafe(|| -> Result<bool, prio::flp::FlpError> {
            let e = t.encode_measurement(m)?;
            let jr: Vec<T::Field> = rand_vec(rng, t.joint_rand_len());
            let pr: Vec<T::Field> = rand_vec(rng, t.prove_rand_len());
            let qr: Vec<T::Field> = rand_vec(rng, t.query_rand_len());
            let pf = t.prove(&e, &pr, &jr)?;
            match t.query(&e, &pf, &qr, &jr, 1) {
                Ok(v) => t.decide(&v),
                // query randomness on the evaluation domain: the one admissible refusal
                Err(_) => Ok(true),
            }
        }));
        out.count("works");
        out.oracle(matches!(r, Ok(Ok(true))), || format!("works {}", what), || format!("valid extreme measurement not accepted: {}", class(&r)));
    }
}

fn ctors<F>(out: &mut Out, rng: &mut Sm, thorough: bool)
where
    F: NttFriendlyFieldElement,
    F::Integer: TryFrom<u128> + Into<u128>,
{
    let f = fname::<F>();
    let ints = int_grid::<F>(thorough, rng);
    let us = usize_grid(thorough, rng);
    let int = |x: u128| F::Integer::try_from(x).ok().unwrap();
    type PS<F> = ParallelSum<F, Mul>;
    for &m in &ints {
        let r = catch(AssertUnwindSafe(|| Sum::<F>::new(int(m))));
        if let Some(t) = ctor_case(out, format!("c16 ctor {} sum {}", f, m), r) {
            works(out, rng, &format!("sum {}", m), &t, &[int(0), int(m), int(m / 2)]);
            let r = probe(out, Want::Err, || format!("encode sum max={} m=max+1", m), || t.encode_measurement(&int(m + 1)));
            let _ = r;
        }
        let r = catch(AssertUnwindSafe(|| Average::<F>::new(int(m))));
        ctor_case(out, format!("c16 ctor {} avg {}", f, m), r);
    }
    for &len in &us {
        for &chunk in &us {
            let r = catch(AssertUnwindSafe(|| Histogram::<F, PS<F>>::new(len, chunk)));
            if let Some(t) = ctor_case(out, format!("c16 ctor {} hist {} {}", f, len, chunk), r) {
                if len <= 1000 && chunk <= 1000 {
                    works(out, rng, &format!("hist {} {}", len, chunk), &t, &[0, len - 1, len / 2]);
                }
            }
        }
    }
    // the weight bound of MultihotCountVec around the modulus (it is a usize: for Field64 the modulus fits)
    if let Ok(pm) = usize::try_from(modulus::<F>()) {
        for w in [pm - 2, pm - 1, pm, pm.saturating_add(1)] {
            for (a, c) in [(4usize, 2usize), (1, 1), (8, 3)] {
                let r = catch(AssertUnwindSafe(|| MultihotCountVec::<F, PS<F>>::new(a, w, c)));
                ctor_case(out, format!("c16 ctor {} mhot {} {} {}", f, a, w, c), r);
            }
        }
    }
    // three-parameter constructors: the full cube in the thorough tier, its faces otherwise
    let small: Vec<usize> = if thorough { us.clone() } else { vec![0, 1, 3, (1 << 32) - 1, 1 << 63, usize::MAX] };
    for &a in &us {
        for &b in &small {
            for &c in &small {
                let r = catch(AssertUnwindSafe(|| MultihotCountVec::<F, PS<F>>::new(a, b, c)));
                if let Some(t) = ctor_case(out, format!("c16 ctor {} mhot {} {} {}", f, a, b, c), r) {
                    if a <= 64 && c <= 64 {
                        let w = b.min(a);
                        let mut full = vec![false; a];
                        for x in full.iter_mut().take(w) {
                            *x = true;
                        }
                        works(out, rng, &format!("mhot {} {} {}", a, b, c), &t, &[vec![false; a], full]);
                    }
                }
            }
        }
    }
    let ints_small: Vec<u128> = if thorough { ints.clone() } else { vec![0, 1, 3, 256, modulus::<F>() - 1, modulus::<F>()] };
    for &m in &ints_small {
        for &len in &us {
            for &chunk in &small {
                let r = catch(AssertUnwindSafe(|| SumVec::<F, PS<F>>::new(int(m), len, chunk)));
                if let Some(t) = ctor_case(out, format!("c16 ctor {} svec {} {} {}", f, m, len, chunk), r) {
                    if len <= 8 && chunk <= 64 {
                        works(out, rng, &format!("svec {} {} {}", m, len, chunk), &t, &[vec![int(0); len], vec![int(m); len]]);
                    }
                }
                let r = catch(AssertUnwindSafe(|| L1BoundSum::<F, PS<F>>::new(int(m), len, chunk)));
                if let Some(t) = ctor_case(out, format!("c16 ctor {} l1 {} {} {}", f, m, len, chunk), r) {
                    if len <= 8 && chunk <= 64 {
                        let mut top = vec![int(0); len];
                        top[len - 1] = int(m);
                        works(out, rng, &format!("l1 {} {} {}", m, len, chunk), &t, &[vec![int(0); len], top]);
                    }
                }
            }
        }
    }
}

// ---------------------------------------------------------------------------------------------
// B. measurement encoders
// ---------------------------------------------------------------------------------------------

fn enc_case<T: Type>(out: &mut Out, want: Want, line: String, t: &T, m: &T::Measurement) {
    let r = catch(AssertUnwindSafe(|| t.encode_measurement(m)));
    let c = class(&r);
    out.count(&format!("encm.{}", c));
    let good = c != "panic" && !(want == Want::Err && c == "ok") && !(want == Want::Ok && c == "err");
    out.oracle(good, || line.clone(), || format!("encode_measurement: {} ({})", c, r.as_ref().err().cloned().unwrap_or_default()));
    out.case(
        line,
        match r {
            Ok(Ok(v)) => format!("ok {}", enc(&v)),
            Ok(Err(_)) => "err".into(),
            Err(_) => "panic".into(),
        },
    );
}

fn bits_of(max: u128) -> usize {
    (128 - max.leading_zeros()) as usize
}
fn lw(max: u128) -> u128 {
    max - ((1u128 << (bits_of(max) - 1)) - 1)
}

fn list<X: ToString>(v: &[X]) -> String {
    if v.is_empty() {
        "-".into()
    } else {
        v.iter().map(|x| x.to_string()).collect::<Vec<_>>().join(",")
    }
}

fn encoders(out: &mut Out, rng: &mut Sm, thorough: bool) {
    type PS = ParallelSum<Field128, Mul>;
    let p128 = modulus::<Field128>();
    // Sum
    for max in [1u64, 2, 255, 256, (1 << 40) + 3, modulus::<Field64>() as u64 - 1] {
        let t = Sum::<Field64>::new(max).unwrap();
        let spec = format!("sum:{}", bits_of(max as u128));
        for m in [0u64, 1, max / 2, max.saturating_sub(1), max] {
            enc_case(out, Want::Ok, format!("c16 encm FP64 {} {} {}", spec, lw(max as u128), m), &t, &m);
        }
        for m in [max.saturating_add(1), max.saturating_mul(2).max(max.saturating_add(1)), u64::MAX] {
            if m > max {
                enc_case(out, Want::Err, format!("c16 encm FP64 {} {} {}", spec, lw(max as u128), m), &t, &m);
            }
        }
    }
    // Histogram
    for (len, chunk) in [(1usize, 1usize), (2, 1), (5, 2), (9, 4), (300, 17)] {
        let t = Histogram::<Field128, PS>::new(len, chunk).unwrap();
        for m in [0, len / 2, len - 1] {
            enc_case(out, Want::Ok, format!("c16 encm FP128 hist:{}:{} 0 {}", len, chunk, m), &t, &m);
        }
        for m in [len, len + 1, 2 * len + 7, 1 << 32, usize::MAX - 1, usize::MAX] {
            enc_case(out, Want::Err, format!("c16 encm FP128 hist:{}:{} 0 {}", len, chunk, m), &t, &m);
        }
    }
    // SumVec
    for (max, len, chunk) in [(1u128, 3usize, 2usize), (7, 2, 3), (256, 4, 5), (p128 - 1, 2, 9)] {
        let t = SumVec::<Field128, PS>::new(max, len, chunk).unwrap();
        let spec = format!("svec:{}:{}:{}:{}", len, bits_of(max), lw(max), chunk);
        let good: Vec<Vec<u128>> = vec![vec![0; len], vec![max; len], (0..len).map(|_| rng.u128() % (max + 1)).collect()];
        for m in &good {
            enc_case(out, Want::Ok, format!("c16 encm FP128 {} 0 {}", spec, list(m)), &t, m);
        }
        let mut over = vec![0; len];
        over[len - 1] = max + 1;
        let mut huge = vec![max; len];
        huge[0] = u128::MAX;
        let bad: Vec<Vec<u128>> = vec![vec![], vec![0; len - 1], vec![0; len + 1], vec![max; 2 * len + 1], over, huge];
        for m in &bad {
            enc_case(out, Want::Err, format!("c16 encm FP128 {} 0 {}", spec, list(m)), &t, m);
        }
    }
    // MultihotCountVec
    for (len, maxw, chunk) in [(1usize, 1usize, 1usize), (4, 2, 3), (6, 6, 2), (5, 9, 4)] {
        let t = MultihotCountVec::<Field128, PS>::new(len, maxw, chunk).unwrap();
        let spec = format!("mhot:{}:{}:{}:{}", len, bits_of(maxw as u128), lw(maxw as u128), chunk);
        let b = |v: &Vec<bool>| list(&v.iter().map(|x| *x as u8).collect::<Vec<_>>());
        let mut top = vec![false; len];
        for x in top.iter_mut().take(maxw.min(len)) {
            *x = true;
        }
        for m in [vec![false; len], top.clone()] {
            enc_case(out, Want::Ok, format!("c16 encm FP128 {} {} {}", spec, maxw, b(&m)), &t, &m);
        }
        let mut bad: Vec<Vec<bool>> = vec![vec![], vec![false; len - 1], vec![true; len + 1], vec![false; 3 * len]];
        if maxw < len {
            let mut o = top.clone();
            o[len - 1] = true;
            bad.push(o);
            bad.push(vec![true; len]);
        }
        for m in bad {
            enc_case(out, Want::Err, format!("c16 encm FP128 {} {} {}", spec, maxw, b(&m)), &t, &m);
        }
    }
    // L1BoundSum
    for (max, len, chunk) in [(1u128, 2usize, 2usize), (7, 3, 4), (255, 2, 3), (p128 - 1, 3, 7)] {
        let t = L1BoundSum::<Field128, PS>::new(max, len, chunk).unwrap();
        let spec = format!("l1:{}:{}:{}:{}", len, bits_of(max), lw(max), chunk);
        let mut top = vec![0; len];
        top[0] = max;
        let mut split = vec![0; len];
        split[0] = max / 2;
        split[len - 1] = max - max / 2;
        for m in [vec![0; len], top.clone(), split.clone()] {
            enc_case(out, Want::Ok, format!("c16 encm FP128 {} {} {}", spec, max, list(&m)), &t, &m);
        }
        let mut over = top.clone();
        over[len - 1] = 1;
        let mut elem = vec![0; len];
        elem[0] = max + 1;
        let bad: Vec<Vec<u128>> = vec![vec![], vec![0; len - 1], vec![0; len + 1], over, vec![max; len], elem, vec![u128::MAX; len]];
        for m in &bad {
            enc_case(out, Want::Err, format!("c16 encm FP128 {} {} {}", spec, max, list(m)), &t, m);
        }
    }
    let _ = thorough;
}

// ---------------------------------------------------------------------------------------------
// C. Prio3
// ---------------------------------------------------------------------------------------------

type P3<T> = Prio3<T, RecXof, 32>;

fn seed(b: &[u8]) -> Seed<32> {
    Seed::get_decoded(b).unwrap()
}

fn opt_hex(s: Option<&Seed<32>>) -> String {
    match s {
        Some(s) => hex(s.as_ref()),
        None => "none".into(),
    }
}

fn prefix<T: Type>(inst: &Inst<T>, op: &str, ctx: &[u8]) -> String {
    format!("p3 {} {} {} {} {} {} {} {}", op, fname::<T::Field>(), inst.spec, inst.na, inst.np, inst.alg, inst.sum_lw, hex(ctx))
}

fn show_share<F: NttFriendlyFieldElement>(s: &Prio3InputShare<F, 32>) -> String {
    match s {
        Prio3InputShare::Leader { measurement_share, proofs_share, joint_rand_blind } => format!("L {} {} {}", enc(measurement_share), enc(proofs_share), opt_hex(joint_rand_blind.as_ref())),
        Prio3InputShare::Helper { meas_and_proofs_share, joint_rand_blind } => format!("H {} - {}", hex(meas_and_proofs_share.as_ref()), opt_hex(joint_rand_blind.as_ref())),
    }
}

/// `verify_init` on structured arguments; emits the `vinitraw` correspondence case
#[allow(clippy::too_many_arguments)]
fn vinit_raw<T: Type>(
    out: &mut Out,
    want: Want,
    tag: &str,
    inst: &Inst<T>,
    ctx: &[u8],
    key: &[u8; 32],
    id: usize,
    nonce: &[u8; 16],
    public: &Prio3PublicShare<32>,
    share: &Prio3InputShare<T::Field, 32>,
) -> Option<(Prio3VerifyState<T::Field, 32>, Prio3VerifierShare<T::Field, 32>)> {
    rec::start();
    let r = catch(AssertUnwindSafe(|| inst.vdaf.verify_init(key, ctx, id, &(), nonce, public, share)));
    let table = rec::table();
    let c = class(&r);
    out.count(&format!("vinit.{}", c));
    out.count(&format!("vinit.tag.{}", tag));
    let line = format!("{} {} {} {} {} {} {}", prefix(inst, "vinitraw", ctx), hex(key), id, hex(nonce), hex(&public.get_encoded().unwrap()), show_share(share), table);
    let good = c != "panic" && !(want == Want::Err && c == "ok") && !(want == Want::Ok && c == "err");
    out.oracle(good, || format!("verify_init[{}] {} na={} np={} id={}", tag, inst.spec, inst.na, inst.np, id), || format!("{} ({})", c, r.as_ref().err().cloned().unwrap_or_default()));
    match r {
        Ok(Ok((st, sh))) => {
            out.case(line, format!("ok {} {}", hex(&st.get_encoded().unwrap()), hex(&sh.get_encoded().unwrap())));
            Some((st, sh))
        }
        Ok(Err(_)) => {
            out.case(line, "err".into());
            None
        }
        Err(_) => {
            out.case(line, "panic".into());
            None
        }
    }
}

fn vmsg_raw<T: Type>(out: &mut Out, want: Want, tag: &str, inst: &Inst<T>, ctx: &[u8], shares: Vec<(Prio3VerifierShare<T::Field, 32>, bool)>) -> Option<Prio3VerifierMessage<32>> {
    // (share, has joint rand part): the encoding shows the part iff present
    let sz = <T::Field as prio::field::FieldElement>::ENCODED_SIZE;
    let shown: Vec<String> = shares
        .iter()
        .map(|(s, has)| {
            let b = s.get_encoded().unwrap();
            if *has {
                let vl = b.len() - 32;
                format!("{}/{}", hex(&b[..vl]), hex(&b[vl..]))
            } else {
                debug_assert!(b.len() % sz == 0);
                format!("{}/none", hex(&b))
            }
        })
        .collect();
    let n = shares.len();
    let list: Vec<_> = shares.into_iter().map(|(s, _)| s).collect();
    rec::start();
    let r = catch(AssertUnwindSafe(|| inst.vdaf.verifier_shares_to_message(ctx, &(), list)));
    let table = rec::table();
    let c = class(&r);
    out.count(&format!("vmsg.{}", c));
    out.count(&format!("vmsg.tag.{}", tag));
    let line = format!("{} {} {}", prefix(inst, "vmsgraw", ctx), if shown.is_empty() { "-".to_string() } else { shown.join(" ") }, table);
    let good = c != "panic" && !(want == Want::Err && c == "ok") && !(want == Want::Ok && c == "err");
    out.oracle(good, || format!("verifier_shares_to_message[{}] {} na={} np={} shares={}", tag, inst.spec, inst.na, inst.np, n), || format!("{} ({})", c, r.as_ref().err().cloned().unwrap_or_default()));
    match r {
        Ok(Ok(m)) => {
            out.case(line, format!("ok {}", hex(&m.get_encoded().unwrap())));
            Some(m)
        }
        Ok(Err(_)) => {
            out.case(line, "err".into());
            None
        }
        Err(_) => {
            out.case(line, "panic".into());
            None
        }
    }
}

/// `verify_next` with a state given by (agg id, share bytes as leader or helper, optional seed) and
/// a message given by an optional seed
#[allow(clippy::too_many_arguments)]
fn vnext_raw<T: Type>(out: &mut Out, want: Want, tag: &str, inst: &Inst<T>, ctx: &[u8], id: usize, st: Prio3VerifyState<T::Field, 32>, st_has_seed: bool, msg: Prio3VerifierMessage<32>) {
    let sb = st.get_encoded().unwrap();
    let (share_b, seed_b) = if st_has_seed { sb.split_at(sb.len() - 32) } else { (&sb[..], &sb[..0]) };
    let mb = msg.get_encoded().unwrap();
    rec::start();
    let r = catch(AssertUnwindSafe(|| inst.vdaf.verify_next(ctx, st.clone(), msg.clone())));
    let table = rec::table();
    let c = class(&r);
    out.count(&format!("vnext.{}", c));
    out.count(&format!("vnext.tag.{}", tag));
    let line = format!(
        "{} {} {} {} {} {} {}",
        prefix(inst, "vnextraw", ctx),
        id,
        if id == 0 { "L" } else { "H" },
        hex(share_b),
        if st_has_seed { hex(seed_b) } else { "none".into() },
        if mb.is_empty() { "none".to_string() } else { hex(&mb) },
        table
    );
    let good = c != "panic" && !(want == Want::Err && c == "ok") && !(want == Want::Ok && c == "err");
    out.oracle(good, || format!("verify_next[{}] {} na={} np={} id={}", tag, inst.spec, inst.na, inst.np, id), || format!("{} ({})", c, r.as_ref().err().cloned().unwrap_or_default()));
    out.case(
        line,
        match r {
            Ok(Ok(VerifyTransition::Finish(o))) => format!("ok {}", hex(&o.get_encoded().unwrap())),
            Ok(Ok(VerifyTransition::Continue(..))) => "continue".into(),
            Ok(Err(_)) => "err".into(),
            Err(_) => "panic".into(),
        },
    );
}

/// all the bad-argument probes around one valid report of `inst`; `other` is an instance over the
/// same field with the same verifier length but the opposite use of joint randomness
fn prio3_instance<T, U>(out: &mut Out, rng: &mut Sm, inst: &Inst<T>, other: &Inst<U>, m: &T::Measurement, om: &U::Measurement, thorough: bool)
where
    T: Type,
    U: Type<Field = T::Field>,
    <T::Field as FieldElementWithInteger>::Integer: TryFrom<u128>,
{
    let ctx = rng.bytes(2);
    let key: [u8; 32] = rng.bytes(32).try_into().unwrap();
    let nonce: [u8; 16] = rng.bytes(16).try_into().unwrap();
    let jr = inst.typ.joint_rand_len() > 0;
    let ojr = other.typ.joint_rand_len() > 0;
    let rs = |j: bool, na: u8| if j { 2 } else { 1 } * na as usize * 32;
    let na = inst.na as usize;
    // randomness of the wrong size
    for n in [0usize, 1, rs(jr, inst.na) - 1, rs(jr, inst.na) + 1, rs(!jr, inst.na)] {
        let random = rng.bytes(n);
        probe(out, Want::Err, || format!("shard_with_random {} random_len={}", inst.spec, n), || inst.vdaf.shard_with_random(&ctx, m, &nonce, &random));
    }
    let random = rng.bytes(rs(jr, inst.na));
    let (Some((public, shares)), _) = probe(out, Want::Ok, || format!("shard {} (valid)", inst.spec), || inst.vdaf.shard_with_random(&ctx, m, &nonce, &random)) else { return };
    let orandom = rng.bytes(rs(ojr, other.na));
    let (Some((opublic, oshares)), _) = probe(out, Want::Ok, || format!("shard {} (valid)", other.spec), || other.vdaf.shard_with_random(&ctx, om, &nonce, &orandom)) else { return };

    // --- verify_init: aggregator identifiers
    for id in 0..na {
        vinit_raw(out, Want::Ok, "valid", inst, &ctx, &key, id, &nonce, &public, &shares[id]);
    }
    for id in [na, na + 1, 254, 255, 256, 257, 1 << 32, usize::MAX] {
        if id >= na {
            vinit_raw(out, Want::Err, "agg-id-out-of-range", inst, &ctx, &key, id, &nonce, &public, &shares[0]);
            if na > 1 {
                vinit_raw(out, Want::Err, "agg-id-out-of-range", inst, &ctx, &key, id, &nonce, &public, &shares[1]);
            }
        }
    }
    // --- shares of the wrong role
    if na > 1 {
        vinit_raw(out, Want::NoPanic, "leader-share-as-helper", inst, &ctx, &key, 1, &nonce, &public, &shares[0]);
        vinit_raw(out, Want::NoPanic, "helper-share-as-leader", inst, &ctx, &key, 0, &nonce, &public, &shares[1]);
    }
    // --- shares of the wrong length / shape
    let Prio3InputShare::Leader { measurement_share: lm, proofs_share: lp, joint_rand_blind: lb } = &shares[0] else { return };
    let mk = |m: Vec<T::Field>, p: Vec<T::Field>, b: Option<Seed<32>>| Prio3InputShare::Leader { measurement_share: m, proofs_share: p, joint_rand_blind: b };
    let pl = inst.typ.proof_len();
    let mut variants: Vec<(&str, Want, Prio3InputShare<T::Field, 32>)> = vec![
        ("meas-empty", Want::Err, mk(vec![], lp.clone(), lb.clone())),
        ("meas-short", Want::Err, mk(lm[..lm.len() - 1].to_vec(), lp.clone(), lb.clone())),
        ("meas-long", Want::Err, mk([lm.clone(), vec![lm[0]]].concat(), lp.clone(), lb.clone())),
        ("proofs-empty", Want::Err, mk(lm.clone(), vec![], lb.clone())),
        ("proofs-short", Want::Err, mk(lm.clone(), lp[..lp.len() - 1].to_vec(), lb.clone())),
        ("proofs-long", Want::Err, mk(lm.clone(), [lp.clone(), vec![lp[0]]].concat(), lb.clone())),
        ("both-empty", Want::Err, mk(vec![], vec![], lb.clone())),
    ];
    if inst.np > 1 {
        variants.push(("proofs-one-of-many", Want::Err, mk(lm.clone(), lp[..pl].to_vec(), lb.clone())));
        variants.push(("proofs-all-but-one", Want::Err, mk(lm.clone(), lp[..pl * (inst.np as usize - 1)].to_vec(), lb.clone())));
    }
    if jr {
        variants.push(("leader-blind-missing", Want::Err, mk(lm.clone(), lp.clone(), None)));
    } else {
        variants.push(("leader-blind-unexpected", Want::NoPanic, mk(lm.clone(), lp.clone(), Some(seed(&rng.bytes(32))))));
    }
    // the leader share of the other instance (different lengths, opposite blind)
    if let Prio3InputShare::Leader { measurement_share, proofs_share, joint_rand_blind } = &oshares[0] {
        variants.push(("leader-share-of-other-instance", Want::Err, mk(measurement_share.clone(), proofs_share.clone(), joint_rand_blind.clone())));
    }
    for (tag, want, sh) in &variants {
        vinit_raw(out, *want, tag, inst, &ctx, &key, 0, &nonce, &public, sh);
    }
    if na > 1 {
        if let Prio3InputShare::Helper { meas_and_proofs_share, joint_rand_blind } = &shares[1] {
            let flipped = Prio3InputShare::Helper { meas_and_proofs_share: meas_and_proofs_share.clone(), joint_rand_blind: if jr { None } else { Some(seed(&rng.bytes(32))) } };
            vinit_raw(out, if jr { Want::Err } else { Want::NoPanic }, if jr { "helper-blind-missing" } else { "helper-blind-unexpected" }, inst, &ctx, &key, 1, &nonce, &public, &flipped);
            let _ = joint_rand_blind;
        }
    }
    // --- public share of the wrong shape: the other instance's (absent / present parts), or one
    // with a different number of parts
    for id in 0..na.min(2) {
        vinit_raw(out, Want::NoPanic, "public-share-of-other-instance", inst, &ctx, &key, id, &nonce, &opublic, &shares[id]);
    }

    // --- verifier_shares_to_message: counts
    let honest: Vec<_> = (0..na).filter_map(|id| inst.vdaf.verify_init(&key, &ctx, id, &(), &nonce, &public, &shares[id]).ok()).collect();
    if honest.len() != na {
        return;
    }
    let vs: Vec<Prio3VerifierShare<T::Field, 32>> = honest.iter().map(|(_, s)| s.clone()).collect();
    vmsg_raw(out, Want::NoPanic, "valid", inst, &ctx, vs.iter().map(|s| (s.clone(), jr)).collect());
    let counts: Vec<usize> = if thorough { vec![0, 1, na - 1, na + 1, 2 * na, 255, 256, 257, 256 + na, 512 + na] } else { vec![0, na - 1, na + 1, 255, 256, 256 + na] };
    for n in counts {
        if n == na {
            continue;
        }
        // `n` shares cycling through the honest ones: with n ≡ na (mod 256) a wrapped u8 counter
        // would accept
        let list: Vec<_> = (0..n).map(|i| (vs[i % na].clone(), jr)).collect();
        vmsg_raw(out, Want::Err, "wrong-count", inst, &ctx, list);
    }
    // --- verifier shares of the wrong length or without their joint randomness part
    let ohonest: Vec<_> = (0..other.na as usize).filter_map(|id| other.vdaf.verify_init(&key, &ctx, id, &(), &nonce, &opublic, &oshares[id]).ok()).collect();
    if ohonest.len() == other.na as usize && other.na == inst.na {
        // same verifier length, opposite joint randomness: the part is missing / unexpected
        let ovs: Vec<(Prio3VerifierShare<T::Field, 32>, bool)> = ohonest.iter().map(|(_, s)| (s.clone(), ojr)).collect();
        let same_len = other.typ.verifier_len() * other.np as usize == inst.typ.verifier_len() * inst.np as usize;
        vmsg_raw(out, if jr && same_len { Want::Err } else { Want::NoPanic }, if same_len { "shares-of-other-instance-same-length" } else { "shares-of-other-instance" }, inst, &ctx, ovs.clone());
        let mut mixed: Vec<_> = vs.iter().map(|s| (s.clone(), jr)).collect();
        mixed[na - 1] = ovs[na - 1].clone();
        vmsg_raw(out, if jr && same_len { Want::Err } else { Want::NoPanic }, "one-share-of-other-instance", inst, &ctx, mixed);
        // --- verify_next with the other instance's state / message
        let (ost, _) = &ohonest[0];
        let omsg = other.vdaf.verifier_shares_to_message(&ctx, &(), ohonest.iter().map(|(_, s)| s.clone())).ok();
        let msg = inst.vdaf.verifier_shares_to_message(&ctx, &(), vs.iter().cloned()).ok();
        if let (Some(omsg), Some(msg)) = (omsg, msg) {
            for id in 0..na.min(2) {
                vnext_raw(out, Want::Ok, "valid", inst, &ctx, id, honest[id].0.clone(), jr, msg.clone());
                vnext_raw(out, if jr { Want::Err } else { Want::NoPanic }, "message-of-other-instance", inst, &ctx, id, honest[id].0.clone(), jr, omsg.clone());
                vnext_raw(out, if jr { Want::Err } else { Want::NoPanic }, "state-of-other-instance", inst, &ctx, id, ohonest[id].0.clone(), ojr, msg.clone());
            }
            let _ = ost;
        }
    }
    // --- aggregate / unshard with vectors of the wrong length
    let ol = inst.typ.output_len();
    for n in [0usize, ol - 1, ol + 1, 2 * ol] {
        if n == ol {
            continue;
        }
        let o = OutputShare::from(rand_vec::<T::Field>(rng, n));
        probe(out, Want::Err, || format!("aggregate {} output_share_len={} want={}", inst.spec, n, ol), || inst.vdaf.aggregate(&(), [o.clone()]));
        let a = AggregateShare::from(OutputShare::from(rand_vec::<T::Field>(rng, n)));
        probe(out, Want::Err, || format!("unshard {} agg_share_len={} want={}", inst.spec, n, ol), || inst.vdaf.unshard(&(), [a.clone()], 1));
    }
    probe(out, Want::NoPanic, || format!("unshard {} no shares", inst.spec), || inst.vdaf.unshard(&(), Vec::<AggregateShare<T::Field>>::new(), 0));
    probe(out, Want::NoPanic, || format!("unshard {} num_measurements=0", inst.spec), || inst.vdaf.unshard(&(), [AggregateShare::from(OutputShare::from(vec![T::Field::from(<T::Field as FieldElementWithInteger>::Integer::try_from(0u128).ok().unwrap()); ol]))], 0));
}

/// protocol operations around valid reports, offered malformed, foreign or miscounted arguments
/// (also part of the C02 run: a typed message or share that no codec of the instance would produce
/// is one way "messages altered in transit" can look to the receiving aggregator)
pub fn prio3_misuse(out: &mut Out, rng: &mut Sm, thorough: bool) {
    type PS = ParallelSum<Field128, Mul>;
    let shapes: &[(u8, u8)] = if thorough { &[(1, 1), (2, 1), (3, 2), (2, 3), (5, 1)] } else { &[(2, 1), (3, 2)] };
    for &(na, np) in shapes {
        let cnt128 = Inst::new(Count::<Field128>::new(), "count", 0, na, np, 1);
        let hist = Inst::new(Histogram::<Field128, PS>::new(3, 1).unwrap(), "hist:3:1", 0, na, np, 3);
        prio3_instance(out, rng, &hist, &cnt128, &2, &true, thorough);
        prio3_instance(out, rng, &cnt128, &hist, &true, &1, thorough);
        let sv = Inst::new(SumVec::<Field128, PS>::new(7, 2, 3).unwrap(), &format!("svec:2:3:{}:3", lw(7)), 0, na, np, 4);
        let sum128 = Inst::new(Sum::<Field128>::new(300).unwrap(), &format!("sum:{}", bits_of(300)), lw(300), na, np, 2);
        prio3_instance(out, rng, &sv, &sum128, &vec![7, 0], &300, thorough);
        prio3_instance(out, rng, &sum128, &sv, &17, &vec![1, 2], thorough);
        if thorough || na == 2 {
            let mh = Inst::new(MultihotCountVec::<Field128, PS>::new(4, 2, 3).unwrap(), &format!("mhot:4:{}:{}:3", bits_of(2), lw(2)), 0, na, np, 5);
            prio3_instance(out, rng, &mh, &cnt128, &vec![true, false, true, false], &false, thorough);
            let l1 = Inst::new(L1BoundSum::<Field128, PS>::new(7, 3, 4).unwrap(), &format!("l1:3:3:{}:4", lw(7)), 0, na, np, 0xFFFF1003);
            prio3_instance(out, rng, &l1, &sum128, &vec![3, 0, 4], &0, thorough);
        }
        let cnt64 = Inst::new(Count::<Field64>::new(), "count", 0, na, np, 1);
        let sum64 = Inst::new(Sum::<Field64>::new(1).unwrap(), "sum:1", 1, na, np, 2);
        prio3_instance(out, rng, &cnt64, &sum64, &false, &1, thorough);
    }
}

fn prio3(out: &mut Out, rng: &mut Sm, thorough: bool) {
    type PS = ParallelSum<Field128, Mul>;
    // constructors
    for na in [0u8, 1, 2, 3, 128, 253, 254, 255] {
        for np in [0u8, 1, 2, 255] {
            let r = catch(|| Prio3::<Count<Field64>, XofTurboShake128, 32>::new(na, np, 7, Count::new()));
            let c = class(&r);
            out.oracle(c != "panic", || format!("Prio3::new na={} np={}", na, np), || "panicked".into());
            out.case(format!("c16 p3new {} {}", na, np), c.into());
            out.count(&format!("p3new.{}", c));
        }
        let w = if (1..=254).contains(&na) { Want::Ok } else { Want::Err };
        probe(out, w, || format!("new_count na={}", na), || Prio3::new_count(na));
        probe(out, w, || format!("new_sum na={}", na), || Prio3::new_sum(na, 255));
        probe(out, w, || format!("new_sum_vec na={}", na), || Prio3::new_sum_vec(na, 3, 4, 2));
        probe(out, w, || format!("new_histogram na={}", na), || Prio3::new_histogram(na, 4, 2));
        probe(out, w, || format!("new_multihot_count_vec na={}", na), || Prio3::new_multihot_count_vec(na, 4, 2, 2));
        probe(out, w, || format!("new_average na={}", na), || Prio3::new_average(na, 255));
        probe(out, w, || format!("new_sum_vec_multithreaded na={}", na), || Prio3::new_sum_vec_multithreaded(na, 3, 4, 2));
        probe(out, w, || format!("new_histogram_multithreaded na={}", na), || Prio3::new_histogram_multithreaded(na, 4, 2));
        probe(out, w, || format!("new_multihot_count_vec_multithreaded na={}", na), || Prio3::new_multihot_count_vec_multithreaded(na, 4, 2, 2));
    }
    for (a, b, c) in [(0usize, 1usize, 1usize), (1, 0, 1), (1, 1, 0), (usize::MAX, 1, 1), (4, 1, usize::MAX), (4, usize::MAX, 2), (usize::MAX, usize::MAX, usize::MAX)] {
        probe(out, Want::NoPanic, || format!("new_histogram 2 {} {}", a, c), || Prio3::new_histogram(2, a, c).map(|v| (v.output_len(), v.verifier_len())));
        probe(out, Want::NoPanic, || format!("new_sum_vec 2 {} {} {}", b, a, c), || Prio3::new_sum_vec(2, b as u128, a, c).map(|v| (v.output_len(), v.verifier_len())));
        probe(out, Want::NoPanic, || format!("new_multihot_count_vec 2 {} {} {}", a, b, c), || Prio3::new_multihot_count_vec(2, a, b, c).map(|v| (v.output_len(), v.verifier_len())));
    }
    prio3_misuse(out, rng, thorough);
    // shard: measurements out of range, through the VDAF
    let h = Prio3::new_histogram(2, 4, 2).unwrap();
    for m in [4usize, 5, 1 << 40, usize::MAX] {
        probe(out, Want::Err, || format!("Prio3Histogram(4).shard m={}", m), || h.shard(b"", &m, &[0; 16]));
    }
    let s = Prio3::new_sum(2, 100).unwrap();
    for m in [101u64, 1 << 63, u64::MAX] {
        probe(out, Want::Err, || format!("Prio3Sum(100).shard m={}", m), || s.shard(b"", &m, &[0; 16]));
    }
    let v = Prio3::new_sum_vec(2, 3, 4, 2).unwrap();
    for m in [vec![], vec![1; 3], vec![1; 5], vec![4, 0, 0, 0], vec![u128::MAX; 4]] {
        probe(out, Want::Err, || format!("Prio3SumVec(3,4).shard m={:?}", m), || v.shard(b"", &m, &[0; 16]));
    }
}

// ---------------------------------------------------------------------------------------------
// D. Prio2
// ---------------------------------------------------------------------------------------------

fn prio2(out: &mut Out, rng: &mut Sm, thorough: bool) {
    let mut lens: Vec<usize> = vec![0, 1, 2, 7, 8, 1 << 10, (1 << 11) - 1, 1 << 11, (1 << 18) - 1, 1 << 18, (1 << 19) - 1, 1 << 19, (1 << 30) - 1, 1 << 30, (1 << 31) - 1, 1 << 31, (1 << 32) - 1, 1 << 32, (1 << 62) - 1, 1 << 62, (1 << 63) - 1, 1 << 63, usize::MAX - 1, usize::MAX];
    if thorough {
        for _ in 0..40 {
            lens.push((rng.next() >> rng.below(64)) as usize);
        }
    }
    for n in lens {
        let r = catch(|| Prio2::new(n));
        let c = class(&r);
        out.oracle(c != "panic", || format!("Prio2::new({})", n), || format!("panicked: {}", r.as_ref().err().cloned().unwrap_or_default()));
        // the documented domain: the proof needs 2 * next_power_of_two(n + 1) evaluation points, and the field has 2^20
        let fits = n.checked_add(1).and_then(|x| x.checked_next_power_of_two()).and_then(|x| x.checked_mul(2)).map(|x| x <= 1 << 20).unwrap_or(false);
        out.oracle((c == "ok") == fits, || format!("Prio2::new({})", n), || format!("{} although the dimension {} the field's capacity", if c == "ok" { "accepted" } else { "refused" }, if fits { "fits" } else { "exceeds" }));
        out.case(format!("c16 prio2new {}", n), c.into());
        out.count(&format!("prio2new.{}", c));
    }
    for len in [1usize, 2, 5, 8] {
        let v = Prio2::new(len).unwrap();
        let key = [7u8; 32];
        let nonce = [9u8; 16];
        for n in [0usize, len - 1, len + 1, 2 * len + 1] {
            if n != len {
                probe(out, Want::Err, || format!("Prio2({}).shard measurement_len={}", len, n), || v.shard(b"", &vec![1u32; n], &nonce));
            }
        }
        let (Some(((), shares)), _) = probe(out, Want::Ok, || format!("Prio2({}).shard valid", len), || v.shard(b"", &vec![1u32; len], &nonce)) else { continue };
        for id in [2usize, 3, 255, 256, usize::MAX] {
            probe(out, Want::Err, || format!("Prio2({}).verify_init agg_id={}", len, id), || v.verify_init(&key, b"", id, &(), &nonce, &(), &shares[0]));
        }
        probe(out, Want::NoPanic, || format!("Prio2({}).verify_init leader share as helper", len), || v.verify_init(&key, b"", 1, &(), &nonce, &(), &shares[0]));
        probe(out, Want::NoPanic, || format!("Prio2({}).verify_init helper share as leader", len), || v.verify_init(&key, b"", 0, &(), &nonce, &(), &shares[1]));
        let Share::Leader(data) = &shares[0] else { continue };
        for n in [0usize, 1, len - 1, len, data.len() - 1, data.len() + 1, 2 * data.len()] {
            if n == data.len() {
                continue;
            }
            let d: Vec<FieldPrio2> = (0..n).map(|i| data[i % data.len()]).collect();
            probe(out, Want::Err, || format!("Prio2({}).verify_init leader share len={} want={}", len, n, data.len()), || v.verify_init(&key, b"", 0, &(), &nonce, &(), &Share::Leader(d.clone())));
        }
        let st: Vec<_> = (0..2).filter_map(|id| v.verify_init(&key, b"", id, &(), &nonce, &(), &shares[id]).ok()).collect();
        if st.len() == 2 {
            for n in [0usize, 1, 3, 4] {
                let l: Vec<_> = (0..n).map(|i| st[i % 2].1.clone()).collect();
                probe(out, Want::Err, || format!("Prio2({}).verifier_shares_to_message shares={}", len, n), || v.verifier_shares_to_message(b"", &(), l.clone()));
            }
            probe(out, Want::Ok, || format!("Prio2({}).verifier_shares_to_message valid", len), || v.verifier_shares_to_message(b"", &(), [st[0].1.clone(), st[1].1.clone()]));
            probe(out, Want::Ok, || format!("Prio2({}).verify_next", len), || v.verify_next(b"", st[0].0.clone(), ()));
        }
        for n in [0usize, len - 1, len + 1] {
            if n != len {
                let o = OutputShare::from(vec![FieldPrio2::from(1u32); n]);
                probe(out, Want::Err, || format!("Prio2({}).aggregate output_share_len={}", len, n), || v.aggregate(&(), [o.clone()]));
                let a = AggregateShare::from(o.clone());
                probe(out, Want::Err, || format!("Prio2({}).unshard agg_share_len={}", len, n), || v.unshard(&(), [a.clone()], 1));
            }
        }
    }
}

// ---------------------------------------------------------------------------------------------
// E. Poplar1
// ---------------------------------------------------------------------------------------------

fn bools(rng: &mut Sm, n: usize) -> Vec<bool> {
    (0..n).map(|_| rng.next() & 1 == 1).collect()
}

fn poplar1(out: &mut Out, rng: &mut Sm, thorough: bool) {
    type P = Poplar1<XofTurboShake128, 32>;
    let key = [3u8; 32];
    let nonce = [5u8; 16];
    // degenerate instance
    let z: P = Poplar1::new_turboshake128(0);
    probe(out, Want::Err, || "Poplar1(0).shard empty input".into(), || z.shard(b"", &IdpfInput::from_bools(&[]), &nonce));
    probe(out, Want::Err, || "Poplar1(0).shard 1-bit input".into(), || z.shard(b"", &IdpfInput::from_bools(&[true]), &nonce));
    probe(out, Want::NoPanic, || "Poplar1(0).unshard".into(), || z.unshard(&Poplar1AggregationParam::try_from_prefixes(vec![IdpfInput::from_bools(&[true])]).unwrap(), [Poplar1FieldVec::Inner(vec![Field64::from(1)])], 1));
    let sizes: Vec<usize> = if thorough { vec![1, 2, 3, 8, 9, 64, 65] } else { vec![1, 2, 8] };
    let mut reports = vec![];
    for &bits in &sizes {
        let v: P = Poplar1::new_turboshake128(bits);
        let input = bools(rng, bits);
        for n in [0usize, bits - 1, bits + 1, 2 * bits] {
            if n != bits {
                probe(out, Want::Err, || format!("Poplar1({}).shard input_len={}", bits, n), || v.shard(b"ctx", &IdpfInput::from_bools(&bools(&mut Sm::new(n as u64), n)), &nonce));
            }
        }
        let (Some((public, shares)), _) = probe(out, Want::Ok, || format!("Poplar1({}).shard valid", bits), || v.shard(b"ctx", &IdpfInput::from_bools(&input), &nonce)) else { continue };
        reports.push((bits, input.clone(), public.clone(), shares.clone()));
        let param = |level: usize, inp: &[bool]| Poplar1AggregationParam::try_from_prefixes(vec![IdpfInput::from_bools(&inp[..level + 1])]).unwrap();
        // aggregator ids
        for id in [2usize, 3, 255, 256, 257, usize::MAX] {
            probe(out, Want::Err, || format!("Poplar1({}).verify_init agg_id={}", bits, id), || v.verify_init(&key, b"ctx", id, &param(0, &input), &nonce, &public, &shares[0]));
        }
        // every valid level works for both aggregators
        for level in 0..bits {
            for id in 0..2 {
                probe(out, Want::Ok, || format!("Poplar1({}).verify_init level={} id={}", bits, level, id), || v.verify_init(&key, b"ctx", id, &param(level, &input), &nonce, &public, &shares[id]));
            }
        }
        // levels beyond the tree
        let long = [input.clone(), bools(rng, bits + 70)].concat();
        for level in [bits, bits + 1, bits + 63] {
            probe(out, Want::Err, || format!("Poplar1({}).verify_init level={} (beyond the tree)", bits, level), || v.verify_init(&key, b"ctx", 0, &param(level, &long), &nonce, &public, &shares[0]));
        }
        // verifier share combination
        let vs: Vec<_> = (0..2).filter_map(|id| v.verify_init(&key, b"ctx", id, &param(bits - 1, &input), &nonce, &public, &shares[id]).ok()).collect();
        if vs.len() == 2 {
            let ap = param(bits - 1, &input);
            for n in [0usize, 1, 3, 4, 258] {
                let l: Vec<_> = (0..n).map(|i| vs[i % 2].1.clone()).collect();
                probe(out, Want::Err, || format!("Poplar1({}).verifier_shares_to_message shares={}", bits, n), || v.verifier_shares_to_message(b"ctx", &ap, l.clone()));
            }
            let f64v = |n: usize| Poplar1FieldVec::Inner(vec![Field64::from(1); n]);
            for (a, b) in [(0usize, 0usize), (2, 2), (3, 2), (1, 3), (4, 4), (0, 3)] {
                probe(out, Want::Err, || format!("Poplar1({}).verifier_shares_to_message share lengths {} and {}", bits, a, b), || v.verifier_shares_to_message(b"ctx", &ap, [f64v(a), f64v(b)]));
            }
            probe(out, Want::Err, || format!("Poplar1({}).verifier_shares_to_message mixed field types", bits), || v.verifier_shares_to_message(b"ctx", &ap, [vs[0].1.clone(), f64v(3)]));
            if let (Some(msg), _) = probe(out, Want::Ok, || format!("Poplar1({}).verifier_shares_to_message valid", bits), || v.verifier_shares_to_message(b"ctx", &ap, [vs[0].1.clone(), vs[1].1.clone()])) {
                // a leaf-level message for an inner-level state and vice versa
                if bits > 1 {
                    let inner: Vec<_> = (0..2).filter_map(|id| v.verify_init(&key, b"ctx", id, &param(0, &input), &nonce, &public, &shares[id]).ok()).collect();
                    if inner.len() == 2 {
                        probe(out, Want::Err, || format!("Poplar1({}).verify_next inner state, leaf message", bits), || v.verify_next(b"ctx", inner[0].0.clone(), msg.clone()).map(|_| ()));
                        if let Ok(imsg) = v.verifier_shares_to_message(b"ctx", &param(0, &input), [inner[0].1.clone(), inner[1].1.clone()]) {
                            probe(out, Want::Err, || format!("Poplar1({}).verify_next leaf state, inner message", bits), || v.verify_next(b"ctx", vs[0].0.clone(), imsg.clone()).map(|_| ()));
                        }
                    }
                }
                // second-round message offered in the first round
                if let Ok(VerifyTransition::Continue(st2, sh2)) = v.verify_next(b"ctx", vs[0].0.clone(), msg.clone()) {
                    probe(out, Want::Err, || format!("Poplar1({}).verify_next round-two state, round-one message", bits), || v.verify_next(b"ctx", st2.clone(), msg.clone()).map(|_| ()));
                    let _ = sh2;
                }
            }
        }
        // aggregate / unshard lengths
        let ap = param(bits - 1, &input);
        for n in [0usize, 2, 3] {
            probe(out, Want::Err, || format!("Poplar1({}).unshard share_len={} want=1", bits, n), || v.unshard(&ap, [Poplar1FieldVec::Leaf(vec![prio::field::Field255::from(1); n])], 1));
        }
        probe(out, Want::Err, || format!("Poplar1({}).unshard inner share at the leaf level", bits), || v.unshard(&ap, [Poplar1FieldVec::Inner(vec![Field64::from(1)])], 1));
    }
    // reports sharded for one tree height offered to an instance of another height ("shares of
    // the wrong length")
    for (bits_a, input, public, shares) in &reports {
        for &bits_b in &sizes {
            if bits_b == *bits_a {
                continue;
            }
            let v: P = Poplar1::new_turboshake128(bits_b);
            let common = (*bits_a).min(bits_b);
            let mut levels = vec![0, common - 1];
            if bits_b > common {
                levels.push(bits_b - 1);
                levels.push(common);
            }
            levels.sort();
            levels.dedup();
            for level in levels {
                let mut pre = input.clone();
                pre.extend(bools(&mut Sm::new(level as u64), level + 1));
                let ap = Poplar1AggregationParam::try_from_prefixes(vec![IdpfInput::from_bools(&pre[..level + 1])]).unwrap();
                for id in 0..2 {
                    probe(out, Want::NoPanic, || format!("Poplar1({}).verify_init on a {}-bit report, level={} id={}", bits_b, bits_a, level, id), || v.verify_init(&key, b"ctx", id, &ap, &nonce, public, &shares[id]));
                }
            }
        }
    }
    // deep trees: the correlated-randomness fast-forward multiplies the level by 3 in a u16
    if thorough {
        for (bits, level) in [(21_848usize, 21_845usize), (21_848, 21_846), (40_000, 30_000)] {
            let v: P = Poplar1::new_turboshake128(bits);
            let input = bools(rng, bits);
            if let Ok((public, shares)) = v.shard(b"ctx", &IdpfInput::from_bools(&input), &nonce) {
                let ap = Poplar1AggregationParam::try_from_prefixes(vec![IdpfInput::from_bools(&input[..level + 1])]).unwrap();
                probe(out, Want::Ok, || format!("Poplar1({}).verify_init level={}", bits, level), || v.verify_init(&key, b"ctx", 0, &ap, &nonce, &public, &shares[0]));
            }
        }
    }
}

// ---------------------------------------------------------------------------------------------
// F. differential privacy types
// ---------------------------------------------------------------------------------------------

fn dp(out: &mut Out, rng: &mut Sm, _thorough: bool) {
    let vals: [u128; 7] = [0, 1, 2, 1000, u64::MAX as u128, u128::MAX - 1, u128::MAX];
    for &n in &vals {
        for &d in &vals {
            let (r, _) = probe(out, if d == 0 { Want::Err } else { Want::Ok }, || format!("Rational::from_unsigned({}, {})", n, d), || Rational::from_unsigned(n, d));
            let Some(r) = r else { continue };
            let want = if n == 0 { Want::Err } else { Want::Ok };
            let (zb, _) = probe(out, want, || format!("ZCdpBudget::new({}/{})", n, d), || ZCdpBudget::new(r.clone()));
            let (pb, _) = probe(out, want, || format!("PureDpBudget::new({}/{})", n, d), || PureDpBudget::new(r.clone()));
            probe(out, Want::Ok, || format!("DiscreteGaussian::new({}/{})", n, d), || DiscreteGaussian::new(r.clone()));
            probe(out, want, || format!("DiscreteLaplace::new({}/{})", n, d), || DiscreteLaplace::new(r.clone()));
            for &sn in &[0u128, 1, u128::MAX] {
                let s = Rational::from_unsigned(sn, 1u128).unwrap();
                if let Some(zb) = &zb {
                    let st = ZCdpDiscreteGaussian::from_budget(zb.clone());
                    probe(out, Want::Ok, || format!("ZCdpDiscreteGaussian(eps={}/{}).create_distribution({})", n, d, sn), || st.create_distribution(s.clone()));
                }
                if let Some(pb) = &pb {
                    let st = PureDpDiscreteLaplace::from_budget(pb.clone());
                    probe(out, if sn == 0 { Want::Err } else { Want::Ok }, || format!("PureDpDiscreteLaplace(eps={}/{}).create_distribution({})", n, d, sn), || st.create_distribution(s.clone()));
                }
            }
        }
    }
    // noise on aggregate shares of any length
    use prio::vdaf::AggregatorWithNoise;
    let eps = PureDpBudget::new(Rational::from_unsigned(1u8, 2u8).unwrap()).unwrap();
    let st = PureDpDiscreteLaplace::from_budget(eps);
    let h = Prio3::new_histogram(2, 4, 2).unwrap();
    let sv = Prio3::new_sum_vec(2, 255, 3, 2).unwrap();
    for n in [0usize, 1, 3, 4, 9] {
        let mut a = AggregateShare::from(OutputShare::from(rand_vec::<Field128>(rng, n)));
        probe(out, Want::NoPanic, || format!("Prio3Histogram.add_noise_to_agg_share len={}", n), || h.add_noise_to_agg_share(&st, &(), &mut a, 1));
        let mut a = AggregateShare::from(OutputShare::from(rand_vec::<Field128>(rng, n)));
        probe(out, Want::NoPanic, || format!("Prio3SumVec.add_noise_to_agg_share len={}", n), || sv.add_noise_to_agg_share(&st, &(), &mut a, 1));
    }
    let wide = Prio3::new_sum_vec(2, modulus::<Field128>() - 1, 2, 2).unwrap();
    let mut a = AggregateShare::from(OutputShare::from(rand_vec::<Field128>(rng, 2)));
    probe(out, Want::NoPanic, || "Prio3SumVec(max=p-1).add_noise_to_agg_share".into(), || wide.add_noise_to_agg_share(&st, &(), &mut a, 1));
    let _ = ok_unit(());
    let _ = fe::<Field64>;
}

/// the gadgets are public too: calls with the wrong number of inputs, no inputs, wire polynomials of different
/// lengths or an output buffer of the wrong length are refused with an error — no panic, no silent success
fn gadgets(out: &mut Out, rng: &mut Sm) {
    use prio::flp::gadgets::{ParallelSumGadget, PolyEval};
    use prio::flp::Gadget;
    type F = Field128;
    let class = |r: &Result<Result<(), prio::flp::FlpError>, String>| match r {
        Ok(Ok(())) => "ok",
        Ok(Err(_)) => "err",
        Err(_) => "panic",
    };
    let mut gs: Vec<(String, Box<dyn Gadget<F>>)> = vec![
        ("Mul".into(), Box::new(Mul::new(3))),
        ("PolyEval".into(), Box::new(PolyEval::new(vec![fe::<F>(0), -fe::<F>(1), fe::<F>(1)], 3))),
        ("ParallelSum(Mul,2)".into(), Box::new(ParallelSum::<F, Mul>::new(Mul::new(3), 2))),
        ("ParallelSum(Mul,0)".into(), Box::new(ParallelSum::<F, Mul>::new(Mul::new(3), 0))),
    ];
    for (name, g) in gs.iter_mut() {
        let arity = g.arity();
        // eval: every input count from 0 to arity + 2
        for n in 0..=arity + 2 {
            let inp = rand_vec::<F>(rng, n);
            let r = catch(AssertUnwindSafe(|| g.eval(&inp).map(|_| ())));
            let want = if n == arity && arity > 0 { "ok" } else { "err" };
            out.oracle(class(&r) == want, || format!("{}::eval with {} inputs (arity {})", name, n, arity), || format!("{} (expected {})", class(&r), want));
            out.count("gadget.eval");
        }
        // eval_poly: wire polynomials of length 4, output of length 8 is the well-formed call
        let wires = |rng: &mut Sm, n: usize, len: usize| -> Vec<Vec<F>> { (0..n).map(|_| rand_vec::<F>(rng, len)).collect() };
        let good_out = 8usize;
        let mut cases: Vec<(String, Vec<Vec<F>>, usize, bool)> = vec![];
        cases.push(("well-formed".into(), wires(rng, arity, 4), good_out, arity > 0));
        cases.push(("no wires".into(), vec![], good_out, false));
        cases.push(("one wire too few".into(), wires(rng, arity.saturating_sub(1), 4), good_out, false));
        cases.push(("one wire too many".into(), wires(rng, arity + 1, 4), good_out, false));
        for ol in [0usize, 4, 7, 9, 16] {
            cases.push((format!("output buffer of length {}", ol), wires(rng, arity, 4), ol, false));
        }
        if arity >= 2 {
            for k in [1usize, arity - 1] {
                for l in [0usize, 2, 8] {
                    let mut w = wires(rng, arity, 4);
                    w[k] = rand_vec::<F>(rng, l);
                    cases.push((format!("wire {} of length {} among wires of length 4", k, l), w, good_out, false));
                }
            }
            let mut w = wires(rng, arity, 4);
            w[0] = rand_vec::<F>(rng, 2);
            cases.push(("wire 0 of length 2 among wires of length 4".into(), w, good_out, false));
        }
        for (what, w, ol, ok) in cases {
            let mut outp = vec![fe::<F>(0); ol];
            let r = catch(AssertUnwindSafe(|| g.eval_poly(&mut outp, &w)));
            let want = if ok { "ok" } else { "err" };
            out.oracle(class(&r) == want, || format!("{}::eval_poly {}", name, what), || format!("{} (expected {})", class(&r), want));
            out.count("gadget.eval_poly");
        }
    }
}

pub fn run(out: &mut Out, thorough: bool, seed: u64) {
    let mut rng = Sm::new(seed ^ 0x1601);
    ctors::<Field64>(out, &mut rng, thorough);
    ctors::<Field128>(out, &mut rng, thorough);
    encoders(out, &mut rng, thorough);
    prio3(out, &mut rng, thorough);
    prio2(out, &mut rng, thorough);
    poplar1(out, &mut rng, thorough);
    dp(out, &mut rng, thorough);
    gadgets(out, &mut rng);
    // decode_result of every type: exactly output_len elements, anything else is an error
    {
        fn dr<T: Type>(out: &mut Out, rng: &mut Sm, name: &str, t: T)
        where
            T::Field: NttFriendlyFieldElement,
            <T::Field as FieldElementWithInteger>::Integer: TryFrom<u128>,
        {
            let ol = t.output_len();
            for n in [0usize, ol.saturating_sub(1), ol, ol + 1, 2 * ol + 1] {
                let data = rand_vec::<T::Field>(rng, n);
                let r = catch(AssertUnwindSafe(|| t.decode_result(&data, 1).map(|_| ())));
                let c = match &r { Ok(Ok(())) => "ok", Ok(Err(_)) => "err", Err(_) => "panic" };
                let want = if n == ol { "ok" } else { "err" };
                out.oracle(c == want, || format!("{}::decode_result on {} elements (output length {})", name, n, ol), || format!("{} (expected {})", c, want));
                out.count("decode_result");
            }
        }
        dr(out, &mut rng, "Count", Count::<Field64>::new());
        dr(out, &mut rng, "Sum", Sum::<Field64>::new(100).unwrap());
        dr(out, &mut rng, "Histogram", Histogram::<Field128, ParallelSum<Field128, Mul>>::new(5, 2).unwrap());
        dr(out, &mut rng, "SumVec", SumVec::<Field128, ParallelSum<Field128, Mul>>::new(7, 3, 2).unwrap());
        dr(out, &mut rng, "MultihotCountVec", MultihotCountVec::<Field128, ParallelSum<Field128, Mul>>::new(4, 2, 3).unwrap());
        dr(out, &mut rng, "L1BoundSum", L1BoundSum::<Field128, ParallelSum<Field128, Mul>>::new(7, 3, 4).unwrap());
    }
    // Idpf::gen: exactly bits - 1 inner values; an empty input, too few, too many are refused
    {
        use prio::idpf::Idpf;
        use prio::vdaf::poplar1::Poplar1IdpfValue;
        use prio::field::Field255;
        for bits in [1usize, 2, 5] {
            for n in 0..=bits + 1 {
                let idpf = Idpf::<Poplar1IdpfValue<Field64>, Poplar1IdpfValue<Field255>>::new((), ());
                let input = IdpfInput::from_bools(&vec![true; bits]);
                let r = catch(AssertUnwindSafe(|| idpf.gen(&input, (0..n).map(|_| Poplar1IdpfValue::new([Field64::from(1), Field64::from(2)])), Poplar1IdpfValue::new([Field255::from(1), Field255::from(2)]), b"ctx", &[0u8; 16]).map(|_| ())));
                let c = match &r { Ok(Ok(())) => "ok", Ok(Err(_)) => "err", Err(_) => "panic" };
                let want = if n + 1 == bits { "ok" } else { "err" };
                out.oracle(c == want, || format!("Idpf::gen for {} bits with {} inner values", bits, n), || format!("{} (expected {})", c, want));
                out.count("idpf.gen-arity");
            }
        }
        let idpf = Idpf::<Poplar1IdpfValue<Field64>, Poplar1IdpfValue<Field255>>::new((), ());
        let r = catch(AssertUnwindSafe(|| idpf.gen(&IdpfInput::from_bools(&[]), Vec::new(), Poplar1IdpfValue::new([Field255::from(1), Field255::from(2)]), b"ctx", &[0u8; 16]).map(|_| ())));
        out.oracle(matches!(&r, Ok(Err(_))), || "Idpf::gen for an empty input".to_string(), || "not refused with an error".into());
    }
    if thorough {
        huge_instances(out);
    }
}

/// instances whose gadget is called so often that the wire polynomials exceed the NTT's reach
/// (2^20 roots): sharding must fail with an error, not panic.  (Verification of such a report, when
/// sharding succeeds, is quadratic in the number of gadget calls and is not attempted here.)
pub fn huge_instances(out: &mut Out) {
    type PS = ParallelSum<Field128, Mul>;
    for (len, chunk) in [(600_000usize, 1usize), (1_100_000, 2)] {
        let Ok(typ) = Histogram::<Field128, PS>::new(len, chunk) else { continue };
        let Ok(vdaf) = Prio3::<_, XofTurboShake128, 32>::new(2, 1, 3, typ) else { continue };
        probe(out, Want::NoPanic, || format!("Prio3Histogram(len={}, chunk={}).shard", len, chunk), || vdaf.shard(b"", &1, &[0; 16]).map(|_| ()));
        // a hand-made leader share of exactly the right shape: verification must fail with an error too
        let t = Histogram::<Field128, PS>::new(len, chunk).unwrap();
        use prio::flp::Flp;
        let share = Prio3InputShare::Leader {
            measurement_share: vec![Field128::from(0); t.input_len()],
            proofs_share: vec![Field128::from(1); t.proof_len()],
            joint_rand_blind: Some(seed(&[1u8; 32])),
        };
        if let Ok(public) = Prio3PublicShare::<32>::get_decoded_with_param(&vdaf, &[7u8; 64]) {
            probe(out, Want::NoPanic, || format!("Prio3Histogram(len={}, chunk={}).verify_init on a share of the right shape", len, chunk), || vdaf.verify_init(&[0; 32], b"", 0, &(), &[0; 16], &public, &share).map(|_| ()));
        }
    }
}
