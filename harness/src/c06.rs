//! C06: IDPF shares reconstruct the programmed point function; caches are transparent.
use crate::util::{hex, Out, Sm};
use prio::codec::Encode;
use prio::field::{Field255, Field64, FieldElement};
use prio::idpf::{HashMapCache, Idpf, IdpfCache, IdpfInput, IdpfOutputShare, NoCache, RingBufferCache};
use prio::vdaf::poplar1::Poplar1IdpfValue;
use prio::verif_hooks::idpf_prg_log;

type VI = Poplar1IdpfValue<Field64>;
type VL = Poplar1IdpfValue<Field255>;

fn rand_f64(rng: &mut Sm) -> Field64 {
    match rng.below(6) {
        0 => Field64::zero(),
        1 => Field64::one(),
        2 => -Field64::one(),
        _ => Field64::from(rng.next() % 18446744069414584321),
    }
}
fn rand_f255(rng: &mut Sm) -> Field255 {
    match rng.below(6) {
        0 => Field255::zero(),
        1 => Field255::one(),
        _ => {
            let mut b = rng.bytes(32);
            b[31] &= 0x3f;
            Field255::try_from(b.as_slice()).unwrap()
        }
    }
}
fn bits_str(b: &[bool]) -> String {
    if b.is_empty() { "e".into() } else { b.iter().map(|x| if *x { '1' } else { '0' }).collect() }
}
fn enc<T: Encode>(x: &T) -> Vec<u8> {
    x.get_encoded().unwrap()
}

fn scenario(out: &mut Out, rng: &mut Sm, bits: usize, exhaustive: bool) {
    let idpf: Idpf<VI, VL> = Idpf::new((), ());
    let alpha: Vec<bool> = (0..bits).map(|_| rng.below(2) == 1).collect();
    let inner: Vec<VI> = (0..bits - 1).map(|_| Poplar1IdpfValue::new([rand_f64(rng), rand_f64(rng)])).collect();
    let leaf: VL = Poplar1IdpfValue::new([rand_f255(rng), rand_f255(rng)]);
    let ctx_len = rng.below(5) as usize;
    let ctx = rng.bytes(ctx_len);
    let nonce = rng.bytes(16);
    idpf_prg_log(true);
    let (public, keys) = idpf.gen(&IdpfInput::from_bools(&alpha), inner.clone(), leaf, &ctx, &nonce).unwrap();
    // evaluation sequence
    let mut evals: Vec<(usize, Vec<bool>)> = vec![];
    if exhaustive {
        for len in 1..=bits {
            for v in 0..(1u32 << len) {
                let p: Vec<bool> = (0..len).map(|i| (v >> (len - 1 - i)) & 1 == 1).collect();
                evals.push((0, p.clone()));
                evals.push((1, p));
            }
        }
        // shuffle: arbitrary evaluation order against the shared caches
        for i in (1..evals.len()).rev() {
            evals.swap(i, rng.below(i as u64 + 1) as usize);
        }
    } else {
        for _ in 0..24 {
            let len = 1 + rng.below(bits as u64) as usize;
            let mut p: Vec<bool> = alpha[..len].to_vec();
            // on path, or diverging at a random depth, or random
            match rng.below(3) {
                0 => {}
                1 => {
                    let d = rng.below(len as u64) as usize;
                    p[d] = !p[d];
                    for x in p.iter_mut().skip(d + 1) {
                        *x = rng.below(2) == 1;
                    }
                }
                _ => p = (0..len).map(|_| rng.below(2) == 1).collect(),
            }
            let id = rng.below(2) as usize;
            evals.push((id, p.clone()));
            if rng.below(2) == 0 {
                evals.push((1 - id, p));
            }
        }
    }
    // error cases: empty prefix, too long, bad id
    evals.push((0, vec![]));
    evals.push((1, vec![true; bits + 1]));
    evals.push((2, vec![true]));
    let kinds: Vec<(String, Box<dyn Fn() -> Box<dyn IdpfCache>>)> = vec![
        ("none".into(), Box::new(|| Box::new(NoCache::new()) as Box<dyn IdpfCache>)),
        ("hash".into(), Box::new(|| Box::new(HashMapCache::new()) as Box<dyn IdpfCache>)),
        ("ring:0".into(), Box::new(|| Box::new(RingBufferCache::new(0)) as Box<dyn IdpfCache>)),
        ("ring:1".into(), Box::new(|| Box::new(RingBufferCache::new(1)) as Box<dyn IdpfCache>)),
        ("ring:2".into(), Box::new(|| Box::new(RingBufferCache::new(2)) as Box<dyn IdpfCache>)),
        ("ring:3".into(), Box::new(|| Box::new(RingBufferCache::new(3)) as Box<dyn IdpfCache>)),
        ("ring:7".into(), Box::new(|| Box::new(RingBufferCache::new(7)) as Box<dyn IdpfCache>)),
    ];
    // the same prefix can be stored at any bit offset inside its backing words (a sub-slice of a
    // longer bit vector, which `to_bitvec()` copies without re-aligning): results must not depend on it
    let offsets: Vec<usize> = evals.iter().map(|_| if rng.below(3) == 0 { 1 + rng.below(9) as usize } else { 0 }).collect();
    let input_at = |p: &[bool], off: usize| -> IdpfInput {
        if off == 0 {
            IdpfInput::from_bools(p)
        } else {
            let mut bv: bitvec::vec::BitVec<usize, bitvec::order::Lsb0> = bitvec::vec::BitVec::new();
            for i in 0..off {
                bv.push(i % 2 == 0);
            }
            for b in p {
                bv.push(*b);
            }
            IdpfInput::from(bv[off..].to_bitvec())
        }
    };
    let mut per_kind: Vec<Vec<String>> = vec![];
    for (_, mk) in &kinds {
        let mut caches = [mk(), mk()];
        let mut res = vec![];
        for (k, (id, p)) in evals.iter().enumerate() {
            let r = if *id < 2 {
                idpf.eval(*id, &public, &keys[*id], &input_at(p, offsets[k]), &ctx, &nonce, caches[*id].as_mut())
            } else {
                idpf.eval(*id, &public, &keys[0], &input_at(p, offsets[k]), &ctx, &nonce, caches[0].as_mut())
            };
            res.push(match r {
                Ok(IdpfOutputShare::Inner(v)) => format!("I:{}", hex(&enc(&v))),
                Ok(IdpfOutputShare::Leaf(v)) => format!("L:{}", hex(&enc(&v))),
                Err(_) => "err".into(),
            });
        }
        per_kind.push(res);
    }
    let log = idpf_prg_log(false);
    // oracle 1: every cache kind gives the results of NoCache
    for (k, r) in per_kind.iter().enumerate() {
        out.oracle(r == &per_kind[0], || format!("idpf bits={} cache={} alpha={}", bits, kinds[k].0, bits_str(&alpha)), || "results differ from NoCache".into());
    }
    // oracle 2: shares reconstruct the point function
    let mut by_prefix: std::collections::HashMap<Vec<bool>, [Option<String>; 2]> = Default::default();
    for ((id, p), r) in evals.iter().zip(per_kind[0].iter()) {
        if *id < 2 && !p.is_empty() && p.len() <= bits {
            by_prefix.entry(p.clone()).or_default()[*id] = Some(r.clone());
        }
    }
    for (p, pair) in by_prefix {
        if let [Some(a), Some(b)] = pair {
            let on_path = p[..] == alpha[..p.len()];
            let ok = if p.len() == bits {
                let (x, y) = (a.strip_prefix("L:"), b.strip_prefix("L:"));
                match (x, y) {
                    (Some(x), Some(y)) => {
                        let d = |h: &str, i: usize| Field255::try_from(&crate::util::unhex(h)[32 * i..32 * i + 32]).unwrap();
                        let want = if on_path { enc(&leaf) } else { enc(&Poplar1IdpfValue::new([Field255::zero(), Field255::zero()])) };
                        let mut got = vec![];
                        (d(x, 0) + d(y, 0)).encode(&mut got).unwrap();
                        (d(x, 1) + d(y, 1)).encode(&mut got).unwrap();
                        got == want
                    }
                    _ => false,
                }
            } else {
                let (x, y) = (a.strip_prefix("I:"), b.strip_prefix("I:"));
                match (x, y) {
                    (Some(x), Some(y)) => {
                        let d = |h: &str, i: usize| Field64::try_from(&crate::util::unhex(h)[8 * i..8 * i + 8]).unwrap();
                        let want = if on_path { enc(&inner[p.len() - 1]) } else { enc(&Poplar1IdpfValue::new([Field64::zero(), Field64::zero()])) };
                        let mut got = vec![];
                        (d(x, 0) + d(y, 0)).encode(&mut got).unwrap();
                        (d(x, 1) + d(y, 1)).encode(&mut got).unwrap();
                        got == want
                    }
                    _ => false,
                }
            };
            out.oracle(ok, || format!("idpf bits={} alpha={} prefix={}", bits, bits_str(&alpha), bits_str(&p)), || "shares do not add up to the programmed point function".into());
        }
    }
    // correspondence: one line per cache kind (the PRG table is shared)
    let mut table: Vec<String> = vec![];
    let mut seen = std::collections::HashSet::new();
    for (kind, leaf_mode, seed, o) in &log {
        let key = (*kind, *leaf_mode, *seed);
        if seen.insert(key) {
            table.push(format!("{}{}:{}:{}", kind, *leaf_mode as u8, hex(seed), hex(o)));
        }
    }
    let inner_hex = hex(&inner.iter().flat_map(|v| enc(v)).collect::<Vec<u8>>());
    let evs = evals.iter().map(|(id, p)| format!("{}:{}", id, bits_str(p))).collect::<Vec<_>>().join(";");
    for (k, (name, _)) in kinds.iter().enumerate() {
        if !exhaustive && k > 0 && k % 2 == 0 && bits > 6 {
            continue;
        }
        out.case(
            format!("idpf {} {} {} {} {} {} {} {}", bits_str(&alpha), hex(keys[0].as_ref()), hex(keys[1].as_ref()), inner_hex, hex(&enc(&leaf)), name, evs, if table.is_empty() { "none".into() } else { table.join(",") }),
            format!("{} {}", hex(&enc(&public)), per_kind[k].join(" ")),
        );
        out.count(&format!("idpf.bits{}.{}", bits.min(9), name));
    }
}

/// one `Idpf` object used for many reports: key generation and evaluation must depend only on their
/// arguments (context, nonce, keys), not on what the object processed before
fn reuse_cases(out: &mut Out, rng: &mut Sm, thorough: bool) {
    let idpf: Idpf<VI, VL> = Idpf::new((), ());
    let c1 = rng.bytes(4);
    let c2 = rng.bytes(4);
    let n1 = rng.bytes(16);
    let n2 = rng.bytes(16);
    let mut seq: Vec<(&Vec<u8>, &Vec<u8>)> = vec![(&c1, &n1), (&c1, &n2), (&c2, &n2), (&c2, &n1), (&c1, &n1)];
    if thorough {
        seq.extend([(&c2, &n2), (&c1, &n2), (&c1, &n1), (&c2, &n1)]);
    }
    for (step, (ctx, nonce)) in seq.into_iter().enumerate() {
        let bits = 1 + (step % 3);
        let alpha: Vec<bool> = (0..bits).map(|_| rng.below(2) == 1).collect();
        let inner: Vec<VI> = (0..bits - 1).map(|_| Poplar1IdpfValue::new([rand_f64(rng), rand_f64(rng)])).collect();
        let leaf: VL = Poplar1IdpfValue::new([rand_f255(rng), rand_f255(rng)]);
        let Ok((public, keys)) = idpf.gen(&IdpfInput::from_bools(&alpha), inner.clone(), leaf, ctx, nonce) else {
            out.oracle(false, || format!("idpf reuse step {}", step), || "gen failed".into());
            continue;
        };
        for len in 1..=bits {
            for v in 0..(1u32 << len) {
                let p: Vec<bool> = (0..len).map(|i| (v >> (len - 1 - i)) & 1 == 1).collect();
                let r0 = idpf.eval(0, &public, &keys[0], &IdpfInput::from_bools(&p), ctx, nonce, &mut NoCache::new());
                let r1 = idpf.eval(1, &public, &keys[1], &IdpfInput::from_bools(&p), ctx, nonce, &mut NoCache::new());
                let on_path = p[..] == alpha[..len];
                let ok = match (r0, r1) {
                    (Ok(IdpfOutputShare::Inner(a)), Ok(IdpfOutputShare::Inner(b))) => {
                        let want = if on_path { enc(&inner[len - 1]) } else { enc(&Poplar1IdpfValue::new([Field64::zero(), Field64::zero()])) };
                        let (ea, eb) = (enc(&a), enc(&b));
                        let d = |h: &[u8], i: usize| Field64::try_from(&h[8 * i..8 * i + 8]).unwrap();
                        let mut got = vec![];
                        (d(&ea, 0) + d(&eb, 0)).encode(&mut got).unwrap();
                        (d(&ea, 1) + d(&eb, 1)).encode(&mut got).unwrap();
                        got == want
                    }
                    (Ok(IdpfOutputShare::Leaf(a)), Ok(IdpfOutputShare::Leaf(b))) => {
                        let want = if on_path { enc(&leaf) } else { enc(&Poplar1IdpfValue::new([Field255::zero(), Field255::zero()])) };
                        let (ea, eb) = (enc(&a), enc(&b));
                        let d = |h: &[u8], i: usize| Field255::try_from(&h[32 * i..32 * i + 32]).unwrap();
                        let mut got = vec![];
                        (d(&ea, 0) + d(&eb, 0)).encode(&mut got).unwrap();
                        (d(&ea, 1) + d(&eb, 1)).encode(&mut got).unwrap();
                        got == want
                    }
                    _ => false,
                };
                out.oracle(ok, || format!("idpf reuse: report {} through one Idpf object (ctx={} nonce={}) prefix={}", step, hex(ctx), hex(nonce), bits_str(&p)), || "shares do not add up to the programmed point function".into());
            }
        }
        out.count("idpf.reuse");
    }
}

pub fn run(out: &mut Out, thorough: bool, seed: u64) {
    let mut rng = Sm::new(seed ^ 0xC06);
    // exhaustive over all prefixes of all lengths for small bit lengths, in shuffled order
    for bits in 1..=(if thorough { 7 } else { 5 }) {
        for _ in 0..(if thorough { 6 } else { 3 }) {
            scenario(out, &mut rng, bits, true);
        }
    }
    for bits in 1..=(if thorough { 5 } else { 4 }) {
        for _ in 0..(if thorough { 4 } else { 2 }) {
            scenario_plain(out, &mut rng, bits);
        }
    }
    reuse_cases(out, &mut rng, thorough);
    for bits in [8usize, 12, 33, 64] {
        for _ in 0..(if thorough { 12 } else { 2 }) {
            scenario(out, &mut rng, bits, false);
        }
    }
    out.samples = out.ops.iter().step_by(out.ops.len() / 6 + 1).map(|s| s.chars().take(400).collect()).collect();
}

/// the same IDPF over plain field elements (`Idpf<Field64, Field128>`, the blanket `IdpfValue`
/// implementation): shares reconstruct the point function; correspondence through `idpf1`
fn scenario_plain(out: &mut Out, rng: &mut Sm, bits: usize) {
    use prio::field::Field128;
    let idpf: Idpf<Field64, Field128> = Idpf::new((), ());
    let alpha: Vec<bool> = (0..bits).map(|_| rng.below(2) == 1).collect();
    let inner: Vec<Field64> = (0..bits - 1).map(|_| rand_f64(rng)).collect();
    let leaf = Field128::from(rng.u128() % 340282366920938462946865773367900766209);
    let ctx = rng.bytes(3);
    let nonce = rng.bytes(16);
    idpf_prg_log(true);
    let (public, keys) = idpf.gen(&IdpfInput::from_bools(&alpha), inner.clone(), leaf, &ctx, &nonce).unwrap();
    let mut evals: Vec<(usize, Vec<bool>)> = vec![];
    for len in 1..=bits {
        for v in 0..(1u32 << len) {
            let p: Vec<bool> = (0..len).map(|i| (v >> (len - 1 - i)) & 1 == 1).collect();
            evals.push((0, p.clone()));
            evals.push((1, p));
        }
    }
    for i in (1..evals.len()).rev() {
        evals.swap(i, rng.below(i as u64 + 1) as usize);
    }
    let mut caches: [Box<dyn IdpfCache>; 2] = [Box::new(RingBufferCache::new(3)), Box::new(RingBufferCache::new(3))];
    let mut res = vec![];
    let mut by_prefix: std::collections::HashMap<Vec<bool>, [Option<Vec<u8>>; 2]> = Default::default();
    for (id, p) in &evals {
        let r = idpf.eval(*id, &public, &keys[*id], &IdpfInput::from_bools(p), &ctx, &nonce, caches[*id].as_mut());
        res.push(match &r {
            Ok(IdpfOutputShare::Inner(v)) => format!("I:{}", hex(&enc(v))),
            Ok(IdpfOutputShare::Leaf(v)) => format!("L:{}", hex(&enc(v))),
            Err(_) => "err".into(),
        });
        if let Ok(o) = r {
            by_prefix.entry(p.clone()).or_default()[*id] = Some(match o {
                IdpfOutputShare::Inner(v) => enc(&v),
                IdpfOutputShare::Leaf(v) => enc(&v),
            });
        }
    }
    let log = idpf_prg_log(false);
    for (p, pair) in by_prefix {
        if let [Some(a), Some(b)] = pair {
            let on_path = p[..] == alpha[..p.len()];
            let ok = if p.len() == bits {
                let s = Field128::try_from(a.as_slice()).unwrap() + Field128::try_from(b.as_slice()).unwrap();
                s == if on_path { leaf } else { Field128::zero() }
            } else {
                let s = Field64::try_from(a.as_slice()).unwrap() + Field64::try_from(b.as_slice()).unwrap();
                s == if on_path { inner[p.len() - 1] } else { Field64::zero() }
            };
            out.oracle(ok, || format!("idpf over plain field elements bits={} alpha={} prefix={}", bits, bits_str(&alpha), bits_str(&p)), || "shares do not add up to the programmed point function".into());
        }
    }
    let mut table: Vec<String> = vec![];
    let mut seen = std::collections::HashSet::new();
    for (kind, leaf_mode, seed, o) in &log {
        if seen.insert((*kind, *leaf_mode, *seed)) {
            table.push(format!("{}{}:{}:{}", kind, *leaf_mode as u8, hex(seed), hex(o)));
        }
    }
    let inner_hex = hex(&inner.iter().flat_map(|v| enc(v)).collect::<Vec<u8>>());
    let evs = evals.iter().map(|(id, p)| format!("{}:{}", id, bits_str(p))).collect::<Vec<_>>().join(";");
    out.case(
        format!("idpf1 {} {} {} {} {} ring:3 {} {}", bits_str(&alpha), hex(keys[0].as_ref()), hex(keys[1].as_ref()), inner_hex, hex(&enc(&leaf)), evs, if table.is_empty() { "none".into() } else { table.join(",") }),
        format!("{} {}", hex(&enc(&public)), res.join(" ")),
    );
    out.count("idpf.plain-field");
}
