//! C07 (canonical, round-trip, length-exact encodings) and C08 (total decoders).
//!
//! Every message type is driven through its real `get_decoded_with_param` on honest encodings,
//! mutations of them, short strings over a reduced alphabet and header extremes.  Each case is also
//! sent to the Lean model (`dec <format…> <hex>`), whose answer must be identical.
use crate::util::{catch, hex, Out, Sm};
use prio::codec::{Decode, Encode, ParameterizedDecode};
use prio::field::{Field128, Field255, Field64, FieldElement, FieldPrio2};
use prio::flp::{
    gadgets::{Mul, ParallelSum},
    types::{Count, Histogram, Sum, SumVec},
    Flp, Type,
};
use prio::idpf::IdpfInput;
use prio::topology::ping_pong::PingPongMessage;
use prio::vdaf::poplar1::{Poplar1, Poplar1AggregationParam, Poplar1FieldVec, Poplar1InputShare, Poplar1PublicShare,
    Poplar1VerifierMessage, Poplar1VerifierState};
use prio::vdaf::prio2::{Prio2, Prio2VerifierShare, Prio2VerifierState};
use prio::vdaf::prio3::{Prio3, Prio3InputShare, Prio3PublicShare, Prio3VerifierMessage, Prio3VerifierShare, Prio3VerifyState};
use prio::vdaf::xof::{Seed, XofTurboShake128};
use prio::vdaf::{Aggregator, AggregateShare, Client, OutputShare, Share, VerifyTransition};
use std::time::Instant;

/// one decodable message type together with its decoding parameter
thread_local! {
    /// value-level round trips of typed values (decode(encode(x)) == x), checked where the value is at hand
    static VALUE_CHECKS: std::cell::RefCell<Vec<(String, bool)>> = const { std::cell::RefCell::new(Vec::new()) };
}

fn value_check(what: String, ok: bool) {
    VALUE_CHECKS.with(|v| v.borrow_mut().push((what, ok)));
}

pub struct Target {
    /// the format description understood by the Lean driver
    pub fmt: String,
    /// honest encodings of this type under this parameter
    pub honest: Vec<Vec<u8>>,
    /// further inputs of interest that are not claimed to be valid
    pub extra: Vec<Vec<u8>>,
    /// `enclen …` request for the model's transcription of `encoded_len()`, with the real answer
    pub enclen: Vec<(String, String)>,
    /// real decode: Ok(re-encoding, advertised encoded_len) or Err
    pub dec: Box<dyn Fn(&[u8]) -> Result<(Vec<u8>, Option<usize>), ()>>,
    /// bytes a well-formed message of this type needs (for the allocation bound)
    pub nominal: usize,
}

fn target<T, P>(fmt: String, honest: Vec<Vec<u8>>, param: P) -> Target
where
    T: ParameterizedDecode<P> + Encode + 'static,
    P: 'static,
{
    let nominal = honest.iter().map(|h| h.len()).max().unwrap_or(0);
    Target {
        fmt,
        honest,
        extra: vec![],
        enclen: vec![],
        nominal,
        dec: Box::new(move |bytes: &[u8]| match T::get_decoded_with_param(&param, bytes) {
            Ok(v) => Ok((v.get_encoded().map_err(|_| ())?, v.encoded_len())),
            Err(_) => Err(()),
        }),
    }
}

fn fname<F: FieldElement>() -> &'static str {
    match F::ENCODED_SIZE {
        4 => "FP32",
        8 => "FP64",
        16 => "FP128",
        _ => "F255",
    }
}

fn prio3_targets<T>(ts: &mut Vec<Target>, typ: T, num_agg: u8, num_proofs: u8, meas: &T::Measurement, rng: &mut Sm)
where
    T: Type + 'static,
    T::Field: 'static,
{
    let vdaf: Prio3<T, XofTurboShake128, 32> = Prio3::new(num_agg, num_proofs, 0xFFFF_0001, typ.clone()).unwrap();
    let f = fname::<T::Field>();
    let jr = typ.joint_rand_len();
    let nonce: [u8; 16] = rng.bytes(16).try_into().unwrap();
    let vk: [u8; 32] = rng.bytes(32).try_into().unwrap();
    let ctx = b"verif ctx";
    let (public, inputs) = vdaf.shard(ctx, meas, &nonce).unwrap();
    ts.push(target::<Prio3PublicShare<32>, _>(
        format!("p3pub 32 {} {}", num_agg, jr),
        vec![public.get_encoded().unwrap()],
        vdaf.clone(),
    ));
    let mut states = vec![];
    let mut shares = vec![];
    for (id, inp) in inputs.iter().enumerate() {
        let proofs_len = typ.proof_len() * num_proofs as usize;
        ts.push(Target {
            extra: vec![],
            enclen: vec![],
            fmt: format!("p3in {} 32 {} {} {} {} {}", f, num_agg, id, typ.input_len(), proofs_len, jr),
            honest: vec![inp.get_encoded().unwrap()],
            nominal: inp.get_encoded().unwrap().len(),
            dec: {
                let v = vdaf.clone();
                Box::new(move |b: &[u8]| match Prio3InputShare::<T::Field, 32>::get_decoded_with_param(&(&v, id), b) {
                    Ok(x) => Ok((x.get_encoded().map_err(|_| ())?, x.encoded_len())),
                    Err(_) => Err(()),
                })
            },
        });
        let (st, sh) = vdaf.verify_init(&vk, ctx, id, &(), &nonce, &public, inp).unwrap();
        let what = format!("{} aggregators={} proofs={} id={}", std::any::type_name::<T>().rsplit("::").next().unwrap_or(""), num_agg, num_proofs, id);
        value_check(
            format!("Prio3VerifyState {}", what),
            Prio3VerifyState::<T::Field, 32>::get_decoded_with_param(&(&vdaf, id), &st.get_encoded().unwrap()).map(|x| x == st).unwrap_or(false),
        );
        value_check(
            format!("Prio3InputShare {}", what),
            Prio3InputShare::<T::Field, 32>::get_decoded_with_param(&(&vdaf, id), &inp.get_encoded().unwrap()).map(|x| x == *inp).unwrap_or(false),
        );
        value_check(
            format!("Prio3VerifierShare {}", what),
            Prio3VerifierShare::<T::Field, 32>::get_decoded_with_param(&st, &sh.get_encoded().unwrap()).map(|x| x == sh).unwrap_or(false),
        );
        // the decoded state is as good as the original: the next step on it gives the same result
        ts.push(Target {
            extra: vec![],
            enclen: vec![],
            fmt: format!("p3st {} 32 {} {} {} {}", f, num_agg, id, typ.output_len(), jr),
            honest: vec![st.get_encoded().unwrap()],
            nominal: st.get_encoded().unwrap().len(),
            dec: {
                let v = vdaf.clone();
                Box::new(move |b: &[u8]| match Prio3VerifyState::<T::Field, 32>::get_decoded_with_param(&(&v, id), b) {
                    Ok(x) => Ok((x.get_encoded().map_err(|_| ())?, x.encoded_len())),
                    Err(_) => Err(()),
                })
            },
        });
        states.push(st);
        shares.push(sh);
    }
    // roles outside the instance: one past the last, and ones that equal a valid role modulo 256 / 2^32
    for id in [num_agg as usize, 255, 256, 257, 256 + num_agg as usize, 1usize << 32, usize::MAX] {
        ts.push(Target {
            extra: vec![inputs[1].get_encoded().unwrap(), inputs[0].get_encoded().unwrap(), vec![]],
            enclen: vec![],
            fmt: format!("p3in {} 32 {} {} {} {} {}", f, num_agg, id, typ.input_len(), typ.proof_len() * num_proofs as usize, jr),
            honest: vec![],
            nominal: 64,
            dec: {
                let v = vdaf.clone();
                Box::new(move |b: &[u8]| match Prio3InputShare::<T::Field, 32>::get_decoded_with_param(&(&v, id), b) {
                    Ok(x) => Ok((x.get_encoded().map_err(|_| ())?, x.encoded_len())),
                    Err(_) => Err(()),
                })
            },
        });
        ts.push(Target {
            extra: vec![states[0].get_encoded().unwrap(), states[1].get_encoded().unwrap(), vec![]],
            enclen: vec![],
            fmt: format!("p3st {} 32 {} {} {} {}", f, num_agg, id, typ.output_len(), jr),
            honest: vec![],
            nominal: 64,
            dec: {
                let v = vdaf.clone();
                Box::new(move |b: &[u8]| match Prio3VerifyState::<T::Field, 32>::get_decoded_with_param(&(&v, id), b) {
                    Ok(x) => Ok((x.get_encoded().map_err(|_| ())?, x.encoded_len())),
                    Err(_) => Err(()),
                })
            },
        });
    }
    let vlen = typ.verifier_len() * num_proofs as usize;
    ts.push(target::<Prio3VerifierShare<T::Field, 32>, _>(
        format!("p3vs {} 32 {} {}", f, vlen, (jr > 0) as u8),
        shares.iter().map(|s| s.get_encoded().unwrap()).collect(),
        states[0].clone(),
    ));
    let msg = vdaf.verifier_shares_to_message(ctx, &(), shares.clone()).unwrap();
    value_check(
        format!("Prio3VerifierMessage aggregators={} proofs={}", num_agg, num_proofs),
        Prio3VerifierMessage::<32>::get_decoded_with_param(&states[0], &msg.get_encoded().unwrap()).map(|x| x == msg).unwrap_or(false),
    );
    value_check(
        format!("Prio3PublicShare aggregators={} proofs={}", num_agg, num_proofs),
        Prio3PublicShare::<32>::get_decoded_with_param(&vdaf, &public.get_encoded().unwrap()).map(|x| x == public).unwrap_or(false),
    );
    for (id, st) in states.iter().enumerate() {
        let back = Prio3VerifyState::<T::Field, 32>::get_decoded_with_param(&(&vdaf, id), &st.get_encoded().unwrap());
        let same = match (back.map(|b| vdaf.verify_next(ctx, b, msg.clone())), vdaf.verify_next(ctx, st.clone(), msg.clone())) {
            (Ok(Ok(VerifyTransition::Finish(a))), Ok(VerifyTransition::Finish(b))) => a == b,
            (Ok(Err(_)), Err(_)) => true,
            _ => false,
        };
        value_check(format!("Prio3VerifyState aggregators={} proofs={} id={}: verify_next on the decoded state", num_agg, num_proofs, id), same);
    }
    ts.push(target::<Prio3VerifierMessage<32>, _>(
        format!("p3vm 32 {}", (jr > 0) as u8),
        vec![msg.get_encoded().unwrap()],
        states[1].clone(),
    ));
    let mut outs = vec![];
    for st in states {
        if let Ok(VerifyTransition::Finish(o)) = vdaf.verify_next(ctx, st, msg.clone()) {
            outs.push(o);
        }
    }
    if let Some(o) = outs.first() {
        ts.push(Target {
            extra: vec![],
            enclen: vec![],
            fmt: format!("fvec {} {}", f, typ.output_len()),
            honest: vec![o.get_encoded().unwrap()],
            nominal: o.get_encoded().unwrap().len(),
            dec: {
                let v = vdaf.clone();
                Box::new(move |b: &[u8]| match OutputShare::<T::Field>::get_decoded_with_param(&(&v, &()), b) {
                    Ok(x) => Ok((x.get_encoded().map_err(|_| ())?, x.encoded_len())),
                    Err(_) => Err(()),
                })
            },
        });
        let agg = vdaf.aggregate(&(), outs.clone()).unwrap();
        ts.push(Target {
            extra: vec![],
            enclen: vec![],
            fmt: format!("fvec {} {}", f, typ.output_len()),
            honest: vec![agg.get_encoded().unwrap()],
            nominal: agg.get_encoded().unwrap().len(),
            dec: {
                let v = vdaf.clone();
                Box::new(move |b: &[u8]| match AggregateShare::<T::Field>::get_decoded_with_param(&(&v, &()), b) {
                    Ok(x) => Ok((x.get_encoded().map_err(|_| ())?, x.encoded_len())),
                    Err(_) => Err(()),
                })
            },
        });
    }
}

fn poplar1_targets(ts: &mut Vec<Target>, bits: usize, rng: &mut Sm) {
    let vdaf = Poplar1::new_turboshake128(bits);
    let bools: Vec<bool> = (0..bits).map(|_| rng.below(2) == 1).collect();
    let input = IdpfInput::from_bools(&bools);
    let nonce: [u8; 16] = rng.bytes(16).try_into().unwrap();
    let vk: [u8; 32] = rng.bytes(32).try_into().unwrap();
    let ctx = b"verif ctx";
    let (public, inputs) = vdaf.shard(ctx, &input, &nonce).unwrap();
    let mut t = target::<Poplar1PublicShare, _>(format!("idpfpub {}", bits), vec![public.get_encoded().unwrap()], bits);
    t.enclen.push((format!("enclen idpfpub {}", bits), format!("{:?}", public.encoded_len())));
    ts.push(t);
    for (id, inp) in inputs.iter().enumerate() {
        ts.push(Target {
            extra: vec![],
            enclen: vec![(format!("enclen pop1in 32 {}", bits - 1), format!("{:?}", inp.encoded_len()))],
            fmt: format!("pop1in 32 {}", bits),
            honest: vec![inp.get_encoded().unwrap()],
            nominal: inp.get_encoded().unwrap().len(),
            dec: {
                let v = vdaf.clone();
                Box::new(move |b: &[u8]| match Poplar1InputShare::<32>::get_decoded_with_param(&(&v, id), b) {
                    Ok(x) => Ok((x.get_encoded().map_err(|_| ())?, x.encoded_len())),
                    Err(_) => Err(()),
                })
            },
        });
    }
    for level in [0usize, bits / 2, bits - 1] {
        // the honest prefix, its sibling and (if there is room) a third candidate, sorted
        let mut cands: Vec<Vec<bool>> = vec![bools[..=level].to_vec()];
        let mut sib = bools[..=level].to_vec();
        sib[level] = !sib[level];
        cands.push(sib);
        if level >= 1 {
            let mut third = bools[..=level].to_vec();
            third[0] = !third[0];
            cands.push(third);
        }
        cands.sort();
        cands.dedup();
        let prefixes: Vec<IdpfInput> = cands.iter().map(|c| IdpfInput::from_bools(c)).collect();
        let param = match Poplar1AggregationParam::try_from_prefixes(prefixes) {
            Ok(p) => p,
            Err(_) => continue,
        };
        let mut t = target::<Poplar1AggregationParam, _>("pop1agg".into(), vec![param.get_encoded().unwrap()], ());
        t.enclen.push((format!("enclen pop1agg {} {}", param.level(), param.prefixes().len()), format!("{:?}", param.encoded_len())));
        ts.push(t);
        let is_leaf = level == bits - 1;
        let mut states = vec![];
        let mut shares = vec![];
        for id in 0..2 {
            let (st, sh) = vdaf.verify_init(&vk, ctx, id, &param, &nonce, &public, &inputs[id]).unwrap();
            ts.push(Target {
            extra: vec![],
            enclen: vec![],
                fmt: "pop1st".into(),
                honest: vec![st.get_encoded().unwrap()],
                nominal: st.get_encoded().unwrap().len(),
                dec: {
                    let v = vdaf.clone();
                    Box::new(move |b: &[u8]| match Poplar1VerifierState::get_decoded_with_param(&(&v, id), b) {
                        Ok(x) => Ok((x.get_encoded().map_err(|_| ())?, x.encoded_len())),
                        Err(_) => Err(()),
                    })
                },
            });
            states.push(st);
            shares.push(sh);
        }
        ts.push(target::<Poplar1FieldVec, _>(
            format!("pop1vs {} 0", is_leaf as u8),
            shares.iter().map(|s| s.get_encoded().unwrap()).collect(),
            states[0].clone(),
        ));
        let msg = vdaf.verifier_shares_to_message(ctx, &param, shares.clone()).unwrap();
        ts.push(target::<Poplar1VerifierMessage, _>(
            format!("pop1vm {} 0", is_leaf as u8),
            vec![msg.get_encoded().unwrap()],
            states[0].clone(),
        ));
        // second round
        let mut states2 = vec![];
        let mut shares2 = vec![];
        for (id, st) in states.into_iter().enumerate() {
            if let Ok(VerifyTransition::Continue(st2, sh2)) = vdaf.verify_next(ctx, st, msg.clone()) {
                ts.push(Target {
            extra: vec![],
            enclen: vec![],
                    fmt: "pop1st".into(),
                    honest: vec![st2.get_encoded().unwrap()],
                    nominal: st2.get_encoded().unwrap().len(),
                    dec: {
                        let v = vdaf.clone();
                        Box::new(move |b: &[u8]| match Poplar1VerifierState::get_decoded_with_param(&(&v, id), b) {
                            Ok(x) => Ok((x.get_encoded().map_err(|_| ())?, x.encoded_len())),
                            Err(_) => Err(()),
                        })
                    },
                });
                states2.push(st2);
                shares2.push(sh2);
            }
        }
        if states2.len() == 2 {
            ts.push(target::<Poplar1FieldVec, _>(
                format!("pop1vs {} 1", is_leaf as u8),
                shares2.iter().map(|s| s.get_encoded().unwrap()).collect(),
                states2[0].clone(),
            ));
            let msg2 = vdaf.verifier_shares_to_message(ctx, &param, shares2.clone()).unwrap();
            ts.push(target::<Poplar1VerifierMessage, _>(
                format!("pop1vm {} 1", is_leaf as u8),
                vec![msg2.get_encoded().unwrap()],
                states2[0].clone(),
            ));
            if let Ok(VerifyTransition::Finish(out)) = vdaf.verify_next(ctx, states2[0].clone(), msg2) {
                ts.push(Target {
            extra: vec![],
            enclen: vec![],
                    fmt: format!("fvec {} {}", if is_leaf { "F255" } else { "FP64" }, param.prefixes().len()),
                    honest: vec![out.get_encoded().unwrap()],
                    nominal: out.get_encoded().unwrap().len(),
                    dec: {
                        let v = vdaf.clone();
                        let p = param.clone();
                        Box::new(move |b: &[u8]| match Poplar1FieldVec::get_decoded_with_param(&(&v, &p), b) {
                            Ok(x) => Ok((x.get_encoded().map_err(|_| ())?, x.encoded_len())),
                            Err(_) => Err(()),
                        })
                    },
                });
            }
        }
    }
}

fn prio2_targets(ts: &mut Vec<Target>, len: usize, rng: &mut Sm) {
    let vdaf = Prio2::new(len).unwrap();
    let meas: Vec<u32> = (0..len).map(|_| rng.below(2) as u32).collect();
    let nonce: [u8; 16] = rng.bytes(16).try_into().unwrap();
    let vk: [u8; 32] = rng.bytes(32).try_into().unwrap();
    let (_, inputs) = vdaf.shard(b"", &meas, &nonce).unwrap();
    let proof_len = inputs[0].get_encoded().unwrap().len() / 4;
    let mut shares = vec![];
    let mut states = vec![];
    for id in 0..3usize {
        let honest = inputs[id.min(1)].get_encoded().unwrap();
        ts.push(Target {
            extra: if id < 2 { vec![] } else { vec![honest.clone()] },
            enclen: vec![],
            fmt: format!("p2in {} {}", id, proof_len),
            nominal: honest.len(),
            honest: if id < 2 { vec![honest] } else { vec![] },
            dec: {
                let v = vdaf.clone();
                Box::new(move |b: &[u8]| match Share::<FieldPrio2, 32>::get_decoded_with_param(&(&v, id), b) {
                    Ok(x) => Ok((x.get_encoded().map_err(|_| ())?, x.encoded_len())),
                    Err(_) => Err(()),
                })
            },
        });
        if id < 2 {
            let (st, sh) = vdaf.verify_init(&vk, b"", id, &(), &nonce, &(), &inputs[id]).unwrap();
            let henc = st.get_encoded().unwrap();
            ts.push(Target {
            extra: vec![],
            enclen: vec![],
                fmt: format!("p2st {} {}", id, len),
                nominal: henc.len(),
                honest: vec![henc],
                dec: {
                    let v = vdaf.clone();
                    Box::new(move |b: &[u8]| match Prio2VerifierState::get_decoded_with_param(&(&v, id), b) {
                        Ok(x) => Ok((x.get_encoded().map_err(|_| ())?, x.encoded_len())),
                        Err(_) => Err(()),
                    })
                },
            });
            shares.push(sh);
            states.push(st);
        }
    }
    ts.push(target::<Prio2VerifierShare, _>(
        "p2vs".into(),
        shares.iter().map(|s| s.get_encoded().unwrap()).collect(),
        states[0].clone(),
    ));
}

fn primitive_targets(ts: &mut Vec<Target>, rng: &mut Sm) {
    ts.push(target::<u8, ()>("u 1".into(), vec![vec![7], vec![0xff]], ()));
    ts.push(target::<u16, ()>("u 2".into(), vec![vec![1, 2], vec![0xff, 0xff]], ()));
    ts.push(target::<u32, ()>("u 4".into(), vec![vec![1, 2, 3, 4]], ()));
    ts.push(target::<u64, ()>("u 8".into(), vec![vec![1, 2, 3, 4, 5, 6, 7, 8]], ()));
    fn fe<F: FieldElement + 'static>(ts: &mut Vec<Target>, rng: &mut Sm, modulus_le: Vec<u8>) {
        let honest = vec![F::zero().get_encoded().unwrap(), F::one().get_encoded().unwrap(), (-F::one()).get_encoded().unwrap()];
        // the modulus itself, one above, one below, all ones
        let mut extra = vec![modulus_le.clone()];
        let mut above = modulus_le.clone();
        above[0] = above[0].wrapping_add(1);
        extra.push(above);
        extra.push(vec![0xff; F::ENCODED_SIZE]);
        for _ in 0..4 {
            extra.push(rng.bytes(F::ENCODED_SIZE));
        }
        let mut t = target::<F, ()>(format!("felem {}", fname::<F>()), honest, ());
        t.extra = extra;
        ts.push(t);
    }
    fe::<FieldPrio2>(ts, rng, 4293918721u32.to_le_bytes().to_vec());
    fe::<Field64>(ts, rng, 18446744069414584321u64.to_le_bytes().to_vec());
    fe::<Field128>(ts, rng, 340282366920938462946865773367900766209u128.to_le_bytes().to_vec());
    let mut p255 = vec![0xffu8; 32];
    p255[0] = 0xed;
    p255[31] = 0x7f;
    fe::<Field255>(ts, rng, p255);
    ts.push(target::<Seed<16>, ()>("seed 16".into(), vec![rng.bytes(16)], ()));
    ts.push(target::<Seed<32>, ()>("seed 32".into(), vec![rng.bytes(32)], ()));
    // ping-pong messages
    let msgs = vec![
        PingPongMessage::Initialize { verifier_share: rng.bytes(5) },
        PingPongMessage::Continue { verifier_message: rng.bytes(3), verifier_share: vec![] },
        PingPongMessage::Finish { verifier_message: rng.bytes(40) },
        PingPongMessage::Finish { verifier_message: vec![] },
    ];
    ts.push(target::<PingPongMessage, ()>("ppmsg".into(), msgs.iter().map(|m| m.get_encoded().unwrap()).collect(), ()));
}

pub fn targets(rng: &mut Sm, thorough: bool) -> Vec<Target> {
    let mut ts = vec![];
    primitive_targets(&mut ts, rng);
    prio3_targets(&mut ts, Count::<Field64>::new(), 2, 1, &true, rng);
    prio3_targets(&mut ts, Count::<Field64>::new(), 2, 3, &false, rng);
    prio3_targets(&mut ts, Sum::<Field64>::new(255).unwrap(), 3, 1, &200u64, rng);
    prio3_targets(&mut ts, Histogram::<Field128, ParallelSum<Field128, Mul>>::new(5, 2).unwrap(), 2, 2, &3usize, rng);
    prio3_targets(&mut ts, SumVec::<Field128, ParallelSum<Field128, Mul>>::new(7, 4, 3).unwrap(), 5, 1, &vec![1u128, 7, 0, 3], rng);
    for bits in if thorough { vec![1usize, 2, 3, 4, 5, 8, 12, 17, 64] } else { vec![1usize, 2, 4, 5, 8, 9] } {
        poplar1_targets(&mut ts, bits, rng);
    }
    // degenerate instance: zero bits (no honest messages exist)
    {
        let mut t = target::<Poplar1PublicShare, _>("idpfpub 0".into(), vec![], 0usize);
        t.extra = vec![vec![], vec![0], rng.bytes(16), rng.bytes(80), rng.bytes(81)];
        ts.push(t);
        let v0 = Poplar1::new_turboshake128(0);
        ts.push(Target {
            extra: vec![vec![], rng.bytes(48), rng.bytes(112), rng.bytes(113)],
            enclen: vec![],
            fmt: "pop1in 32 0".into(),
            honest: vec![],
            nominal: 112,
            dec: Box::new(move |b: &[u8]| match Poplar1InputShare::<32>::get_decoded_with_param(&(&v0, 0), b) {
                Ok(x) => Ok((x.get_encoded().map_err(|_| ())?, x.encoded_len())),
                Err(_) => Err(()),
            }),
        });
    }
    prio2_targets(&mut ts, 1, rng);
    prio2_targets(&mut ts, 6, rng);
    ts
}

const ALPHABET: [u8; 6] = [0x00, 0x01, 0x7f, 0x80, 0xfe, 0xff];

/// header extremes for the formats that start with integer fields
fn extremes(fmt: &str) -> Vec<Vec<u8>> {
    let mut v = vec![];
    if fmt == "pop1agg" {
        for level in [0u16, 1, 7, 8, 0xfffe, 0xffff] {
            for count in [0u32, 1, 2, 0xffff_ffff] {
                for tail in [vec![], vec![0x80], vec![0x00, 0x80], vec![0x80; 8192]] {
                    let mut b = level.to_be_bytes().to_vec();
                    b.extend_from_slice(&count.to_be_bytes());
                    b.extend_from_slice(&tail);
                    v.push(b);
                }
            }
        }
    }
    if fmt == "pop1st" {
        for tag in [0u8, 1, 2, 255] {
            for round in [0u8, 1, 2, 255] {
                for count in [0u32, 1, 0xffff_ffff] {
                    let mut b = vec![tag, round];
                    if round == 0 {
                        b.extend_from_slice(&[0u8; 64][..if tag == 1 { 64 } else { 16 }]);
                    }
                    b.extend_from_slice(&count.to_be_bytes());
                    v.push(b.clone());
                    b.extend_from_slice(&[0u8; 32]);
                    v.push(b);
                }
            }
        }
    }
    if fmt == "ppmsg" {
        for tag in [0u8, 1, 2, 3, 255] {
            for len in [0u32, 1, 2, 0x7fff_ffff, 0xffff_ffff] {
                let mut b = vec![tag];
                b.extend_from_slice(&len.to_be_bytes());
                v.push(b.clone());
                b.extend_from_slice(&[1, 0, 0, 0, 0, 9]);
                v.push(b);
            }
        }
    }
    v
}

pub fn run(out: &mut Out, thorough: bool, seed: u64, prop: &str) {
    let mut rng = Sm::new(seed ^ 0xC07);
    let ts = targets(&mut rng, thorough);
    if prop == "C07" {
        for (what, ok) in VALUE_CHECKS.with(|v| std::mem::take(&mut *v.borrow_mut())) {
            out.oracle(ok, || format!("value round trip: {}", what), || "decode(encode(x)) is not x (or the decoded value does not behave as x)".into());
            out.count("value-roundtrip");
        }
    }
    let nmut = if thorough { 400 } else { 60 };
    for t in &ts {
        let mut inputs: Vec<(Vec<u8>, &'static str)> = vec![];
        for h in &t.honest {
            inputs.push((h.clone(), "honest"));
            // truncations and extensions
            for cut in [1usize, 2, h.len() / 2, h.len()] {
                if cut <= h.len() {
                    inputs.push((h[..h.len() - cut].to_vec(), "truncated"));
                }
            }
            for ext in [vec![0u8], vec![0xff], vec![0; 33]] {
                let mut e = h.clone();
                e.extend_from_slice(&ext);
                inputs.push((e, "extended"));
            }
            // single byte / bit mutations
            if !h.is_empty() {
                for k in 0..nmut {
                    let mut m = h.clone();
                    let pos = if k < h.len().min(nmut / 2) { k } else { rng.below(h.len() as u64) as usize };
                    match rng.below(4) {
                        0 => m[pos] ^= 1 << rng.below(8),
                        1 => m[pos] = 0xff,
                        2 => m[pos] = m[pos].wrapping_add(1),
                        _ => m[pos] = ALPHABET[rng.below(6) as usize],
                    }
                    inputs.push((m, "mutated"));
                }
                // the last byte and the first byte get every alphabet value (padding bits, tags)
                for a in ALPHABET {
                    let mut m = h.clone();
                    *m.last_mut().unwrap() = a;
                    inputs.push((m, "mutated"));
                    let mut m = h.clone();
                    m[0] = a;
                    inputs.push((m, "mutated"));
                }
            }
        }
        for e in &t.extra {
            inputs.push((e.clone(), "extra"));
        }
        for (q, a) in &t.enclen {
            out.case(q.clone(), a.clone());
            out.count("enclen");
        }
        // all strings of length <= 3 over the reduced alphabet
        inputs.push((vec![], "short"));
        for a in ALPHABET {
            inputs.push((vec![a], "short"));
            for b in ALPHABET {
                inputs.push((vec![a, b], "short"));
                if thorough || t.nominal <= 8 {
                    for c in ALPHABET {
                        inputs.push((vec![a, b, c], "short"));
                    }
                }
            }
        }
        for e in extremes(&t.fmt) {
            inputs.push((e, "extreme"));
        }
        for _ in 0..(if thorough { 200 } else { 30 }) {
            let n = rng.below(2 * t.nominal as u64 + 4) as usize;
            inputs.push((rng.bytes(n), "random"));
        }
        let kind = t.fmt.split(' ').next().unwrap().to_string();
        for (bytes, class) in inputs {
            crate::alloc::set_case(&format!("dec {} {}", t.fmt, hex(&bytes)));
            let before = crate::alloc::reset_peak();
            let t0 = Instant::now();
            let res = catch(std::panic::AssertUnwindSafe(|| (t.dec)(&bytes)));
            let dt = t0.elapsed();
            let peak = crate::alloc::peak().saturating_sub(before);
            crate::alloc::set_case("");
            let imp = match &res {
                Ok(Ok((enc, _))) => format!("ok {}", hex(enc)),
                Ok(Err(())) => "err".to_string(),
                Err(_) => "panic".to_string(),
            };
            let case = format!("dec {} {}", t.fmt, hex(&bytes));
            out.count(&format!("{}.{}.{}", kind, class, imp.split(' ').next().unwrap()));
            if prop == "C07" {
                // accepted => re-encodes to exactly the input; advertised length is exact
                if let Ok(Ok((enc, len))) = &res {
                    out.oracle(enc == &bytes, || case.clone(), || format!("accepted but re-encodes to {}", hex(enc)));
                    out.oracle(*len == Some(enc.len()), || case.clone(), || format!("encoded_len() = {:?}, encoding has {} bytes", len, enc.len()));
                }
                if class == "honest" {
                    out.oracle(matches!(res, Ok(Ok(_))), || case.clone(), || format!("honest encoding not accepted: {}", imp));
                }
                if class == "extended" {
                    out.oracle(!matches!(res, Ok(Ok(_))), || case.clone(), || "trailing bytes accepted".into());
                }
            } else {
                out.oracle(res.is_ok(), || case.clone(), || "decoder panicked".into());
                let budget_ms = 50.0 * (1.0 + bytes.len() as f64 / 1024.0);
                if res.is_err() {
                    out.case(case, imp);
                    continue;
                }
                out.oracle(dt.as_secs_f64() * 1000.0 < budget_ms, || case.clone(), || format!("took {:?}", dt));
                let bound = 64 * (bytes.len() + t.nominal) + (1 << 16);
                out.oracle(peak <= bound, || case.clone(), || format!("peak allocation {} bytes for {} input bytes", peak, bytes.len()));
            }
            out.case(case, imp);
        }
    }
    if prop == "C07" {
        appended_items(out);
    }
    if prop == "C08" {
        generic_items(out);
    }
    out.samples = out.ops.iter().step_by(out.ops.len() / 12 + 1).map(|s| s.chars().take(300).collect()).collect();
}

/// `encode_u8/u16/u32_items` append to a buffer that may already hold other fields
fn appended_items(out: &mut Out) {
    use prio::codec::{decode_u16_items, decode_u32_items, decode_u8_items};
    use std::io::Cursor;
    // the encoders append to a buffer that may already hold other fields of an enclosing message: the length prefix
    // counts the items only, whatever precedes them
    {
        use prio::codec::{encode_u16_items, encode_u32_items, encode_u8_items};
        for prefix_len in [0usize, 1, 3, 200, 300] {
            for n in [0usize, 1, 5, 40] {
                let items: Vec<u16> = (0..n as u16).map(|i| i * 257 + 3).collect();
                let prefix = vec![0xabu8; prefix_len];
                macro_rules! rt {
                    ($name:expr, $enc:ident, $dec:ident, $hdr:expr) => {{
                        let mut buf = prefix.clone();
                        let r = $enc(&mut buf, &(), &items);
                        let ok = r.is_ok()
                            && buf.len() == prefix_len + $hdr + 2 * n
                            && buf[..prefix_len] == prefix[..]
                            && {
                                let mut c = Cursor::new(&buf[prefix_len..]);
                                matches!($dec::<(), u16>(&(), &mut c), Ok(v) if v == items) && c.position() as usize == buf.len() - prefix_len
                            };
                        out.oracle(ok, || format!("{} of {} u16 items appended to a buffer of {} bytes", $name, n, prefix_len), || format!("wrong length prefix or content: {}", hex(&buf[prefix_len..(prefix_len + 8).min(buf.len())])));
                        out.count("items.encode-appended");
                    }};
                }
                rt!("encode_u8_items", encode_u8_items, decode_u8_items, 1);
                rt!("encode_u16_items", encode_u16_items, decode_u16_items, 2);
                rt!("encode_u32_items", encode_u32_items, decode_u32_items, 4);
            }
        }
    }
}

/// the public generic helpers `decode_u8/u16/u32_items` with item types of width 0, 1, 2 and 8, under a watchdog
fn generic_items(out: &mut Out) {
    use prio::codec::{decode_u16_items, decode_u32_items, decode_u8_items};
    use std::io::Cursor;
    fn watchdog<F: FnOnce() -> bool + Send + 'static>(f: F) -> Option<bool> {
        let (tx, rx) = std::sync::mpsc::channel();
        std::thread::spawn(move || {
            let r = std::panic::catch_unwind(std::panic::AssertUnwindSafe(f)).unwrap_or(false);
            let _ = tx.send(r);
        });
        rx.recv_timeout(std::time::Duration::from_millis(1500)).ok()
    }
    let inputs: Vec<Vec<u8>> = vec![vec![], vec![0], vec![1, 0], vec![2, 0, 1], vec![0xff], vec![0, 1, 7], vec![0, 0, 0, 2, 1, 2], vec![0xff, 0xff, 0xff, 0xff, 1]];
    for inp in inputs {
        macro_rules! one {
            ($name:expr, $f:expr) => {{
                let i = inp.clone();
                let r = watchdog(move || {
                    let mut c = Cursor::new(i.as_slice());
                    let _ = $f(&mut c);
                    true
                });
                out.oracle(r.is_some(), || format!("items {} {}", $name, hex(&inp)), || "does not terminate (watchdog 1.5 s)".into());
                out.oracle(r != Some(false), || format!("items {} {}", $name, hex(&inp)), || "panicked".into());
                out.count(&format!("items.{}", $name));
            }};
        }
        one!("u8.unit", |c: &mut Cursor<&[u8]>| decode_u8_items::<(), ()>(&(), c).map(|v| v.len()));
        one!("u8.u8", |c: &mut Cursor<&[u8]>| decode_u8_items::<(), u8>(&(), c).map(|v| v.len()));
        one!("u8.u16", |c: &mut Cursor<&[u8]>| decode_u8_items::<(), u16>(&(), c).map(|v| v.len()));
        one!("u16.unit", |c: &mut Cursor<&[u8]>| decode_u16_items::<(), ()>(&(), c).map(|v| v.len()));
        one!("u16.f64", |c: &mut Cursor<&[u8]>| decode_u16_items::<(), Field64>(&(), c).map(|v| v.len()));
        one!("u32.unit", |c: &mut Cursor<&[u8]>| decode_u32_items::<(), ()>(&(), c).map(|v| v.len()));
        one!("u32.u8", |c: &mut Cursor<&[u8]>| decode_u32_items::<(), u8>(&(), c).map(|v| v.len()));
    }
    let _ = <u8 as Decode>::get_decoded(&[1]);
    let _ = Flp::input_len(&Count::<Field64>::new());
}
