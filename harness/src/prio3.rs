//! Prio3 end to end (C01), robustness (C02), share independence (C17), binding (C18).
use crate::c05::{enc, fe, fname, modulus};
use crate::rec::{self, RecXof};
use crate::util::{catch, hex, Out, Sm};
use prio::codec::{Encode, ParameterizedDecode};
use prio::field::{Field128, Field64, FieldElement, FieldElementWithInteger};
use prio::flp::gadgets::{Mul, ParallelSum};
use prio::flp::types::{Count, Histogram, L1BoundSum, MultihotCountVec, Sum, SumVec};
use prio::flp::{Flp, Type};
use prio::vdaf::prio3::{Prio3, Prio3InputShare, Prio3PublicShare, Prio3VerifierMessage, Prio3VerifierShare, Prio3VerifyState};
use prio::vdaf::test_utils::TestVectorClient;
use prio::vdaf::{Aggregator, Collector, VerifyTransition};

type P3<T> = Prio3<T, RecXof, 32>;

pub struct Inst<T: Type> {
    pub vdaf: P3<T>,
    pub typ: T,
    pub spec: String,
    pub sum_lw: u128,
    pub na: u8,
    pub np: u8,
    pub alg: u32,
}

impl<T: Type> Inst<T> {
    pub fn new(typ: T, spec: &str, sum_lw: u128, na: u8, np: u8, alg: u32) -> Self {
        Inst { vdaf: Prio3::new(na, np, alg, typ.clone()).unwrap(), typ, spec: spec.into(), sum_lw, na, np, alg }
    }
    fn prefix(&self, op: &str, ctx: &[u8]) -> String {
        format!("p3 {} {} {} {} {} {} {} {}", op, fname::<T::Field>(), self.spec, self.na, self.np, self.alg, self.sum_lw, hex(ctx))
    }
}

pub struct Report {
    pub public: Vec<u8>,
    pub inputs: Vec<Vec<u8>>,
}

/// shard one measurement with fixed randomness; emits the `shard` correspondence case
pub fn shard<T: Type>(out: &mut Out, inst: &Inst<T>, ctx: &[u8], m: &T::Measurement, nonce: &[u8; 16], random: &[u8]) -> Option<Report> {
    rec::start();
    let r = catch(std::panic::AssertUnwindSafe(|| inst.vdaf.shard_with_random(ctx, m, nonce, random)));
    let table = rec::table();
    let encoded = inst.typ.encode_measurement(m).ok()?;
    let (imp, rep) = match r {
        Ok(Ok((p, ins))) => {
            let pb = p.get_encoded().unwrap();
            let ib: Vec<Vec<u8>> = ins.iter().map(|i| i.get_encoded().unwrap()).collect();
            (format!("ok {} {}", hex(&pb), ib.iter().map(|b| hex(b)).collect::<Vec<_>>().join(" ")), Some(Report { public: pb, inputs: ib }))
        }
        Ok(Err(_)) => ("err".to_string(), None),
        Err(_) => ("panic".to_string(), None),
    };
    out.case(format!("{} {} {} {} {}", inst.prefix("shard", ctx), hex(nonce), hex(random), enc(&encoded), table), imp);
    out.count("op.shard");
    rep
}

pub struct AggView {
    pub ctx: Vec<u8>,
    pub nonce: [u8; 16],
    pub key: [u8; 32],
    pub id: usize,
}

pub struct VerifyResult<T: Type> {
    pub outputs: Vec<Option<Vec<T::Field>>>,
    pub failed_at: Option<String>,
}

/// run verification of one report from its wire bytes, every message passing through its codec.
/// `tamper_vshare` / `tamper_msg` may alter the encoded verifier shares / message in transit.
pub fn verify<T: Type>(
    out: &mut Out,
    inst: &Inst<T>,
    views: &[AggView],
    public: &[u8],
    inputs: &[Vec<u8>],
    tamper_vshare: &dyn Fn(usize, &mut Vec<u8>),
    tamper_msg: &dyn Fn(&mut Vec<u8>),
) -> VerifyResult<T> {
    let n = views.len();
    let mut res = VerifyResult::<T> { outputs: vec![None; n], failed_at: None };
    let mut states: Vec<Option<Prio3VerifyState<T::Field, 32>>> = vec![];
    let mut vshares: Vec<Vec<u8>> = vec![];
    let mut any_fail = false;
    for (k, v) in views.iter().enumerate() {
        let pubd = Prio3PublicShare::<32>::get_decoded_with_param(&inst.vdaf, public);
        let ind = Prio3InputShare::<T::Field, 32>::get_decoded_with_param(&(&inst.vdaf, v.id), &inputs[k]);
        let line = format!("{} {} {} {} {} {}", inst.prefix("vinit", &v.ctx), hex(&v.key), v.id, hex(&v.nonce), hex(public), hex(&inputs[k]));
        let (Ok(p), Ok(i)) = (pubd, ind) else {
            out.case(format!("{} none", line), "undecodable".into());
            res.failed_at.get_or_insert(format!("decode@{}", k));
            states.push(None);
            any_fail = true;
            continue;
        };
        rec::start();
        let r = catch(std::panic::AssertUnwindSafe(|| inst.vdaf.verify_init(&v.key, &v.ctx, v.id, &(), &v.nonce, &p, &i)));
        let table = rec::table();
        match r {
            Ok(Ok((st, sh))) => {
                let sb = st.get_encoded().unwrap();
                let mut vb = sh.get_encoded().unwrap();
                out.case(format!("{} {}", line, table), format!("ok {} {}", hex(&sb), hex(&vb)));
                tamper_vshare(k, &mut vb);
                vshares.push(vb);
                states.push(Some(st));
            }
            Ok(Err(_)) => {
                out.case(format!("{} {}", line, table), "err".into());
                res.failed_at.get_or_insert(format!("vinit@{}", k));
                states.push(None);
                any_fail = true;
            }
            Err(_) => {
                out.case(format!("{} {}", line, table), "panic".into());
                res.failed_at.get_or_insert(format!("vinit-panic@{}", k));
                states.push(None);
                any_fail = true;
            }
        }
        out.count("op.vinit");
    }
    if any_fail {
        return res;
    }
    // combine: each aggregator would run this; they all get the same shares, so run it once per distinct ctx
    let st0 = states[0].as_ref().unwrap();
    let decoded: Vec<Result<Prio3VerifierShare<T::Field, 32>, _>> = vshares.iter().map(|b| Prio3VerifierShare::get_decoded_with_param(st0, b)).collect();
    let line = format!("{} {}", inst.prefix("vmsg", &views[0].ctx), vshares.iter().map(|b| hex(b)).collect::<Vec<_>>().join(" "));
    if decoded.iter().any(|d| d.is_err()) {
        out.case(format!("{} none", line), "undecodable".into());
        res.failed_at = Some("decode-vshare".into());
        return res;
    }
    let shares: Vec<_> = decoded.into_iter().map(|d| d.unwrap()).collect();
    rec::start();
    let r = catch(std::panic::AssertUnwindSafe(|| inst.vdaf.verifier_shares_to_message(&views[0].ctx, &(), shares)));
    let table = rec::table();
    out.count("op.vmsg");
    let mut msg_bytes = match r {
        Ok(Ok(m)) => {
            let mb = m.get_encoded().unwrap();
            out.case(format!("{} {}", line, table), format!("ok {}", hex(&mb)));
            mb
        }
        Ok(Err(_)) => {
            out.case(format!("{} {}", line, table), "err".into());
            res.failed_at = Some("vmsg".into());
            return res;
        }
        Err(_) => {
            out.case(format!("{} {}", line, table), "panic".into());
            res.failed_at = Some("vmsg-panic".into());
            return res;
        }
    };
    tamper_msg(&mut msg_bytes);
    for (k, v) in views.iter().enumerate() {
        let st = states[k].clone().unwrap();
        let sb = st.get_encoded().unwrap();
        let line = format!("{} {} {} {}", inst.prefix("vnext", &v.ctx), v.id, hex(&sb), hex(&msg_bytes));
        // the state also passes through its codec
        let st2 = Prio3VerifyState::<T::Field, 32>::get_decoded_with_param(&(&inst.vdaf, v.id), &sb);
        let md = Prio3VerifierMessage::<32>::get_decoded_with_param(&st, &msg_bytes);
        let (Ok(st2), Ok(m)) = (st2, md) else {
            out.case(format!("{} none", line), "undecodable".into());
            res.failed_at.get_or_insert(format!("decode-msg@{}", k));
            continue;
        };
        out.oracle(st2 == st, || line.clone(), || "verifier state does not round-trip".into());
        rec::start();
        let r = catch(std::panic::AssertUnwindSafe(|| inst.vdaf.verify_next(&v.ctx, st2, m)));
        let table = rec::table();
        out.count("op.vnext");
        match r {
            Ok(Ok(VerifyTransition::Finish(o))) => {
                let ob = o.get_encoded().unwrap();
                out.case(format!("{} {}", line, table), format!("ok {}", hex(&ob)));
                res.outputs[k] = Some(o.as_ref().to_vec());
            }
            Ok(Ok(_)) | Ok(Err(_)) => {
                out.case(format!("{} {}", line, table), "err".into());
                res.failed_at.get_or_insert(format!("vnext@{}", k));
            }
            Err(_) => {
                out.case(format!("{} {}", line, table), "panic".into());
                res.failed_at.get_or_insert(format!("vnext-panic@{}", k));
            }
        }
    }
    res
}

pub fn honest_views(inst_na: u8, ctx: &[u8], nonce: [u8; 16], key: [u8; 32]) -> Vec<AggView> {
    (0..inst_na as usize).map(|id| AggView { ctx: ctx.to_vec(), nonce, key, id }).collect()
}

pub fn no_vs(_: usize, _: &mut Vec<u8>) {}
pub fn no_msg(_: &mut Vec<u8>) {}

/// C01: a batch of valid measurements through the whole protocol; the unsharded result must equal
/// the plain aggregate (`plain` computes it from the measurements, as field elements mod p)
pub fn end_to_end<T: Type>(out: &mut Out, rng: &mut Sm, inst: &Inst<T>, batch: &[T::Measurement], expect: &dyn Fn(&T::AggregateResult) -> bool) {
    let ctx = rng.bytes(rng.0 as usize % 7);
    let key: [u8; 32] = rng.bytes(32).try_into().unwrap();
    let mut aggs: Vec<_> = (0..inst.na).map(|_| inst.vdaf.aggregate_init(&())).collect();
    let mut all_ok = true;
    for m in batch {
        let nonce: [u8; 16] = rng.bytes(16).try_into().unwrap();
        let rs = if inst.typ.joint_rand_len() > 0 { 2 } else { 1 } * inst.na as usize * 32;
        let random = rng.bytes(rs);
        let Some(rep) = shard(out, inst, &ctx, m, &nonce, &random) else {
            all_ok = false;
            out.oracle(false, || format!("e2e {} shard", inst.spec), || "sharding a valid measurement failed".into());
            continue;
        };
        let views = honest_views(inst.na, &ctx, nonce, key);
        let r = verify(out, inst, &views, &rep.public, &rep.inputs, &no_vs, &no_msg);
        // the only admissible refusal: query randomness on the wire domain (negligible)
        out.oracle(r.failed_at.is_none(), || format!("e2e {} na={} np={} nonce={}", inst.spec, inst.na, inst.np, hex(&nonce)), || format!("honest report rejected at {:?}", r.failed_at));
        if r.failed_at.is_some() {
            all_ok = false;
            continue;
        }
        for (k, o) in r.outputs.iter().enumerate() {
            use prio::vdaf::{Aggregatable, OutputShare};
            aggs[k].accumulate(&OutputShare::from(o.clone().unwrap())).unwrap();
        }
    }
    if all_ok {
        // aggregate shares also pass through their codec
        let shares: Vec<_> = aggs
            .iter()
            .map(|a| prio::vdaf::AggregateShare::<T::Field>::get_decoded_with_param(&(&inst.vdaf, &()), &a.get_encoded().unwrap()).unwrap())
            .collect();
        let res = inst.vdaf.unshard(&(), shares, batch.len());
        out.oracle(res.as_ref().map(|r| expect(r)).unwrap_or(false), || format!("e2e {} na={} np={} batch={}", inst.spec, inst.na, inst.np, batch.len()), || "unsharded result differs from the plain aggregate".into());
    }
    out.count(&format!("e2e.{}", inst.spec.split(':').next().unwrap()));
}

/// C17: same randomness and nonce, two measurements: only the leader share and what derives from it change
pub fn independence<T: Type>(out: &mut Out, rng: &mut Sm, inst: &Inst<T>, m1: &T::Measurement, m2: &T::Measurement) {
    let ctx = rng.bytes(3);
    let nonce: [u8; 16] = rng.bytes(16).try_into().unwrap();
    let rs = if inst.typ.joint_rand_len() > 0 { 2 } else { 1 } * inst.na as usize * 32;
    // structured randomness is randomness too: all zeros, all ones, one zero seed block, equal blocks
    let patterns = structured_randomness(rng, rs, 32);
    for random in patterns {
        independence_with(out, inst, m1, m2, &ctx, &nonce, &random);
    }
}

/// random bytes plus the degenerate patterns a broken or adversarial random source produces
pub fn structured_randomness(rng: &mut Sm, len: usize, block: usize) -> Vec<Vec<u8>> {
    let mut v = vec![rng.bytes(len), vec![0u8; len], vec![0xffu8; len]];
    // exactly one all-zero block, at every block position in turn (chosen at random here)
    let nblocks = len / block;
    let mut z = rng.bytes(len);
    let k = rng.below(nblocks as u64) as usize;
    for b in z[k * block..(k + 1) * block].iter_mut() {
        *b = 0;
    }
    v.push(z);
    // all blocks equal
    let one = rng.bytes(block);
    v.push((0..len).map(|i| one[i % block]).collect());
    // the first two blocks equal, the rest random
    if nblocks >= 2 {
        let mut e = rng.bytes(len);
        let (a, b) = e.split_at_mut(block);
        b[..block].copy_from_slice(a);
        v.push(e);
    }
    v
}

fn independence_with<T: Type>(out: &mut Out, inst: &Inst<T>, m1: &T::Measurement, m2: &T::Measurement, ctx: &[u8], nonce: &[u8; 16], random: &[u8]) {
    let (Some(a), Some(b)) = (shard(out, inst, ctx, m1, nonce, random), shard(out, inst, ctx, m2, nonce, random)) else { return };
    let case = || format!("independence {} na={} randomness={}", inst.spec, inst.na, hex(&random[..random.len().min(48)]));
    for k in 1..inst.na as usize {
        out.oracle(a.inputs[k] == b.inputs[k], case, || format!("helper {} input share depends on the measurement", k));
    }
    // leader: measurement share difference equals the difference of the encodings
    let sz = T::Field::ENCODED_SIZE;
    let il = inst.typ.input_len();
    let e1 = inst.typ.encode_measurement(m1).unwrap();
    let e2 = inst.typ.encode_measurement(m2).unwrap();
    let dec = |b: &[u8]| -> Vec<T::Field> { (0..il).map(|i| T::Field::try_from(&b[i * sz..(i + 1) * sz]).unwrap()).collect() };
    out.oracle(a.inputs[0].len() >= il * sz && b.inputs[0].len() >= il * sz, case, || format!("leader input share has {} bytes, fewer than the {} elements of the encoded measurement", a.inputs[0].len(), il));
    if a.inputs[0].len() < il * sz || b.inputs[0].len() < il * sz {
        return;
    }
    let (l1, l2) = (dec(&a.inputs[0]), dec(&b.inputs[0]));
    out.oracle((0..il).all(|i| l1[i] - l2[i] == e1[i] - e2[i]), case, || "leader measurement share is not the encoding under a measurement-independent mask".into());
    // public share: only the leader's joint randomness part (index 0) may differ
    if inst.typ.joint_rand_len() > 0 {
        out.oracle(a.public[32..] == b.public[32..], case, || "a helper's joint randomness part depends on the measurement".into());
        // and the leader's blind is the same
        out.oracle(a.inputs[0][a.inputs[0].len() - 32..] == b.inputs[0][b.inputs[0].len() - 32..], case, || "leader blind depends on the measurement".into());
    } else {
        out.oracle(a.public == b.public, case, || "public share depends on the measurement".into());
    }
    out.count("independence");
}

/// C18: mismatches of ctx / nonce / key / aggregator id between client and aggregators or among aggregators
pub fn binding<T: Type>(out: &mut Out, rng: &mut Sm, inst: &Inst<T>, m: &T::Measurement, ctx_len: usize) {
    let ctx = rng.bytes(ctx_len);
    let nonce: [u8; 16] = rng.bytes(16).try_into().unwrap();
    let key: [u8; 32] = rng.bytes(32).try_into().unwrap();
    let rs = if inst.typ.joint_rand_len() > 0 { 2 } else { 1 } * inst.na as usize * 32;
    let random = rng.bytes(rs);
    let Some(rep) = shard(out, inst, &ctx, m, &nonce, &random) else { return };
    let honest = verify(out, inst, &honest_views(inst.na, &ctx, nonce, key), &rep.public, &rep.inputs, &no_vs, &no_msg);
    out.oracle(honest.failed_at.is_none(), || format!("binding {} honest", inst.spec), || "honest report rejected".into());
    let has_jr = inst.typ.joint_rand_len() > 0;
    let na = inst.na as usize;
    // long contexts differ only in their last byte (every byte of the context is bound, not a prefix of it);
    // short ones by an appended byte
    let mut other_ctx = ctx.clone();
    if ctx_len >= 32 {
        *other_ctx.last_mut().unwrap() ^= 1;
    } else {
        other_ctx.push(1);
    }
    let mut other_nonce = nonce;
    other_nonce[15] ^= 1;
    let mut other_key = key;
    other_key[0] ^= 0x80;
    // (description, views, inputs order, must_fail)
    let mut cases: Vec<(String, Vec<AggView>, Vec<Vec<u8>>, Option<bool>)> = vec![];
    for who in 0..=na {
        // who < na: only that aggregator deviates; who == na: all deviate consistently
        let dev = |k: usize| who == na || who == k;
        let label = if who == na { "all".to_string() } else { format!("agg{}", who) };
        cases.push((format!("ctx/{}", label), (0..na).map(|k| AggView { ctx: if dev(k) { other_ctx.clone() } else { ctx.clone() }, nonce, key, id: k }).collect(), rep.inputs.clone(), Some(true)));
        // a nonce substituted consistently at all aggregators is the stated exception for types without joint randomness
        let nonce_must_fail = if who == na { has_jr } else { true };
        cases.push((format!("nonce/{}", label), (0..na).map(|k| AggView { ctx: ctx.clone(), nonce: if dev(k) { other_nonce } else { nonce }, key, id: k }).collect(), rep.inputs.clone(), if who == na && !has_jr { Some(false) } else { Some(nonce_must_fail) }));
        // a verification key used by all aggregators alike is simply a different key: honest reports verify; a single deviating key must fail
        cases.push((format!("key/{}", label), (0..na).map(|k| AggView { ctx: ctx.clone(), nonce, key: if dev(k) { other_key } else { key }, id: k }).collect(), rep.inputs.clone(), if who == na { Some(false) } else { Some(true) }));
    }
    // swapped shares / wrong identifiers among helpers
    if na >= 3 {
        let mut sw = rep.inputs.clone();
        sw.swap(1, 2);
        cases.push(("swap-helper-shares".into(), honest_views(inst.na, &ctx, nonce, key), sw, Some(true)));
        let mut v = honest_views(inst.na, &ctx, nonce, key);
        v[1].id = 2;
        v[2].id = 1;
        cases.push(("swap-helper-ids".into(), v, rep.inputs.clone(), Some(true)));
    }
    // identifiers outside the instance, including ones that equal a valid identifier modulo 256
    for off in [256usize, 512, 1 << 32] {
        for who in 0..=na {
            let mut v = honest_views(inst.na, &ctx, nonce, key);
            for (k, view) in v.iter_mut().enumerate() {
                if who == na || who == k {
                    view.id = k + off;
                }
            }
            cases.push((format!("id+{}/{}", off, if who == na { "all".to_string() } else { format!("agg{}", who) }), v, rep.inputs.clone(), Some(true)));
        }
    }
    for (label, views, inputs, expect_fail) in cases {
        let r = verify(out, inst, &views, &rep.public, &inputs, &no_vs, &no_msg);
        let failed = r.failed_at.is_some();
        match expect_fail {
            Some(true) => out.oracle(failed, || format!("binding {} {}", inst.spec, label), || "verification completed under a mismatch".into()),
            Some(false) => {
                out.oracle(!failed, || format!("binding {} {}", inst.spec, label), || format!("consistent substitution rejected at {:?}", r.failed_at));
                if label.starts_with("nonce/all") && !failed {
                    out.oracle(r.outputs == honest.outputs, || format!("binding {} {}", inst.spec, label), || "output shares changed under a consistently substituted nonce".into());
                }
            }
            None => {}
        }
        out.oracle(!r.failed_at.as_deref().unwrap_or("").contains("panic"), || format!("binding {} {}", inst.spec, label), || "panic".into());
        out.count("binding.cases");
    }
    // a different algorithm identifier at the aggregators: every byte of the identifier separates
    for bit in [0u32, 9, 16, 20, 27, 31] {
        let other: Inst<T> = Inst::new(inst.typ.clone(), &inst.spec, inst.sum_lw, inst.na, inst.np, inst.alg ^ (1 << bit));
        let r = verify(out, &other, &honest_views(inst.na, &ctx, nonce, key), &rep.public, &rep.inputs, &no_vs, &no_msg);
        out.oracle(r.failed_at.is_some(), || format!("binding {} algorithm-id {:#x} vs {:#x}", inst.spec, inst.alg, inst.alg ^ (1 << bit)), || "verification completed under another algorithm id".into());
    }
}

/// C18 over the library's other XOF (`XofHmacSha256Aes128`, reachable through the generic constructor): the
/// context, nonce and verification key are bound there too.  Oracle only (the model's XOF is abstract).
pub fn hmac_binding(out: &mut Out, rng: &mut Sm) {
    use prio::vdaf::xof::XofHmacSha256Aes128;
    use prio::vdaf::Client;
    fn one<T: Type>(out: &mut Out, rng: &mut Sm, what: &str, typ: T, m: T::Measurement, ctx_len: usize)
    where
        T::Measurement: Clone,
    {
        let v = Prio3::<T, XofHmacSha256Aes128, 32>::new(2, 1, 0xFFFF_1001, typ).unwrap();
        let ctx = rng.bytes(ctx_len);
        let mut ctx2 = ctx.clone();
        *ctx2.last_mut().unwrap() ^= 1;
        let nonce: [u8; 16] = rng.bytes(16).try_into().unwrap();
        let mut nonce2 = nonce;
        nonce2[0] ^= 1;
        let key: [u8; 32] = rng.bytes(32).try_into().unwrap();
        let mut key2 = key;
        key2[31] ^= 1;
        let Ok((p, sh)) = v.shard(&ctx, &m, &nonce) else {
            out.oracle(false, || format!("hmac-binding {} shard", what), || "sharding failed".into());
            return;
        };
        let has_jr = v.verifier_len() > 0 && sh[0].get_encoded().map(|b| b.len()).unwrap_or(0) > 0 && p.get_encoded().map(|b| !b.is_empty()).unwrap_or(false);
        // views: (ctx, nonce, key) per aggregator
        let run = |c: [&[u8]; 2], n: [[u8; 16]; 2], k: [[u8; 32]; 2]| -> bool {
            let i0 = v.verify_init(&k[0], c[0], 0, &(), &n[0], &p, &sh[0]);
            let i1 = v.verify_init(&k[1], c[1], 1, &(), &n[1], &p, &sh[1]);
            let (Ok((s0, v0)), Ok((s1, v1))) = (i0, i1) else { return false };
            let Ok(msg) = v.verifier_shares_to_message(c[0], &(), [v0, v1]) else { return false };
            matches!(v.verify_next(c[0], s0, msg.clone()), Ok(VerifyTransition::Finish(_))) && matches!(v.verify_next(c[1], s1, msg), Ok(VerifyTransition::Finish(_)))
        };
        out.oracle(run([&ctx, &ctx], [nonce, nonce], [key, key]), || format!("hmac-binding {} honest", what), || "honest report rejected".into());
        let cases: Vec<(&str, bool)> = vec![
            ("context at both", run([&ctx2, &ctx2], [nonce, nonce], [key, key])),
            ("context at the leader", run([&ctx2, &ctx], [nonce, nonce], [key, key])),
            ("context at the helper", run([&ctx, &ctx2], [nonce, nonce], [key, key])),
            ("nonce at the leader", run([&ctx, &ctx], [nonce2, nonce], [key, key])),
            ("key at the helper", run([&ctx, &ctx], [nonce, nonce], [key, key2])),
        ];
        for (label, accepted) in cases {
            out.oracle(!accepted, || format!("hmac-binding {} ctx_len={} {}", what, ctx_len, label), || "verification completed under a mismatch".into());
            out.count("binding.hmac");
        }
        if has_jr {
            let acc = run([&ctx, &ctx], [nonce2, nonce2], [key, key]);
            out.oracle(!acc, || format!("hmac-binding {} nonce at both", what), || "verification completed under a substituted nonce (type with joint randomness)".into());
        }
    }
    one(out, rng, "count", Count::<Field64>::new(), true, 22);
    one(out, rng, "count", Count::<Field64>::new(), false, 1);
    one(out, rng, "hist", Histogram::<Field128, PS>::new(4, 2).unwrap(), 3, 22);
    one(out, rng, "sumvec", SumVec::<Field128, PS>::new(3, 2, 2).unwrap(), vec![1, 3], 70);
}

/// C02: invalid measurements proved honestly, and alterations of every message
pub fn robustness<T: Type>(out: &mut Out, rng: &mut Sm, inst: &Inst<T>, m: &T::Measurement, thorough: bool) {
    let ctx = rng.bytes(2);
    let nonce: [u8; 16] = rng.bytes(16).try_into().unwrap();
    let key: [u8; 32] = rng.bytes(32).try_into().unwrap();
    let rs = if inst.typ.joint_rand_len() > 0 { 2 } else { 1 } * inst.na as usize * 32;
    let random = rng.bytes(rs);
    let Some(rep) = shard(out, inst, &ctx, m, &nonce, &random) else { return };
    let views = honest_views(inst.na, &ctx, nonce, key);
    let sz = T::Field::ENCODED_SIZE;
    let case = |what: String| move || format!("robust {} na={} np={} {}", inst.spec, inst.na, inst.np, what);
    let check = |out: &mut Out, what: String, r: VerifyResult<T>| {
        out.oracle(r.failed_at.is_some(), case(what.clone()), || "altered report completed verification at every aggregator".into());
        out.oracle(!r.failed_at.as_deref().unwrap_or("").contains("panic"), case(what), || "panic instead of an error".into());
        out.count("robust.cases");
    };
    // add one to a field element at byte offset `off` (little endian, stays canonical with overwhelming probability)
    let bump = |b: &mut Vec<u8>, off: usize| {
        let x = T::Field::try_from(&b[off..off + sz]).unwrap() + T::Field::one();
        let e: Vec<u8> = x.into();
        b[off..off + sz].copy_from_slice(&e);
    };
    // 1. public share: every seed, first/last byte
    if !rep.public.is_empty() {
        for k in 0..inst.na as usize {
            for pos in [k * 32, k * 32 + 31] {
                let mut p = rep.public.clone();
                p[pos] ^= 1;
                let r = verify(out, inst, &views, &p, &rep.inputs, &no_vs, &no_msg);
                check(out, format!("public[{}]", pos), r);
            }
        }
    }
    // 2. leader input share: first / middle / last element of measurement and proof, blind bytes
    let il = inst.typ.input_len();
    let pl = inst.typ.proof_len() * inst.np as usize;
    let mut positions = vec![0, il / 2, il - 1];
    // proof elements beyond the wire seeds (altering a seed is not always observable, see C05)
    let arity = inst.typ.gadget()[0].arity();
    for p in 0..inst.np as usize {
        let base = il + p * inst.typ.proof_len();
        positions.extend([base + arity, base + (arity + inst.typ.proof_len()) / 2, base + inst.typ.proof_len() - 1]);
    }
    positions.sort();
    positions.dedup();
    if !thorough {
        positions.truncate(8);
    }
    for pos in positions {
        let mut ins = rep.inputs.clone();
        bump(&mut ins[0], pos * sz);
        let r = verify(out, inst, &views, &rep.public, &ins, &no_vs, &no_msg);
        check(out, format!("leader-elem[{}]", pos), r);
    }
    if inst.typ.joint_rand_len() > 0 {
        let mut ins = rep.inputs.clone();
        let n = ins[0].len();
        ins[0][n - 1] ^= 1;
        let r = verify(out, inst, &views, &rep.public, &ins, &no_vs, &no_msg);
        check(out, "leader-blind".into(), r);
    }
    let _ = pl;
    // 3. helper input shares: seed byte, blind byte
    for k in 1..inst.na as usize {
        for pos in [0usize, rep.inputs[k].len() - 1] {
            let mut ins = rep.inputs.clone();
            ins[k][pos] ^= 0x10;
            let r = verify(out, inst, &views, &rep.public, &ins, &no_vs, &no_msg);
            check(out, format!("helper{}[{}]", k, pos), r);
        }
    }
    // 4. verifier shares in transit: first / last verifier element of each aggregator, joint randomness part
    let vl = inst.typ.verifier_len() * inst.np as usize;
    for k in 0..inst.na as usize {
        for e in [0usize, vl - 1] {
            let t = move |i: usize, b: &mut Vec<u8>| {
                if i == k {
                    let x = T::Field::try_from(&b[e * sz..(e + 1) * sz]).unwrap() + T::Field::one();
                    let enc: Vec<u8> = x.into();
                    b[e * sz..(e + 1) * sz].copy_from_slice(&enc);
                }
            };
            let r = verify(out, inst, &views, &rep.public, &rep.inputs, &t, &no_msg);
            check(out, format!("vshare{}[{}]", k, e), r);
        }
        if inst.typ.joint_rand_len() > 0 {
            let t = move |i: usize, b: &mut Vec<u8>| {
                if i == k {
                    let n = b.len();
                    b[n - 1] ^= 1;
                }
            };
            let r = verify(out, inst, &views, &rep.public, &rep.inputs, &t, &no_msg);
            check(out, format!("vshare{}-part", k), r);
        }
    }
    // 5. verifier message in transit
    if inst.typ.joint_rand_len() > 0 {
        for pos in [0usize, 31] {
            let t = move |b: &mut Vec<u8>| b[pos] ^= 4;
            let r = verify(out, inst, &views, &rep.public, &rep.inputs, &no_vs, &t);
            check(out, format!("msg[{}]", pos), r);
        }
    }
    // 6. share counts and lengths
    for extra in [0usize, 1] {
        // one share missing / one share duplicated: combine must refuse
        let mut v: Vec<AggView> = honest_views(inst.na, &ctx, nonce, key);
        let mut ins = rep.inputs.clone();
        if extra == 0 {
            v.pop();
            ins.pop();
        } else {
            v.push(AggView { ctx: ctx.clone(), nonce, key, id: inst.na as usize - 1 });
            ins.push(rep.inputs[inst.na as usize - 1].clone());
        }
        let r = verify(out, inst, &v, &rep.public, &ins, &no_vs, &no_msg);
        check(out, format!("share-count{}", if extra == 0 { "-1" } else { "+1" }), r);
    }
}

fn bits_of(max: u128) -> usize {
    (128 - max.leading_zeros()) as usize
}
fn lw(max: u128) -> u128 {
    max - ((1u128 << (bits_of(max) - 1)) - 1)
}

type PS = ParallelSum<Field128, Mul>;

/// C01 at the extremes of the configuration space: one aggregator, 128 and 254 aggregators (with and
/// without joint randomness), 255 proofs, and measurement bounds that need the top bit of the field
fn extremes(out: &mut Out, rng: &mut Sm, thorough: bool) {
    let shapes: &[(u8, u8)] = if thorough { &[(1, 1), (127, 1), (128, 1), (254, 1), (2, 255), (254, 2)] } else { &[(1, 1), (128, 1), (254, 1), (2, 255)] };
    for &(na, np) in shapes {
        let ic = Inst::new(Count::<Field64>::new(), "count", 0, na, np, 1);
        end_to_end(out, rng, &ic, &[true, false, true], &|r: &u64| *r == 2);
        let ih = Inst::new(Histogram::<Field128, PS>::new(3, 2).unwrap(), "hist:3:2", 0, na, np, 3);
        end_to_end(out, rng, &ih, &[0, 2, 2], &|r: &Vec<u128>| r[..] == [1, 0, 2]);
        if na <= 128 || thorough {
            let iv = Inst::new(SumVec::<Field128, PS>::new(3, 2, 2).unwrap(), &format!("svec:2:2:{}:2", lw(3)), 0, na, np, 4);
            end_to_end(out, rng, &iv, &[vec![3, 0], vec![1, 2]], &|r: &Vec<u128>| r[..] == [4, 2]);
        }
    }
    // bounds at the top of the field
    let p64 = modulus::<Field64>() as u64;
    for max in [1u64 << 62, (1 << 63) - 1, 1 << 63, (1 << 63) + 12345, p64 - 1] {
        let is = Inst::new(Sum::<Field64>::new(max).unwrap(), &format!("sum:{}", bits_of(max as u128)), lw(max as u128), 2, 1, 2);
        let ms = [max, 0, max / 2 + 1];
        let want: u128 = ms.iter().map(|x| *x as u128).sum::<u128>() % modulus::<Field64>();
        end_to_end(out, rng, &is, &ms, &|r: &u64| *r as u128 == want);
    }
    let p128 = modulus::<Field128>();
    for max in [1u128 << 126, (1 << 127) - 1, 1 << 127, p128 - 1] {
        let iv = Inst::new(SumVec::<Field128, PS>::new(max, 2, 7).unwrap(), &format!("svec:2:{}:{}:7", bits_of(max), lw(max)), 0, 2, 1, 4);
        let ms = vec![vec![max, 0], vec![1, max / 3]];
        let want = [(max + 1) % p128, max / 3];
        end_to_end(out, rng, &iv, &ms, &|r: &Vec<u128>| r[..] == want);
        let il = Inst::new(L1BoundSum::<Field128, PS>::new(max, 2, 5).unwrap(), &format!("l1:2:{}:{}:5", bits_of(max), lw(max)), 0, 2, 1, 0xFFFF1003);
        let ms = vec![vec![max, 0], vec![1, max - 1]];
        let want = [(max + 1) % p128, max - 1];
        end_to_end(out, rng, &il, &ms, &|r: &Vec<u128>| r[..] == want);
    }
    // Average: the mean is the exact sum (as decoded for Sum) divided by the number of measurements,
    // also when the sum needs more than 32 (or 53) bits
    {
        use prio::vdaf::{Client, Aggregator, Collector};
        for (max, batch) in [(1u128 << 40, vec![1u128 << 31, (1 << 31) + 6]), (255, vec![17, 8, 255]), ((1 << 62) + 1, vec![1 << 62, (1 << 62) + 1, 5]), (1, vec![1, 0, 1, 1])] {
            let v = Prio3::new_average(2, max).unwrap();
            let mut aggs = [v.aggregate_init(&()), v.aggregate_init(&())];
            let mut okall = true;
            for (k, m) in batch.iter().enumerate() {
                let nonce = [k as u8; 16];
                let Ok((p, sh)) = v.shard(b"avg", m, &nonce) else { okall = false; continue };
                let i0 = v.verify_init(&[3; 32], b"avg", 0, &(), &nonce, &p, &sh[0]);
                let i1 = v.verify_init(&[3; 32], b"avg", 1, &(), &nonce, &p, &sh[1]);
                let (Ok((s0, v0)), Ok((s1, v1))) = (i0, i1) else { okall = false; continue };
                let Ok(msg) = v.verifier_shares_to_message(b"avg", &(), [v0, v1]) else { okall = false; continue };
                if let (Ok(VerifyTransition::Finish(o0)), Ok(VerifyTransition::Finish(o1))) = (v.verify_next(b"avg", s0, msg.clone()), v.verify_next(b"avg", s1, msg)) {
                    use prio::vdaf::Aggregatable;
                    aggs[0].accumulate(&o0).unwrap();
                    aggs[1].accumulate(&o1).unwrap();
                } else {
                    okall = false;
                }
            }
            let res = v.unshard(&(), aggs.to_vec(), batch.len());
            let sum: u128 = batch.iter().sum();
            let want = (sum as u64 as f64) / (batch.len() as f64);
            out.oracle(okall && matches!(res, Ok(r) if r == want), || format!("e2e average max={} batch={:?}", max, batch), || format!("mean {:?}, expected {}", res.as_ref().ok(), want));
            out.count("e2e.average");
        }
    }
    let im = Inst::new(MultihotCountVec::<Field128, PS>::new(3, 3, 2).unwrap(), &format!("mhot:3:{}:{}:2", bits_of(3), lw(3)), 0, 2, 1, 5);
    end_to_end(out, rng, &im, &[vec![true, true, true], vec![false, false, false]], &|r: &Vec<u128>| r[..] == [1, 1, 1]);
    // rejection sampling inside the protocol: every third / fifth 8-byte block of every XOF stream is refused by
    // the sampler (for Field128 when it is the high half of an element), in share expansion, proof shares, joint
    // and query randomness alike
    for every in [3usize, 5] {
        rec::plant(Some((every, 8)));
        let ic = Inst::new(Count::<Field64>::new(), "count", 0, 3, 2, 1);
        end_to_end(out, rng, &ic, &[true, false, true], &|r: &u64| *r == 2);
        let is = Inst::new(Sum::<Field64>::new(1000).unwrap(), &format!("sum:{}", bits_of(1000)), lw(1000), 2, 1, 2);
        end_to_end(out, rng, &is, &[1000, 1, 500], &|r: &u64| *r == 1501);
        let ih = Inst::new(Histogram::<Field128, PS>::new(5, 2).unwrap(), "hist:5:2", 0, 3, 2, 3);
        end_to_end(out, rng, &ih, &[4, 4, 0], &|r: &Vec<u128>| r[..] == [1, 0, 0, 0, 2]);
        let iv = Inst::new(SumVec::<Field128, PS>::new(7, 3, 2).unwrap(), &format!("svec:3:{}:{}:2", bits_of(7), lw(7)), 0, 2, 1, 4);
        end_to_end(out, rng, &iv, &[vec![7, 0, 3], vec![1, 1, 1]], &|r: &Vec<u128>| r[..] == [8, 1, 4]);
        rec::plant(None);
        out.count("e2e.planted-rejections");
    }
}

pub fn run(out: &mut Out, thorough: bool, seed: u64, prop: &str) {
    let mut rng = Sm::new(seed ^ 0x0301);
    let reps = if thorough { 3 } else { 1 };
    let batch_len = if thorough { 24 } else { 5 };
    for rep in 0..reps {
        for (na, np) in [(2u8, 1u8), (3, 1), (5, 2), (2, 3)] {
            if !thorough && rep == 0 && (na, np) == (2, 3) && prop != "C01" {
                continue;
            }
            // Count
            let ic = Inst::new(Count::<Field64>::new(), "count", 0, na, np, 1);
            let ms: Vec<bool> = (0..batch_len).map(|i| (rng.next() + i as u64) % 3 == 0).collect();
            let want = ms.iter().filter(|b| **b).count() as u64;
            // Sum at bit-width edges
            let maxes: [u64; 3] = [1, 255, (1 << 33) + 5];
            let max = maxes[(na as usize + rep) % 3];
            let is = Inst::new(Sum::<Field64>::new(max).unwrap(), &format!("sum:{}", bits_of(max as u128)), lw(max as u128), na, np, 2);
            let sums: Vec<u64> = (0..batch_len).map(|i| if i == 0 { max } else if i == 1 { 0 } else { rng.next() % (max + 1) }).collect();
            let swant: u128 = sums.iter().map(|x| *x as u128).sum::<u128>() % modulus::<Field64>();
            // Histogram with a chunk length that does / does not divide
            let (hl, hc) = [(4usize, 2usize), (5, 2), (3, 7)][(np as usize + rep) % 3];
            let ih = Inst::new(Histogram::<Field128, PS>::new(hl, hc).unwrap(), &format!("hist:{}:{}", hl, hc), 0, na, np, 3);
            let hs: Vec<usize> = (0..batch_len).map(|_| rng.below(hl as u64) as usize).collect();
            // SumVec
            let (sm, sl, sc) = [(7u128, 3usize, 2usize), (1, 4, 3), (256, 2, 5)][(na as usize) % 3];
            let iv = Inst::new(SumVec::<Field128, PS>::new(sm, sl, sc).unwrap(), &format!("svec:{}:{}:{}:{}", sl, bits_of(sm), lw(sm), sc), 0, na, np, 4);
            let vs: Vec<Vec<u128>> = (0..batch_len).map(|_| (0..sl).map(|_| rng.u128() % (sm + 1)).collect()).collect();
            // MultihotCountVec
            let (ml, mw, mc) = [(4usize, 2usize, 3usize), (3, 1, 2)][(np as usize) % 2];
            let im = Inst::new(MultihotCountVec::<Field128, PS>::new(ml, mw, mc).unwrap(), &format!("mhot:{}:{}:{}:{}", ml, bits_of(mw as u128), lw(mw as u128), mc), 0, na, np, 5);
            let mhs: Vec<Vec<bool>> = (0..batch_len)
                .map(|_| {
                    let mut v = vec![false; ml];
                    for _ in 0..rng.below(mw as u64 + 1) {
                        v[rng.below(ml as u64) as usize] = true;
                    }
                    v
                })
                .collect();
            // L1BoundSum
            // chunk lengths that divide the encoded length, leave one element, leave one short
            let (lm, ll, lc) = [(7u128, 3usize, 4usize), (7, 4, 7), (3, 2, 5)][(na as usize + np as usize + rep) % 3];
            let il = Inst::new(L1BoundSum::<Field128, PS>::new(lm, ll, lc).unwrap(), &format!("l1:{}:{}:{}:{}", ll, bits_of(lm), lw(lm), lc), 0, na, np, 0xFFFF1003);
            let l1s: Vec<Vec<u128>> = (0..batch_len)
                .map(|_| {
                    let mut v = vec![0u128; ll];
                    let mut left = lm;
                    for x in v.iter_mut() {
                        let t = rng.u128() % (left + 1);
                        *x = t;
                        left -= t;
                    }
                    v
                })
                .collect();
            match prop {
                "C01" => {
                    end_to_end(out, &mut rng, &ic, &ms, &|r: &u64| *r == want);
                    end_to_end(out, &mut rng, &is, &sums, &|r: &u64| *r as u128 == swant);
                    end_to_end(out, &mut rng, &ih, &hs, &|r: &Vec<u128>| (0..hl).all(|b| r[b] == hs.iter().filter(|x| **x == b).count() as u128));
                    end_to_end(out, &mut rng, &iv, &vs, &|r: &Vec<u128>| (0..sl).all(|i| r[i] == vs.iter().map(|v| v[i]).sum::<u128>()));
                    end_to_end(out, &mut rng, &im, &mhs, &|r: &Vec<u128>| (0..ml).all(|i| r[i] == mhs.iter().filter(|v| v[i]).count() as u128));
                    end_to_end(out, &mut rng, &il, &l1s, &|r: &Vec<u128>| (0..ll).all(|i| r[i] == l1s.iter().map(|v| v[i]).sum::<u128>()));
                }
                "C17" => {
                    independence(out, &mut rng, &ic, &true, &false);
                    independence(out, &mut rng, &is, &0, &max);
                    independence(out, &mut rng, &ih, &0, &(hl - 1));
                    independence(out, &mut rng, &iv, &vs[0], &vs[1]);
                    independence(out, &mut rng, &im, &mhs[0], &mhs[1]);
                    independence(out, &mut rng, &il, &l1s[0], &l1s[1]);
                }
                "C18" => {
                    binding(out, &mut rng, &ic, &true, 4);
                    binding(out, &mut rng, &is, &(max / 2), 4);
                    binding(out, &mut rng, &ih, &(hl - 1), 4);
                    binding(out, &mut rng, &iv, &vs[0], 4);
                    // application-sized contexts (a task identifier is tens of bytes, a URL-like label more)
                    let long = [0usize, 55, 66, 300][(na as usize + np as usize + rep) % 4];
                    binding(out, &mut rng, &ic, &true, long);
                    binding(out, &mut rng, &ih, &(hl - 1), [66usize, 167, 1000][(na as usize + rep) % 3]);
                    if thorough {
                        binding(out, &mut rng, &im, &mhs[0], 4);
                        binding(out, &mut rng, &il, &l1s[0], 129);
                    }
                }
                _ => {
                    robustness(out, &mut rng, &ic, &true, thorough);
                    robustness(out, &mut rng, &is, &(max / 2), thorough);
                    robustness(out, &mut rng, &ih, &(hl - 1), thorough);
                    robustness(out, &mut rng, &iv, &vs[0], thorough);
                    if thorough || na == 3 {
                        robustness(out, &mut rng, &im, &mhs[0], thorough);
                        robustness(out, &mut rng, &il, &l1s[0], thorough);
                    }
                }
            }
        }
    }
    if prop == "C01" {
        extremes(out, &mut rng, thorough);
        // the same honest reports are accepted when verification runs through the ping-pong topology
        for i in 0..(if thorough { 8 } else { 3 }) {
            crate::c12::prio3_pingpong(out, &mut rng, i);
        }
    }
    if prop == "C02" {
        crate::c16::prio3_misuse(out, &mut rng, thorough);
        crate::c02::malicious_clients(out, &mut rng, thorough);
    }
    match prop {
        "C17" => {
            // the degenerate but accepted instance with a single aggregator: the leader share is still the
            // encoding under a measurement-independent mask (the zero mask)
            let i1 = Inst::new(Count::<Field64>::new(), "count", 0, 1, 1, 1);
            independence(out, &mut rng, &i1, &true, &false);
            let h1 = Inst::new(Histogram::<Field128, PS>::new(5, 2).unwrap(), "hist:5:2", 0, 1, 2, 3);
            independence(out, &mut rng, &h1, &4, &1);
            // encodings longer than one block of the joint-randomness part derivation (256 elements), with a
            // remainder: every helper's part in the public share is still independent of the measurement
            let big = Inst::new(Histogram::<Field128, PS>::new(600, 25).unwrap(), "hist:600:25", 0, 3, 1, 3);
            independence(out, &mut rng, &big, &3, &577);
            let bv = Inst::new(SumVec::<Field128, PS>::new(1, 300, 17).unwrap(), &format!("svec:300:1:{}:17", lw(1)), 0, 2, 1, 4);
            independence(out, &mut rng, &bv, &vec![0u128; 300], &(0..300).map(|i| (i % 2) as u128).collect::<Vec<_>>());
            crate::pop::c17(out, &mut rng, thorough)
        }
        "C18" => {
            hmac_binding(out, &mut rng);
            crate::pop::c18(out, &mut rng, thorough)
        }
        _ => {}
    }
    let _ = (fe::<Field64>(1), Field64::modulus());
    out.samples = out.ops.iter().step_by(out.ops.len() / 8 + 1).map(|s| s.chars().take(300).collect()).collect();
}
