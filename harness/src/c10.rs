//! C10: NTT and Lagrange-basis polynomial routines equal their textbook definitions.
use crate::util::{catch, hex, Out, Sm};
use prio::codec::Encode;
use prio::field::{Field128, Field64, FieldElement, FieldElementWithInteger, FieldPrio2, NttFriendlyFieldElement};
use prio::verif_hooks::poly as hp;

fn fname<F: FieldElement>() -> &'static str {
    match F::ENCODED_SIZE {
        4 => "FP32",
        8 => "FP64",
        _ => "FP128",
    }
}
fn enc<F: FieldElement>(v: &[F]) -> String {
    let mut b = vec![];
    for x in v {
        x.encode(&mut b).unwrap();
    }
    hex(&b)
}
fn rand_elem<F: NttFriendlyFieldElement>(rng: &mut Sm) -> F
where
    F::Integer: TryFrom<u128>,
{
    match rng.below(10) {
        0 => F::zero(),
        1 => F::one(),
        2 => -F::one(),
        _ => {
            let m: u128 = match F::ENCODED_SIZE {
                4 => 4293918721,
                8 => 18446744069414584321,
                _ => 340282366920938462946865773367900766209,
            };
            F::from(F::Integer::try_from(rng.u128() % m).ok().unwrap())
        }
    }
}
fn rand_vec<F: NttFriendlyFieldElement>(rng: &mut Sm, n: usize) -> Vec<F>
where
    F::Integer: TryFrom<u128>,
{
    (0..n).map(|_| rand_elem(rng)).collect()
}
fn show<F: FieldElement>(r: Result<Result<Vec<F>, String>, String>) -> String {
    match r {
        Ok(Ok(v)) => format!("ok {}", enc(&v)),
        Ok(Err(e)) => format!("err {}", e),
        Err(_) => "panic".into(),
    }
}

/// direct O(n^2) evaluation of the polynomial with coefficients `c` at the points `s * w^i`
fn dft_direct<F: NttFriendlyFieldElement>(c: &[F], n: usize, shift: bool) -> Vec<F>
where
    F::Integer: TryFrom<u128>,
{
    let d = n.trailing_zeros() as usize;
    let w = F::root(d).unwrap();
    let s = if shift { F::root(d + 1).unwrap() } else { F::one() };
    let mut out = vec![];
    let mut wi = F::one();
    for _ in 0..n {
        out.push(hp::poly_eval_monomial(c, s * wi));
        wi *= w;
    }
    out
}

fn field_cases<F: NttFriendlyFieldElement>(out: &mut Out, rng: &mut Sm, thorough: bool)
where
    F::Integer: TryFrom<u128>,
{
    let f = fname::<F>();
    let max_d = if thorough { 12 } else { 9 };
    let oracle_d = if thorough { 9 } else { 7 };
    // forward transforms: every size up to 2^max_d, basis vectors (small sizes), random and short inputs
    for d in 0..=max_d {
        let n = 1usize << d;
        let mut inputs: Vec<Vec<F>> = vec![];
        if d <= 5 {
            for i in 0..n {
                let mut e = vec![F::zero(); n];
                e[i] = F::one();
                inputs.push(e);
            }
        } else {
            for i in [0, 1, n / 2, n - 1] {
                let mut e = vec![F::zero(); n];
                e[i] = F::one();
                inputs.push(e);
            }
        }
        inputs.push(rand_vec(rng, n));
        inputs.push(rand_vec(rng, n / 2 + 1)); // shorter input is zero padded
        inputs.push(rand_vec(rng, 1));
        for inp in inputs {
            for set_s in [false, true] {
                let r = catch(std::panic::AssertUnwindSafe(|| hp::ntt::<F>(n, &inp, n, set_s)));
                if d <= oracle_d {
                    if let Ok(Ok(v)) = &r {
                        let mut padded = inp.clone();
                        padded.resize(n, F::zero());
                        out.oracle(*v == dft_direct(&padded, n, set_s), || format!("poly ntt {} {} {} {} {}", f, set_s as u8, n, n, enc(&inp)), || "NTT differs from direct evaluation".into());
                    }
                }
                out.case(format!("poly ntt {} {} {} {} {}", f, set_s as u8, n, n, enc(&inp)), show(r));
                out.count(&format!("ntt.{}", f));
            }
            // inverse undoes forward
            let fw = hp::ntt::<F>(n, &inp, n, false).unwrap();
            let r = catch(std::panic::AssertUnwindSafe(|| hp::ntt_inv::<F>(n, &fw, n)));
            if let Ok(Ok(v)) = &r {
                let mut padded = inp.clone();
                padded.resize(n, F::zero());
                out.oracle(*v == padded, || format!("poly nttinv {} {} {} {}", f, n, n, enc(&fw)), || "inverse does not undo forward".into());
            }
            out.case(format!("poly nttinv {} {} {} {}", f, n, n, enc(&fw)), show(r));
        }
        // root powers
        let r = catch(|| hp::nth_root_powers::<F>(n));
        if let Ok(v) = &r {
            let w = F::root(d).unwrap();
            let mut wi = F::one();
            let mut ok = v.len() == n;
            for x in v.iter() {
                ok &= *x == wi;
                wi *= w;
            }
            out.oracle(ok, || format!("poly rootpow {} {}", f, n), || "not the powers of the principal root".into());
        }
        out.case(format!("poly rootpow {} {}", f, n), show(r.map(Ok)));
    }
    // size / capacity violations
    for (out_len, size, inp_len, set_s) in [(4usize, 8usize, 8usize, false), (8, 6, 6, false), (8, 3, 3, true), (0, 1, 1, false), (1, 1, 0, false), (4, 0, 2, false), (3, 4, 4, true), (16, 12, 5, false)] {
        let inp = rand_vec::<F>(rng, inp_len);
        let r = catch(std::panic::AssertUnwindSafe(|| hp::ntt::<F>(out_len, &inp, size, set_s)));
        out.oracle(!matches!(r, Ok(Ok(_))) || (size <= out_len && size.is_power_of_two()), || format!("ntt sizes {} {} {}", out_len, size, inp_len), || "invalid size accepted".into());
        out.case(format!("poly ntt {} {} {} {} {}", f, set_s as u8, out_len, size, enc(&inp)), show(r));
    }
    // the limits: 2^20 accepted, 2^20+1 and 2^21 refused, set_s limited to 2^19 (zero input keeps the case cheap for the model)
    let class = |r: &Result<Vec<F>, String>| match r {
        Ok(_) => "ok".to_string(),
        Err(e) => format!("err {}", e),
    };
    for (size, set_s) in [(1usize << 20, false), (1 << 19, true), (1 << 18, true), (1 << 19, false)] {
        let r = hp::ntt::<F>(size, &[F::one()], size, set_s);
        out.oracle(r.is_ok(), || format!("ntt limit {} {}", size, set_s), || "maximal size refused".into());
        // the transform of the constant polynomial 1 is the all-ones vector
        if let Ok(v) = &r {
            out.oracle(v.len() == size && v.iter().all(|x| *x == F::one()), || format!("ntt limit {} {} values", size, set_s), || "transform of the constant 1 is not all ones".into());
        }
        out.case(format!("poly nttclass {} {} {} {}", f, set_s as u8, size, size), class(&r));
    }
    for (size, set_s) in [((1usize << 20) + 1, false), (1 << 21, false), (1 << 20, true), ((1 << 19) + 1, true), (3 << 18, true)] {
        let r = hp::ntt::<F>(size, &[F::one()], size, set_s);
        out.oracle(r.is_err(), || format!("ntt limit {} {}", size, set_s), || "over-size accepted".into());
        out.case(format!("poly nttclass {} {} {} {}", f, set_s as u8, size, size), class(&r));
    }
    // Lagrange-basis evaluation: at random points and exactly at every node
    for d in 0..=(if thorough { 8 } else { 6 }) {
        let n = 1usize << d;
        let ys = rand_vec::<F>(rng, n);
        let coeffs = hp::ntt_inv::<F>(n, &ys, n).unwrap();
        let roots = hp::nth_root_powers::<F>(n);
        let mut points: Vec<F> = vec![F::zero(), F::one(), -F::one(), rand_elem(rng), rand_elem(rng)];
        points.extend(roots.iter().take(if d <= 4 { n } else { 6 }));
        for x in points {
            let r = catch(std::panic::AssertUnwindSafe(|| hp::poly_eval_lagrange_batched::<F>(&[ys.clone()], x)));
            if let Ok(v) = &r {
                out.oracle(v[0] == hp::poly_eval_monomial(&coeffs, x), || format!("poly lageval {} {} {} {}", f, n, enc(&ys), enc(&[x])), || "differs from evaluating the interpolated polynomial".into());
            }
            out.case(format!("poly lageval {} {} {} {}", f, n, enc(&ys), enc(&[x])), show(r.map(Ok)));
            out.count(&format!("lageval.{}", f));
        }
        // extension of every partial length to n
        for num in 0..=n {
            if d > 4 && num % 5 != 1 && num != n && num != 0 {
                continue;
            }
            let mut p = rand_vec::<F>(rng, n);
            let orig = p.clone();
            let line = format!("poly extend {} {} {}", f, num, enc(&orig));
            let r = catch(std::panic::AssertUnwindSafe(|| {
                hp::extend_values_to_power_of_2::<F>(&mut p, num);
                p.clone()
            }));
            if let (Ok(v), true) = (&r, num >= 1) {
                // the extended values are those of the degree < num polynomial through the first num nodes
                let c = hp::ntt_inv::<F>(n, v, n).unwrap();
                out.oracle(c[num..].iter().all(|x| *x == F::zero()) && v[..num] == orig[..num], || line.clone(), || "extension is not the low-degree interpolation".into());
            }
            out.case(line, show(r.map(Ok)));
        }
        // doubling and multiplication
        let r = catch(std::panic::AssertUnwindSafe(|| hp::double_evaluations::<F>(2 * n, &ys)));
        if let (Ok(Ok(v)), true) = (&r, d + 1 <= 20) {
            let mut c = coeffs.clone();
            c.resize(2 * n, F::zero());
            out.oracle(*v == dft_direct(&c, 2 * n, false), || format!("poly double {} {} {}", f, 2 * n, enc(&ys)), || "not the evaluations on the doubled domain".into());
        }
        out.case(format!("poly double {} {} {}", f, 2 * n, enc(&ys)), show(r));
        let r = catch(std::panic::AssertUnwindSafe(|| hp::double_evaluations::<F>(2 * n + 1, &ys)));
        out.case(format!("poly double {} {} {}", f, 2 * n + 1, enc(&ys)), show(r));
        let zs = rand_vec::<F>(rng, n);
        let r = catch(std::panic::AssertUnwindSafe(|| hp::poly_mul_lagrange::<F>(2 * n, &ys, &zs)));
        if let Ok(Ok(v)) = &r {
            let cz = hp::ntt_inv::<F>(n, &zs, n).unwrap();
            let prod = hp::poly_mul_monomial(&coeffs, &cz);
            let mut c = prod.clone();
            c.resize(2 * n, F::zero());
            out.oracle(*v == dft_direct(&c, 2 * n, false), || format!("poly mullag {} {} {} {}", f, 2 * n, enc(&ys), enc(&zs)), || "not the evaluations of the product".into());
        }
        out.case(format!("poly mullag {} {} {} {}", f, 2 * n, enc(&ys), enc(&zs)), show(r));
    }
    // the gadget polynomial routines write into buffers their callers reuse: the result must not depend on what
    // the output buffer held before (zero operands, operands with zero seeds, repeated calls)
    {
        use prio::flp::gadgets::{Mul, ParallelSum, ParallelSumGadget};
        use prio::flp::Gadget;
        for &n in &[2usize, 4, 8] {
            let a = rand_vec::<F>(rng, n);
            let b = rand_vec::<F>(rng, n);
            let c = rand_vec::<F>(rng, n);
            let z = vec![F::zero(); n];
            let fresh = |p: &Vec<F>, q: &Vec<F>| hp::poly_mul_lagrange::<F>(2 * n, p, q).unwrap();
            let g = Mul::new(n - 1);
            for (what, p, q) in [("zero * c", &z, &c), ("c * zero", &c, &z), ("a * b", &a, &b)] {
                let mut outp = fresh(&a, &b);
                outp.iter_mut().for_each(|x| *x += F::one());
                let r = Gadget::<F>::eval_poly(&g, &mut outp, &[p.clone(), q.clone()]);
                out.oracle(r.is_ok() && outp == fresh(p, q), || format!("Mul::eval_poly {} {} into a used buffer, n={}", f, what, n), || "the result depends on the previous content of the output buffer".into());
            }
            let ps = ParallelSum::<F, Mul>::new(Mul::new(n - 1), 2);
            let want: Vec<F> = fresh(&a, &b);
            for (what, inp) in [("[a, b, 0, c]", vec![a.clone(), b.clone(), z.clone(), c.clone()]), ("[0, c, a, b]", vec![z.clone(), c.clone(), a.clone(), b.clone()]), ("[a, b, c, 0]", vec![a.clone(), b.clone(), c.clone(), z.clone()])] {
                let mut outp = vec![F::zero(); 2 * n];
                let r = Gadget::<F>::eval_poly(&ps, &mut outp, &inp);
                out.oracle(r.is_ok() && outp == want, || format!("ParallelSum::eval_poly {} {} n={}", f, what, n), || "a zero factor must contribute nothing: expected a*b".into());
            }
            out.count("poly.reused-buffers");
        }
    }
    // monomial-basis helpers
    for _ in 0..(if thorough { 300 } else { 60 }) {
        let (lp, lq) = (1 + rng.below(6) as usize, 1 + rng.below(5) as usize);
        let mut p = rand_vec::<F>(rng, lp);
        let mut q = rand_vec::<F>(rng, lq);
        if rng.below(3) == 0 {
            p.push(F::zero());
            q.push(F::zero());
        }
        let x = rand_elem::<F>(rng);
        out.case(format!("poly evalmono {} {} {}", f, enc(&p), enc(&[x])), format!("ok {}", enc(&[hp::poly_eval_monomial(&p, x)])));
        out.case(format!("poly deg {} {}", f, enc(&p)), hp::poly_deg(&p).to_string());
        let m = hp::poly_mul_monomial(&p, &q);
        out.oracle(hp::poly_eval_monomial(&m, x) == hp::poly_eval_monomial(&p, x) * hp::poly_eval_monomial(&q, x), || format!("poly mulmono {} {} {}", f, enc(&p), enc(&q)), || "product evaluates wrongly".into());
        out.case(format!("poly mulmono {} {} {}", f, enc(&p), enc(&q)), format!("ok {}", enc(&m)));
    }
    for (a, b) in [(0usize, 2usize), (0, 1), (1, 4), (3, 3), (5, 2), (0, 9)] {
        let r = hp::poly_range_check::<F>(a, b);
        let ok = (a..b).all(|i| hp::poly_eval_monomial(&r, F::from(F::Integer::try_from(i as u128).ok().unwrap())) == F::zero()) && hp::poly_deg(&r) == b.saturating_sub(a);
        out.oracle(ok, || format!("poly rangecheck {} {} {}", f, a, b), || "wrong roots or degree".into());
        out.case(format!("poly rangecheck {} {} {}", f, a, b), format!("ok {}", enc(&r)));
    }
}

pub fn run(out: &mut Out, thorough: bool, seed: u64) {
    let mut rng = Sm::new(seed ^ 0xC10);
    field_cases::<FieldPrio2>(out, &mut rng, thorough);
    field_cases::<Field64>(out, &mut rng, thorough);
    field_cases::<Field128>(out, &mut rng, thorough);
    let _ = Field64::modulus();
    out.samples = out.ops.iter().step_by(out.ops.len() / 12 + 1).map(|s| s.chars().take(200).collect()).collect();
}
