//! C05: FLP prove/query/decide: complete, sound, share-linear, length-exact.
use crate::util::{catch, hex, Out, Sm};
use prio::codec::Encode;
use prio::field::{Field128, Field64, FieldElement, FieldElementWithInteger, NttFriendlyFieldElement};
use prio::flp::gadgets::{Mul, ParallelSum};
use prio::flp::types::{Average, Count, Histogram, L1BoundSum, MultihotCountVec, Sum, SumVec};
use prio::flp::{Flp, Type};

pub fn fname<F: FieldElement>() -> &'static str {
    match F::ENCODED_SIZE {
        4 => "FP32",
        8 => "FP64",
        _ => "FP128",
    }
}
pub fn enc<F: FieldElement>(v: &[F]) -> String {
    let mut b = vec![];
    for x in v {
        x.encode(&mut b).unwrap();
    }
    hex(&b)
}
pub fn modulus<F: FieldElement>() -> u128 {
    match F::ENCODED_SIZE {
        4 => 4293918721,
        8 => 18446744069414584321,
        _ => 340282366920938462946865773367900766209,
    }
}
pub fn fe<F: NttFriendlyFieldElement>(x: u128) -> F
where
    F::Integer: TryFrom<u128>,
{
    F::from(F::Integer::try_from(x % modulus::<F>()).ok().unwrap())
}
pub fn rand_elem<F: NttFriendlyFieldElement>(rng: &mut Sm) -> F
where
    F::Integer: TryFrom<u128>,
{
    match rng.below(12) {
        0 => F::zero(),
        1 => F::one(),
        2 => -F::one(),
        _ => fe(rng.u128()),
    }
}
pub fn rand_vec<F: NttFriendlyFieldElement>(rng: &mut Sm, n: usize) -> Vec<F>
where
    F::Integer: TryFrom<u128>,
{
    (0..n).map(|_| rand_elem(rng)).collect()
}
fn show<F: FieldElement, E>(r: Result<Result<Vec<F>, E>, String>) -> String {
    match r {
        Ok(Ok(v)) => format!("ok {}", enc(&v)),
        Ok(Err(_)) => "err".into(),
        Err(_) => "panic".into(),
    }
}

/// additive sharing of `v` into `k` shares; `degenerate` puts everything into one share
fn split<F: NttFriendlyFieldElement>(rng: &mut Sm, v: &[F], k: usize, degenerate: bool) -> Vec<Vec<F>>
where
    F::Integer: TryFrom<u128>,
{
    let mut shares: Vec<Vec<F>> = (1..k).map(|_| if degenerate { vec![F::zero(); v.len()] } else { rand_vec(rng, v.len()) }).collect();
    let mut first = v.to_vec();
    for s in &shares {
        for (a, b) in first.iter_mut().zip(s) {
            *a -= *b;
        }
    }
    shares.insert(0, first);
    shares
}

fn run_type<T>(out: &mut Out, rng: &mut Sm, typ: &T, spec: &str, valid: Vec<Vec<T::Field>>, invalid: Vec<Vec<T::Field>>, thorough: bool)
where
    T: Type,
    <T::Field as FieldElementWithInteger>::Integer: TryFrom<u128>,
{
    type Fd<T> = <T as Flp>::Field;
    let f = fname::<Fd<T>>();
    let pre = format!("{} {}", f, spec);
    // declared lengths
    out.case(
        format!("flp lens {}", pre),
        format!("{} {} {} {} {} {} {} {}", typ.input_len(), typ.proof_len(), typ.verifier_len(), typ.joint_rand_len(), typ.eval_output_len(), typ.prove_rand_len(), typ.query_rand_len(), typ.output_len()),
    );
    // roots of unity of the wire-polynomial domain (query randomness that must be refused)
    let calls = typ.gadget()[0].calls();
    let p = (1 + calls).next_power_of_two();
    let logp = p.trailing_zeros() as usize;
    let w = Fd::<T>::root(logp).unwrap();
    let mut domain_roots = vec![Fd::<T>::one(), w];
    let mut x = w;
    for _ in 0..3 {
        x *= w;
        domain_roots.push(x);
    }
    let inputs: Vec<(Vec<Fd<T>>, bool)> = valid.into_iter().map(|v| (v, true)).chain(invalid.into_iter().map(|v| (v, false))).collect();
    for (input, is_valid) in inputs {
        let rounds = if thorough { 6 } else { 2 };
        for round in 0..rounds {
            let uniform = |rng: &mut Sm, n: usize| -> Vec<Fd<T>> { (0..n).map(|_| fe(rng.u128())).collect() };
            let jr: Vec<Fd<T>> = match round % 4 {
                0 => uniform(rng, typ.joint_rand_len()),
                1 => vec![Fd::<T>::zero(); typ.joint_rand_len()],
                2 => vec![Fd::<T>::one(); typ.joint_rand_len()],
                _ => vec![rand_elem(rng); typ.joint_rand_len()],
            };
            let pr: Vec<Fd<T>> = if round == 1 { vec![Fd::<T>::zero(); typ.prove_rand_len()] } else { rand_vec(rng, typ.prove_rand_len()) };
            let mut qr: Vec<Fd<T>> = if round % 4 == 0 { uniform(rng, typ.query_rand_len()) } else { rand_vec(rng, typ.query_rand_len()) };
            // plain circuit
            for ns in [1usize, 3] {
                let r = catch(std::panic::AssertUnwindSafe(|| typ.valid(&mut typ.gadget(), &input, &jr, ns)));
                if ns == 1 {
                    if let Ok(Ok(v)) = &r {
                        let zero = v.iter().all(|x| *x == Fd::<T>::zero());
                        if is_valid {
                            out.oracle(zero, || format!("flp valid {} {} {} 1", pre, enc(&input), enc(&jr)), || "valid input does not satisfy the circuit".into());
                        }
                    }
                }
                out.case(format!("flp valid {} {} {} {}", pre, enc(&input), enc(&jr), ns), show(r));
            }
            let proof = catch(std::panic::AssertUnwindSafe(|| typ.prove(&input, &pr, &jr).map_err(|_| ())));
            out.case(format!("flp prove {} {} {} {}", pre, enc(&input), enc(&pr), enc(&jr)), show(proof.clone()));
            let Ok(Ok(proof)) = proof else { continue };
            out.oracle(proof.len() == typ.proof_len(), || format!("flp prove {}", pre), || "proof length differs from proof_len()".into());
            // query on the whole input
            let whole = catch(std::panic::AssertUnwindSafe(|| typ.query(&input, &proof, &qr, &jr, 1).map_err(|_| ())));
            out.case(format!("flp query {} {} {} {} {} 1", pre, enc(&input), enc(&proof), enc(&qr), enc(&jr)), show(whole.clone()));
            if let Ok(Ok(ver)) = &whole {
                out.oracle(ver.len() == typ.verifier_len(), || format!("flp query {}", pre), || "verifier length differs from verifier_len()".into());
                let dec = catch(std::panic::AssertUnwindSafe(|| typ.decide(ver)));
                let ds = match &dec { Ok(Ok(b)) => format!("ok {}", b), Ok(Err(_)) => "err".into(), Err(_) => "panic".into() };
                out.case(format!("flp decide {} {}", pre, enc(ver)), ds);
                if is_valid {
                    out.oracle(matches!(dec, Ok(Ok(true))), || format!("flp complete {} {}", pre, enc(&input)), || "proof of a valid input rejected".into());
                } else if round % 4 == 0 {
                    // soundness sample: an honestly proved invalid input is rejected under random joint randomness
                    out.oracle(matches!(dec, Ok(Ok(false))), || format!("flp sound {} {}", pre, enc(&input)), || "proof of an invalid input accepted".into());
                }
                out.count(&format!("decide.{}.{}", spec.split(':').next().unwrap(), if is_valid { "valid" } else { "invalid" }));
                // share linearity for 2, 3 and 5 shares, random and degenerate sharings
                for (k, degenerate) in [(2usize, false), (3, false), (5, true)] {
                    let ins = split(rng, &input, k, degenerate);
                    let pfs = split(rng, &proof, k, degenerate);
                    let mut sum = vec![Fd::<T>::zero(); ver.len()];
                    let mut ok = true;
                    for (i, pf) in ins.iter().zip(pfs.iter()) {
                        let r = catch(std::panic::AssertUnwindSafe(|| typ.query(i, pf, &qr, &jr, k).map_err(|_| ())));
                        out.case(format!("flp query {} {} {} {} {} {}", pre, enc(i), enc(pf), enc(&qr), enc(&jr), k), show(r.clone()));
                        match r {
                            Ok(Ok(v)) => {
                                for (a, b) in sum.iter_mut().zip(v) {
                                    *a += b;
                                }
                            }
                            _ => ok = false,
                        }
                    }
                    out.oracle(ok && &sum == ver, || format!("flp linear {} k={} {}", pre, k, enc(&input)), || "sum of share verifiers differs from the whole verifier".into());
                }
                // every proof element altered: rejected (sample of the soundness statement)
                if is_valid {
                    // (the wire seeds are excluded: altering a seed is invisible when the other wire is identically zero)
                    let arity = typ.gadget()[0].arity();
                    let step = if thorough { 1 } else { (proof.len() / 6).max(1) };
                    for pos in (arity..proof.len()).step_by(step) {
                        let mut bad = proof.clone();
                        bad[pos] += Fd::<T>::one();
                        if let Ok(v) = typ.query(&input, &bad, &qr, &jr, 1) {
                            let d = typ.decide(&v);
                            out.oracle(matches!(d, Ok(false)), || format!("flp tamper {} pos={}", pre, pos), || "altered proof accepted".into());
                        }
                    }
                }
            }
            // query randomness on the wire domain must be refused
            for rt in &domain_roots {
                let n = qr.len();
                qr[n - 1] = *rt;
                let r = catch(std::panic::AssertUnwindSafe(|| typ.query(&input, &proof, &qr, &jr, 1)));
                out.oracle(matches!(r, Ok(Err(_))), || format!("flp root-of-unity {} r={}", pre, enc(&[*rt])), || "query randomness on the wire domain accepted".into());
                out.case(format!("flp query {} {} {} {} {} 1", pre, enc(&input), enc(&proof), enc(&qr), enc(&jr)), show(r.map(|r| r.map_err(|_| ()))));
            }
            // wrong lengths are refused
            if round == 0 {
                let qr2: Vec<Fd<T>> = rand_vec(rng, typ.query_rand_len());
                let mut variants: Vec<(Vec<Fd<T>>, Vec<Fd<T>>, Vec<Fd<T>>, Vec<Fd<T>>)> = vec![];
                // every argument at lengths 0, 1, len-1, len+1 and 2*len
                for d in 0..5usize {
                    let adj = |v: &Vec<Fd<T>>| {
                        let n = match d {
                            0 => 0,
                            1 => 1,
                            2 => v.len().saturating_sub(1),
                            3 => v.len() + 1,
                            _ => 2 * v.len(),
                        };
                        (0..n).map(|i| if v.is_empty() { Fd::<T>::one() } else { v[i % v.len()] }).collect::<Vec<_>>()
                    };
                    variants.push((adj(&input), proof.clone(), qr2.clone(), jr.clone()));
                    variants.push((input.clone(), adj(&proof), qr2.clone(), jr.clone()));
                    variants.push((input.clone(), proof.clone(), adj(&qr2), jr.clone()));
                    variants.push((input.clone(), proof.clone(), qr2.clone(), adj(&jr)));
                }
                for (i, pf, q, j) in variants {
                    if i.len() == input.len() && pf.len() == proof.len() && q.len() == qr2.len() && j.len() == jr.len() {
                        continue;
                    }
                    let r = catch(std::panic::AssertUnwindSafe(|| typ.query(&i, &pf, &q, &j, 1)));
                    out.oracle(matches!(r, Ok(Err(_))), || format!("flp wrong-length {}", pre), || "wrong-length argument not refused with an error".into());
                    out.case(format!("flp query {} {} {} {} {} 1", pre, enc(&i), enc(&pf), enc(&q), enc(&j)), show(r.map(|r| r.map_err(|_| ()))));
                    let r = catch(std::panic::AssertUnwindSafe(|| typ.prove(&i, &pr, &j)));
                    if i.len() != input.len() || j.len() != jr.len() {
                        out.oracle(matches!(r, Ok(Err(_))), || format!("flp wrong-length prove {}", pre), || "wrong-length argument not refused".into());
                    }
                }
                // the prover's randomness at lengths 0, 1, len-1, len+1, 2*len
                for n in [0usize, 1, pr.len().saturating_sub(1), pr.len() + 1, 2 * pr.len()] {
                    if n == pr.len() {
                        continue;
                    }
                    let other: Vec<Fd<T>> = (0..n).map(|i| if pr.is_empty() { Fd::<T>::one() } else { pr[i % pr.len()] }).collect();
                    let r = catch(std::panic::AssertUnwindSafe(|| typ.prove(&input, &other, &jr)));
                    out.oracle(matches!(r, Ok(Err(_))), || format!("flp wrong-length prove_rand ({} for {}) {}", n, pr.len(), pre), || "not refused with an error".into());
                    out.case(format!("flp prove {} {} {} {}", pre, enc(&input), enc(&other), enc(&jr)), show(r.map(|r| r.map_err(|_| ()))));
                }
            }
        }
    }
}

fn bits_of(max: u128) -> usize {
    (128 - max.leading_zeros()) as usize
}
fn last_weight(max: u128) -> u128 {
    max - ((1u128 << (bits_of(max) - 1)) - 1)
}

pub fn run(out: &mut Out, thorough: bool, seed: u64) {
    let mut rng = Sm::new(seed ^ 0xC05);
    type F64 = Field64;
    type F128 = Field128;
    type PS = ParallelSum<F128, Mul>;
    // Count
    let c = Count::<F64>::new();
    run_type(out, &mut rng, &c, "count", vec![vec![F64::zero()], vec![F64::one()]], vec![vec![fe(2)], vec![fe(1337)], vec![-F64::one()]], thorough);
    // Sum (and Average, which is Sum underneath) at bit-width edges
    for max in [1u64, 2, 3, 255, 256, 1458, (1 << 20) + 1] {
        let s = Sum::<F64>::new(max).unwrap();
        let spec = format!("sum:{}", bits_of(max as u128));
        let valid: Vec<Vec<F64>> = [0u64, 1, max / 2, max - 1, max].iter().filter(|m| **m <= max).map(|m| s.encode_measurement(m).unwrap()).collect();
        let mut invalid = vec![];
        let mut v = s.encode_measurement(&max).unwrap();
        v[0] = fe(2);
        invalid.push(v);
        let mut v = s.encode_measurement(&0).unwrap();
        let n = v.len();
        v[n - 1] = -F64::one();
        invalid.push(v);
        run_type(out, &mut rng, &s, &spec, valid, invalid, thorough);
        if max == 255 {
            let a = Average::<F64>::new(max).unwrap();
            run_type(out, &mut rng, &a, &spec, vec![a.encode_measurement(&17).unwrap()], vec![], thorough);
        }
    }
    // Histogram: chunk lengths that do and do not divide the length, chunk > length
    for (len, chunk) in [(1usize, 1usize), (4, 2), (5, 2), (5, 5), (3, 7), (10, 3)] {
        let h = Histogram::<F128, PS>::new(len, chunk).unwrap();
        let spec = format!("hist:{}:{}", len, chunk);
        let valid: Vec<Vec<F128>> = [0, len / 2, len - 1].iter().map(|m| h.encode_measurement(m).unwrap()).collect();
        let mut invalid = vec![vec![F128::zero(); len]]; // weight 0
        if len >= 2 {
            let mut v = vec![F128::zero(); len];
            v[0] = F128::one();
            v[1] = F128::one();
            invalid.push(v); // weight 2
            let mut v = vec![F128::zero(); len];
            v[0] = fe(2);
            v[1] = -F128::one();
            invalid.push(v); // sums to one but not bits: satisfies the affine check only
        } else {
            invalid.push(vec![fe(2)]);
        }
        invalid.extend(crate::c02::edge_defects(&mut rng, &crate::c02::lang_hist(len)));
        run_type(out, &mut rng, &h, &spec, valid, invalid, thorough);
    }
    // SumVec
    for (max, len, chunk) in [(1u128, 3usize, 2usize), (7, 4, 3), (255, 2, 5), (256, 3, 30), (5, 1, 1)] {
        let s = SumVec::<F128, PS>::new(max, len, chunk).unwrap();
        let spec = format!("svec:{}:{}:{}:{}", len, bits_of(max), last_weight(max), chunk);
        let valid = vec![s.encode_measurement(&vec![0; len]).unwrap(), s.encode_measurement(&vec![max; len]).unwrap(), s.encode_measurement(&(0..len as u128).map(|i| i % (max + 1)).collect()).unwrap()];
        let mut v = s.encode_measurement(&vec![max; len]).unwrap();
        v[0] = fe(2);
        let mut v2 = s.encode_measurement(&vec![0; len]).unwrap();
        let n = v2.len();
        // a non-bit: `rand_elem` also returns lattice values such as p - 1 and p - 2, for which `+ 2` IS a bit
        v2[n - 1] = loop {
            let x = rand_elem::<F128>(&mut rng) + fe(2);
            if x != F128::zero() && x != F128::one() {
                break x;
            }
        };
        run_type(out, &mut rng, &s, &spec, valid, vec![v, v2], thorough);
    }
    // MultihotCountVec
    // chunk lengths that divide the number of buckets but not the encoded length, and the reverse
    for (len, maxw, chunk) in [(3usize, 1usize, 2usize), (5, 3, 3), (4, 4, 7), (6, 2, 1), (4, 2, 4), (4, 2, 2), (6, 3, 3), (5, 1, 3)] {
        let m = MultihotCountVec::<F128, PS>::new(len, maxw, chunk).unwrap();
        let bw = bits_of(maxw as u128);
        let spec = format!("mhot:{}:{}:{}:{}", len, bw, last_weight(maxw as u128), chunk);
        let mut valid = vec![m.encode_measurement(&vec![false; len]).unwrap()];
        let mut some = vec![false; len];
        for i in 0..maxw.min(len) {
            some[i] = true;
        }
        valid.push(m.encode_measurement(&some).unwrap());
        // claimed weight inconsistent with the actual weight
        let mut bad = m.encode_measurement(&some).unwrap();
        bad[len - 1] = F128::one() - bad[len - 1];
        // non-bit entry
        let mut bad2 = m.encode_measurement(&vec![false; len]).unwrap();
        bad2[0] = fe(3);
        let mut invalid = vec![bad, bad2];
        invalid.extend(crate::c02::edge_defects(&mut rng, &crate::c02::lang_mhot(len, maxw)));
        run_type(out, &mut rng, &m, &spec, valid, invalid, thorough);
    }
    // L1BoundSum (chunk lengths that divide the encoded length, the vector length only, neither; remainder one)
    for (max, mlen, chunk) in [(7u128, 4usize, 3usize), (1, 2, 1), (100, 3, 4), (7, 4, 7), (3, 2, 5), (1, 3, 3), (7, 4, 4), (3, 6, 3), (7, 2, 2)] {
        let l = L1BoundSum::<F128, PS>::new(max, mlen, chunk).unwrap();
        let spec = format!("l1:{}:{}:{}:{}", mlen, bits_of(max), last_weight(max), chunk);
        let mut one = vec![0u128; mlen];
        one[0] = max;
        let valid = vec![l.encode_measurement(&vec![0; mlen]).unwrap(), l.encode_measurement(&one).unwrap()];
        // inconsistent claimed norm: measurement bits of [max,0..] with the claimed norm of zeros
        let good = l.encode_measurement(&one).unwrap();
        let zero = l.encode_measurement(&vec![0; mlen]).unwrap();
        let b = bits_of(max);
        let mut bad = good.clone();
        let n = bad.len();
        bad[n - b..].copy_from_slice(&zero[n - b..]);
        let mut bad2 = zero.clone();
        bad2[0] = fe(2);
        // the only defect is the last digit of the claimed norm: all other digits zero, the last one
        // solved so that the norms agree (a bit only when max = last weight)
        let mut invalid = vec![bad, bad2];
        if last_weight(max) != max {
            let mut bad3 = good.clone();
            for x in bad3[n - b..].iter_mut() {
                *x = fe(0);
            }
            bad3[n - 1] = fe::<F128>(max) * fe::<F128>(last_weight(max)).inv();
            invalid.push(bad3);
        }
        // the only defect is ONE entry that is not a bit (solved from the norm relation), at the edges of the vector
        invalid.extend(crate::c02::edge_defects(&mut rng, &crate::c02::lang_l1(max, mlen)));
        run_type(out, &mut rng, &l, &spec, valid, invalid, thorough);
    }
    out.samples = out.ops.iter().step_by(out.ops.len() / 12 + 1).map(|s| s.chars().take(260).collect()).collect();
}
