//! Correspondence and oracle harness for the Lean model of libprio-rs.
//!
//! `harness run <property> <tier> <seed> <outdir>` drives the real library, writes
//! `<outdir>/<property>.ops` (operation lines for the Lean driver), `<outdir>/<property>.impl` (the
//! implementation's canonical answers, one per line) and `<outdir>/<property>.stats.json`
//! (input distribution, oracle results).
mod alloc;
mod c02;
mod c05;
mod c06;
mod c09;
mod c10;
mod c11;
mod c12;
mod c13;
mod c14;
mod c15;
mod c16;
mod c19;
mod pop;
mod c20;
mod prio3;
mod rec;
mod codec;
mod util;

#[global_allocator]
static GLOBAL: alloc::Counting = alloc::Counting;

fn main() {
    let args: Vec<String> = std::env::args().collect();
    if args.len() == 4 && args[1] == "posthash" {
        c11::posthash(&args[2], &args[3]).expect("posthash");
        return;
    }
    if args.len() == 3 && args[1] == "search-c19" {
        c19::search_double(args[2].parse().unwrap_or(1));
        return;
    }
    if args.len() < 6 || args[1] != "run" {
        eprintln!("usage: harness run <property> <quick|thorough> <seed> <outdir>");
        std::process::exit(2);
    }
    let prop = args[2].as_str();
    let thorough = args[3] == "thorough";
    let seed: u64 = args[4].parse().unwrap_or(0);
    let dir = args[5].as_str();
    if std::env::var("HARNESS_PANICS").is_err() {
        std::panic::set_hook(Box::new(|_| {}));
    }
    let mut out = util::Out::new();
    match prop {
        "C01" | "C02" | "C17" | "C18" => prio3::run(&mut out, thorough, seed, prop),
        "C03" => pop::run_c03(&mut out, thorough, seed),
        "C04" => pop::run_c04(&mut out, thorough, seed),
        "C05" => c05::run(&mut out, thorough, seed),
        "C06" => c06::run(&mut out, thorough, seed),
        "C09" => c09::run(&mut out, thorough, seed),
        "C10" => c10::run(&mut out, thorough, seed),
        "C11" => c11::run(&mut out, thorough, seed),
        "C12" => c12::run(&mut out, thorough, seed),
        "C13" => c13::run(&mut out, thorough, seed),
        "C14" => c14::run(&mut out, thorough, seed),
        "C15" => c15::run(&mut out, thorough, seed),
        "C16" => c16::run(&mut out, thorough, seed),
        "C19" => c19::run(&mut out, thorough, seed),
        "C20" => c20::run(&mut out, thorough, seed),
        "C07" | "C08" => codec::run(&mut out, thorough, seed, prop),
        _ => {
            eprintln!("unknown property {prop}");
            std::process::exit(2);
        }
    }
    // distinct XOF inputs must give distinct streams (recorded over the whole run)
    for c in rec::collisions() {
        out.oracle(false, || "xof-binding".to_string(), || c.clone());
    }
    out.write(dir, prop).expect("write outputs");
    println!(
        "harness: {} cases={} oracle_checks={} oracle_failures={}",
        prop,
        out.ops.len(),
        out.oracle_checks,
        out.oracle_failures.len()
    );
}
