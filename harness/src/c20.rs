//! C20: aggregation-parameter admissibility.
use crate::util::{catch, hex, Out, Sm};
use prio::codec::Encode;
use prio::idpf::IdpfInput;
use prio::vdaf::poplar1::{Poplar1, Poplar1AggregationParam};
use prio::vdaf::prio2::Prio2;
use prio::vdaf::prio3::Prio3Count;
use prio::vdaf::xof::XofTurboShake128;
use prio::vdaf::Aggregator;

type Pop = Poplar1<XofTurboShake128, 32>;

fn bitstr(p: &[bool]) -> String {
    if p.is_empty() {
        "e".into()
    } else {
        p.iter().map(|b| if *b { '1' } else { '0' }).collect()
    }
}

fn liststr(ps: &[Vec<bool>]) -> String {
    if ps.is_empty() {
        "none".into()
    } else {
        ps.iter().map(|p| bitstr(p)).collect::<Vec<_>>().join(",")
    }
}

fn build(ps: &[Vec<bool>]) -> Result<Poplar1AggregationParam, ()> {
    Poplar1AggregationParam::try_from_prefixes(ps.iter().map(|p| IdpfInput::from_bools(p)).collect()).map_err(|_| ())
}

/// the rule of the property statement, written independently of the library
fn reference_valid(cur: &[Vec<bool>], prev: &[Vec<Vec<bool>>]) -> bool {
    match prev.last() {
        None => true,
        Some(last) => {
            let (cl, ll) = (cur[0].len(), last[0].len());
            cl > ll && cur.iter().all(|p| last.iter().any(|q| p[..ll] == q[..]))
        }
    }
}

fn reference_ctor(ps: &[Vec<bool>]) -> bool {
    !ps.is_empty()
        && ps.iter().all(|p| p.len() == ps[0].len())
        && (1..=65536).contains(&ps[0].len())
        && ps.windows(2).all(|w| w[0] < w[1])
}

fn all_params(bits: usize) -> Vec<Vec<Vec<bool>>> {
    let mut out = vec![];
    for level in 0..bits {
        let n = level + 1;
        let all: Vec<Vec<bool>> = (0..(1u32 << n)).map(|v| (0..n).map(|i| (v >> (n - 1 - i)) & 1 == 1).collect()).collect();
        for mask in 1u32..(1u32 << all.len()) {
            out.push(all.iter().enumerate().filter(|(i, _)| (mask >> i) & 1 == 1).map(|(_, p)| p.clone()).collect());
        }
    }
    out
}

fn valid_case(out: &mut Out, cur: &Vec<Vec<bool>>, prev: &[Vec<Vec<bool>>]) {
    let c = build(cur).expect("well-formed cur");
    let p: Vec<Poplar1AggregationParam> = prev.iter().map(|x| build(x).expect("well-formed prev")).collect();
    let got = catch(std::panic::AssertUnwindSafe(|| Pop::is_agg_param_valid(&c, &p)));
    let line = format!("aggvalid {}{}", liststr(cur), prev.iter().map(|x| format!(" {}", liststr(x))).collect::<String>());
    let want = reference_valid(cur, prev);
    out.oracle(got == Ok(want), || line.clone(), || format!("library says {:?}, the rule says {}", got, want));
    out.count(&format!("valid.hist{}.{}", prev.len().min(3), want));
    out.case(line, match got { Ok(b) => b.to_string(), Err(_) => "panic".into() });
}

fn ctor_case(out: &mut Out, ps: &[Vec<bool>]) {
    let got = catch(std::panic::AssertUnwindSafe(|| build(ps).map(|a| (a.level(), a.get_encoded().unwrap(), a.encoded_len()))));
    let line = format!("aggctor {}", liststr(ps));
    let want = reference_ctor(ps);
    let imp = match &got {
        Ok(Ok((l, e, _))) => format!("ok {} {}", l, hex(e)),
        Ok(Err(())) => "err".into(),
        Err(_) => "panic".into(),
    };
    out.oracle(matches!(got, Ok(Ok(_))) == want && got.is_ok(), || line.clone(), || format!("library: {}, expected accept = {}", &imp[..imp.len().min(40)], want));
    if let Ok(Ok((l, e, len))) = &got {
        out.oracle(*l + 1 == ps[0].len() && *len == Some(e.len()), || line.clone(), || "level or encoded_len wrong".into());
    }
    out.count(&format!("ctor.{}", if want { "accept" } else { "reject" }));
    if line.len() < 200_000 {
        out.case(line, imp);
    }
}

pub fn run(out: &mut Out, thorough: bool, seed: u64) {
    let mut rng = Sm::new(seed ^ 0xC20);
    // exhaustive: every parameter over 2-bit inputs, every history of length <= 2
    let small = all_params(2);
    for cur in &small {
        valid_case(out, cur, &[]);
        for p1 in &small {
            valid_case(out, cur, &[p1.clone()]);
            for p2 in &small {
                valid_case(out, cur, &[p2.clone(), p1.clone()]);
            }
        }
    }
    // 3-bit inputs: every (cur, last) pair; longer histories sampled
    let mid = all_params(3);
    let stride = if thorough { 1 } else { 5 };
    let mut k = 0usize;
    for cur in &mid {
        for p1 in &mid {
            k += 1;
            if k % stride == 0 {
                valid_case(out, cur, &[p1.clone()]);
            }
        }
    }
    for _ in 0..(if thorough { 60_000 } else { 6_000 }) {
        let len = 2 + rng.below(3) as usize;
        let hist: Vec<Vec<Vec<bool>>> = (0..len).map(|_| mid[rng.below(mid.len() as u64) as usize].clone()).collect();
        let cur = mid[rng.below(mid.len() as u64) as usize].clone();
        valid_case(out, &cur, &hist);
    }
    // admissible-looking long histories over 12-bit inputs: refine step by step, then perturb
    for _ in 0..(if thorough { 3000 } else { 300 }) {
        let mut hist: Vec<Vec<Vec<bool>>> = vec![];
        let mut cur: Vec<Vec<bool>> = vec![vec![false], vec![true]];
        let mut level = 0;
        while level < 11 {
            hist.push(cur.clone());
            let jump = 1 + rng.below(3) as usize;
            let mut next: Vec<Vec<bool>> = vec![];
            for p in &cur {
                for _ in 0..1 + rng.below(2) {
                    let mut q = p.clone();
                    for _ in 0..jump {
                        q.push(rng.below(2) == 1);
                    }
                    next.push(q);
                }
            }
            next.sort();
            next.dedup();
            if rng.below(4) == 0 && next.len() > 1 {
                next.remove(rng.below(next.len() as u64) as usize);
            }
            level += jump;
            cur = next;
            // the honest next step, and a perturbed one (one candidate moved off its ancestor)
            valid_case(out, &cur, &hist);
            let mut bad = cur.clone();
            let i = rng.below(bad.len() as u64) as usize;
            let j = rng.below(bad[i].len() as u64) as usize;
            bad[i][j] = !bad[i][j];
            bad.sort();
            bad.dedup();
            valid_case(out, &bad, &hist);
            // history in the wrong order / stale last element
            if hist.len() >= 2 {
                let mut rev = hist.clone();
                rev.reverse();
                valid_case(out, &cur, &rev);
            }
        }
    }
    // deep levels: sparse histories (one to three candidates per level) over 200-bit inputs, with steps that land on
    // and around the word-size levels 31/32, 63/64, 127/128; each honest step, a step whose candidate leaves its
    // ancestor, and a repeated level
    for _ in 0..(if thorough { 400 } else { 60 }) {
        let mut hist: Vec<Vec<Vec<bool>>> = vec![];
        let stops: Vec<usize> = {
            let mut v: Vec<usize> = vec![1 + rng.below(20) as usize];
            for w in [32usize, 64, 128] {
                v.push(w - 1 + rng.below(3) as usize);
                v.push(w + 1 + rng.below(4) as usize);
            }
            v.push(190 + rng.below(10) as usize);
            v.sort();
            v.dedup();
            v
        };
        let mut cur: Vec<Vec<bool>> = (0..1 + rng.below(3)).map(|_| (0..stops[0]).map(|_| rng.below(2) == 1).collect()).collect();
        cur.sort();
        cur.dedup();
        for w in stops.windows(2) {
            hist.push(cur.clone());
            let add = w[1] - w[0];
            let mut next: Vec<Vec<bool>> = cur
                .iter()
                .map(|p| {
                    let mut q = p.clone();
                    q.extend((0..add).map(|_| rng.below(2) == 1));
                    q
                })
                .collect();
            next.sort();
            next.dedup();
            valid_case(out, &next, &hist);
            // one candidate leaves its ancestor (a bit inside the ancestor's part is flipped)
            let mut bad = next.clone();
            let i = rng.below(bad.len() as u64) as usize;
            let j = rng.below(w[0] as u64) as usize;
            bad[i][j] = !bad[i][j];
            bad.sort();
            bad.dedup();
            valid_case(out, &bad, &hist);
            // a fresh, unrelated candidate of the right length
            let fresh: Vec<Vec<bool>> = vec![(0..w[1]).map(|_| rng.below(2) == 1).collect()];
            valid_case(out, &fresh, &hist);
            // the same level again
            valid_case(out, &cur, &hist);
            cur = next;
        }
        out.count("deep-histories");
    }
    // constructor: subsets in every order, duplicates, mixed lengths, degenerate and maximal lengths
    let pool: Vec<Vec<bool>> = vec![vec![], vec![false], vec![true], vec![false, false], vec![false, true], vec![true, false], vec![true, true], vec![true, true, false]];
    ctor_case(out, &[]);
    for a in &pool {
        ctor_case(out, &[a.clone()]);
        for b in &pool {
            ctor_case(out, &[a.clone(), b.clone()]);
            for c in &pool {
                ctor_case(out, &[a.clone(), b.clone(), c.clone()]);
            }
        }
    }
    for len in [65535usize, 65536, 65537] {
        let mut a = vec![false; len];
        let mut b = vec![false; len];
        b[len - 1] = true;
        ctor_case(out, &[a.clone()]);
        ctor_case(out, &[a.clone(), b.clone()]);
        ctor_case(out, &[b.clone(), a.clone()]);
        a[0] = true;
        ctor_case(out, &[b, a]);
    }
    for _ in 0..(if thorough { 5000 } else { 500 }) {
        let n = 1 + rng.below(12) as usize;
        let cnt = rng.below(6) as usize;
        let mut ps: Vec<Vec<bool>> = (0..cnt).map(|_| (0..n).map(|_| rng.below(2) == 1).collect()).collect();
        if rng.below(2) == 0 {
            ps.sort();
        }
        if rng.below(3) == 0 {
            ps.dedup();
        }
        ctor_case(out, &ps);
    }
    // Prio3 and Prio2: first use only
    for n in 0..4usize {
        let prev = vec![(); n];
        let g3 = Prio3Count::is_agg_param_valid(&(), &prev);
        let g2 = Prio2::is_agg_param_valid(&(), &prev);
        out.oracle(g3 == (n == 0) && g2 == (n == 0), || format!("unitvalid {}", n), || format!("prio3 {} prio2 {}", g3, g2));
        out.case(format!("unitvalid {}", n), g3.to_string());
        out.case(format!("unitvalid {}", n), g2.to_string());
    }
    out.samples = out.ops.iter().step_by(out.ops.len() / 12 + 1).map(|s| s.chars().take(200).collect()).collect();
}
