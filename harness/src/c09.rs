//! C09: field elements behave exactly as integers modulo the prime.
use crate::util::{hex, Out, Sm};
use num_bigint::BigUint;
use num_traits::{One, ToPrimitive, Zero};

use prio::field::{Field128, Field64, FieldElementWithInteger, FieldPrio2};
use prio::verif_hooks::fp_op;

struct Params {
    name: &'static str,
    bits: u32,
    p: u128,
}

const FIELDS: [Params; 5] = [
    Params { name: "FP8", bits: 8, p: 251 },
    Params { name: "FP16S", bits: 16, p: 65269 },
    Params { name: "FP32", bits: 32, p: 4293918721 },
    Params { name: "FP64", bits: 64, p: 18446744069414584321 },
    Params { name: "FP128", bits: 128, p: 340282366920938462946865773367900766209 },
];

fn big(x: u128) -> BigUint {
    BigUint::from(x)
}

/// reference semantics of a raw operation on Montgomery words (x, y < p), independent of the model
fn raw_ok(f: &Params, op: &str, x: u128, y: u128, got: u128) -> bool {
    let p = big(f.p);
    let r = BigUint::one() << f.bits;
    if got >= f.p {
        return false;
    }
    match op {
        "add" => big(got) == (big(x) + big(y)) % &p,
        "sub" => big(got) == (big(x) + &p - big(y)) % &p,
        "neg" => big(got) == (&p - big(x)) % &p,
        "mul" => (big(got) * &r) % &p == (big(x) * big(y)) % &p,
        "montgomery" => big(got) == (big(x) * &r) % &p,
        "residue" => (big(got) * &r) % &p == big(x) % &p,
        // x is the Montgomery word of a = x/R; the result is the word of a^y, for any word y
        "pow" => {
            let rinv = r.modpow(&(&p - 2u32), &p);
            let a = (big(x) * &rinv) % &p;
            big(got) == (a.modpow(&big(y), &p) * &r) % &p
        }
        _ => true,
    }
}

fn lattice(f: &Params) -> Vec<u128> {
    let p = f.p;
    let mut v: Vec<u128> = vec![0, 1, 2, 3, p - 1, p - 2, p - 3, (p - 1) / 2, (p + 1) / 2];
    for k in 0..f.bits {
        let t = 1u128 << k;
        for c in [t.wrapping_sub(1), t, t.wrapping_add(1)] {
            v.push(c);
        }
    }
    let half = f.bits / 2;
    let lo_mask = (1u128 << half) - 1;
    v.push(lo_mask);
    v.push(p & lo_mask);
    v.push(p & !lo_mask);
    v.push((p & !lo_mask) | 1);
    let rmod = if f.bits == 128 { (u128::MAX % p + 1) % p } else { (1u128 << f.bits) % p };
    v.push(rmod);
    v.push(p - rmod);
    let mut v: Vec<u128> = v.into_iter().filter(|x| *x < p).collect();
    v.sort();
    v.dedup();
    v
}

fn rand_below(rng: &mut Sm, p: u128) -> u128 {
    // low-Hamming-weight and uniform mixtures
    match rng.below(4) {
        0 => {
            let mut x = 0u128;
            for _ in 0..rng.below(4) + 1 {
                x |= 1u128 << rng.below(128);
            }
            x % p
        }
        1 => p - 1 - (rng.u128() % p) % (1 << 20),
        _ => rng.u128() % p,
    }
}

fn raw_case(out: &mut Out, f: &Params, op: &str, x: u128, y: u128, to_model: bool) {
    let got = fp_op(f.name, op, x, y).expect("fp_op");
    out.oracle(
        raw_ok(f, op, x, y, got),
        || format!("fp {} {} {} {}", f.name, op, x, y),
        || format!("real result {} violates the mod-p definition", got),
    );
    if to_model {
        out.case(format!("fp {} {} {} {}", f.name, op, x, y), got.to_string());
        out.count(&format!("model.{}.{}", f.name, op));
    }
    out.count(&format!("oracle.{}.{}", f.name, op));
}

fn public_api<F>(out: &mut Out, name: &str, p: u128, rng: &mut Sm, lat: &[u128], n: usize)
where
    F: FieldElementWithInteger,
    F::Integer: TryFrom<u128> + Into<u128> + Copy,
    <F::Integer as TryFrom<u128>>::Error: std::fmt::Debug,
{
    let fe = |x: u128| F::from(F::Integer::try_from(x).unwrap());
    let int = |a: F| -> u128 { F::Integer::from(a).into() };
    let pb = big(p);
    let mut pairs: Vec<(u128, u128)> = vec![];
    for _ in 0..n {
        let x = if rng.below(3) == 0 { lat[rng.below(lat.len() as u64) as usize] } else { rand_below(rng, p) };
        let y = if rng.below(3) == 0 { lat[rng.below(lat.len() as u64) as usize] } else { rand_below(rng, p) };
        pairs.push((x, y));
    }
    for (x, y) in pairs {
        let (a, b) = (fe(x), fe(y));
        let checks: [(&str, u128, BigUint); 4] = [
            ("add", int(a + b), (big(x) + big(y)) % &pb),
            ("sub", int(a - b), (big(x) + &pb - big(y)) % &pb),
            ("mul", int(a * b), (big(x) * big(y)) % &pb),
            ("neg", int(-a), (&pb - big(x)) % &pb),
        ];
        for (op, got, want) in checks {
            out.oracle(big(got) == want, || format!("fe {} {} {} {}", name, op, x, y), || format!("got {} want {}", got, want));
            out.case(format!("fe {} {} {} {}", name, op, x, y), got.to_string());
        }
        // inversion and exponentiation
        let inv = int(a.inv());
        let want_inv = big(x).modpow(&(&pb - 2u32), &pb);
        out.oracle(big(inv) == want_inv, || format!("fe {} inv {}", name, x), || format!("got {}", inv));
        out.case(format!("fe {} inv {} 0", name, x), inv.to_string());
        if x != 0 {
            out.oracle(a.inv() * a == F::one(), || format!("fe {} inv*x {}", name, x), || "not one".into());
        }
        // exponents at and above the group order, on the public type
        for e in [p - 1, p - 2] {
            let pw = int(a.pow(F::Integer::try_from(e).unwrap()));
            let want = big(x).modpow(&big(e), &pb);
            out.oracle(big(pw) == want, || format!("fe {} pow {} {}", name, x, e), || format!("got {}", pw));
        }
        let e = y >> rng.below(128);
        let pw = int(a.pow(F::Integer::try_from(e % p).unwrap()));
        let want = big(x).modpow(&big(e % p), &pb);
        out.oracle(big(pw) == want, || format!("fe {} pow {} {}", name, x, e % p), || format!("got {}", pw));
        out.case(format!("fe {} pow {} {}", name, x, e % p), pw.to_string());
        // equality / encoding consistency: a == b iff integers equal iff encodings equal
        let ea: Vec<u8> = a.into();
        let eb: Vec<u8> = b.into();
        out.oracle((a == b) == (x == y) && (ea == eb) == (x == y), || format!("fe {} eq {} {}", name, x, y), || "eq/encoding inconsistent".into());
        out.case(format!("fe {} enc {} 0", name, x), hex(&ea));
        // bytes round trip and little-endian layout
        let mut want_bytes = big(x).to_bytes_le();
        want_bytes.resize(F::ENCODED_SIZE, 0);
        out.oracle(ea == want_bytes && F::get_decoded(&ea).map(|d| d == a).unwrap_or(false) && a.get_encoded().unwrap() == ea,
            || format!("fe {} bytes {}", name, x), || format!("encoding {}", hex(&ea)));
        out.count(&format!("public.{}", name));
    }
    // decoding of arbitrary byte strings: accept iff the little-endian value is below p
    let sz = F::ENCODED_SIZE;
    for i in 0..n {
        let mut bytes = match i % 4 {
            0 => rng.bytes(sz),
            1 => {
                // around the modulus
                let d = (rng.below(7) as i128) - 3;
                let v = big((p as i128 + d) as u128 % (if sz == 16 { u128::MAX } else { 1u128 << (8 * sz) }));
                let mut b = v.to_bytes_le();
                b.resize(sz, 0);
                b
            }
            2 => vec![0xff; sz],
            _ => {
                let mut b = rng.bytes(sz);
                b[sz - 1] = 0xff;
                b
            }
        };
        if i % 16 == 15 {
            bytes.truncate(sz - 1);
        }
        let v = BigUint::from_bytes_le(&bytes);
        let dec = F::try_from(bytes.as_slice());
        let want_ok = bytes.len() >= sz && v < pb;
        let got = match &dec {
            Ok(a) => int(*a).to_string(),
            Err(_) => "err".to_string(),
        };
        out.oracle(dec.is_ok() == want_ok && dec.as_ref().map(|a| big(int(*a)) == v).unwrap_or(true),
            || format!("fe {} dec {}", name, hex(&bytes)), || format!("got {}", got));
        out.case(format!("fedec {} {}", name, hex(&bytes)), got);
        // try_from_random masks the bits above the modulus length
        let r = F::try_from_random(&bytes);
        let got = match &r {
            Ok(a) => int(*a).to_string(),
            Err(_) => "err".to_string(),
        };
        out.case(format!("ferand {} {}", name, hex(&bytes)), got);
        out.count(&format!("decode.{}.{}", name, if dec.is_ok() { "ok" } else { "err" }));
    }
}

fn exhaustive_small(out: &mut Out, f: &'static Params, ops: &[&'static str]) {
    // every operand pair of a scaled-down instantiation of the same generic code, in parallel
    let p = f.p as u64;
    let threads = 16u64;
    let fails: Vec<(String, String)> = std::thread::scope(|s| {
        let hs: Vec<_> = (0..threads)
            .map(|t| {
                s.spawn(move || {
                    let mut fails = vec![];
                    let r = 1u64 << f.bits;
                    let mut x = t;
                    while x < p {
                        for y in 0..p {
                            for op in ops {
                                let got = fp_op(f.name, op, x as u128, y as u128).unwrap() as u64;
                                let ok = got < p
                                    && match *op {
                                        "add" => got == (x + y) % p,
                                        "sub" => got == (x + p - y) % p,
                                        "mul" => (got * r) % p == (x * y) % p,
                                        _ => true,
                                    };
                                if !ok && fails.len() < 5 {
                                    fails.push((format!("fp {} {} {} {}", f.name, op, x, y), format!("real result {}", got)));
                                }
                            }
                        }
                        x += threads;
                    }
                    fails
                })
            })
            .collect();
        hs.into_iter().flat_map(|h| h.join().unwrap()).collect()
    });
    out.oracle_checks += (p * p) * ops.len() as u64;
    out.count_n(&format!("exhaustive.{}", f.name), p * p * ops.len() as u64);
    for (c, d) in fails {
        out.oracle(false, || c, || d);
    }
}

/// Field255 (fiat-crypto limbs behind the same public traits): arithmetic, inversion, byte and integer conversions
/// against the definition modulo 2^255 - 19.  Oracle only (the limb code is not modelled).
fn field255(out: &mut Out, rng: &mut Sm, thorough: bool) {
    use prio::codec::Decode;
    use prio::field::{Field255, FieldElement};
    let p: BigUint = (BigUint::one() << 255) - BigUint::from(19u32);
    let of_big = |x: &BigUint| -> Field255 {
        let mut b = x.to_bytes_le();
        b.resize(32, 0);
        Field255::try_from(b.as_slice()).expect("reduced value decodes")
    };
    let to_big = |x: Field255| -> BigUint { BigUint::from_bytes_le(&Vec::<u8>::from(x)) };
    let mut vals: Vec<BigUint> = vec![BigUint::zero(), BigUint::one(), BigUint::from(2u32), &p - 1u32, &p - 2u32, &p - 19u32, (&p - 1u32) / 2u32, (&p + 1u32) / 2u32];
    for k in [8usize, 16, 31, 32, 33, 63, 64, 65, 127, 128, 129, 191, 192, 193, 254] {
        let t = BigUint::one() << k;
        vals.push(&t - 1u32);
        vals.push(t.clone());
        vals.push(&t + 5u32);
    }
    for _ in 0..(if thorough { 400 } else { 60 }) {
        vals.push(BigUint::from_bytes_le(&rng.bytes(32)) % &p);
    }
    let vals: Vec<BigUint> = vals.into_iter().filter(|v| *v < p).collect();
    for (i, x) in vals.iter().enumerate() {
        let a = of_big(x);
        out.oracle(to_big(a) == *x, || format!("field255 bytes round trip {}", x), || "decode(encode) differs".into());
        // integer conversion: exactly the values below 2^64
        let r = u64::try_from(a);
        let want = x.to_u64();
        out.oracle(r.as_ref().ok().copied() == want, || format!("field255 u64::try_from {}", x), || format!("got {:?}, want {:?}", r.as_ref().ok(), want));
        if let Some(w) = want {
            out.oracle(Field255::from(w) == a, || format!("field255 from(u64) {}", w), || "from(u64) differs".into());
        }
        out.oracle(to_big(-a) == (&p - x) % &p, || format!("field255 neg {}", x), || "wrong".into());
        // (Field255::inv is documented as unimplemented)
        let y = &vals[(i * 7 + 3) % vals.len()];
        let b = of_big(y);
        out.oracle(to_big(a + b) == (x + y) % &p, || format!("field255 add {} {}", x, y), || "wrong".into());
        out.oracle(to_big(a - b) == (x + &p - y) % &p, || format!("field255 sub {} {}", x, y), || "wrong".into());
        out.oracle(to_big(a * b) == (x * y) % &p, || format!("field255 mul {} {}", x, y), || "wrong".into());
        out.count("field255.values");
    }
    // canonical encodings only: the modulus and above, and anything with the unused top bit set, are refused by
    // BOTH byte conversions (try_from(&[u8]) and the codec)
    let mut bad: Vec<Vec<u8>> = vec![];
    for d in [0u32, 1, 18] {
        let mut b = (&p + d).to_bytes_le();
        b.resize(32, 0);
        bad.push(b);
    }
    for low in [0u8, 5, 0xec, 0xff] {
        let mut b = vec![0u8; 32];
        b[0] = low;
        b[31] = 0x80;
        bad.push(b);
        let mut b = rng.bytes(32);
        b[31] |= 0x80;
        bad.push(b);
    }
    bad.push(vec![0xff; 32]);
    for b in bad {
        out.oracle(Field255::try_from(b.as_slice()).is_err(), || format!("field255 try_from {}", hex(&b)), || "non-canonical encoding accepted".into());
        out.oracle(Field255::get_decoded(&b).is_err(), || format!("field255 decode {}", hex(&b)), || "non-canonical encoding accepted".into());
        out.count("field255.noncanonical");
    }
    out.oracle(Field255::try_from(&[0u8; 31][..]).is_err(), || "field255 try_from 31 bytes".to_string(), || "short input accepted".into());
}

pub fn run(out: &mut Out, thorough: bool, seed: u64) {
    let mut rng = Sm::new(seed ^ 0xC09);
    field255(out, &mut Sm::new(seed ^ 0x255), thorough);
    // 1. scaled-down instantiations: FP8 all pairs through the model, FP16S all pairs through the oracle
    let f8 = &FIELDS[0];
    for x in 0..f8.p {
        for y in 0..f8.p {
            for op in ["add", "sub", "mul"] {
                raw_case(out, f8, op, x, y, true);
            }
        }
        for op in ["neg", "montgomery", "residue", "inv"] {
            raw_case(out, f8, op, x, 0, true);
        }
        raw_case(out, f8, "pow", x, (x * 7 + 3) % 256, true);
    }
    // montgomery takes any word, not only reduced ones
    for x in 251..256 {
        raw_case(out, f8, "montgomery", x, 0, true);
    }
    let f16 = &FIELDS[1];
    exhaustive_small(out, f16, &["add", "sub", "mul"]);
    let lat16 = lattice(f16);
    for &x in &lat16 {
        for &y in &lat16 {
            for op in ["add", "sub", "mul"] {
                raw_case(out, f16, op, x, y, true);
            }
        }
    }
    let n16 = if thorough { 200_000 } else { 30_000 };
    for _ in 0..n16 {
        let (x, y) = (rng.below(f16.p as u64) as u128, rng.below(f16.p as u64) as u128);
        raw_case(out, f16, "mul", x, y, true);
    }
    for x in 0..f16.p {
        if x % 97 == 0 || x > f16.p - 50 {
            for op in ["neg", "montgomery", "residue", "inv"] {
                raw_case(out, f16, op, x, 0, true);
            }
        }
    }
    // 2. deployed parameter sets: lattice pairs against the definition; a sample through the model
    for f in &FIELDS[2..] {
        let lat = lattice(f);
        let stride = if thorough { 1 } else { 7 };
        let mut k = 0usize;
        for &x in &lat {
            for &y in &lat {
                k += 1;
                let to_model = k % stride == 0;
                for op in ["add", "sub", "mul"] {
                    raw_case(out, f, op, x, y, to_model);
                }
            }
            for op in ["neg", "montgomery", "residue", "inv"] {
                raw_case(out, f, op, x, 0, true);
            }
        }
        let n = if thorough { 60_000 } else { 6_000 };
        for _ in 0..n {
            let (x, y) = (rand_below(&mut rng, f.p), rand_below(&mut rng, f.p));
            for op in ["add", "sub", "mul"] {
                raw_case(out, f, op, x, y, true);
            }
            raw_case(out, f, "pow", x, y >> rng.below(128), true);
        }
        // exponent edges: the exponent is any word, not a residue; 0^e = 0 for every e > 0, also when
        // e is a multiple of p - 1
        let wmax = if f.bits == 128 { u128::MAX } else { (1u128 << f.bits) - 1 };
        for &x in &[0u128, 1, 2, f.p - 1, f.p - 2, rand_below(&mut rng, f.p)] {
            for &e in &[0u128, 1, 2, f.p - 2, f.p - 1, f.p, f.p + 1, wmax, wmax - 1, (f.p - 1) / 2] {
                if e <= wmax {
                    raw_case(out, f, "pow", x, e, true);
                }
            }
        }
        // unreduced words into montgomery (the From<int> path accepts any integer of the word type)
        for _ in 0..200 {
            let x = if f.bits == 128 { rng.u128() } else { rng.u128() % (1u128 << f.bits) };
            raw_case(out, f, "montgomery", x, 0, true);
        }
    }
    // 3. the public field types
    fn tables<F>(out: &mut Out, name: &str, _p: u128)
    where
        F: FieldElementWithInteger + prio::field::NttFriendlyFieldElement,
        F::Integer: TryFrom<u128> + Into<u128> + Copy,
    {
        // `root(l)`: the table has entries for l = 0..=20 and nothing beyond; root(l)^(2^l) = 1 and not before
        for l in 0usize..=70 {
            let r = crate::util::catch(std::panic::AssertUnwindSafe(|| F::root(l)));
            let ok = match (&r, l <= 20) {
                (Ok(Some(w)), true) => {
                    let mut x = *w;
                    let mut order_ok = true;
                    for _ in 0..l {
                        order_ok &= x != F::one() || l == 0;
                        x = x * x;
                    }
                    order_ok && x == F::one()
                }
                (Ok(None), false) => true,
                _ => false,
            };
            out.oracle(ok, || format!("{}::root({})", name, l), || match &r { Ok(Some(_)) => "a root beyond the table, or of the wrong order".to_string(), Ok(None) => "no root although the table has one".to_string(), Err(_) => "panic".to_string() });
        }
        out.count("tables");
    }
    tables::<FieldPrio2>(out, "FP32", FIELDS[2].p);
    tables::<Field64>(out, "FP64", FIELDS[3].p);
    tables::<Field128>(out, "FP128", FIELDS[4].p);
    let n = if thorough { 20_000 } else { 2_000 };
    public_api::<FieldPrio2>(out, "FP32", FIELDS[2].p, &mut rng, &lattice(&FIELDS[2]), n);
    public_api::<Field64>(out, "FP64", FIELDS[3].p, &mut rng, &lattice(&FIELDS[3]), n);
    public_api::<Field128>(out, "FP128", FIELDS[4].p, &mut rng, &lattice(&FIELDS[4]), n);
    let _ = (BigUint::zero(), 0u8.to_u64());
    out.samples = out.ops.iter().step_by(out.ops.len() / 12 + 1).cloned().collect();
}
