//! C14: multithreaded gadget evaluation equals serial evaluation, under any pool size and schedule.
use crate::c05::{enc, fname, rand_vec};
use crate::util::{catch, hex, Out, Sm};
use prio::codec::Encode;
use prio::field::{Field128, Field64, FieldElementWithInteger, NttFriendlyFieldElement};
use prio::flp::gadgets::{Mul, ParallelSum, ParallelSumGadget, ParallelSumMultithreaded};
use prio::flp::types::{Histogram, L1BoundSum, MultihotCountVec, SumVec};
use prio::flp::{Gadget, Type};
use prio::vdaf::prio3::Prio3;
use prio::vdaf::test_utils::TestVectorClient;
use prio::vdaf::xof::XofTurboShake128;
use prio::vdaf::{Aggregator, Collector, VerifyTransition};
use std::panic::AssertUnwindSafe;

fn pools(sizes: &[usize]) -> Vec<(usize, rayon::ThreadPool)> {
    sizes.iter().map(|&n| (n, rayon::ThreadPoolBuilder::new().num_threads(n).build().unwrap())).collect()
}

/// a random rayon-like split tree over `n` items, preorder: `L` or `S,k,<left>,<right>`
fn sched(rng: &mut Sm, n: usize, depth: usize) -> String {
    if depth == 0 || rng.below(4) == 0 {
        return "L".into();
    }
    // splits at any position, including the degenerate 0 and n (an empty side)
    let k = rng.below(n as u64 + 1) as usize;
    format!("S,{},{},{}", k, sched(rng, k, depth - 1), sched(rng, n - k, depth - 1))
}

fn show<F: NttFriendlyFieldElement>(r: &Result<Result<Vec<F>, prio::flp::FlpError>, String>) -> String {
    match r {
        Ok(Ok(v)) => format!("ok {}", enc(v)),
        Ok(Err(_)) => "err".into(),
        Err(_) => "panic".into(),
    }
}

fn gadget_level<F>(out: &mut Out, rng: &mut Sm, pools: &[(usize, rayon::ThreadPool)], thorough: bool)
where
    F: NttFriendlyFieldElement + Sync + Send,
    F::Integer: TryFrom<u128>,
{
    let chunk_counts: &[usize] = if thorough { &[1, 2, 3, 4, 5, 8, 16, 33, 100] } else { &[1, 2, 3, 5, 16, 33] };
    let wire_lens: &[usize] = if thorough { &[1, 2, 4, 8, 16, 64, 256] } else { &[1, 2, 4, 16] };
    for &chunks in chunk_counts {
        for &n in wire_lens {
            if chunks * n > 8192 {
                continue;
            }
            let out_len = (2 * (n - 1) + 1).next_power_of_two();
            let serial = ParallelSum::<F, Mul>::new(Mul::new(n.saturating_sub(1).max(1)), chunks);
            let mt = ParallelSumMultithreaded::<F, Mul>::new(Mul::new(n.saturating_sub(1).max(1)), chunks);
            let inp: Vec<Vec<F>> = (0..2 * chunks).map(|_| rand_vec(rng, n)).collect();
            let run = |g: &dyn Gadget<F>, inp: &[Vec<F>], ol: usize| {
                catch(AssertUnwindSafe(|| {
                    let mut o = vec![F::zero(); ol];
                    g.eval_poly(&mut o, inp).map(|_| o)
                }))
            };
            let s = run(&serial, &inp, out_len);
            let polys = inp.iter().map(|p| enc(p)).collect::<Vec<_>>().join(",");
            let mut lines: Vec<String> = (0..if thorough { 12 } else { 6 }).map(|i| format!("c14 mt {} {} {} {} {}", fname::<F>(), chunks, out_len, sched(rng, chunks, 2 + i), polys)).collect();
            // degenerate schedules: sequential, and the fully unbalanced trees
            lines.push(format!("c14 mt {} {} {} L {}", fname::<F>(), chunks, out_len, polys));
            lines.push(format!("c14 mt {} {} {} {}L {}", fname::<F>(), chunks, out_len, (0..chunks).map(|_| "S,1,L,".to_string()).collect::<String>(), polys));
            let mut first = None;
            for (size, pool) in pools {
                let m = pool.install(|| run(&mt, &inp, out_len));
                out.oracle(show(&m) == show(&s), || format!("eval_poly {} chunks={} wire_len={} pool={}", fname::<F>(), chunks, n, size), || format!("multithreaded {} != serial {}", &show(&m)[..show(&m).len().min(80)], &show(&s)[..show(&s).len().min(80)]));
                first.get_or_insert(m);
                out.count(&format!("pool.{}", size));
            }
            let imp = format!("{} {}", show(&s), show(&first.unwrap()));
            for line in lines {
                out.case(line, imp.clone());
            }
            out.count(&format!("chunks.{}", chunks));
            // malformed calls: both must refuse alike
            for (what, inp2, ol) in [
                ("short-output", inp.clone(), out_len / 2),
                ("long-output", inp.clone(), out_len * 2),
                ("missing-poly", inp[..inp.len() - 1].to_vec(), out_len),
                ("extra-poly", [inp.clone(), vec![inp[0].clone()]].concat(), out_len),
                ("no-polys", vec![], out_len),
                ("ragged", {
                    let mut v = inp.clone();
                    v[0].push(F::one());
                    v
                }, out_len),
            ] {
                let s = run(&serial, &inp2, ol);
                let m = pools[pools.len() / 2].1.install(|| run(&mt, &inp2, ol));
                out.oracle(show(&m) == show(&s), || format!("eval_poly[{}] {} chunks={} wire_len={}", what, fname::<F>(), chunks, n), || format!("multithreaded {} vs serial {}", show(&m).split(' ').next().unwrap(), show(&s).split(' ').next().unwrap()));
                out.count(&format!("malformed.{}", what));
            }
            // `eval` on field elements
            let x: Vec<F> = rand_vec(rng, 2 * chunks);
            let mut s2 = serial.clone();
            let mut m2 = mt.clone();
            let a = s2.eval(&x).ok();
            let b = pools[0].1.install(|| m2.eval(&x).ok());
            out.oracle(a == b, || format!("eval {} chunks={}", fname::<F>(), chunks), || "multithreaded eval differs".into());
        }
    }
}

type P3<T> = Prio3<T, XofTurboShake128, 32>;

/// the whole protocol, serial and multithreaded flavour of the same type, same randomness
#[allow(clippy::too_many_arguments)]
fn prio3_level<S, M>(out: &mut Out, rng: &mut Sm, pools: &[(usize, rayon::ThreadPool)], what: &str, serial: S, mt: M, ms: &[S::Measurement], na: u8, np: u8)
where
    S: Type<Field = Field128>,
    M: Type<Field = Field128, Measurement = S::Measurement, AggregateResult = S::AggregateResult> + Sync,
    S::AggregateResult: PartialEq + std::fmt::Debug,
    S::Measurement: Sync,
{
    let vs: P3<S> = Prio3::new(na, np, 77, serial).unwrap();
    let vm: P3<M> = Prio3::new(na, np, 77, mt).unwrap();
    let ctx = rng.bytes(3);
    let key: [u8; 32] = rng.bytes(32).try_into().unwrap();
    for m in ms {
        let nonce: [u8; 16] = rng.bytes(16).try_into().unwrap();
        let jr = vs.verifier_len() > 0; // all these types use joint randomness
        let random = rng.bytes(if jr { 2 } else { 1 } * na as usize * 32);
        let rs = catch(AssertUnwindSafe(|| vs.shard_with_random(&ctx, m, &nonce, &random)));
        let flat = |r: &Result<Result<(prio::vdaf::prio3::Prio3PublicShare<32>, Vec<prio::vdaf::prio3::Prio3InputShare<Field128, 32>>), prio::vdaf::VdafError>, String>| match r {
            Ok(Ok((p, i))) => format!("ok {} {}", hex(&p.get_encoded().unwrap()), i.iter().map(|s| hex(&s.get_encoded().unwrap())).collect::<Vec<_>>().join(" ")),
            Ok(Err(_)) => "err".into(),
            Err(_) => "panic".into(),
        };
        for (size, pool) in pools {
            let case = || format!("{} na={} np={} pool={}", what, na, np, size);
            let rm = pool.install(|| catch(AssertUnwindSafe(|| vm.shard_with_random(&ctx, m, &nonce, &random))));
            out.oracle(flat(&rs) == flat(&rm), case, || "shard: public / input shares differ".into());
            let (Ok(Ok((ps, is))), Ok(Ok((pm, im)))) = (&rs, &rm) else { continue };
            let mut outs_s = vec![];
            let mut outs_m = vec![];
            let mut vshares_s = vec![];
            let mut vshares_m = vec![];
            let mut st_s = vec![];
            let mut st_m = vec![];
            for id in 0..na as usize {
                let a = vs.verify_init(&key, &ctx, id, &(), &nonce, ps, &is[id]);
                let b = pool.install(|| vm.verify_init(&key, &ctx, id, &(), &nonce, pm, &im[id]));
                match (a, b) {
                    (Ok((sa, va)), Ok((sb, vb))) => {
                        out.oracle(va.get_encoded().unwrap() == vb.get_encoded().unwrap() && sa.get_encoded().unwrap() == sb.get_encoded().unwrap(), case, || format!("verify_init id={}: verifier share or state differs", id));
                        vshares_s.push(va);
                        vshares_m.push(vb);
                        st_s.push(sa);
                        st_m.push(sb);
                    }
                    (Err(_), Err(_)) => {}
                    _ => out.oracle(false, case, || format!("verify_init id={}: one flavour failed", id)),
                }
            }
            if vshares_s.len() != na as usize {
                continue;
            }
            let ma = vs.verifier_shares_to_message(&ctx, &(), vshares_s);
            let mb = pool.install(|| vm.verifier_shares_to_message(&ctx, &(), vshares_m));
            let (Ok(ma), Ok(mb)) = (ma, mb) else {
                out.oracle(false, case, || "verifier_shares_to_message failed for an honest report".into());
                continue;
            };
            out.oracle(ma.get_encoded().unwrap() == mb.get_encoded().unwrap(), case, || "verifier message differs".into());
            for id in 0..na as usize {
                if let (Ok(VerifyTransition::Finish(a)), Ok(VerifyTransition::Finish(b))) = (vs.verify_next(&ctx, st_s[id].clone(), ma.clone()), pool.install(|| vm.verify_next(&ctx, st_m[id].clone(), mb.clone()))) {
                    out.oracle(a.get_encoded().unwrap() == b.get_encoded().unwrap(), case, || format!("output share {} differs", id));
                    outs_s.push(a);
                    outs_m.push(b);
                } else {
                    out.oracle(false, case, || "verify_next failed".into());
                }
            }
            let aa: Vec<_> = outs_s.iter().map(|o| vs.aggregate(&(), [o.clone()]).unwrap()).collect();
            let ab: Vec<_> = outs_m.iter().map(|o| vm.aggregate(&(), [o.clone()]).unwrap()).collect();
            let ra = vs.unshard(&(), aa, 1);
            let rb = vm.unshard(&(), ab, 1);
            out.oracle(matches!((&ra, &rb), (Ok(x), Ok(y)) if x == y), case, || format!("results differ: {:?} vs {:?}", ra.as_ref().ok(), rb.as_ref().ok()));
            out.count(&format!("prio3.{}", what.split(' ').next().unwrap()));
        }
    }
}

pub fn run(out: &mut Out, thorough: bool, seed: u64) {
    let mut rng = Sm::new(seed ^ 0x1401);
    let sizes: Vec<usize> = if thorough { vec![1, 2, 3, 4, 5, 8, 16, 32] } else { vec![1, 2, 3, 8, 16] };
    let pools = pools(&sizes);
    gadget_level::<Field64>(out, &mut rng, &pools, thorough);
    gadget_level::<Field128>(out, &mut rng, &pools, thorough);
    type PS = ParallelSum<Field128, Mul>;
    type PM = ParallelSumMultithreaded<Field128, Mul>;
    let shapes: &[(u8, u8)] = if thorough { &[(2, 1), (3, 2), (2, 3)] } else { &[(2, 1), (3, 2)] };
    for &(na, np) in shapes {
        // chunk lengths: one chunk, fewer chunks than threads, not dividing, more than the input
        for (len, chunk) in [(1usize, 1usize), (6, 1), (6, 2), (7, 3), (5, 16), (40, 7), (64, 8)] {
            let what = format!("sumvec len={} chunk={}", len, chunk);
            let ms: Vec<Vec<u128>> = vec![vec![0; len], vec![5; len], (0..len).map(|_| rng.u128() % 6).collect()];
            prio3_level(out, &mut rng, &pools, &what, SumVec::<Field128, PS>::new(5, len, chunk).unwrap(), SumVec::<Field128, PM>::new(5, len, chunk).unwrap(), &ms, na, np);
            let what = format!("histogram len={} chunk={}", len, chunk);
            prio3_level(out, &mut rng, &pools, &what, Histogram::<Field128, PS>::new(len, chunk).unwrap(), Histogram::<Field128, PM>::new(len, chunk).unwrap(), &[0, len - 1], na, np);
            let what = format!("multihot len={} chunk={}", len, chunk);
            let mut some = vec![false; len];
            some[len / 2] = true;
            prio3_level(out, &mut rng, &pools, &what, MultihotCountVec::<Field128, PS>::new(len, 2, chunk).unwrap(), MultihotCountVec::<Field128, PM>::new(len, 2, chunk).unwrap(), &[vec![false; len], some], na, np);
            let what = format!("l1boundsum len={} chunk={}", len, chunk);
            let mut one = vec![0u128; len];
            one[0] = 3;
            prio3_level(out, &mut rng, &pools, &what, L1BoundSum::<Field128, PS>::new(3, len, chunk).unwrap(), L1BoundSum::<Field128, PM>::new(3, len, chunk).unwrap(), &[one], na, np);
        }
    }
    // the convenience constructors of the multithreaded variants must configure the same instance as
    // their serial twins (asymmetric parameters, so that swapped arguments show)
    {
        let ctx = b"ctor";
        let nonce = [7u8; 16];
        let cmp = |out: &mut Out, what: String, a: Result<(Vec<u8>, Vec<Vec<u8>>), ()>, b: Result<(Vec<u8>, Vec<Vec<u8>>), ()>| {
            out.oracle(a.is_ok() && a == b, || what.clone(), || "the multithreaded constructor's instance shards differently from the serial one".into());
            out.count("ctor-pair");
        };
        let enc2 = |r: Result<(prio::vdaf::prio3::Prio3PublicShare<32>, Vec<prio::vdaf::prio3::Prio3InputShare<Field128, 32>>), prio::vdaf::VdafError>| r.map(|(p, i)| (p.get_encoded().unwrap(), i.iter().map(|s| s.get_encoded().unwrap()).collect::<Vec<_>>())).map_err(|_| ());
        // also chunk lengths at and above the vector length, and chunk length 1
        for (a, b, c) in [(8usize, 3usize, 2usize), (5, 1, 4), (6, 6, 3), (9, 2, 5), (3, 2, 5), (4, 1, 4), (3, 3, 7), (5, 2, 1), (2, 1, 9)] {
            let random = rng.bytes(2 * 2 * 32);
            // multihot: (num_buckets, max_weight, chunk_length)
            let s = Prio3::new_multihot_count_vec(2, a, b, c).unwrap();
            let m = Prio3::new_multihot_count_vec_multithreaded(2, a, b, c).unwrap();
            let mut meas = vec![false; a];
            meas[0] = true;
            cmp(out, format!("new_multihot_count_vec({}, {}, {})", a, b, c), enc2(s.shard_with_random(ctx, &meas, &nonce, &random)), enc2(pools[1].1.install(|| m.shard_with_random(ctx, &meas, &nonce, &random))));
            // histogram: (length, chunk_length)
            let s = Prio3::new_histogram(2, a, c).unwrap();
            let m = Prio3::new_histogram_multithreaded(2, a, c).unwrap();
            cmp(out, format!("new_histogram({}, {})", a, c), enc2(s.shard_with_random(ctx, &(a - 1), &nonce, &random)), enc2(pools[1].1.install(|| m.shard_with_random(ctx, &(a - 1), &nonce, &random))));
            // sum vec: (max_measurement, len, chunk_length)
            let s = Prio3::new_sum_vec(2, b as u128, a, c).unwrap();
            let m = Prio3::new_sum_vec_multithreaded(2, b as u128, a, c).unwrap();
            let meas: Vec<u128> = (0..a).map(|i| (i % (b + 1)) as u128).collect();
            cmp(out, format!("new_sum_vec({}, {}, {})", b, a, c), enc2(s.shard_with_random(ctx, &meas, &nonce, &random)), enc2(pools[1].1.install(|| m.shard_with_random(ctx, &meas, &nonce, &random))));
        }
    }
    // wire polynomials beyond the NTT's reach: the serial gadget reports an error
    let n = 1usize << 20;
    let inp: Vec<Vec<Field64>> = vec![vec![Field64::from(3); n], vec![Field64::from(5); n]];
    let serial = ParallelSum::<Field64, Mul>::new(Mul::new(n - 1), 1);
    let mt = ParallelSumMultithreaded::<Field64, Mul>::new(Mul::new(n - 1), 1);
    let run = |g: &dyn Gadget<Field64>| {
        catch(AssertUnwindSafe(|| {
            let mut o = vec![Field64::from(0); 2 * n];
            g.eval_poly(&mut o, &inp).map(|_| ())
        }))
    };
    let s = run(&serial);
    let m = pools[1].1.install(|| run(&mt));
    let cl = |r: &Result<Result<(), prio::flp::FlpError>, String>| match r {
        Ok(Ok(_)) => "ok",
        Ok(Err(_)) => "err",
        Err(_) => "panic",
    };
    out.oracle(cl(&s) == cl(&m), || "eval_poly Field64 chunks=1 wire_len=2^20 (beyond the NTT size limit)".into(), || format!("serial: {}, multithreaded: {}", cl(&s), cl(&m)));
    let _ = <Field64 as FieldElementWithInteger>::modulus;
}
