//! Poplar1: end-to-end prefix counts (C03) and robustness against malicious clients and altered
//! messages (C04), over a recording XOF and the IDPF PRG recorder.
use crate::rec::{self, RecXof};
use crate::util::{catch, hex, Out, Sm};
use prio::codec::{Encode, ParameterizedDecode};
use prio::field::{Field255, Field64, FieldElement};
use prio::idpf::IdpfInput;
use prio::vdaf::poplar1::{Poplar1, Poplar1AggregationParam, Poplar1FieldVec, Poplar1InputShare, Poplar1PublicShare, Poplar1VerifierMessage, Poplar1VerifierState};
use prio::vdaf::test_utils::TestVectorClient;
use prio::vdaf::{Aggregatable, Aggregator, Collector, VerifyTransition};
use prio::verif_hooks::idpf_prg_log;
use std::collections::BTreeMap;
use std::panic::AssertUnwindSafe;

type Pop = Poplar1<RecXof, 32>;

pub fn bits_str(b: &[bool]) -> String {
    if b.is_empty() {
        "e".into()
    } else {
        b.iter().map(|x| if *x { '1' } else { '0' }).collect()
    }
}

fn prg_table(log: Vec<(u8, bool, [u8; 16], Vec<u8>)>) -> String {
    let mut table: Vec<String> = vec![];
    let mut seen = std::collections::HashSet::new();
    for (kind, leaf_mode, seed, o) in &log {
        if seen.insert((*kind, *leaf_mode, *seed)) {
            table.push(format!("{}{}:{}:{}", kind, *leaf_mode as u8, hex(seed), hex(o)));
        }
    }
    if table.is_empty() {
        "none".into()
    } else {
        table.join(",")
    }
}

pub struct Report {
    pub bits: usize,
    pub ctx: Vec<u8>,
    pub nonce: [u8; 16],
    pub public: Vec<u8>,
    pub shares: [Vec<u8>; 2],
}

/// shard with fixed randomness; emits the `pop shard` correspondence case
pub fn shard(out: &mut Out, bits: usize, ctx: &[u8], input: &[bool], nonce: &[u8; 16], random: &[u8; 128]) -> Option<Report> {
    let vdaf: Pop = Poplar1::new(bits);
    rec::start();
    idpf_prg_log(true);
    let r = catch(AssertUnwindSafe(|| vdaf.shard_with_random(ctx, &IdpfInput::from_bools(input), nonce, random)));
    let pt = prg_table(idpf_prg_log(false));
    let xt = rec::table();
    let line = format!(
        "pop shard {} {} {} {} {} {} {} {} {} {} {}",
        bits,
        hex(ctx),
        bits_str(input),
        hex(nonce),
        hex(&random[..16]),
        hex(&random[16..32]),
        hex(&random[32..64]),
        hex(&random[64..96]),
        hex(&random[96..]),
        xt,
        pt
    );
    out.count("op.shard");
    match r {
        Ok(Ok((p, s))) => {
            let pb = p.get_encoded().unwrap();
            let sb = [s[0].get_encoded().unwrap(), s[1].get_encoded().unwrap()];
            out.case(line, format!("ok {} {} {}", hex(&pb), hex(&sb[0]), hex(&sb[1])));
            Some(Report { bits, ctx: ctx.to_vec(), nonce: *nonce, public: pb, shares: sb })
        }
        Ok(Err(_)) => {
            out.case(line, "err".into());
            None
        }
        Err(_) => {
            out.case(line, "panic".into());
            None
        }
    }
}

pub fn prefixes_str(ps: &[Vec<bool>]) -> String {
    if ps.is_empty() {
        "none".into()
    } else {
        ps.iter().map(|p| bits_str(p)).collect::<Vec<_>>().join(",")
    }
}

pub enum Init {
    Ok(Poplar1VerifierState, Poplar1FieldVec),
    Err,
    Panic,
    Undecodable,
}

/// `verify_init` of aggregator `id` from wire bytes; emits the `pop vinit` case
pub fn vinit(out: &mut Out, bits: usize, rep: &Report, key: &[u8; 32], id: usize, prefixes: &[Vec<bool>]) -> Init {
    let vdaf: Pop = Poplar1::new(bits);
    let Ok(ap) = Poplar1AggregationParam::try_from_prefixes(mk_prefixes(prefixes)) else { return Init::Err };
    // the shares are decoded for the height they were made for (`rep.bits`)
    let dec: Pop = Poplar1::new(rep.bits);
    let (Ok(public), Ok(share)) = (Poplar1PublicShare::get_decoded_with_param(&dec, &rep.public), Poplar1InputShare::<32>::get_decoded_with_param(&(&dec, id), &rep.shares[id.min(1)])) else {
        out.count("op.vinit.undecodable");
        return Init::Undecodable;
    };
    rec::start();
    idpf_prg_log(true);
    let r = catch(AssertUnwindSafe(|| vdaf.verify_init(key, &rep.ctx, id, &ap, &rep.nonce, &public, &share)));
    let pt = prg_table(idpf_prg_log(false));
    let xt = rec::table();
    let line = format!("pop vinit {} {} {} {} {} {} {} {} {} {}", bits, hex(&rep.ctx), hex(key), id, prefixes_str(prefixes), hex(&rep.nonce), hex(&rep.public), hex(&rep.shares[id.min(1)]), xt, pt);
    out.count("op.vinit");
    match r {
        Ok(Ok((st, v))) => {
            out.case(line, format!("ok {} {}", hex(&st.get_encoded().unwrap()), hex(&v.get_encoded().unwrap())));
            Init::Ok(st, v)
        }
        Ok(Err(_)) => {
            out.case(line, "err".into());
            Init::Err
        }
        Err(_) => {
            out.case(line, "panic".into());
            Init::Panic
        }
    }
}

fn vec_str(v: &Poplar1FieldVec) -> String {
    match v {
        Poplar1FieldVec::Inner(_) => format!("I:{}", hex(&v.get_encoded().unwrap())),
        Poplar1FieldVec::Leaf(_) => format!("L:{}", hex(&v.get_encoded().unwrap())),
    }
}

/// `verifier_shares_to_message`; emits `pop vmsg`
pub fn vmsg(out: &mut Out, bits: usize, ap: &Poplar1AggregationParam, shares: &[Poplar1FieldVec]) -> Option<Poplar1VerifierMessage> {
    let vdaf: Pop = Poplar1::new(bits);
    let r = catch(AssertUnwindSafe(|| vdaf.verifier_shares_to_message(b"", ap, shares.to_vec())));
    let line = format!("pop vmsg {}", if shares.is_empty() { "-".to_string() } else { shares.iter().map(vec_str).collect::<Vec<_>>().join(" ") });
    out.count("op.vmsg");
    match r {
        Ok(Ok(m)) => {
            out.case(line, format!("ok {}", hex(&m.get_encoded().unwrap())));
            Some(m)
        }
        Ok(Err(_)) => {
            out.case(line, "err".into());
            None
        }
        Err(_) => {
            out.case(line, "panic".into());
            None
        }
    }
}

fn msg_str(m: &Poplar1VerifierMessage) -> String {
    let b = m.get_encoded().unwrap();
    match b.len() {
        0 => "D:-".into(),
        24 => format!("I:{}", hex(&b)),
        _ => format!("L:{}", hex(&b)),
    }
}

pub enum Next {
    Continue(Poplar1VerifierState, Poplar1FieldVec),
    Finish(Poplar1FieldVec),
    Err,
    Panic,
}

/// `verify_next`; emits `pop vnext`
pub fn vnext(out: &mut Out, bits: usize, id: usize, st: &Poplar1VerifierState, m: &Poplar1VerifierMessage) -> Next {
    let vdaf: Pop = Poplar1::new(bits);
    let r = catch(AssertUnwindSafe(|| vdaf.verify_next(b"", st.clone(), m.clone())));
    let line = format!("pop vnext {} {} {}", id, hex(&st.get_encoded().unwrap()), msg_str(m));
    out.count("op.vnext");
    match r {
        Ok(Ok(VerifyTransition::Continue(s, v))) => {
            out.case(line, format!("continue {} {}", hex(&s.get_encoded().unwrap()), hex(&v.get_encoded().unwrap())));
            Next::Continue(s, v)
        }
        Ok(Ok(VerifyTransition::Finish(o))) => {
            out.case(line, format!("finish {}", hex(&o.get_encoded().unwrap())));
            Next::Finish(o)
        }
        Ok(Err(_)) => {
            out.case(line, "err".into());
            Next::Err
        }
        Err(_) => {
            out.case(line, "panic".into());
            Next::Panic
        }
    }
}

/// outcome of a full verification of one report under one aggregation parameter
pub struct Outcome {
    pub outputs: Option<[Poplar1FieldVec; 2]>,
    pub failed_at: Option<&'static str>,
}

/// alterations of what travels between the aggregators
#[derive(Default)]
pub struct Transit<'a> {
    pub round1: Option<&'a dyn Fn(usize, &mut Poplar1FieldVec)>,
    pub msg1: Option<&'a dyn Fn(&mut Vec<u8>)>,
    pub round2: Option<&'a dyn Fn(usize, &mut Poplar1FieldVec)>,
}

pub fn verify(out: &mut Out, bits: usize, rep: &Report, key: &[u8; 32], prefixes: &[Vec<bool>], transit: &Transit) -> Outcome {
    let fail = |s| Outcome { outputs: None, failed_at: Some(s) };
    let Ok(ap) = Poplar1AggregationParam::try_from_prefixes(mk_prefixes(prefixes)) else { return fail("agg-param") };
    let mut states = vec![];
    let mut v1 = vec![];
    for id in 0..2 {
        match vinit(out, bits, rep, key, id, prefixes) {
            Init::Ok(st, v) => {
                states.push(st);
                v1.push(v);
            }
            Init::Err => return fail("verify_init"),
            Init::Panic => return fail("verify_init-panic"),
            Init::Undecodable => return fail("decode"),
        }
    }
    if let Some(f) = transit.round1 {
        for (id, v) in v1.iter_mut().enumerate() {
            f(id, v);
        }
    }
    let Some(mut m1) = vmsg(out, bits, &ap, &v1) else { return fail("round1") };
    if let Some(f) = transit.msg1 {
        let mut b = m1.get_encoded().unwrap();
        f(&mut b);
        match Poplar1VerifierMessage::get_decoded_with_param(&states[0], &b) {
            Ok(m) => m1 = m,
            Err(_) => return fail("decode-msg1"),
        }
    }
    let mut states2 = vec![];
    let mut v2 = vec![];
    for id in 0..2 {
        match vnext(out, bits, id, &states[id], &m1) {
            Next::Continue(s, v) => {
                states2.push(s);
                v2.push(v);
            }
            Next::Finish(_) => return fail("early-finish"),
            Next::Err => return fail("verify_next1"),
            Next::Panic => return fail("verify_next1-panic"),
        }
    }
    if let Some(f) = transit.round2 {
        for (id, v) in v2.iter_mut().enumerate() {
            f(id, v);
        }
    }
    let Some(m2) = vmsg(out, bits, &ap, &v2) else { return fail("round2") };
    let mut outs = vec![];
    for id in 0..2 {
        match vnext(out, bits, id, &states2[id], &m2) {
            Next::Finish(o) => outs.push(o),
            Next::Continue(..) => return fail("no-finish"),
            Next::Err => return fail("verify_next2"),
            Next::Panic => return fail("verify_next2-panic"),
        }
    }
    let b = outs.pop().unwrap();
    let a = outs.pop().unwrap();
    Outcome { outputs: Some([a, b]), failed_at: None }
}

/// the sum of two output shares as integers modulo the field (as big-endian-free hex per element)
pub fn sum_outputs(a: &Poplar1FieldVec, b: &Poplar1FieldVec) -> Option<Vec<Vec<u8>>> {
    match (a, b) {
        (Poplar1FieldVec::Inner(x), Poplar1FieldVec::Inner(y)) if x.len() == y.len() => Some(x.iter().zip(y).map(|(p, q)| (*p + *q).get_encoded().unwrap()).collect()),
        (Poplar1FieldVec::Leaf(x), Poplar1FieldVec::Leaf(y)) if x.len() == y.len() => Some(x.iter().zip(y).map(|(p, q)| (*p + *q).get_encoded().unwrap()).collect()),
        _ => None,
    }
}

fn is_zero(e: &[u8]) -> bool {
    e.iter().all(|b| *b == 0)
}
fn is_one(e: &[u8]) -> bool {
    e[0] == 1 && e[1..].iter().all(|b| *b == 0)
}

fn rand_bits(rng: &mut Sm, n: usize) -> Vec<bool> {
    (0..n).map(|_| rng.next() & 1 == 1).collect()
}

fn random128(rng: &mut Sm) -> [u8; 128] {
    rng.bytes(128).try_into().unwrap()
}

/// a sorted set of distinct candidate prefixes of length `level + 1`: prefixes of some inputs plus others
fn candidates(rng: &mut Sm, inputs: &[Vec<bool>], level: usize, extra: usize) -> Vec<Vec<bool>> {
    let mut set: std::collections::BTreeSet<Vec<bool>> = Default::default();
    for i in inputs {
        if rng.below(4) != 0 {
            set.insert(i[..level + 1].to_vec());
        }
    }
    for _ in 0..extra {
        set.insert(rand_bits(rng, level + 1));
    }
    if set.is_empty() {
        set.insert(rand_bits(rng, level + 1));
    }
    // bitvec orders bit strings lexicographically with false < true, as Vec<bool> does
    set.into_iter().collect()
}

// ---------------------------------------------------------------------------------------------
// C03
// ---------------------------------------------------------------------------------------------

/// candidate prefixes as an application may hold them: every second one is cut out of a longer packed bit
/// vector, so it is stored at a non-zero bit offset inside its backing words (equal, as a value, to the
/// aligned one)
fn mk_prefixes(prefixes: &[Vec<bool>]) -> Vec<IdpfInput> {
    prefixes
        .iter()
        .enumerate()
        .map(|(k, p)| {
            if k % 2 == 0 {
                IdpfInput::from_bools(p)
            } else {
                // offset one with a zero in front (the slice of a packed list of candidates whose
                // neighbour ends in 0), or a larger offset behind an alternating pattern
                let (off, zeros) = if k % 4 == 1 { (1, true) } else { (1 + (k * 7 + p.len()) % 9, false) };
                let mut bv: bitvec::vec::BitVec<usize, bitvec::order::Lsb0> = bitvec::vec::BitVec::new();
                for i in 0..off {
                    bv.push(!zeros && i % 2 == 0);
                }
                for b in p {
                    bv.push(*b);
                }
                IdpfInput::from(bv[off..].to_bitvec())
            }
        })
        .collect()
}

fn c03_batch(out: &mut Out, rng: &mut Sm, bits: usize, batch: usize, nlevels: usize, dense: bool) {
    let ctx = rng.bytes(rng.0 as usize % 5);
    let key: [u8; 32] = rng.bytes(32).try_into().unwrap();
    // inputs with repetitions (heavy hitters)
    let pool: Vec<Vec<bool>> = (0..(batch / 2).max(1)).map(|_| rand_bits(rng, bits)).collect();
    let inputs: Vec<Vec<bool>> = (0..batch).map(|_| pool[rng.below(pool.len() as u64) as usize].clone()).collect();
    let reports: Vec<Report> = inputs
        .iter()
        .filter_map(|i| {
            let nonce: [u8; 16] = rng.bytes(16).try_into().unwrap();
            shard(out, bits, &ctx, i, &nonce, &random128(rng))
        })
        .collect();
    out.oracle(reports.len() == inputs.len(), || format!("shard bits={}", bits), || "sharding an honest input failed".into());
    if reports.len() != inputs.len() {
        return;
    }
    // an admissible sequence of aggregation parameters: strictly increasing levels, each candidate
    // set refining the previous one or chosen afresh (every such use of one report must be accepted)
    let mut levels: Vec<usize> = (0..bits).collect();
    while levels.len() > nlevels {
        levels.remove(rng.below(levels.len() as u64) as usize);
    }
    if !levels.contains(&(bits - 1)) && rng.below(2) == 0 {
        levels.pop();
        levels.push(bits - 1);
    }
    let vdaf: Pop = Poplar1::new(bits);
    for &level in &levels {
        // `dense`: every prefix of the level is a candidate (the first rounds of heavy hitters)
        let cands: Vec<Vec<bool>> = if dense {
            (0..1usize << (level + 1)).map(|x| (0..=level).map(|j| (x >> (level - j)) & 1 == 1).collect()).collect()
        } else {
            candidates(rng, &inputs, level, 2)
        };
        let ap = Poplar1AggregationParam::try_from_prefixes(mk_prefixes(&cands)).unwrap();
        let mut aggs = [vdaf.aggregate_init(&ap), vdaf.aggregate_init(&ap)];
        let mut all = true;
        for rep in &reports {
            let o = verify(out, bits, rep, &key, &cands, &Transit::default());
            out.oracle(o.failed_at.is_none(), || format!("honest report bits={} level={} candidates={}", bits, level, prefixes_str(&cands)), || format!("rejected at {:?}", o.failed_at));
            match o.outputs {
                Some([a, b]) => {
                    aggs[0].accumulate(&a).unwrap();
                    aggs[1].accumulate(&b).unwrap();
                }
                None => all = false,
            }
        }
        if all {
            let res = vdaf.unshard(&ap, aggs.to_vec(), reports.len());
            let want: Vec<u64> = cands.iter().map(|c| inputs.iter().filter(|i| i[..level + 1] == c[..]).count() as u64).collect();
            out.oracle(res.as_ref().ok() == Some(&want), || format!("unshard bits={} level={} candidates={}", bits, level, prefixes_str(&cands)), || format!("got {:?}, want {:?}", res.as_ref().ok(), want));
        }
        out.count(&format!("c03.level.{}", if level + 1 == bits { "leaf" } else { "inner" }));
    }
}

/// the heavy-hitters loop, entirely on the real code, against the plain count
fn heavy_hitters(out: &mut Out, rng: &mut Sm, bits: usize, batch: usize, threshold: u64) {
    type P = Poplar1<prio::vdaf::xof::XofTurboShake128, 32>;
    use prio::vdaf::Client;
    let vdaf: P = Poplar1::new_turboshake128(bits);
    let key = [9u8; 32];
    let pool: Vec<Vec<bool>> = (0..(batch / 3).max(1)).map(|_| rand_bits(rng, bits)).collect();
    let inputs: Vec<Vec<bool>> = (0..batch).map(|_| pool[(rng.below(pool.len() as u64).min(rng.below(pool.len() as u64))) as usize].clone()).collect();
    let reports: Vec<_> = inputs
        .iter()
        .map(|i| {
            let nonce: [u8; 16] = rng.bytes(16).try_into().unwrap();
            (nonce, vdaf.shard(b"hh", &IdpfInput::from_bools(i), &nonce).unwrap())
        })
        .collect();
    let mut cands: Vec<Vec<bool>> = vec![vec![false], vec![true]];
    let mut found: Vec<Vec<bool>> = vec![];
    for level in 0..bits {
        if cands.is_empty() {
            break;
        }
        let ap = Poplar1AggregationParam::try_from_prefixes(cands.iter().map(|p| IdpfInput::from_bools(p)).collect()).unwrap();
        let mut aggs = [vdaf.aggregate_init(&ap), vdaf.aggregate_init(&ap)];
        for (nonce, (public, shares)) in &reports {
            let (s0, v0) = vdaf.verify_init(&key, b"hh", 0, &ap, nonce, public, &shares[0]).unwrap();
            let (s1, v1) = vdaf.verify_init(&key, b"hh", 1, &ap, nonce, public, &shares[1]).unwrap();
            let m = vdaf.verifier_shares_to_message(b"hh", &ap, [v0, v1]).unwrap();
            let (VerifyTransition::Continue(s0, v0), VerifyTransition::Continue(s1, v1)) = (vdaf.verify_next(b"hh", s0, m.clone()).unwrap(), vdaf.verify_next(b"hh", s1, m).unwrap()) else { panic!() };
            let m = vdaf.verifier_shares_to_message(b"hh", &ap, [v0, v1]).unwrap();
            let (VerifyTransition::Finish(o0), VerifyTransition::Finish(o1)) = (vdaf.verify_next(b"hh", s0, m.clone()).unwrap(), vdaf.verify_next(b"hh", s1, m).unwrap()) else { panic!() };
            aggs[0].accumulate(&o0).unwrap();
            aggs[1].accumulate(&o1).unwrap();
        }
        let counts = vdaf.unshard(&ap, aggs.to_vec(), reports.len()).unwrap();
        let survivors: Vec<Vec<bool>> = cands.iter().zip(&counts).filter(|(_, c)| **c >= threshold).map(|(p, _)| p.clone()).collect();
        if level + 1 == bits {
            found = survivors;
        } else {
            cands = survivors.iter().flat_map(|p| [[p.clone(), vec![false]].concat(), [p.clone(), vec![true]].concat()]).collect();
        }
    }
    let mut plain: BTreeMap<Vec<bool>, u64> = Default::default();
    for i in &inputs {
        *plain.entry(i.clone()).or_default() += 1;
    }
    let want: Vec<Vec<bool>> = plain.into_iter().filter(|(_, c)| *c >= threshold).map(|(k, _)| k).collect();
    out.oracle(found == want, || format!("heavy hitters bits={} batch={} threshold={}", bits, batch, threshold), || format!("found {} strings, expected {}", found.len(), want.len()));
    out.count("c03.heavy-hitters");
}

pub fn run_c03(out: &mut Out, thorough: bool, seed: u64) {
    let mut rng = Sm::new(seed ^ 0x0303);
    let sizes: &[(usize, usize, usize)] = if thorough {
        &[(1, 4, 1), (2, 5, 2), (3, 6, 3), (4, 6, 4), (5, 4, 3), (8, 5, 4), (9, 3, 3), (16, 3, 4), (33, 2, 3), (64, 2, 3), (65, 2, 2), (130, 1, 2)]
    } else {
        &[(1, 3, 1), (2, 4, 2), (3, 4, 3), (5, 3, 2), (8, 3, 2), (16, 2, 2), (33, 1, 2)]
    };
    for &(bits, batch, nlevels) in sizes {
        c03_batch(out, &mut rng, bits, batch, nlevels, false);
    }
    for &(bits, batch) in if thorough { &[(2usize, 3usize), (3, 4), (4, 4), (5, 3)][..] } else { &[(3usize, 3usize), (4, 3)][..] } {
        c03_batch(out, &mut rng, bits, batch, bits.min(4), true);
    }
    // rejection sampling inside the protocol: every third (fifth) 8-byte block of every XOF stream is a value the
    // sampler refuses, so the correlated-randomness streams that verify_init fast-forwards through, the
    // authenticators and the verification randomness all contain rejected draws
    for &(every, bits, batch) in if thorough { &[(3usize, 6usize, 3usize), (5, 9, 2), (2, 4, 2)][..] } else { &[(3usize, 6usize, 2usize), (5, 4, 2)][..] } {
        rec::plant(Some((every, 8)));
        c03_batch(out, &mut rng, bits, batch, bits, false);
        rec::plant(None);
        out.count("c03.planted-rejections");
    }
    for (bits, batch, t) in [(4usize, 30usize, 3u64), (8, 40, 4), (12, 25, 2)] {
        heavy_hitters(out, &mut rng, bits, if thorough { batch * 2 } else { batch }, t);
    }
    // deep trees: levels beyond 21845 (the correlated-randomness fast-forward multiplies the level by
    // three) and the maximal input length 2^16 with its last level 65535
    {
        type P = Poplar1<prio::vdaf::xof::XofTurboShake128, 32>;
        use prio::vdaf::Client;
        let deep: &[(usize, &[usize])] = if thorough { &[(21_850, &[21_845, 21_846, 21_848]), (65_536, &[65_534, 65_535])] } else { &[(21_850, &[21_846]), (65_536, &[65_535])] };
        for &(bits, levels) in deep {
            let vdaf: P = Poplar1::new_turboshake128(bits);
            let input = rand_bits(&mut rng, bits);
            let nonce = [1u8; 16];
            let Ok((public, shares)) = vdaf.shard(b"", &IdpfInput::from_bools(&input), &nonce) else {
                out.oracle(false, || format!("deep tree bits={}", bits), || "sharding failed".into());
                continue;
            };
            for &level in levels {
                let mut sib = input[..level + 1].to_vec();
                sib[level] = !sib[level];
                let mut cands = vec![input[..level + 1].to_vec(), sib];
                cands.sort();
                let on_path = cands.iter().position(|c| c[..] == input[..level + 1]).unwrap();
                let apr = Poplar1AggregationParam::try_from_prefixes(cands.iter().map(|p| IdpfInput::from_bools(p)).collect());
                out.oracle(apr.is_ok(), || format!("deep tree bits={} level={}", bits, level), || "admissible aggregation parameter rejected".into());
                let Ok(ap) = apr else { continue };
                let r = catch(AssertUnwindSafe(|| -> Option<Vec<u64>> {
                    let (s0, v0) = vdaf.verify_init(&[0; 32], b"", 0, &ap, &nonce, &public, &shares[0]).ok()?;
                    let (s1, v1) = vdaf.verify_init(&[0; 32], b"", 1, &ap, &nonce, &public, &shares[1]).ok()?;
                    let m = vdaf.verifier_shares_to_message(b"", &ap, [v0, v1]).ok()?;
                    let (VerifyTransition::Continue(s0, v0), VerifyTransition::Continue(s1, v1)) = (vdaf.verify_next(b"", s0, m.clone()).ok()?, vdaf.verify_next(b"", s1, m).ok()?) else { return None };
                    let m = vdaf.verifier_shares_to_message(b"", &ap, [v0, v1]).ok()?;
                    let (VerifyTransition::Finish(o0), VerifyTransition::Finish(o1)) = (vdaf.verify_next(b"", s0, m.clone()).ok()?, vdaf.verify_next(b"", s1, m).ok()?) else { return None };
                    let a0 = vdaf.aggregate(&ap, [o0]).ok()?;
                    let a1 = vdaf.aggregate(&ap, [o1]).ok()?;
                    vdaf.unshard(&ap, [a0, a1], 1).ok()
                }));
                let mut want = vec![0u64; 2];
                want[on_path] = 1;
                out.oracle(matches!(&r, Ok(Some(c)) if *c == want), || format!("deep tree bits={} level={}", bits, level), || format!("honest report: got {:?}, want counts {:?}", r.as_ref().ok(), want));
                out.count("c03.deep");
            }
        }
    }
    out.samples = out.ops.iter().step_by(out.ops.len() / 6 + 1).map(|s| s.chars().take(300).collect()).collect();
}

// ---------------------------------------------------------------------------------------------
// C04
// ---------------------------------------------------------------------------------------------

/// the C04 invariant on a finished verification
fn check_outputs(out: &mut Out, what: &str, o: &Outcome) {
    if let Some([a, b]) = &o.outputs {
        let good = match sum_outputs(a, b) {
            Some(sum) => {
                let ones = sum.iter().filter(|e| is_one(e)).count();
                let zeros = sum.iter().filter(|e| is_zero(e)).count();
                zeros + ones == sum.len() && ones <= 1
            }
            None => false,
        };
        out.oracle(good, || what.to_string(), || "both aggregators finished but the summed output is neither zero nor one-hot".into());
        out.count("c04.accepted");
    } else {
        out.count("c04.rejected");
    }
}

fn add_to_elem(bytes: &mut [u8], delta: u64, wide: bool) {
    // add `delta` to a little-endian field element in place (no reduction needed for the small
    // values used; an overflow past the modulus makes the encoding undecodable, which is also a case)
    let n = if wide { 32 } else { 8 };
    let mut carry = delta as u128;
    for b in bytes.iter_mut().take(n) {
        let s = *b as u128 + (carry & 0xff);
        *b = s as u8;
        carry = (carry >> 8) + (s >> 8);
    }
}

/// C04, the malicious client: the IDPF is programmed by hand (public `Idpf::gen`) with arbitrary data values
/// and authenticators at every level, and the input shares carry hand-made correlated randomness (all zero,
/// random, zero `A` with random `B`).  Honest aggregators, honest channel.  Whenever both finish, the
/// summed output must be zero or one-hot.
fn c04_malicious(out: &mut Out, rng: &mut Sm, bits: usize, thorough: bool) {
    use prio::idpf::Idpf;
    use prio::vdaf::poplar1::Poplar1IdpfValue;
    let ctx = rng.bytes(3);
    let nonce: [u8; 16] = rng.bytes(16).try_into().unwrap();
    let input = rand_bits(rng, bits);
    let p64 = 0xffff_ffff_0000_0001u64;
    let data_choices: [u64; 4] = [2, p64 - 1, 0, 3 + rng.below(1000)];
    let shapes: &[(&str, usize)] = &[("all-zero corr", 0), ("random corr", 1), ("zero A, random B", 2)];
    for (di, &d) in data_choices.iter().enumerate() {
        if !thorough && di == 3 && bits > 3 {
            continue;
        }
        let idpf = Idpf::<Poplar1IdpfValue<Field64>, Poplar1IdpfValue<Field255>>::new((), ());
        let auth = 1 + rng.below(1 << 40);
        let g = catch(AssertUnwindSafe(|| {
            idpf.gen(
                &IdpfInput::from_bools(&input),
                (0..bits - 1).map(|_| Poplar1IdpfValue::new([Field64::from(d), Field64::from(auth)])),
                Poplar1IdpfValue::new([Field255::from(d), Field255::from(auth)]),
                &ctx,
                &nonce,
            )
        }));
        let Ok(Ok((public, keys))) = g else { continue };
        let public = public.get_encoded().unwrap();
        for &(shape, kind) in shapes {
            let shares: [Vec<u8>; 2] = [0usize, 1].map(|id| {
                let mut b = Vec::new();
                let k: &[u8; 16] = keys[id].as_ref();
                b.extend_from_slice(k);
                b.extend_from_slice(&rng.bytes(32));
                for _ in 0..bits - 1 {
                    for which in 0..2 {
                        let x = if kind == 0 || (kind == 2 && which == 0) { 0 } else { rng.next() % p64 };
                        b.extend_from_slice(&x.to_le_bytes());
                    }
                }
                for which in 0..2 {
                    let mut e = [0u8; 32];
                    if !(kind == 0 || (kind == 2 && which == 0)) {
                        e[..31].copy_from_slice(&rng.bytes(31));
                    }
                    b.extend_from_slice(&e);
                }
                b
            });
            let rep = Report { bits, ctx: ctx.clone(), nonce, public: public.clone(), shares };
            let levels: Vec<usize> = if bits == 1 { vec![0] } else { vec![0, bits / 2, bits - 1] };
            for &level in &levels {
                let cands: Vec<Vec<bool>> = if level < 3 {
                    (0..1usize << (level + 1)).map(|x| (0..=level).map(|j| (x >> (level - j)) & 1 == 1).collect()).collect()
                } else {
                    let mut set: std::collections::BTreeSet<Vec<bool>> = Default::default();
                    set.insert(input[..level + 1].to_vec());
                    let mut sib = input[..level + 1].to_vec();
                    sib[level] = !sib[level];
                    set.insert(sib);
                    set.insert(rand_bits(rng, level + 1));
                    set.into_iter().collect()
                };
                for _ in 0..2 {
                    let key: [u8; 32] = rng.bytes(32).try_into().unwrap();
                    let o = verify(out, bits, &rep, &key, &cands, &Transit::default());
                    check_outputs(out, &format!("malicious client: data value {} at every level, {}; bits={} level={} candidates={}", d, shape, bits, level, prefixes_str(&cands)), &o);
                    out.count("c04.malicious");
                }
            }
        }
    }
}

fn c04_report(out: &mut Out, rng: &mut Sm, bits: usize, thorough: bool) {
    let ctx = rng.bytes(2);
    let key: [u8; 32] = rng.bytes(32).try_into().unwrap();
    let input = rand_bits(rng, bits);
    let nonce: [u8; 16] = rng.bytes(16).try_into().unwrap();
    let Some(rep) = shard(out, bits, &ctx, &input, &nonce, &random128(rng)) else { return };
    let levels: Vec<usize> = if bits == 1 { vec![0] } else { vec![0, bits / 2, bits - 1] };
    let cb_len = (2 * bits + 7) / 8;
    for &level in &levels {
        // candidates: the on-path prefix, its sibling, and a few others
        let mut set: std::collections::BTreeSet<Vec<bool>> = Default::default();
        set.insert(input[..level + 1].to_vec());
        let mut sib = input[..level + 1].to_vec();
        sib[level] = !sib[level];
        set.insert(sib);
        for _ in 0..2 {
            set.insert(rand_bits(rng, level + 1));
        }
        let cands: Vec<Vec<bool>> = set.into_iter().collect();
        let tag = |s: &str| format!("{} bits={} level={}", s, bits, level);
        // honest baseline
        let o = verify(out, bits, &rep, &key, &cands, &Transit::default());
        out.oracle(o.failed_at.is_none(), || tag("honest"), || format!("rejected at {:?}", o.failed_at));
        check_outputs(out, &tag("honest"), &o);
        // --- public share alterations
        let seeds_at = cb_len;
        let inner_vals_at = cb_len + 16 * bits;
        let leaf_val_at = inner_vals_at + 16 * (bits - 1);
        let mut pubs: Vec<(String, Vec<u8>)> = vec![];
        for l in [0usize, level, bits - 1] {
            // programmed data value (first element) and authenticator (second) of level `l`
            for which in 0..2 {
                let mut p = rep.public.clone();
                let (at, wide) = if l + 1 == bits { (leaf_val_at + which * 32, true) } else { (inner_vals_at + l * 16 + which * 8, false) };
                add_to_elem(&mut p[at..], 1 + rng.below(5), wide);
                pubs.push((format!("cw-value l={} elem={}", l, which), p));
            }
            let mut p = rep.public.clone();
            p[seeds_at + 16 * l + rng.below(16) as usize] ^= 1 << rng.below(8);
            pubs.push((format!("cw-seed l={}", l), p));
            let mut p = rep.public.clone();
            let bit = 2 * l + rng.below(2) as usize;
            p[bit / 8] ^= 1 << (bit % 8);
            pubs.push((format!("cw-control-bit l={}", l), p));
        }
        for (what, p) in pubs {
            let r2 = Report { bits, ctx: rep.ctx.clone(), nonce: rep.nonce, public: p, shares: rep.shares.clone() };
            let o = verify(out, bits, &r2, &key, &cands, &Transit::default());
            check_outputs(out, &tag(&what), &o);
            out.count("c04.alter.public");
        }
        // --- input share alterations (either aggregator's)
        let ci_at = 48;
        let cl_at = 48 + 16 * (bits - 1);
        for id in 0..2usize {
            let mut variants: Vec<(String, Vec<u8>)> = vec![];
            let mut s = rep.shares[id].clone();
            s[rng.below(16) as usize] ^= 0x40;
            variants.push(("idpf-key".into(), s));
            let mut s = rep.shares[id].clone();
            s[16 + rng.below(32) as usize] ^= 0x02;
            variants.push(("corr-seed".into(), s));
            if bits > 1 {
                let l = level.min(bits - 2);
                for which in 0..2 {
                    let mut s = rep.shares[id].clone();
                    add_to_elem(&mut s[ci_at + 16 * l + 8 * which..], 1, false);
                    variants.push((format!("corr-inner l={} elem={}", l, which), s));
                }
            }
            for which in 0..2 {
                let mut s = rep.shares[id].clone();
                add_to_elem(&mut s[cl_at + 32 * which..], 1, true);
                variants.push((format!("corr-leaf elem={}", which), s));
            }
            for (what, s) in variants {
                let mut shares = rep.shares.clone();
                shares[id] = s;
                let r2 = Report { bits, ctx: rep.ctx.clone(), nonce: rep.nonce, public: rep.public.clone(), shares };
                let o = verify(out, bits, &r2, &key, &cands, &Transit::default());
                check_outputs(out, &tag(&format!("{} id={}", what, id)), &o);
                out.count("c04.alter.share");
            }
        }
        // --- alterations in transit
        let bump = |v: &mut Poplar1FieldVec, k: usize| match v {
            Poplar1FieldVec::Inner(x) => {
                let i = k % x.len();
                x[i] += Field64::one();
            }
            Poplar1FieldVec::Leaf(x) => {
                let i = k % x.len();
                x[i] += Field255::one();
            }
        };
        for k in 0..3usize {
            for id in 0..2usize {
                let f = |i: usize, v: &mut Poplar1FieldVec| {
                    if i == id {
                        bump(v, k)
                    }
                };
                let o = verify(out, bits, &rep, &key, &cands, &Transit { round1: Some(&f), ..Default::default() });
                out.oracle(o.outputs.is_none(), || tag(&format!("round-1 share element {} of aggregator {} altered", k, id)), || "accepted".into());
                check_outputs(out, &tag("round1 altered"), &o);
                out.count("c04.alter.round1");
            }
            let g = |b: &mut Vec<u8>| {
                let sz = b.len() / 3;
                b[k * sz] ^= 1;
            };
            let o = verify(out, bits, &rep, &key, &cands, &Transit { msg1: Some(&g), ..Default::default() });
            out.oracle(o.outputs.is_none(), || tag(&format!("round-1 message element {} altered", k)), || "accepted".into());
            out.count("c04.alter.msg1");
        }
        for id in 0..2usize {
            let f = |i: usize, v: &mut Poplar1FieldVec| {
                if i == id {
                    bump(v, 0)
                }
            };
            let o = verify(out, bits, &rep, &key, &cands, &Transit { round2: Some(&f), ..Default::default() });
            out.oracle(o.outputs.is_none(), || tag(&format!("round-2 share of aggregator {} altered", id)), || "accepted".into());
            out.count("c04.alter.round2");
        }
        // --- messages of the wrong round, kind or level delivered to a state (typed substitutions that
        // no byte alteration of a well-formed message produces): every one must be refused
        {
            let ap = Poplar1AggregationParam::try_from_prefixes(cands.iter().map(|p| IdpfInput::from_bools(p)).collect()).unwrap();
            let mut st1 = vec![];
            let mut v1 = vec![];
            for id in 0..2 {
                if let Init::Ok(s, v) = vinit(out, bits, &rep, &key, id, &cands) {
                    st1.push(s);
                    v1.push(v);
                }
            }
            if st1.len() == 2 {
                if let Some(m1) = vmsg(out, bits, &ap, &v1) {
                    let mut st2 = vec![];
                    let mut v2 = vec![];
                    for id in 0..2 {
                        if let Next::Continue(s, v) = vnext(out, bits, id, &st1[id], &m1) {
                            st2.push(s);
                            v2.push(v);
                        }
                    }
                    if st2.len() == 2 {
                        if let Some(done) = vmsg(out, bits, &ap, &v2) {
                            for id in 0..2 {
                                // the round-two message ("done") offered in round one: the sketch would go unchecked
                                let r = vnext(out, bits, id, &st1[id], &done);
                                out.oracle(matches!(r, Next::Err), || tag(&format!("round-two message offered to the round-one state of aggregator {}", id)), || "not refused".into());
                                // the round-one message offered again in round two
                                let r = vnext(out, bits, id, &st2[id], &m1);
                                out.oracle(matches!(r, Next::Err), || tag(&format!("round-one message offered to the round-two state of aggregator {}", id)), || "not refused".into());
                                out.count("c04.wrong-round");
                            }
                            // round-one shares combined with round-two shares, and a single share twice
                            let mixed = vmsg(out, bits, &ap, &[v1[0].clone(), v2[1].clone()]);
                            out.oracle(mixed.is_none(), || tag("round-one share combined with a round-two share"), || "not refused".into());
                        }
                        // shares of no length at all, of length two, and a single share against an empty one: the
                        // combiner accepts exactly lengths three (round one) and one (round two)
                        let shapes: Vec<(&str, Vec<Poplar1FieldVec>)> = if level + 1 == bits {
                            vec![
                                ("two empty shares", vec![Poplar1FieldVec::Leaf(vec![]), Poplar1FieldVec::Leaf(vec![])]),
                                ("two shares of length two", vec![Poplar1FieldVec::Leaf(vec![Field255::zero(); 2]), Poplar1FieldVec::Leaf(vec![Field255::zero(); 2])]),
                                ("a round-two share and an empty share", vec![v2[0].clone(), Poplar1FieldVec::Leaf(vec![])]),
                            ]
                        } else {
                            vec![
                                ("two empty shares", vec![Poplar1FieldVec::Inner(vec![]), Poplar1FieldVec::Inner(vec![])]),
                                ("two shares of length two", vec![Poplar1FieldVec::Inner(vec![Field64::zero(); 2]), Poplar1FieldVec::Inner(vec![Field64::zero(); 2])]),
                                ("a round-two share and an empty share", vec![v2[0].clone(), Poplar1FieldVec::Inner(vec![])]),
                            ]
                        };
                        for (what, sh) in shapes {
                            let r = vmsg(out, bits, &ap, &sh);
                            out.oracle(r.is_none(), || tag(what), || "the combiner produced a message".into());
                            out.count("c04.odd-shapes");
                        }
                    }
                    // a message of the other field (inner vs leaf level) offered to this state
                    let other_level = if level + 1 == bits { 0 } else { bits - 1 };
                    if other_level != level {
                        let oc = vec![input[..other_level + 1].to_vec()];
                        let oap = Poplar1AggregationParam::try_from_prefixes(oc.iter().map(|p| IdpfInput::from_bools(p)).collect()).unwrap();
                        let ov: Vec<_> = (0..2).filter_map(|id| match vinit(out, bits, &rep, &key, id, &oc) { Init::Ok(_, v) => Some(v), _ => None }).collect();
                        if ov.len() == 2 {
                            if let Some(om) = vmsg(out, bits, &oap, &ov) {
                                let r = vnext(out, bits, 0, &st1[0], &om);
                                out.oracle(matches!(r, Next::Err), || tag("message of the other field offered to a round-one state"), || "not refused".into());
                            }
                            let mixed = vmsg(out, bits, &ap, &[v1[0].clone(), ov[1].clone()]);
                            out.oracle(mixed.is_none(), || tag("inner-level share combined with a leaf-level share"), || "not refused".into());
                        }
                    }
                }
            }
        }
        // offsetting alterations of both aggregators' round-1 shares cancel: the sum is what is checked
        let f = |i: usize, v: &mut Poplar1FieldVec| match v {
            Poplar1FieldVec::Inner(x) => {
                if i == 0 {
                    x[1] += Field64::from(5)
                } else {
                    x[1] -= Field64::from(5)
                }
            }
            Poplar1FieldVec::Leaf(x) => {
                if i == 0 {
                    x[1] += Field255::from(5)
                } else {
                    x[1] -= Field255::from(5)
                }
            }
        };
        let o = verify(out, bits, &rep, &key, &cands, &Transit { round1: Some(&f), ..Default::default() });
        out.oracle(o.outputs.is_some(), || tag("cancelling alterations"), || format!("rejected at {:?}", o.failed_at));
        check_outputs(out, &tag("cancelling alterations"), &o);
        if !thorough && level == bits / 2 && bits > 2 {
            continue;
        }
    }
}

pub fn run_c04(out: &mut Out, thorough: bool, seed: u64) {
    let mut rng = Sm::new(seed ^ 0x0404);
    let sizes: &[usize] = if thorough { &[1, 2, 3, 4, 5, 8, 9, 16, 33] } else { &[1, 2, 3, 5, 8] };
    for &bits in sizes {
        for _ in 0..(if thorough { 3 } else { 1 }) {
            c04_report(out, &mut rng, bits, thorough);
        }
        if bits <= 9 {
            c04_malicious(out, &mut rng, bits, thorough);
        }
    }
    out.samples = out.ops.iter().step_by(out.ops.len() / 6 + 1).map(|s| s.chars().take(300).collect()).collect();
}

// ---------------------------------------------------------------------------------------------
// the Poplar1 halves of C17 and C18
// ---------------------------------------------------------------------------------------------

/// C17: with fixed randomness and nonce, two inputs give byte-identical input shares; only the
/// public share (the correction words) changes
pub fn c17(out: &mut Out, rng: &mut Sm, thorough: bool) {
    let sizes: &[usize] = if thorough { &[1, 2, 3, 5, 8, 16, 33, 64] } else { &[1, 2, 5, 16] };
    for &bits in sizes {
        for _ in 0..(if thorough { 4 } else { 2 }) {
            let ctx = rng.bytes(3);
            let nonce: [u8; 16] = rng.bytes(16).try_into().unwrap();
            let a = rand_bits(rng, bits);
            let mut b = rand_bits(rng, bits);
            if a == b {
                b[0] = !b[0];
            }
            // random and structured randomness (zeros, equal 16-byte blocks: the two IDPF keys coincide)
            for random in crate::prio3::structured_randomness(rng, 128, 16) {
                let random: [u8; 128] = random.try_into().unwrap();
                let (Some(ra), Some(rb)) = (shard(out, bits, &ctx, &a, &nonce, &random), shard(out, bits, &ctx, &b, &nonce, &random)) else { continue };
                let case = || format!("poplar1 independence bits={} randomness={}", bits, hex(&random[..48]));
                out.oracle(ra.shares[0] == rb.shares[0] && ra.shares[1] == rb.shares[1], case, || "an input share depends on the measurement".into());
                out.count("c17.poplar1");
            }
        }
    }
}

/// C18: any mismatch of context, nonce, verification key or role between the client and an
/// aggregator, or among the aggregators, makes verification fail
pub fn c18(out: &mut Out, rng: &mut Sm, thorough: bool) {
    let sizes: &[usize] = if thorough { &[1, 2, 4, 9, 33] } else { &[1, 3, 9] };
    for (k, &bits) in sizes.iter().enumerate() {
        // short and application-sized contexts; the substituted context differs in its LAST byte
        let ctx = rng.bytes([4usize, 66, 200, 55, 1000][k % 5]);
        let key: [u8; 32] = rng.bytes(32).try_into().unwrap();
        let nonce: [u8; 16] = rng.bytes(16).try_into().unwrap();
        let input = rand_bits(rng, bits);
        let Some(rep) = shard(out, bits, &ctx, &input, &nonce, &random128(rng)) else { continue };
        let levels: Vec<usize> = if bits == 1 { vec![0] } else { vec![0, bits - 1] };
        // candidate sets of two prefixes and of a single prefix (nothing to compress in the sketch, yet the
        // verification key must still be bound)
        let level_sets: Vec<(usize, bool)> = levels.iter().flat_map(|l| [(*l, false), (*l, true)]).collect();
        for (level, single) in level_sets {
            let mut cands = vec![input[..level + 1].to_vec()];
            if !single {
                let mut sib = cands[0].clone();
                sib[level] = !sib[level];
                cands.push(sib);
            }
            cands.sort();
            let ap = Poplar1AggregationParam::try_from_prefixes(cands.iter().map(|p| IdpfInput::from_bools(p)).collect()).unwrap();
            // a run in which aggregator `id` sees (ctx, nonce, key, role) possibly different from the other's
            let run = |out: &mut Out, views: [(Vec<u8>, [u8; 16], [u8; 32], usize); 2]| -> bool {
                let mut st = vec![];
                let mut v1 = vec![];
                for (slot, (c, n, k, role)) in views.iter().enumerate() {
                    // aggregator in `slot` processes the share addressed to `role`
                    let r2 = Report { bits, ctx: c.clone(), nonce: *n, public: rep.public.clone(), shares: [rep.shares[if slot == 0 { *role } else { 0 }].clone(), rep.shares[if slot == 1 { *role } else { 1 }].clone()] };
                    match vinit(out, bits, &r2, k, slot, &cands) {
                        Init::Ok(s, v) => {
                            st.push(s);
                            v1.push(v);
                        }
                        _ => return false,
                    }
                }
                let Some(m1) = vmsg(out, bits, &ap, &v1) else { return false };
                let mut v2 = vec![];
                let mut st2 = vec![];
                for id in 0..2 {
                    match vnext(out, bits, id, &st[id], &m1) {
                        Next::Continue(s, v) => {
                            st2.push(s);
                            v2.push(v);
                        }
                        _ => return false,
                    }
                }
                vmsg(out, bits, &ap, &v2).is_some()
            };
            let honest = (ctx.clone(), nonce, key, 0usize);
            let honest1 = (ctx.clone(), nonce, key, 1usize);
            let ok = run(out, [honest.clone(), honest1.clone()]);
            out.oracle(ok, || format!("poplar1 binding bits={} level={} honest", bits, level), || "honest run rejected".into());
            let mut ctx2 = ctx.clone();
            *ctx2.last_mut().unwrap() ^= 1;
            let mut nonce2 = nonce;
            nonce2[15] ^= 0x80;
            let mut key2 = key;
            key2[7] ^= 4;
            let variants: Vec<(&str, [(Vec<u8>, [u8; 16], [u8; 32], usize); 2])> = vec![
                ("context at the leader", [(ctx2.clone(), nonce, key, 0), honest1.clone()]),
                ("context at the helper", [honest.clone(), (ctx2.clone(), nonce, key, 1)]),
                ("context at both", [(ctx2.clone(), nonce, key, 0), (ctx2.clone(), nonce, key, 1)]),
                ("empty context at both", [(vec![], nonce, key, 0), (vec![], nonce, key, 1)]),
                ("nonce at the leader", [(ctx.clone(), nonce2, key, 0), honest1.clone()]),
                ("nonce at the helper", [honest.clone(), (ctx.clone(), nonce2, key, 1)]),
                ("nonce at both", [(ctx.clone(), nonce2, key, 0), (ctx.clone(), nonce2, key, 1)]),
                ("key at the leader", [(ctx.clone(), nonce, key2, 0), honest1.clone()]),
                ("key at the helper", [honest.clone(), (ctx.clone(), nonce, key2, 1)]),
                ("swapped shares", [(ctx.clone(), nonce, key, 1), (ctx.clone(), nonce, key, 0)]),
                ("leader share at both", [honest.clone(), (ctx.clone(), nonce, key, 0)]),
            ];
            for (what, views) in variants {
                let acc = run(out, views);
                out.oracle(!acc, || format!("poplar1 binding bits={} level={} mismatch: {}", bits, level, what), || "verification completed".into());
                out.count("c18.poplar1");
            }
            // the same key changed at both aggregators is not a mismatch among them: accepted
            let acc = run(out, [(ctx.clone(), nonce, key2, 0), (ctx.clone(), nonce, key2, 1)]);
            out.oracle(acc, || format!("poplar1 binding bits={} level={} other key at both", bits, level), || "rejected although both aggregators agree on the key".into());
        }
    }
}
