#!/usr/bin/env python3
"""Run the checks against a seeded change kept under /verif/seeded/<property>/<name>/.

  tools/seeded.py run seeded/C09/A [--tier quick|thorough] [--all]

applies patch.diff to /repo's working tree, runs ./check for the property (or, with --all, for every
claimed property), records which checks report a violation and how (failing input found or not) in
<dir>/result.json, and restores /repo (git checkout -- .) and the committed evidence files. Nothing is
ever committed in /repo."""
import json, os, shutil, subprocess, sys, tempfile, time

ROOT = os.path.dirname(os.path.dirname(os.path.abspath(__file__)))
REPO = "/repo"


def sh(cmd, **kw):
    return subprocess.run(cmd, shell=True, text=True, capture_output=True, **kw)


def main():
    args = sys.argv[1:]
    if len(args) < 2 or args[0] != "run":
        print(__doc__)
        return 2
    d = os.path.abspath(args[1])
    tier = "quick"
    if "--tier" in args:
        tier = args[args.index("--tier") + 1]
    meta = json.load(open(os.path.join(d, "meta.json")))
    pid = meta["property"]
    manifest = json.load(open(os.path.join(ROOT, "MANIFEST.json")))
    props = [c["property_id"] for c in manifest["checks"]] if "--all" in args else [pid] + [p for p in meta.get("also_run", []) if p != pid]
    if sh("git -C %s status --porcelain" % REPO).stdout.strip():
        print("refusing: /repo has local changes")
        return 2
    keep = tempfile.mkdtemp(prefix="seeded-evidence-", dir=os.path.join(ROOT, "work") if os.path.isdir(os.path.join(ROOT, "work")) else None)
    shutil.copytree(os.path.join(ROOT, "evidence"), os.path.join(keep, "evidence"))
    results = {}
    try:
        r = sh("git -C %s apply %s" % (REPO, os.path.join(d, "patch.diff")))
        if r.returncode != 0:
            print("patch does not apply:", r.stderr)
            return 2
        for p in props:
            t0 = time.time()
            r = sh("./check %s %s" % (p, tier), cwd=ROOT)
            lines = [l for l in r.stdout.splitlines() if l.startswith("VIOLATION") or l.startswith("KNOWN-FINDING") or " quick:" in l or " thorough:" in l]
            viol = [l for l in lines if l.startswith("VIOLATION")]
            results[p] = {
                "exit": r.returncode,
                "caught": r.returncode != 0 and bool(viol),
                "with_failing_input": any("no-failing-input-found" not in l for l in viol),
                "lines": lines[-6:],
                "seconds": round(time.time() - t0),
            }
            # keep the replay of the first violation next to the seeded change
            for l in viol[:1]:
                for tok in l.split():
                    if tok.startswith("replay="):
                        src = tok[len("replay="):]
                        if os.path.isfile(src):
                            rp = json.load(open(src))
                            brief = {k: (v[:3] if isinstance(v, list) else v) for k, v in rp.items()}
                            json.dump(brief, open(os.path.join(d, "replay-%s-%s.json" % (p, tier)), "w"), indent=1, default=str)
            print(p, "caught" if results[p]["caught"] else "MISSED", lines[-1] if lines else r.stdout[-200:] + r.stderr[-200:])
    finally:
        sh("git -C %s checkout -- ." % REPO)
        shutil.rmtree(os.path.join(ROOT, "evidence"))
        shutil.copytree(os.path.join(keep, "evidence"), os.path.join(ROOT, "evidence"))
        shutil.rmtree(keep)
    out = {"tier": tier, "checks": results, "caught_by": [p for p, v in results.items() if v["caught"]]}
    prev = {}
    rp = os.path.join(d, "result.json")
    if os.path.isfile(rp):
        prev = json.load(open(rp))
    prev[tier] = out
    json.dump(prev, open(rp, "w"), indent=1)
    return 0


if __name__ == "__main__":
    sys.exit(main())
