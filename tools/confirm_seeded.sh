#!/bin/bash
# confirm a seeded change in its scratch worktree: compiles, the existing suite passes, the
# demonstration fails with the change and passes without it.  usage: confirm_seeded.sh <prop> <name>
set -u
ID=$1; NAME=$2
WT=/tmp/mut/$ID; SRC=${SEEDED_SRC:-/tmp/mut/out}/$ID/$NAME
export CARGO_TARGET_DIR=$WT/target CARGO_NET_OFFLINE=true
cd $WT || exit 2
git checkout -q -- . ; rm -f tests/seeded_demo.rs
git apply $SRC/patch.diff || { echo "{\"apply\": false}"; exit 1; }
FILES=$(git diff --name-only | tr '\n' ' ')
SUITE=$(cargo test --workspace --no-fail-fast --offline 2>&1 | grep -E "^test result" | awk '{p+=$4; f+=$6} END {print p" "f}')
cp $SRC/demo.rs tests/seeded_demo.rs
FEAT=experimental,multithreaded,test-util
MUT=$(cargo test --offline --features $FEAT --test seeded_demo 2>&1 | grep -E "^test result" | awk '{p+=$4; f+=$6} END {print p" "f}')
git checkout -q -- .
ORIG=$(cargo test --offline --features $FEAT --test seeded_demo 2>&1 | grep -E "^test result" | awk '{p+=$4; f+=$6} END {print p" "f}')
rm -f tests/seeded_demo.rs
echo "{\"apply\": true, \"files\": \"$FILES\", \"suite_passed_failed\": \"$SUITE\", \"demo_on_mutant_passed_failed\": \"$MUT\", \"demo_on_original_passed_failed\": \"$ORIG\"}"
