#!/usr/bin/env python3
"""Regenerate seeded/CATCH-TABLE.md from seeded/<property>/<name>/{meta,result}.json.

  tools/catch_table.py            # writes seeded/CATCH-TABLE.md and prints it

The 'strengthened' column is the record of what was added to a check because it first missed that
change (or caught it only without a failing input); it is kept here by hand."""
import glob, json, os

ROOT = os.path.dirname(os.path.dirname(os.path.abspath(__file__)))

STRENGTHENED = {
    "C01/A": "extremes: 1, 128, 254 aggregators and 255 proofs in the quick tier",
    "C01/B": "bounds that need the top bit of the field integer (2^63, p-1, 2^127) end to end",
    "C01/C": "(caught by the top-bit bounds added for C01/B)",
    "C01/D": "Average end to end with batch sums above 2^32 and 2^53",
    "C02/A": "typed foreign messages: states / messages of an instance with the opposite joint-randomness use",
    "C02/C": "malicious-client stream: real client code over an identity-encoding wrapper, vectors whose only defect is one non-bit entry solved from the type's linear relation, chunk lengths leaving 0 / 1 / c-1 elements (first missed: no instance had n = 1 mod chunk and no report carried an invalid vector with an honest proof)",
    "C03/A": "21 850- and 65 536-bit trees moved into the quick tier",
    "C03/B": "level 65535 prefixes in the quick tier",
    "C04/A": "wrong-round and wrong-field deliveries",
    "C05/B": "every argument at lengths 0, 1, len-1, len+1, 2len",
    "C05/C": "L1BoundSum instances with n = 1 mod chunk in the type lattice",
    "C06/A": "plain-field payloads (idpf1 op)",
    "C06/B": "prefixes stored at non-zero bit offsets",
    "C06/C": "one Idpf object reused across nonces / contexts (reuse_cases)",
    "C06/D": "one Idpf object reused across nonces / contexts (reuse_cases)",
    "C07/B": "Poplar1 bit lengths 4 and 8 (bits % 4 == 0)",
    "C08/A": "the counting allocator names the input of a request above 1 GiB instead of aborting (failing input instead of no-failing-input-found)",
    "C09/A": "translator split: a failed limb-arithmetic translation is an obligation of C09 only (it tripped all twenty checks before)",
    "C09/C": "pow at exponents 0, 1, p-2, p-1, p, p+1, word maximum with bases 0, 1, p-1 and an independent pow oracle (first caught only as a broken translation, without a failing input)",
    "C10/A": "size-limit boundaries 2^19 / 2^20 in the quick tier",
    "C11/B": "tape chunks equal to p, p+1, p-1 exactly",
    "C12/A": "oracle: honest scripts complete and agree with the broadcast execution",
    "C12/B": "oracle: an altered / re-typed delivery is never accepted",
    "C13/B": "Poplar1 unshard shapes (empty, mismatched kind / length)",
    "C14/B": "convenience-constructor pairs (serial vs multithreaded instance of every type)",
    "C15/B": "L1BoundSum / SumVec noise with bounds that need the top bit; later an oracle of its own: noise of scale >= 2^63 is further than 2^32 from zero in some coordinate",
    "C15/D": "privacy budgets 2^-70 and 3/(2^128-1) (scale above the modulus); a failed add_noise is an oracle failure and a correspondence case (it was only counted)",
    "C16/B": "aggregator ids +256, +512, +2^32",
    "C17/A": "structured randomness: all-zero, all-ones, one zero block, equal blocks",
    "C17/B": "structured randomness in the Poplar1 half",
    "C18/B": "out-of-instance identifiers (+256, +512, +2^32) in binding()",
    "C19/A": "real evaluation point compared; nonce search for a first draw that is an interpolation node",
    "C03/C": "candidate prefixes cut out of packed bit vectors (stored at a non-zero bit offset) in every Poplar1 aggregation parameter, and dense candidate sets (all prefixes of a level) so that cached nodes of neighbouring prefixes exist (first missed: every candidate was built with from_bools)",
    "C04/C": "malicious-client stream: IDPF programmed by hand with data values 2, p-1, 0, random at every level and hand-made correlated randomness (all zero / random / zero A) under honest aggregators (first missed: only honest reports were altered)",
    "C07/C": "value-level round trips (decode(encode(x)) == x and verify_next on the decoded state) for Prio3 states, shares and messages, and a 3-proof instance (first missed: the re-encoding was compared, which does not see a field derived from the instance)",
    "C17/C": "single-aggregator instances; the leader share's length is an oracle of its own",
    "C18/C": "application-sized contexts (55 to 1000 bytes) whose substitute differs in the last byte, in Prio3 and Poplar1; recorder oracle: two XOF invocations with different (seed, dst, binder) must not give the same stream",
    "C18/D": "binding of Prio3 over XofHmacSha256Aes128 through the generic constructor (oracle only)",
    "C01/E": "Prio3 types with joint randomness (Histogram, SumVec with 2 proofs, MultihotCountVec, L1BoundSum) driven through the ping-pong topology and compared with the broadcast execution (first missed: only Prio3Sum, which has no joint randomness, went through ping-pong)",
    "C03/D": "planted rejections: the recording XOF replaces every 3rd / 5th 8-byte block of EVERY stream by a value the rejection sampler refuses, so the streams verify_init fast-forwards through contain rejected draws (added on reading this change; a natural rejection needs a 2^-32 event)",
    "C04/D": "shares of length 0 and 2, and a round-two share against an empty one, offered to the combiner (first missed: only well-shaped vectors were altered)",
    "C05/D": "vectors whose only defect is one non-bit entry at the edges (solved from the linear relation) as FLP-level invalid inputs, and L1BoundSum / MultihotCountVec instances whose chunk length divides the vector length but not the encoded length (first caught only as a model / code disagreement)",
    "C08/D": "decoder roles 255, 256, 257, 256+n, 2^32, usize::MAX for Prio3 input shares and verify states (first missed: only the role n)",
    "C09/D": "Field255 section: arithmetic, byte and u64 conversions against arithmetic modulo 2^255-19 on a lattice (2^64, 2^128, 2^192 boundaries) and random values; non-canonical encodings refused by both byte conversions (first missed: Field255 was outside the C09 harness)",
    "C10/D": "Mul::eval_poly / ParallelSum::eval_poly into used (non-zero) output buffers with zero operands (first missed: the hook always passed a zeroed buffer)",
    "C11/D": "reads through the word interface (next_u32 / next_u64) interleaved with byte reads on every XOF stream (first missed: only fill_bytes)",
    "C12/E": "delivery kind 'p': the embedded payload followed by one extra byte (outer message still decodes), in every script position; padded round-two shares for Poplar1 (first missed)",
    "C13/E": "Aggregator::aggregate with a wrong-shape share at every position of the batch, Prio3 and Poplar1 (first missed: shapes were only offered to merge / accumulate)",
    "C14/E": "constructor pairs with chunk length at and above the vector length and chunk length 1 (first missed)",
    "C17/D": "encodings longer than one 256-element block (Histogram 600, SumVec 300) (first missed)",
    "C18/E": "single-candidate aggregation parameters in the Poplar1 binding runs (first missed: always two candidates)",
    "C18/F": "algorithm identifiers differing in bit 0, 9, 16, 20, 27, 31 (first missed: only bit 0)",
    "C11/C": "(caught at once by the correspondence; an oracle of its own was added: the outputs across a field switch are the successive accepted chunks of the tape)",
    "C16/D": "(caught at once by the correspondence; an oracle of its own was added: Prio2::new accepts exactly the dimensions with 2*next_power_of_two(n+1) <= 2^20)",
    "C20/D": "deep histories: one to three candidates per level over 200-bit inputs with steps landing on and around levels 31/32, 63/64, 127/128 — honest step, a candidate leaving its ancestor, an unrelated candidate, a repeated level (first missed: histories stopped at 12 bits)",
    "C19/D": "corpus of nonces whose first TWO draws are 2^20-th roots of unity (found by `harness search-c19`, 2^24 trials each), replayed at dimension 2^19-1 (first missed: a double rejection does not occur by chance)",
}


def main():
    rows = []
    for d in sorted(glob.glob(os.path.join(ROOT, "seeded", "C*", "*", ""))):
        key = "/".join(d.rstrip("/").split("/")[-2:])
        if not os.path.isfile(d + "meta.json"):
            continue
        m = json.load(open(d + "meta.json"))
        r = json.load(open(d + "result.json")) if os.path.isfile(d + "result.json") else {}
        q = r.get("quick", {})
        own = q.get("checks", {}).get(m["property"], {})
        caught = q.get("caught_by", [])
        others = [p for p in caught if p != m["property"]]
        how = "MISSED"
        if own.get("caught"):
            how = "failing input" if own.get("with_failing_input") else "obligation / correspondence (no failing input)"
        rows.append((key, m.get("summary", ""), how, ", ".join(others) if len(others) < 19 else "all (before the translator split)", STRENGTHENED.get(key, "")))
    out = ["| change | what it does | own check (quick) reports | also caught by | added to the checks because of it |", "|---|---|---|---|---|"]
    for r in rows:
        out.append("| " + " | ".join(x.replace("|", "\\|") for x in r) + " |")
    text = "\n".join(out) + "\n"
    open(os.path.join(ROOT, "seeded", "CATCH-TABLE.md"), "w").write(text)
    print(text)
    missed = [r[0] for r in rows if r[2] == "MISSED"]
    print("changes: %d, missed by their own check: %s" % (len(rows), missed or "none"))


if __name__ == "__main__":
    main()
