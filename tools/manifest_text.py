HOOK_COMMITS = ["9fc801b"]
FIX_COMMITS = ["ff3b5f3", "ffa19d7", "9d7c7c0", "b2f9896"]
NOT_APPLICABLE = {}
TEXT = {
    "C11": {
        "level": "Kernel-checked: (1) the message each XOF absorbs depends only on the concatenated tag and binder and determines (seed, tag, binder) injectively; (2) SeedStreamFixedKeyAes128::fill returns, for every sequence of read sizes and every block function, consecutive pieces of block0|block1|... (loop invariant over offset/counter/partial copies); (3) the buffered Prng (scan, left-over copy, refill) refines 'the accepted element-sized chunks of the stream, masked, in order' for every stream, field, buffer state and rejection pattern, also across a switch of field, and generate_random does the same unbuffered. The model is driven with recorded tapes through the public into_field_vec / IdpfValue::generate and the Prng field-switch hook; XOF framing is checked by hashing the model's absorbed message with the raw primitives.",
        "note": "Trusted: Lean kernel, propext/Classical.choice/Quot.sound, the hash and cipher crates (their internals and concatenative update), the hand-written model of Prng::get and fill (validated by the correspondence).",
        "technique": "Lean 4 proof (refinement of the buffered sampler to a stream filter; loop invariant of fill; injective framing) + tape-driven differential correspondence",
    },
    "C13": {
        "level": "Kernel-checked over any commutative additive monoid: merge is commutative and associative including error propagation, the zero vector is its identity, aggregate is invariant under every permutation of the shares (aggregate_perm), any partition into batches merged left to right equals the single pass (batching_invariant), every binary merge tree equals the pass over its leaves (tree_eq_pass), and a length or kind mismatch is refused (mismatch_refused, kind_mismatch_refused). The model functions are compared with AggregateShare/Poplar1FieldVec merge and accumulate of the real code on random multisets, partitions and trees; the oracle also checks that a refused merge leaves the accumulator byte-identical.",
        "note": "Trusted: Lean kernel, propext/Classical.choice/Quot.sound, the 40-line model of merge_vector/aggregate (validated by the correspondence), that the Rust field types are commutative monoids under + (C09).",
        "technique": "Lean 4 proof (commutative-monoid fold) + differential correspondence",
    },
    "C20": {
        "level": "Kernel-checked: is_agg_param_valid (model) holds exactly when no parameter was used before or the level strictly exceeds the most recent level and every candidate extends a most recent candidate (valid_iff, all histories, all well-formed parameters); admissible histories are exactly chains of strict refinements (admissible_iff, induction over histories); try_from_prefixes accepts exactly non-empty lists of equal-length (1..65536 bits), strictly increasing prefixes, fewer than 2^32 (ctor_accepts_iff); every byte string the decoder accepts encodes a parameter the constructor accepts (decoder_accepts_ctor); Prio3/Prio2 accept only the first use. The model is compared with the real code exhaustively for small bit lengths.",
        "note": "Trusted: Lean kernel, propext/Classical.choice/Quot.sound, the hand-written model of try_from_prefixes / is_agg_param_valid (validated by the exhaustive correspondence), bitvec's ordering.",
        "technique": "Lean 4 proof + exhaustive small-domain differential correspondence",
    },
    "C07": {
        "level": "Kernel-checked theorems over a grammar of wire formats (Fmt): decode(encode v) = v, every accepted byte string re-encodes to itself (so no value has two encodings), trailing bytes / unreduced field elements / non-zero padding bits / unknown tags are rejected, and the encoded_len formulas are exact -- proved once for every format, then instantiated for every protocol message and every decoding parameter. The message formats are tied to the Rust decoders by a differential run on honest, mutated, truncated, extended, short and extreme byte strings.",
        "note": "Trusted: Lean kernel, propext/Classical.choice/Quot.sound, the hand-written format functions (validated by the correspondence), the harness. serde encodings not covered.",
        "technique": "Lean 4 proof (generic codec grammar) + differential correspondence on every message type",
    },
    "C08": {
        "level": "Kernel-checked: the decoder is a total function by structural recursion on the format (terminates on every input), and no message format contains a reachable panic point for any decoding parameter or byte string (decode_total, all_formats_no_panic). The correspondence run compares outcome classes ok/err/panic of the real decoders with the model on arbitrary, truncated, extended, corrupted and extreme inputs; wall-clock, peak allocation (counting allocator) and a watchdog are measured on the real code.",
        "note": "Trusted: as C07. Allocation proportionality and promptness are measured by the harness, not proved; the generic decode_u8/u16/u32_items helpers are exercised by the oracle only.",
        "technique": "Lean 4 proof (totality, panic-freedom of every format) + differential correspondence + allocation/time oracle",
    },
    "C09": {
        "level": "Kernel-checked theorems, for every word modulus R, modulus p and operand pair, that the translated add/sub/neg and both Montgomery multipliers (single-word; split-word under p + 2^(W/2) <= 2^W) compute arithmetic modulo p on the value map `residue`, that pow/montgomery/residue/byte conversions are the textbook maps, and decide+kernel checks of every constant (mu, R2, HALF, BIT_MASK, ROOTS chain and exact orders, G). The definitions are regenerated from src/fp/ops.rs and src/fp.rs on every run; the same generic Rust code is compared with them exhaustively at 8 bits and on a lattice+sample at 16/32/64/128 bits.",
        "note": "Trusted: Lean kernel, axioms propext/Classical.choice/Quot.sound, the translator's rewrite rules (listed in translator/rs2lean.py), the harness. Field255 (fiat-crypto limb code) and inv = x^(p-2) being the inverse (needs the primality certificates) are not yet covered by a theorem; they are compared by the correspondence/oracle only.",
        "technique": "Lean 4 proof over translator-generated definitions + differential correspondence (exhaustive at 8-bit words)",
    },
}
