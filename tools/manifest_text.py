HOOK_COMMITS = ["9fc801b"]
NOT_APPLICABLE = {}
TEXT = {
    "C09": {
        "level": "Kernel-checked theorems, for every word modulus R, modulus p and operand pair, that the translated add/sub/neg and both Montgomery multipliers (single-word; split-word under p + 2^(W/2) <= 2^W) compute arithmetic modulo p on the value map `residue`, that pow/montgomery/residue/byte conversions are the textbook maps, and decide+kernel checks of every constant (mu, R2, HALF, BIT_MASK, ROOTS chain and exact orders, G). The definitions are regenerated from src/fp/ops.rs and src/fp.rs on every run; the same generic Rust code is compared with them exhaustively at 8 bits and on a lattice+sample at 16/32/64/128 bits.",
        "note": "Trusted: Lean kernel, axioms propext/Classical.choice/Quot.sound, the translator's rewrite rules (listed in translator/rs2lean.py), the harness. Field255 (fiat-crypto limb code) and inv = x^(p-2) being the inverse (needs the primality certificates) are not yet covered by a theorem; they are compared by the correspondence/oracle only.",
        "technique": "Lean 4 proof over translator-generated definitions + differential correspondence (exhaustive at 8-bit words)",
    },
}
