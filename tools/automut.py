#!/usr/bin/env python3
"""Mechanical mutation of /repo's sources, to find inputs the checks do not reach (a complement to the changes
written by sub-agents under seeded/).

  tools/automut.py gen   <outdir> [--per-file N] [--seed S]   # write candidate one-line mutants (JSON lines)
  tools/automut.py suite <outdir> [--jobs J]                  # keep those that compile and pass the existing suite
                                                              # (scratch worktrees under /tmp/automut, removed at the end)
  tools/automut.py check <outdir> [--tier quick]              # run the checks mapped to the file on each survivor
                                                              # (applies to /repo, always restores it)
  tools/automut.py report <outdir>

A survivor that no check reports is NOT by itself a miss: many one-token changes leave every property true (dead
code, performance, error messages, equivalent arithmetic).  They are triaged by hand; the ones that do break a
property are turned into seeded changes with a demonstration like the others."""
import json, os, random, re, shutil, subprocess, sys, time
from concurrent.futures import ThreadPoolExecutor

ROOT = os.path.dirname(os.path.dirname(os.path.abspath(__file__)))
REPO = "/repo"
SCRATCH = "/tmp/automut"

FILES = {
    "src/flp.rs": ["C05", "C01", "C02", "C16"],
    "src/flp/gadgets.rs": ["C05", "C14", "C10", "C16"],
    "src/flp/types.rs": ["C05", "C01", "C02", "C16"],
    "src/flp/types/l1boundsum.rs": ["C05", "C02", "C16", "C01"],
    "src/flp/types/dp.rs": ["C15"],
    "src/vdaf/prio3.rs": ["C01", "C02", "C16", "C17", "C18", "C07", "C08"],
    "src/vdaf/poplar1.rs": ["C03", "C04", "C20", "C13", "C16", "C18", "C17", "C07", "C08"],
    "src/vdaf/prio2.rs": ["C19", "C16", "C07"],
    "src/vdaf/prio2/client.rs": ["C19"],
    "src/vdaf/prio2/server.rs": ["C19", "C16"],
    "src/idpf.rs": ["C06", "C03", "C07", "C08", "C16"],
    "src/field.rs": ["C09", "C13", "C07", "C11", "C01", "C16", "C05"],
    "src/field/field255.rs": ["C09", "C07", "C11", "C03"],
    "src/fp.rs": ["C09"],
    "src/fp/ops.rs": ["C09"],
    "src/ntt.rs": ["C10", "C05"],
    "src/polynomial.rs": ["C10", "C05"],
    "src/prng.rs": ["C11", "C03"],
    "src/vdaf/xof.rs": ["C11", "C18"],
    "src/codec.rs": ["C07", "C08"],
    "src/topology/ping_pong.rs": ["C12"],
    "src/vdaf.rs": ["C13", "C07"],
    "src/dp.rs": ["C15", "C16"],
    "src/dp/distributions.rs": ["C15", "C16"],
    "src/dp/rand_bigint.rs": ["C15"],
}

# (name, regex, replacement); applied to one occurrence on one line
OPS = [
    ("lt->le", r" < ", " <= "), ("le->lt", r" <= ", " < "), ("gt->ge", r" > ", " >= "), ("ge->gt", r" >= ", " > "),
    ("eq->ne", r" == ", " != "), ("ne->eq", r" != ", " == "),
    ("and->or", r" && ", " || "), ("or->and", r" \|\| ", " && "),
    ("plus1->plus0", r" \+ 1\b", " + 0"), ("minus1->minus0", r" - 1\b", " - 0"), ("plus1->plus2", r" \+ 1\b", " + 2"),
    ("plus->minus", r"(?<=[\w\)\]]) \+ (?=[\w\(])", " - "), ("minus->plus", r"(?<=[\w\)\]]) - (?=[\w\(])", " + "),
    ("mul->add", r"(?<=[\w\)\]]) \* (?=[\w\(])", " + "),
    ("shl->shr", r" << ", " >> "), ("shr->shl", r" >> ", " << "),
    ("div_ceil->div", r"\.div_ceil\((\w+)\)", r" / \1"),
    ("checked_add->wrapping", r"\.checked_add\(", ".wrapping_add_opt("),  # placeholder, filtered below
    ("rev-removed", r"\.rev\(\)", ""),
    ("zero->one", r"F::zero\(\)", "F::one()"), ("one->zero", r"F::one\(\)", "F::zero()"),
    ("true->false", r"\btrue\b", "false"), ("false->true", r"\bfalse\b", "true"),
    ("0->1", r"\[0\]", "[1]"), ("1->0", r"\[1\]", "[0]"),
    ("guard-off", r"^(\s*)if (.+) \{\s*$", None),  # handled specially: `if false && (cond) {` when next line returns Err
    ("skip-first", r"\.skip\(1\)", ".skip(0)"), ("take-len", r"\.take\((\w+)\)", r".take(\1 - 1)"),
    ("usize-from->as-u8", r"usize::from\((\w+)\)", r"(\1 as u8 as usize)"),
]


def sh(cmd, cwd=None, timeout=None, env=None):
    try:
        r = subprocess.run(cmd, shell=True, cwd=cwd, text=True, capture_output=True, timeout=timeout, env=env)
        return r.returncode, r.stdout + r.stderr
    except subprocess.TimeoutExpired:
        return 124, "timeout"


def code_lines(path):
    """(index, line) of lines that are library code: not comments, not the test module, not hook code"""
    lines = open(os.path.join(REPO, path)).read().split("\n")
    out = []
    in_tests = False
    skip_hook = 0
    for i, l in enumerate(lines):
        st = l.strip()
        if st.startswith("#[cfg(test)]") or st.startswith("#[cfg(any(test"):
            # a test module or test-only item: if the next non-attribute line opens a module, skip to the end of file
            nxt = next((x.strip() for x in lines[i + 1:i + 4] if not x.strip().startswith("#[")), "")
            if nxt.startswith("mod ") or nxt.startswith("pub mod ") or nxt.startswith("pub(crate) mod "):
                in_tests = True
        if in_tests:
            continue
        if "verif-hooks" in l or "verif_hooks" in l:
            skip_hook = 12
        if skip_hook > 0:
            skip_hook -= 1
            continue
        if st.startswith("//") or st.startswith("///") or st.startswith("*") or st.startswith("#[") or not st:
            continue
        if "debug_assert" in l or st.startswith("assert") or "unreachable!" in l or "panic!(" in l:
            continue
        out.append((i, l))
    return lines, out


def gen(outdir, per_file, seed):
    rnd = random.Random(seed)
    os.makedirs(outdir, exist_ok=True)
    muts = []
    for path in FILES:
        lines, cl = code_lines(path)
        cands = []
        for (i, l) in cl:
            code = l.split("//")[0]
            for name, pat, rep in OPS:
                if name == "checked_add->wrapping":
                    continue
                if name == "guard-off":
                    m = re.match(pat, code)
                    if m and i + 1 < len(lines) and ("return Err" in lines[i + 1] or "return None" in lines[i + 1]) and "let " not in m.group(2):
                        cands.append((i, name, "%sif false && (%s) {" % (m.group(1), m.group(2))))
                    continue
                for m in re.finditer(pat, code):
                    new = code[:m.start()] + m.expand(rep) + code[m.end():] + (" //" + l.split("//", 1)[1] if "//" in l else "")
                    if new != l:
                        cands.append((i, name, new))
        rnd.shuffle(cands)
        # spread over the file: at most 2 mutants per line
        seen = {}
        chosen = []
        for (i, name, new) in cands:
            if seen.get(i, 0) >= 2:
                continue
            seen[i] = seen.get(i, 0) + 1
            chosen.append((i, name, new))
            if len(chosen) >= per_file:
                break
        for (i, name, new) in chosen:
            muts.append({"id": "m%04d" % len(muts), "file": path, "line": i + 1, "op": name, "old": lines[i], "new": new})
    with open(os.path.join(outdir, "candidates.jsonl"), "w") as f:
        for m in muts:
            f.write(json.dumps(m) + "\n")
    print("%d candidates in %s" % (len(muts), outdir))


def apply_mut(root, m):
    p = os.path.join(root, m["file"])
    lines = open(p).read().split("\n")
    assert lines[m["line"] - 1] == m["old"], (m["file"], m["line"])
    lines[m["line"] - 1] = m["new"]
    open(p, "w").write("\n".join(lines))


def suite(outdir, jobs):
    muts = [json.loads(l) for l in open(os.path.join(outdir, "candidates.jsonl"))]
    done = {}
    rp = os.path.join(outdir, "suite.jsonl")
    if os.path.isfile(rp):
        for l in open(rp):
            r = json.loads(l)
            done[r["id"]] = r
    todo = [m for m in muts if m["id"] not in done]
    os.makedirs(SCRATCH, exist_ok=True)
    wts = []
    for k in range(jobs):
        wt = os.path.join(SCRATCH, "wt%d" % k)
        if not os.path.isdir(wt):
            rc, out = sh("git -C %s worktree add --detach %s HEAD -q" % (REPO, wt))
            assert rc == 0, out
        wts.append(wt)
    import queue, threading
    q = queue.Queue()
    for wt in wts:
        q.put(wt)
    lock = threading.Lock()

    def one(m):
        wt = q.get()
        try:
            sh("git checkout -q -- .", cwd=wt)
            apply_mut(wt, m)
            env = dict(os.environ, CARGO_TARGET_DIR=os.path.join(wt, "target"), CARGO_NET_OFFLINE="true")
            t0 = time.time()
            rc, out = sh("cargo test --workspace --no-fail-fast --offline 2>&1 | tail -40", cwd=wt, timeout=1500, env=env)
            res = re.findall(r"^test result: (\w+)\. (\d+) passed; (\d+) failed", out, re.M)
            compiled = "error: could not compile" not in out and "error[E" not in out
            passed = compiled and rc == 0 and len(res) >= 3 and all(r[0] == "ok" for r in res)
            r = {"id": m["id"], "compiled": compiled, "passed": passed, "timeout": rc == 124, "seconds": round(time.time() - t0)}
            sh("git checkout -q -- .", cwd=wt)
        finally:
            q.put(wt)
        with lock:
            with open(rp, "a") as f:
                f.write(json.dumps(r) + "\n")
        return r

    with ThreadPoolExecutor(max_workers=jobs) as ex:
        n = 0
        for r in ex.map(one, todo):
            n += 1
            if n % 10 == 0:
                print("%d/%d" % (n, len(todo)), flush=True)
    for wt in wts:
        sh("git -C %s worktree remove --force %s" % (REPO, wt))
    sh("git -C %s worktree prune" % REPO)
    shutil.rmtree(SCRATCH, ignore_errors=True)
    res = [json.loads(l) for l in open(rp)]
    print("survivors: %d of %d (not compiled: %d, timeouts: %d)" % (sum(r["passed"] for r in res), len(res), sum(not r["compiled"] for r in res), sum(r["timeout"] for r in res)))


def check(outdir, tier):
    muts = {m["id"]: m for m in (json.loads(l) for l in open(os.path.join(outdir, "candidates.jsonl")))}
    surv = [json.loads(l)["id"] for l in open(os.path.join(outdir, "suite.jsonl")) if json.loads(l)["passed"]]
    rp = os.path.join(outdir, "checks.jsonl")
    done = set()
    if os.path.isfile(rp):
        done = {json.loads(l)["id"] for l in open(rp)}
    rc, out = sh("git -C %s status --porcelain" % REPO)
    assert not out.strip(), "refusing: /repo has local changes"
    keep = os.path.join(ROOT, "work", "automut-evidence")
    shutil.rmtree(keep, ignore_errors=True)
    shutil.copytree(os.path.join(ROOT, "evidence"), keep)
    try:
        for mid in surv:
            if mid in done:
                continue
            m = muts[mid]
            apply_mut(REPO, m)
            caught_by, tried = None, []
            try:
                for p in FILES[m["file"]]:
                    rc, out = sh("./check %s %s" % (p, tier), cwd=ROOT, timeout=1800)
                    tried.append(p)
                    if rc != 0 and "VIOLATION" in out:
                        caught_by = p
                        break
            finally:
                sh("git -C %s checkout -- ." % REPO)
            with open(rp, "a") as f:
                f.write(json.dumps({"id": mid, "caught_by": caught_by, "tried": tried}) + "\n")
            print(mid, m["file"], m["line"], m["op"], "->", caught_by or "NOT CAUGHT", flush=True)
    finally:
        sh("git -C %s checkout -- ." % REPO)
        shutil.rmtree(os.path.join(ROOT, "evidence"))
        shutil.copytree(keep, os.path.join(ROOT, "evidence"))
        shutil.rmtree(keep)


def report(outdir):
    muts = {m["id"]: m for m in (json.loads(l) for l in open(os.path.join(outdir, "candidates.jsonl")))}
    su = [json.loads(l) for l in open(os.path.join(outdir, "suite.jsonl"))]
    ch = {}
    if os.path.isfile(os.path.join(outdir, "checks.jsonl")):
        ch = {json.loads(l)["id"]: json.loads(l) for l in open(os.path.join(outdir, "checks.jsonl"))}
    print("candidates %d, run %d, killed by the suite %d, not compiling %d, survivors %d" % (len(muts), len(su), sum((not r["passed"]) and r["compiled"] for r in su), sum(not r["compiled"] for r in su), sum(r["passed"] for r in su)))
    caught = [i for i, c in ch.items() if c["caught_by"]]
    print("survivors checked %d, caught %d, not caught %d" % (len(ch), len(caught), len(ch) - len(caught)))
    for i, c in ch.items():
        if not c["caught_by"]:
            m = muts[i]
            print("--- %s %s:%d %s\n-%s\n+%s" % (i, m["file"], m["line"], m["op"], m["old"].strip(), m["new"].strip()))


if __name__ == "__main__":
    a = sys.argv[1:]
    if len(a) < 2:
        print(__doc__)
        sys.exit(2)
    opt = lambda k, d: (a[a.index(k) + 1] if k in a else d)
    if a[0] == "gen":
        gen(a[1], int(opt("--per-file", 25)), int(opt("--seed", 1)))
    elif a[0] == "suite":
        suite(a[1], int(opt("--jobs", 6)))
    elif a[0] == "check":
        check(a[1], opt("--tier", "quick"))
    elif a[0] == "report":
        report(a[1])
