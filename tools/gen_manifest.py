#!/usr/bin/env python3
"""writes MANIFEST.json from tools/props.py and tools/manifest_text.py"""
import json, os, sys
ROOT = os.path.dirname(os.path.dirname(os.path.abspath(__file__)))
sys.path.insert(0, os.path.join(ROOT, "tools"))
from props import PROPS
from manifest_text import TEXT, NOT_APPLICABLE, HOOK_COMMITS

ids = [json.loads(l)["id"] for l in open(os.path.join(ROOT, "properties.jsonl"))]
checks = []
for pid in ids:
    if pid not in PROPS:
        continue
    t = TEXT[pid]
    checks.append({
        "property_id": pid,
        "quick_cmd": "./check %s quick" % pid,
        "thorough_cmd": "./check %s thorough" % pid,
        "evidence_file": "evidence/%s.json" % pid,
        "replay_cmd_template": "./check %s --replay {path}" % pid,
        "engine": "lean4-proof+correspondence",
        "level_claimed": {"category": "proof", "text": t["level"], "design_ref": t.get("design_ref", "DESIGN.md section 3, " + pid)},
        "level_note": t["note"],
        "technique": t["technique"],
    })
na = [{"property_id": pid, "reason": NOT_APPLICABLE.get(pid, "check not built yet; the property is decidable by this technique (see DESIGN.md) and will be claimed when its theorems and correspondence exist")}
      for pid in ids if pid not in PROPS]
m = {
    "version": 1,
    "setup_cmd": "./check --setup",
    "hooks": {
        "guard": "verif-hooks",
        "enable": "cargo feature `verif-hooks` of the prio crate (harness/Cargo.toml depends on /repo with features experimental,test-util,multithreaded,verif-hooks)",
        "baseline_off_cmd": "cd /repo && cargo test --workspace --no-fail-fast --offline",
        "source_commits": HOOK_COMMITS,
        "add_only": True,
    },
    "engines": [{
        "name": "lean4-proof+correspondence", "path": "check",
        "serves_properties": [c["property_id"] for c in checks],
        "kind_free_text": "Lean 4 theorems (lean/PrioProofs) about an executable Lean model (lean/PrioModel); the model is tied to /repo on every run by a translator (translator/rs2lean.py, limb arithmetic and constants) and by a differential correspondence run (harness/ drives the real Rust code, lean/Main.lean drives the model, outputs diffed), with implementation-level oracles used to search for failing inputs",
    }],
    "checks": checks,
    "not_applicable": na,
    "notes": "All checks: cwd=/verif, honour VERIF_SEED and VERIF_TIER, rebuild the harness from /repo's working tree, regenerate lean/PrioModel/Gen from /repo's source, rebuild the property's theorems, audit their axioms, run the correspondence and the oracles, write evidence/<id>.json. known_findings.txt lists genuine defects that are recorded rather than repaired and the fixed ones.",
}
json.dump(m, open(os.path.join(ROOT, "MANIFEST.json"), "w"), indent=1)
print("MANIFEST.json: %d checks, %d not claimed" % (len(checks), len(na)))
