"""per-property configuration of ./check"""
COMMON_TRUST = [
    "translator/rs2lean.py (straight-line limb arithmetic and constant tables; validated on every run by the exhaustive 8-bit and the lattice+sample 16-bit differential against the same generic Rust code)",
    "correspondence harness (harness/, Rust) and the Lean driver's line protocol",
    "rustc dev-profile semantics of integer overflow and indexing",
]
PROPS = {
    "C09": {
        "modules": ["PrioProofs.Props.C09"],
        "rule": "operand lattice (0,1,2,3,p-3..p-1,(p±1)/2,2^k,2^k±1,limb masks,R mod p) x itself, random and low-weight operands, every operand pair of the 8-bit instantiation; non-trivial = all (every case exercises the limb code);",
        "trusted": COMMON_TRUST + ["Field255 limb code (fiat-crypto) is outside this check"],
        "assumptions": ["the hook instantiations FP8/FP16S run the same generic code as FP32/FP64/FP128 (they are produced by the same macros)"],
    },
}
