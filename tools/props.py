"""per-property configuration of ./check"""
COMMON_TRUST = [
    "translator/rs2lean.py (straight-line limb arithmetic and constant tables; validated on every run by the exhaustive 8-bit and the lattice+sample 16-bit differential against the same generic Rust code)",
    "correspondence harness (harness/, Rust) and the Lean driver's line protocol",
    "rustc dev-profile semantics of integer overflow and indexing",
]
CODEC_RULE = "every message type x decoding parameter (Prio3 Count/Sum/Histogram/SumVec with 2-5 aggregators, Poplar1 with several bit lengths incl. 0, Prio2, ping-pong, primitives): honest encodings from real protocol runs, truncations, extensions, single-byte mutations, every alphabet value in first/last byte, all strings of length <= 2-3 over {00,01,7f,80,fe,ff}, header extremes (level 0xFFFF, counts 2^32-1, unknown tags), random strings; value-level round trips of Prio3 public share, input shares, verifier states / shares / messages (decode(encode(x)) == x, and verify_next on the decoded state gives the same result) for 1, 2 and 3 proofs; decoder roles 255, 256, 257, 256+n, 2^32, usize::MAX for Prio3 input shares and verify states; encode_u8/u16/u32_items appending to buffers that already hold 0, 1, 3, 200, 300 bytes (C07); non-trivial = every case (each is a decode of a distinct byte string);"
POP = "Poplar1 over a recording XOF and the IDPF PRG recorder (the model recomputes every step from the two tables): "
PROPS = {
    "C15": {
        "modules": ["PrioProofs.Props.C15", "PrioProofs.Props.C15Laws"],
        "rule": "every layer through the verif-hooks wrappers on random and planted tapes (extreme first words): uniform_below for 19 bounds (1, word boundaries 2^32 +-1, 2^64 +-1, 2^128, 3^50, a 142-bit bound), Bernoulli and Bernoulli-exp1 for 14 fractions incl. unreduced and 64-bit denominators, Bernoulli-exp and geometric for 9 parameters incl. 0 and >1, Laplace for 9 scales incl. 0 and 2^40/3, Gaussian for 8 sigmas incl. 0 and 1000/7; value and bytes consumed compared; add_noise for SumVec (both fields), Histogram, L1BoundSum with 5 epsilons: output vector and bytes consumed; exhaustive: every raw draw for bounds 1..130 (thorough 600) and every Bernoulli n/d with d <= 24 (thorough 64); frequency tests with 120k (thorough 1M) samples; oracle for top-bit bounds: noise of scale >= 2^63 is further than 2^32 from zero in some coordinate; non-trivial = all;",
        "trusted": COMMON_TRUST + ["rand's Fill impl for [u32] and num-bigint/num-rational arithmetic (observed through the correspondence)"],
        "assumptions": ["the random source delivers independent uniform bytes (the property is conditional on it)", "Laplace / Gaussian normalisation: oracle only"],
    },
    "C03": {
        "modules": ["PrioProofs.Props.C03", "PrioProofs.Props.C03E2E", "PrioProofs.Props.Deployed2"],
        "rule": "%sbit lengths {1,2,3,5,8,16,33} (thorough 12 lengths up to 130): batches with repeated inputs, admissible sequences of 1-4 levels incl. the leaf level, sorted candidate sets mixing prefixes of the inputs, siblings and random strings; every shard, verify_init (both aggregators), both verifier_shares_to_message rounds and both verify_next rounds as a correspondence case; unshard vs plain counts; heavy-hitters loop on 4/8/12-bit inputs; thorough: a 21850-bit tree at levels 21845-21848; every second candidate prefix is cut out of a longer packed bit vector (stored at bit offset 1 behind a zero, or at a larger offset); dense candidate sets (every prefix of the level) for bit lengths 3 and 4 (thorough 2-5); planted rejections in every XOF stream (the correlated-randomness streams verify_init fast-forwards through contain rejected draws) at every level of 4-, 6- and 9-bit trees; non-trivial = all;" % POP,
        "trusted": COMMON_TRUST + ["TurboSHAKE128 and the fixed-key AES PRG are parameters of the model (recorded tables in the correspondence)"],
        "assumptions": ["bit lengths above 130 are exercised by the oracle only (21850 bits, thorough)"],
    },
    "C04": {
        "modules": ["PrioProofs.Props.C04", "PrioProofs.Props.C04Counting", "PrioProofs.Props.C04Robust"],
        "rule": "%sbit lengths {1,2,3,5,8} (thorough up to 33), levels first / middle / last, candidates = on-path prefix, its sibling and random strings; per level 12 public-share alterations (data value, authenticator, seed bit, control bit of the correction word at the first, queried and last level), 5-7 alterations of each input share, 6 round-one share elements, 3 message elements, both round-two shares, a cancelling pair; every step as a correspondence case; malicious clients: IDPF programmed by hand with data values 2, p-1, 0 and random at every level and an arbitrary authenticator, input shares with hand-made correlated randomness (all zero / random / zero A with random B), all prefixes of the level as candidates for levels < 3, two verification keys each; shares of length 0 and 2 and a round-two share against an empty one offered to the combiner; non-trivial = all;" % POP,
        "trusted": COMMON_TRUST + ["TurboSHAKE128 and the fixed-key AES PRG are parameters of the model"],
        "assumptions": ["the negligible-probability clause is not expressed; the oracle samples it with random keys"],
    },
    "C19": {
        "modules": ["PrioProofs.Props.C19", "PrioProofs.Props.C19Linear", "PrioProofs.Props.Deployed2"],
        "rule": "input lengths {1,2,3,4,7,8,15,16,33,100} (thorough 15 lengths up to 1000): all-zero, all-one and random 0/1 vectors, each also with one entry replaced by 2, p-1, 3 or a random value; per report: reconstructed client proof vs the model's construct_proof, leader share, both verification messages at the derived point and at 0, 1, two interpolation nodes and a random point, the decision, the evaluation point from the HMAC/AES stream, streams with planted out-of-range / node / identity draws, alterations (+1, -1, random) of the first/last data element, f0, g0, h0, first/last packed element (thorough: 6 more positions), wrong-length shares; corpus of nonces whose first two query draws are 2^20-th roots of unity (harness search-c19), replayed at dimension 2^19-1; an honest 0/1 report at dimension 2^19-1 (thorough: also 2^18) through the real client, both aggregators, aggregation and unshard; non-trivial = all;",
        "trusted": COMMON_TRUST + ["HMAC-SHA256 and AES-128-CTR (hmac, sha2, aes, ctr crates): the key stream is a parameter of the model and is handed to it by the harness"],
        "assumptions": ["soundness up to 2n/p is sampled by the oracle, not expressed as a probability", "the theorems take a field context satisfying CtxOk (root chain, half, canonical ofNat, 2 != 0); that the deployed contexts satisfy it is C10's table_roots / C09's constants"],
    },
    "C14": {
        "modules": ["PrioProofs.Props.C14"],
        "rule": "ParallelSum vs ParallelSumMultithreaded over Mul on Field64 and Field128: chunk counts {1,2,3,5,16,33} (thorough also 4,8,100) x wire lengths {1,2,4,16} (thorough up to 256), random polynomials, each with 8 (thorough 14) split trees incl. sequential, fully unbalanced, empty sides; thread pools of 1,2,3,8,16 (thorough 1-32) threads; malformed calls (short/long output, missing/extra/ragged/no polynomials, wire length beyond the NTT limit); whole Prio3 runs serial vs multithreaded for SumVec, Histogram, MultihotCountVec, L1BoundSum with (len, chunk) in {(1,1),(6,1),(6,2),(7,3),(5,16),(40,7),(64,8)} x (aggregators, proofs) in {(2,1),(3,2)} (thorough also (2,3)) x every pool; constructor pairs incl. chunk length at / above the vector length and chunk length 1; non-trivial = all;",
        "trusted": COMMON_TRUST + ["rayon's contract for fold/reduce on an indexed parallel iterator (contiguous, order-preserving segments; identity elements may be inserted)"],
        "assumptions": ["the schedule actually taken by rayon is not observable; the theorem quantifies over all of them"],
    },
    "C16": {
        "modules": ["PrioProofs.Props.C16", "PrioProofs.Props.C16Poplar"],
        "rule": "constructors of Sum, Average, Histogram, MultihotCountVec, SumVec, L1BoundSum over Field64 and Field128 on the argument lattice {0,1,2,3,8,1000,2^32-2,2^32-1,2^32,2^63-1,2^63,usize::MAX-1,usize::MAX} (thorough: 26 values incl. random ones; full cube for the 3-parameter constructors) x integer bounds {0,1,2,3,255,256,p-2,p-1,p,p+1,MAX}; accepted small instances must prove and verify their extreme measurements; encode_measurement on in-range, boundary, out-of-range and wrong-length measurements; Prio3::new on (aggregators, proofs) incl. 0, 254, 255; Prio2::new on 24 (thorough 64) lengths up to usize::MAX; Prio3 verify_init / verifier_shares_to_message / verify_next on hand-built leader shares (measurement or proofs empty, short, long, one proof of many), missing or unexpected blinds and parts, shares, states and messages of an instance with the opposite joint-randomness use, aggregator ids up to usize::MAX, share counts 0..512+n incl. 256+n; thorough: instances beyond the transform limit (600000 buckets, chunk 1) through prove and verify_init; Prio2, Poplar1 (zero bits, wrong heights, levels beyond the tree, depth 40000) and DP constructors by oracle; Prio2::new accepts exactly the dimensions with 2*next_power_of_two(n+1) <= 2^20 (oracle); gadgets called directly (Mul, PolyEval, ParallelSum with 2 and with 0 chunks): eval with 0..arity+2 inputs, eval_poly with missing / extra wires, wires of different lengths, output buffers of the wrong length; Idpf::gen with too few / too many inner values and an empty input; decode_result of every type on 0, len-1, len, len+1, 2len+1 elements; MultihotCountVec weight bounds p-2 .. p+1; non-trivial = all;",
        "trusted": COMMON_TRUST + ["XOF expansion terminating and FLP query not panicking are hypotheses of the Prio3 no-panic theorems (decide is proved panic-free; C05/C11 cover query and the XOF by correspondence)"],
        "assumptions": ["allocation-proportional operations are exercised only below a memory budget (instances up to 2048 inputs, Poplar1 up to 40000 bits)", "Poplar1/Prio2 protocol operations and DP constructors: oracle only"],
    },
    "C01": {
        "modules": ["PrioProofs.Props.C01", "PrioProofs.Props.C01E2E", "PrioProofs.Props.Deployed2"],
        "rule": "Prio3 over a recording XOF (every XOF invocation's key and output is recorded and the model recomputes the whole step from that table): Count, Sum at bit-width edges (incl. a 34-bit bound), Histogram with dividing / non-dividing / oversize chunks, SumVec, MultihotCountVec, L1BoundSum x (aggregators, proofs) in {(2,1),(3,1),(5,2),(2,3)}; every message passes through its wire codec; batches of 5 (thorough 24) valid measurements incl. the extremes, sharded, verified by all aggregators, aggregated and unsharded; planted rejections (every 3rd / 5th 8-byte block of every XOF stream is a value the sampler refuses) through whole Count / Sum / Histogram / SumVec runs; Prio3 Histogram, SumVec (2 proofs), MultihotCountVec and L1BoundSum driven through the ping-pong topology and compared with the broadcast execution; non-trivial = all;",
        "trusted": COMMON_TRUST + ["TurboSHAKE128 is a parameter of the model (recorded table in the correspondence)"],
        "assumptions": ["Average's final float division is outside the model (the integer sum and count are compared)"],
    },
    "C02": {
        "modules": ["PrioProofs.Props.C02", "PrioProofs.Props.C02Tamper", "PrioProofs.Props.C02Robust"],
        "rule": "Prio3 over a recording XOF (every XOF invocation's key and output is recorded and the model recomputes the whole step from that table): Count, Sum at bit-width edges (incl. a 34-bit bound), Histogram with dividing / non-dividing / oversize chunks, SumVec, MultihotCountVec, L1BoundSum x (aggregators, proofs) in {(2,1),(3,1),(5,2),(2,3)}; every message passes through its wire codec; alterations of every public-share seed, first/middle/last measurement and proof elements of the leader share, blinds, helper seeds, every aggregator's first/last verifier element and joint-randomness part, the verifier message, a missing and a duplicated share; model and code must agree on the step that fails; malicious clients: the real Prio3 client code over a wrapper type with identity encoding shards vectors outside the type's language -- every entry a random bit except one (at every position, or first/second/middle/last two) that is solved from the type's linear relation (Histogram: sum = 1; MultihotCountVec: weight = claimed weight; L1BoundSum: norm = claimed norm) so that the only defect is one non-bit entry, and pairs of non-bit entries -- for Count, Sum, SumVec, Histogram, MultihotCountVec and L1BoundSum with chunk lengths that divide the encoded length, leave exactly one element, leave one short, or exceed it; every such report must be refused; non-trivial = all;",
        "trusted": COMMON_TRUST + ["TurboSHAKE128 is a parameter of the model (recorded table in the correspondence)"],
        "assumptions": ["the negligible-probability clause (random-oracle collisions, FLP soundness error) is not expressed; the oracle samples it"],
    },
    "C17": {
        "modules": ["PrioProofs.Props.C17"],
        "rule": "Poplar1 (bit lengths 1-64): pairs of inputs sharded with identical randomness and nonce, input shares compared byte-wise, each shard a correspondence case; Prio3 over a recording XOF (every XOF invocation's key and output is recorded and the model recomputes the whole step from that table): Count, Sum at bit-width edges (incl. a 34-bit bound), Histogram with dividing / non-dividing / oversize chunks, SumVec, MultihotCountVec, L1BoundSum x (aggregators, proofs) in {(2,1),(3,1),(5,2),(2,3)}; every message passes through its wire codec; pairs of measurements sharded with identical randomness and nonce; byte-wise comparison of helper shares, blinds, joint-randomness parts and the leader-share difference; single-aggregator Prio3 instances (the leader share still has the encoding's length); encodings longer than one 256-element block (Histogram 600, SumVec 300); non-trivial = all;",
        "trusted": COMMON_TRUST,
        "assumptions": [],
    },
    "C18": {
        "modules": ["PrioProofs.Props.C18"],
        "rule": "Poplar1 (bit lengths 1-33, first and leaf level): context / nonce / key substituted at the leader, the helper or both, swapped and duplicated shares, every step a correspondence case; Prio3 over a recording XOF (every XOF invocation's key and output is recorded and the model recomputes the whole step from that table): Count, Sum at bit-width edges (incl. a 34-bit bound), Histogram with dividing / non-dividing / oversize chunks, SumVec, MultihotCountVec, L1BoundSum x (aggregators, proofs) in {(2,1),(3,1),(5,2),(2,3)}; every message passes through its wire codec; every single-aggregator and all-aggregator substitution of context, nonce and verification key, swapped helper shares and identifiers, another algorithm identifier; contexts of 0, 55, 66, 129, 167, 300 and 1000 bytes whose substitute differs in the last byte (Prio3 and Poplar1); Prio3 over XofHmacSha256Aes128 through the generic constructor (oracle only); recorder oracle over the whole run: two XOF invocations with different (seed, dst, binder) never give the same first 128 stream bits; single-candidate aggregation parameters in Poplar1; algorithm identifiers differing in bit 0, 9, 16, 20, 27, 31; non-trivial = all;",
        "trusted": COMMON_TRUST + ["rejection under a mismatch relies on the XOF behaving as a random oracle: the theorems show that every mismatched quantity enters a tag or binder injectively and that the nonce exception is exact; the correspondence and oracle check the outcomes"],
        "assumptions": [],
    },
    "C05": {
        "modules": ["PrioProofs.Props.C05", "PrioProofs.Props.C05Language", "PrioProofs.Props.Deployed"],
        "rule": "all circuits (Count, Sum/Average at bit-width edges, Histogram with dividing / non-dividing / oversize chunk lengths, SumVec, MultihotCountVec, L1BoundSum) x valid encodings and invalid vectors (non-bits, wrong weight, inconsistent norm, affine-only near-misses) x randomness (uniform, zeros, ones, repeats, roots of unity of the wire domain) x 1,2,3,5 shares with random and degenerate sharings x every wrong length; byte-exact proofs, verifier messages and decisions; vectors whose only defect is one non-bit entry at the first / middle / last-but-one / last position (solved from the linear relation) for Histogram, MultihotCountVec and L1BoundSum; chunk lengths that divide the vector length but not the encoded length and the reverse; prover randomness at lengths 0, 1, len-1, len+1, 2len; non-trivial = all;",
        "trusted": COMMON_TRUST,
        "assumptions": ["soundness is sampled by the oracle (honestly proved invalid inputs and altered gadget-polynomial elements are rejected under uniform randomness); it is not expressed as a probability"],
    },
    "C06": {
        "modules": ["PrioProofs.Props.C06", "PrioProofs.Props.C06Bytes"],
        "rule": "Poplar1 payloads (pairs of Field64 / Field255) with extreme and random values; bit lengths 1-5 (thorough 1-7): both parties evaluated at every prefix of every length in shuffled order against NoCache, HashMapCache and RingBufferCache of capacity 0,1,2,3,7; bit lengths 8,12,33,64: on-path, diverging-at-random-depth and random prefixes; error arguments; the model recomputes key generation and every evaluation from the recorded extend/convert table; non-trivial = all;",
        "trusted": COMMON_TRUST + ["the PRGs (fixed-key AES / TurboSHAKE128 behind extend and convert) are parameters of the theorems and a recorded table in the correspondence run"],
        "assumptions": ["payload types form commutative groups (C09 for Field64; Field255 via fiat-crypto trusted)"],
    },
    "C07": {
        "modules": ["PrioProofs.Props.C07"],
        "rule": CODEC_RULE,
        "trusted": COMMON_TRUST + ["the per-message format functions of lean/PrioModel/Messages.lean are hand-written from the Rust decoders; their agreement with the code is what the correspondence run checks"],
        "assumptions": ["serde (de)serialisation of field elements is not part of the wire codec and is not covered"],
    },
    "C08": {
        "modules": ["PrioProofs.Props.C08"],
        "rule": CODEC_RULE,
        "trusted": COMMON_TRUST + ["allocation and wall-clock bounds are measured on the real code by the harness (counting allocator, timer, watchdog); the model proves totality and panic-freedom only"],
        "assumptions": [],
    },
    "C10": {
        "modules": ["PrioProofs.Props.C10", "PrioProofs.Props.Deployed"],
        "rule": "three NTT fields: every power-of-two size up to 2^9 (thorough 2^12): all basis vectors (sizes <= 32) or four of them, random vectors, shorter (zero-padded) inputs, with and without the next-order shift; inverse of each forward transform; root powers for every size; size/capacity violations; Lagrange evaluation at random points and exactly at the nodes; extension from every partial length; doubling; multiplication; monomial helpers; range-check polynomials; Mul::eval_poly and ParallelSum::eval_poly into used (non-zero) output buffers with zero operands; non-trivial = all;",
        "trusted": COMMON_TRUST,
        "assumptions": ["the model transcribes the loops of ntt.rs/polynomial.rs over arrays; agreement with the code is by correspondence on a basis of the (linear) input space for every tested size", "the DFT theorem is over an abstract commutative ring with a root chain; the deployed tables are checked against the chain by kernel evaluation in the Nat-mod-p model of C09"],
    },
    "C11": {
        "modules": ["PrioProofs.Props.C11"],
        "posthash": True,
        "rule": "tapes with a planted rejection at every chunk position across two buffer refills, double/triple rejections around positions 30-33 and 62-65, a run of 40 rejections, random patterns, for all four fields and three output lengths; field switch Field64->Field255 (hook) on tapes with planted rejections; unbuffered sampler; 3 XOFs x tag/binder lengths {0,1,8,9,40,200}x{0,1,16,17,100} with random splittings and read sizes (the model's absorbed message is hashed with the raw turboshake/hmac/aes crates and must reproduce the library's stream); fixed-key stream under read-size sequences incl. 0, 1, 15-17, 16; word reads (next_u32 / next_u64) interleaved with byte reads on every XOF stream; oracle on the field switch: outputs = successive accepted chunks of the tape; non-trivial = all;",
        "trusted": COMMON_TRUST + ["TurboSHAKE128, HMAC-SHA256, AES-128 and CTR mode (turboshake, hmac, sha2, aes, ctr crates): modelled as functions of the absorbed message / as position-determined streams"],
        "assumptions": ["`Update::update` of the hash crates is concatenative; the TurboSHAKE reader and AES-CTR keystream are position-determined (checked by the oracle on random read sizes, not proved)"],
    },
    "C12": {
        "modules": ["PrioProofs.Props.C12"],
        "rule": "instrumented order-sensitive aggregator with 1-4 rounds: every delivery sequence of depth 4 (thorough 5) over {correct, bit-flipped, truncated, re-typed to each of the three kinds, stale/replayed}, each followed by correct deliveries to completion, with a persist-reload-evaluate of every continuation; Prio3Sum and Poplar1 honest ping-pong runs against the broadcast execution; delivery kind 'p' (embedded payload followed by an extra byte) in every script position; Prio3 Histogram / SumVec (2 proofs) / MultihotCountVec / L1BoundSum and Poplar1 through ping-pong against broadcast, padded round-two shares; non-trivial = all scripts (each exercises a distinct delivery history);",
        "trusted": COMMON_TRUST + ["the toy aggregator is implemented twice (Rust trait impl and Lean) from one specification"],
        "assumptions": ["crash/restart is modelled as encode -> decode -> evaluate of the continuation; the storage layer is outside the library"],
    },
    "C13": {
        "modules": ["PrioProofs.Props.C13"],
        "rule": "random multisets of 1-7 output shares of length 0-5 over four fields (extremes 0 and p-1 with probability 1/4), random permutation, random partition into batches, random merge-tree shape and merge direction, pairwise merges with length mismatch in 1/3 of the cases, Poplar1FieldVec kind/length mismatches; Aggregator::aggregate with a wrong-shape share at every position of the batch (Prio3Histogram, Poplar1 inner and leaf); non-trivial = all;",
        "trusted": COMMON_TRUST,
        "assumptions": ["field addition is a commutative monoid (C09 for the macro fields; Field255 via fiat-crypto is trusted)"],
    },
    "C20": {
        "modules": ["PrioProofs.Props.C20"],
        "rule": "exhaustive for 2-bit inputs (every non-empty prefix set at every level x every history of length <= 2), every (current, last) pair for 3-bit inputs (quick: every 5th), sampled histories of length 2-4, refinement walks over 12-bit inputs with perturbed and reordered histories; constructor on every ordered list of <= 3 prefixes from a pool with duplicates / mixed lengths / empty prefix, lengths 65535..65537, random lists; deep histories over 200-bit inputs with one to three candidates per level and steps landing on and around levels 31/32, 63/64, 127/128 (honest, off-ancestor, unrelated, repeated level); non-trivial = all;",
        "trusted": COMMON_TRUST + ["bitvec's Ord on bit slices (lexicographic, then length) as read in the vendored source"],
        "assumptions": [],
    },
    "C09": {
        "modules": ["PrioProofs.Props.C09", "PrioProofs.Props.C09Inv"],
        "rule": "operand lattice (0,1,2,3,p-3..p-1,(p±1)/2,2^k,2^k±1,limb masks,R mod p) x itself, random and low-weight operands, every operand pair of the 8-bit instantiation; Field255 (oracle only): arithmetic, byte and u64 conversions on a lattice around 2^64, 2^128, 2^192, p and random values, non-canonical encodings (top bit, >= p) through both byte conversions; root(l) for l = 0..70: a root of exact order 2^l for l <= 20 and None beyond, never a panic; non-trivial = all (every case exercises the limb code);",
        "trusted": COMMON_TRUST + ["Field255 limb code (fiat-crypto) is outside this check"],
        "assumptions": ["the hook instantiations FP8/FP16S run the same generic code as FP32/FP64/FP128 (they are produced by the same macros)"],
    },
}
