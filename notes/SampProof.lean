import Proto.Samp
import Mathlib.Algebra.BigOperators.Group.Finset.Basic
import Mathlib.Algebra.BigOperators.Ring.Finset
import Mathlib.Algebra.BigOperators.Field
import Mathlib.Algebra.BigOperators.Intervals
import Mathlib.Data.Rat.Defs
import Mathlib.Tactic.FieldSimp
import Mathlib.Tactic.Ring
import Mathlib.Tactic.Linarith
import Mathlib.Algebra.Order.Field.Rat

open Finset BigOperators

namespace Samp

/-- exact probability mass of the outcomes satisfying `P`. -/
def mass {α : Type} : Samp α → (α → Bool) → ℚ
  | .pure a, P => if P a then 1 else 0
  | .unif n k, P => (∑ i ∈ range n, mass (k i) P) / n

theorem mass_bind_bool {β : Type} (m : Samp Bool) (f : Bool → Samp β) (P : β → Bool) :
    mass (bind m f) P = mass m (fun b => b) * mass (f true) P + mass m (fun b => !b) * mass (f false) P := by
  induction m with
  | pure a => cases a <;> simp [bind, mass]
  | unif n k ih =>
    simp only [bind, mass]
    simp_rw [ih]
    rw [sum_add_distrib, ← sum_mul, ← sum_mul]
    ring

theorem card_le (num den : Nat) (h : num ≤ den) :
    (∑ i ∈ range den, (if decide (i + 1 ≤ num) = true then (1:ℚ) else 0)) = num := by
  induction den with
  | zero => simp at h; simp [h]
  | succ d ih =>
    rw [sum_range_succ]
    by_cases hd : num ≤ d
    · rw [ih hd]; simp; omega
    · have : num = d + 1 := by omega
      subst this
      have h1 : ∀ i ∈ range d, (if decide (i + 1 ≤ d + 1) = true then (1:ℚ) else 0) = 1 := by
        intro i hi; simp at hi; simp; omega
      rw [sum_congr rfl h1]; simp

theorem bernoulli_true (num den : Nat) (hd : 0 < den) (h : num ≤ den) :
    mass (bernoulli num den) (fun b => b) = (num : ℚ) / den := by
  simp only [bernoulli, mass]
  rw [card_le num den h]


theorem bernoulli_false (num den : Nat) (hd : 0 < den) (h : num ≤ den) :
    mass (bernoulli num den) (fun b => !b) = 1 - (num : ℚ) / den := by
  simp only [bernoulli, mass]
  have hden : (den : ℚ) ≠ 0 := by exact_mod_cast hd.ne'
  have e : ∀ i ∈ range den, (if (!decide (i + 1 ≤ num)) = true then (1:ℚ) else 0)
      = 1 - (if decide (i + 1 ≤ num) = true then (1:ℚ) else 0) := by
    intro i _; by_cases hi : i + 1 ≤ num <;> simp [hi]
  rw [sum_congr rfl e, sum_sub_distrib, card_le num den h]
  simp
  field_simp

/-- probability of `j` consecutive successes of Bernoulli(γ/(k+i)), i < j. -/
def run (γ : ℚ) (k j : Nat) : ℚ := ∏ i ∈ range j, γ / ((k + i : Nat) : ℚ)

theorem run_succ (γ : ℚ) (k j : Nat) : run γ k (j+1) = γ / (k : ℚ) * run γ (k+1) j := by
  unfold run
  rw [prod_range_succ']
  simp only [Nat.add_zero]
  rw [mul_comm]
  congr 1
  apply prod_congr rfl
  intro i _
  congr 2
  omega

def T : Option Bool → Bool := fun o => o == some true

/-- closed form of the mass of `true` after at most `f` iterations starting at loop index `k`. -/
def closed (γ : ℚ) (f k : Nat) : ℚ :=
  ∑ j ∈ range f, run γ k j * (1 - γ / ((k + j : Nat) : ℚ)) * (if (k + j) % 2 = 1 then 1 else 0)

theorem bexp1_true (num den : Nat) (hd : 0 < den) (h : num ≤ den) :
    ∀ f k, 0 < k → mass (bexp1 num den f k) T = closed ((num : ℚ) / den) f k := by
  intro f
  induction f with
  | zero => intro k _; simp [bexp1, mass, closed, T]
  | succ f ih =>
    intro k hk
    have hdk : 0 < den * k := Nat.mul_pos hd hk
    have hle : num ≤ den * k := le_trans h (Nat.le_mul_of_pos_right _ hk)
    have hden : (den : ℚ) ≠ 0 := by exact_mod_cast hd.ne'
    have hkq : (k : ℚ) ≠ 0 := by exact_mod_cast hk.ne'
    simp only [bexp1]
    rw [mass_bind_bool, bernoulli_true num (den * k) hdk hle, bernoulli_false num (den * k) hdk hle]
    simp only [if_true, Bool.false_eq_true, if_false]
    rw [ih (k+1) (by omega)]
    have hg : ((num : ℚ) / ((den * k : Nat) : ℚ)) = (num : ℚ) / den / k := by
      push_cast; field_simp
    rw [hg]
    unfold closed
    rw [sum_range_succ' _ f]
    simp only [run, prod_range_zero, Nat.add_zero, range_zero]
    have hshift : ∀ j ∈ range f,
        run ((num:ℚ)/den) k (j+1) * (1 - (num:ℚ)/den / ((k + (j+1) : Nat) : ℚ))
          * (if (k + (j+1)) % 2 = 1 then 1 else 0)
        = (num:ℚ)/den / k * (run ((num:ℚ)/den) (k+1) j * (1 - (num:ℚ)/den / ((k + 1 + j : Nat) : ℚ))
          * (if (k + 1 + j) % 2 = 1 then 1 else 0)) := by
      intro j _
      rw [run_succ]
      have e : k + (j + 1) = k + 1 + j := by omega
      rw [e]; ring
    have := sum_congr rfl hshift
    simp only [run] at this
    rw [this, ← mul_sum]
    simp only [mass, T]
    by_cases hodd : k % 2 = 1 <;> simp [hodd] <;> ring

end Samp
