/-! Finite sampler programs over one primitive: a uniform draw below `n`. (prototype) -/
inductive Samp (α : Type) where
  | pure : α → Samp α
  | unif : (n : Nat) → (Nat → Samp α) → Samp α

namespace Samp
def bind {α β : Type} : Samp α → (α → Samp β) → Samp β
  | .pure a, f => f a
  | .unif n k, f => .unif n (fun i => bind (k i) f)

/-- `sample_bernoulli(num/den)`: draw `s` uniformly in `{1..den}` (here `s = i+1`), return `s ≤ num`. -/
def bernoulli (num den : Nat) : Samp Bool := .unif den (fun i => .pure (decide (i + 1 ≤ num)))

/-- `sample_bernoulli_exp1(num/den)` from loop index `k`, with fuel. `none` = fuel exhausted. -/
def bexp1 (num den : Nat) : Nat → Nat → Samp (Option Bool)
  | 0, _ => .pure none
  | f+1, k => bind (bernoulli num (den * k)) fun b =>
      if b then bexp1 num den f (k+1) else .pure (some (decide (k % 2 = 1)))
end Samp
