/-! Single-word Montgomery multiplication, transcribed from src/fp/ops.rs (prototype). -/
namespace Mont

/-- `overflowing_add` on words modulo `R`: (wrapped sum, carry as 0/1). -/
def oadd (R a b : Nat) : Nat × Nat := ((a + b) % R, if R ≤ a + b then 1 else 0)
/-- `overflowing_sub` on words modulo `R`: (wrapped difference, borrow as 0/1). -/
def osub (R a b : Nat) : Nat × Nat := ((a + R - b) % R, if a < b then 1 else 0)

def mulSWR (R p mu x y : Nat) : Nat :=
  let z := x * y
  let z1 := z / R
  let z0 := z % R
  let w := (mu * z0) % R
  let r := p * w
  let r1 := r / R
  let r0 := r % R
  let carry := (oadd R z0 r0).2
  let t := z1 + r1 + carry
  let cc := t / R
  let zz := t % R
  let s0 := (osub R zz p).1
  let b0 := (osub R zz p).2
  let b1 := (osub R cc b0).2
  if b1 = 1 then zz else s0

def mulSW (W p mu x y : Nat) : Nat := mulSWR (2^W) p mu x y

end Mont
