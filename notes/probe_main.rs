use prio::codec::{Decode, Encode, ParameterizedDecode};
use prio::flp::types::{Histogram, Sum, SumVec};
use prio::flp::gadgets::{Mul, ParallelSum};
use prio::flp::{Flp, Type};
use prio::field::{Field128, Field64};
use prio::idpf::IdpfInput;
use prio::vdaf::poplar1::{Poplar1, Poplar1AggregationParam};
use prio::vdaf::prio2::Prio2;
use prio::vdaf::prio3::*;
use prio::vdaf::{Aggregator, Client};
use std::panic::catch_unwind;

fn t<R: std::fmt::Debug>(name: &str, f: impl FnOnce() -> R + std::panic::UnwindSafe) {
    match catch_unwind(f) {
        Ok(r) => { let s = format!("{:?}", r); println!("{name}: OK {}", &s[..s.len().min(160)]) }
        Err(e) => {
            let m = e.downcast_ref::<String>().cloned().or(e.downcast_ref::<&str>().map(|s| s.to_string())).unwrap_or_default();
            println!("{name}: PANIC {m}")
        }
    }
}

fn main() {
    std::panic::set_hook(Box::new(|_| {}));
    t("hist_oob", || { let h: Histogram<Field128, ParallelSum<Field128, Mul>> = Histogram::new(4, 2).unwrap(); h.encode_measurement(&4).map(|v| v.len()) });
    t("prio3hist_shard_oob", || { let v = Prio3::new_histogram(2, 4, 2).unwrap(); v.shard(b"", &7, &[0; 16]).map(|_| ()) });
    t("aggparam_decode_ffff", || Poplar1AggregationParam::get_decoded(&[0xff, 0xff, 0, 0, 0, 1, 0x80]));
    t("aggparam_decode_ffff_zero", || Poplar1AggregationParam::get_decoded(&[0xff, 0xff, 0, 0, 0, 0]));
    t("poplar_input_share_len", || {
        let v = Poplar1::new_turboshake128(4);
        let (_p, shares) = v.shard(b"", &IdpfInput::from_bools(&[true, false, true, true]), &[0; 16]).unwrap();
        (shares[0].encoded_len(), shares[0].get_encoded().unwrap().len())
    });
    t("aggparam_len_65536", || {
        let p = Poplar1AggregationParam::try_from_prefixes(vec![IdpfInput::from_bools(&vec![false; 65536])]).unwrap();
        (p.encoded_len(), p.get_encoded().map(|v| v.len()))
    });
    t("poplar_level_22000", || {
        let bits = 22010;
        let v = Poplar1::new_turboshake128(bits);
        let inp = IdpfInput::from_bools(&vec![true; bits]);
        let (p, shares) = v.shard(b"", &inp, &[0; 16]).unwrap();
        let ap = Poplar1AggregationParam::try_from_prefixes(vec![inp.prefix(22000)]).unwrap();
        let r0 = v.verify_init(&[0; 32], b"", 0, &ap, &[0; 16], &p, &shares[0]).map(|_| ());
        r0
    });
    t("prio2_new_max", || Prio2::new(usize::MAX).map(|_| ()));
    t("prio2_new_half", || Prio2::new(usize::MAX / 2).map(|_| ()));
    t("prio3_256_shares", || {
        let v = Prio3::new_count(2).unwrap();
        let (p, shares) = v.shard(b"", &true, &[0; 16]).unwrap();
        let (_s, vs) = v.verify_init(&[0; 32], b"", 0, &(), &[0; 16], &p, &shares[0]).unwrap();
        v.verifier_shares_to_message(b"", &(), std::iter::repeat(vs).take(258)).map(|_| ())
    });
    t("prio3_wrong_len_leader", || {
        let c = Prio3::new_count(2).unwrap();
        let s = Prio3::new_sum(2, 255).unwrap();
        let (p, shares) = c.shard(b"", &true, &[0; 16]).unwrap();
        s.verify_init(&[0; 32], b"", 0, &(), &[0; 16], &p, &shares[0]).map(|_| ())
    });
    t("prio3_avg_share_to_hist", || {
        let a = Prio3::new_average(2, 255).unwrap();
        let h = Prio3::new_histogram(2, 4, 2).unwrap();
        let (_p, shares) = a.shard(b"", &3, &[0; 16]).unwrap();
        let (p2, _s2) = h.shard(b"", &1, &[0; 16]).unwrap();
        h.verify_init(&[0; 32], b"", 1, &(), &[0; 16], &p2, &shares[1]).map(|_| ())
    });
    t("poplar_new0_shard", || { let v = Poplar1::new_turboshake128(0); v.shard(b"", &IdpfInput::from_bools(&[]), &[0; 16]).map(|_| ()) });
    t("sumvec_big", || SumVec::<Field128, ParallelSum<Field128, Mul>>::new(1, usize::MAX, 3).map(|_| ()));
    t("hist_big", || Histogram::<Field128, ParallelSum<Field128, Mul>>::new((u32::MAX - 1) as usize, usize::MAX).map(|h| (h.proof_len(), h.verifier_len())));
    t("sum_max_p_minus_1", || { let s = Sum::<Field64>::new(18446744069414584320).unwrap(); let e = s.encode_measurement(&18446744069414584320).unwrap(); s.truncate(e) });
}
