import Proto.Mont
import Mathlib.Tactic.Ring
import Mathlib.Tactic.Linarith
import Mathlib.Data.Nat.ModEq

namespace Mont

/-- value-level REDC fact: the reduced sum `t` satisfies `t*R = x*y + p*w` and `t < 2p`. -/
theorem redc_core (R p mu x y : Nat) (hR : 0 < R) (hp0 : 0 < p) (hpR : p < R)
    (hmu : (p * mu) % R = R - 1) (hx : x < R) (hy : y < p) :
    let z := x * y
    let w := (mu * (z % R)) % R
    let r := p * w
    let q := (z % R + r % R) / R
    (z % R + r % R = R * q) ∧ q < 2 ∧
    ((z / R + r / R + q) * R = z + r) ∧ (z / R + r / R + q < 2 * p) := by
  intro z w r q
  have hz0lt : z % R < R := Nat.mod_lt _ hR
  have hr0lt : r % R < R := Nat.mod_lt _ hR
  have hwlt : w < R := Nat.mod_lt _ hR
  have h1 : r ≡ (R - 1) * (z % R) [MOD R] := by
    have a : w ≡ mu * (z % R) [MOD R] := Nat.mod_modEq _ _
    have b : p * w ≡ p * (mu * (z % R)) [MOD R] := a.mul_left p
    have c : p * mu ≡ R - 1 [MOD R] := by
      unfold Nat.ModEq; rw [hmu]; exact (Nat.mod_eq_of_lt (by omega)).symm
    have d : p * (mu * (z % R)) = (p * mu) * (z % R) := by ring
    rw [d] at b
    exact b.trans (c.mul_right _)
  have h2 : (z % R + r % R) % R = 0 := by
    have e : z % R + r ≡ z % R + (R - 1) * (z % R) [MOD R] := h1.add_left _
    have f : z % R + (R - 1) * (z % R) = R * (z % R) := by
      have : R - 1 + 1 = R := Nat.sub_add_cancel hR
      calc z % R + (R - 1) * (z % R) = (R - 1 + 1) * (z % R) := by ring
        _ = R * (z % R) := by rw [this]
    rw [f] at e
    have g : (z % R + r) % R = 0 := by
      have := e
      unfold Nat.ModEq at this
      rw [this]; simp
    rw [Nat.add_mod, Nat.mod_mod] at g
    exact g
  have hq : z % R + r % R = R * q := by
    have := Nat.div_add_mod (z % R + r % R) R
    rw [h2] at this
    simpa using this.symm
  have hq2 : q < 2 := by
    apply Nat.div_lt_of_lt_mul
    omega
  refine ⟨hq, hq2, ?_, ?_⟩
  · have hzd := Nat.div_add_mod z R
    have hrd := Nat.div_add_mod r R
    have : (z / R + r / R + q) * R = R * (z / R) + R * (r / R) + R * q := by ring
    rw [this]
    omega
  · have hzd := Nat.div_add_mod z R
    have hrd := Nat.div_add_mod r R
    have hxy : x * y < R * p := Nat.mul_lt_mul'' hx hy
    have hpw : p * w < p * R := (Nat.mul_lt_mul_left hp0).mpr hwlt
    have hsum : (z / R + r / R + q) * R < (2 * p) * R := by
      have e : (z / R + r / R + q) * R = R * (z / R) + R * (r / R) + R * q := by ring
      rw [e]
      have : (2 * p) * R = R * p + p * R := by ring
      rw [this]
      have hz' : z = x * y := rfl
      have hr' : r = p * w := rfl
      omega
    exact Nat.lt_of_mul_lt_mul_right hsum

theorem mulSWR_spec (R p mu x y : Nat) (hR : 0 < R) (hp0 : 0 < p) (hpR : p < R)
    (hmu : (p * mu) % R = R - 1) (hx : x < R) (hy : y < p) :
    mulSWR R p mu x y < p ∧ (mulSWR R p mu x y * R) % p = (x * y) % p := by
  obtain ⟨hq, hq2, hT, hT2⟩ := redc_core R p mu x y hR hp0 hpR hmu hx hy
  have hcarry : (if R ≤ x * y % R + p * (mu * (x * y % R) % R) % R then 1 else 0)
      = (x * y % R + p * (mu * (x * y % R) % R) % R) / R := by
    generalize (x * y % R + p * (mu * (x * y % R) % R) % R) / R = q at *
    rw [hq]
    have hq01 : q = 0 ∨ q = 1 := by omega
    rcases hq01 with h | h
    · subst h; simp; omega
    · subst h; simp
  unfold mulSWR
  simp only [oadd, osub]
  simp only [hcarry]
  generalize (x * y % R + p * (mu * (x * y % R) % R) % R) / R = q at *
  generalize ht : x * y / R + p * (mu * (x * y % R) % R) / R + q = t at *
  have hmodp : (t * R) % p = (x * y) % p := by
    rw [hT]; simp
  by_cases h1 : t < p
  · have htR : t < R := by omega
    have hcc : t / R = 0 := Nat.div_eq_of_lt htR
    have hzz : t % R = t := Nat.mod_eq_of_lt htR
    simp [hcc, hzz, h1, hmodp]
  · have h1' : p ≤ t := Nat.le_of_not_lt h1
    have key : ((t - p) * R) % p = (x * y) % p := by
      have : (t - p) * R + p * R = t * R := by
        rw [← Nat.add_mul]; congr 1; omega
      rw [← hmodp, ← this]; simp
    by_cases h2 : t < R
    · have hcc : t / R = 0 := Nat.div_eq_of_lt h2
      have hzz : t % R = t := Nat.mod_eq_of_lt h2
      have hs0 : (t + R - p) % R = t - p := by
        have : t + R - p = (t - p) + R := by omega
        rw [this, Nat.add_mod_right]; exact Nat.mod_eq_of_lt (by omega)
      simp only [hcc, hzz, hs0, h1]
      simp
      exact ⟨by omega, key⟩
    · have h2' : R ≤ t := Nat.le_of_not_lt h2
      have hcc : t / R = 1 := by
        apply Nat.div_eq_of_lt_le <;> omega
      have hzz : t % R = t - R := by
        rw [Nat.mod_eq_sub_mod h2']; exact Nat.mod_eq_of_lt (by omega)
      have hlt : t - R < p := by omega
      have hs0 : (t - R + R - p) % R = t - p := by
        have : t - R + R - p = t - p := by omega
        rw [this]; exact Nat.mod_eq_of_lt (by omega)
      simp only [hcc, hzz, hs0, hlt]
      simp
      exact ⟨by omega, key⟩

theorem mulSW_spec (W p mu x y : Nat) (hp0 : 0 < p) (hpR : p < 2^W)
    (hmu : (p * mu) % 2^W = 2^W - 1) (hx : x < 2^W) (hy : y < p) :
    mulSW W p mu x y < p ∧ (mulSW W p mu x y * 2^W) % p = (x * y) % p :=
  mulSWR_spec (2^W) p mu x y (Nat.two_pow_pos W) hp0 hpR hmu hx hy

end Mont
