import Proto.Idpf
import Mathlib.Tactic.Abel
import Mathlib.Algebra.Group.Basic

namespace IdpfM
open XorLike

class LawfulXor (S : Type) [XorLike S] : Prop where
  xor_self : ∀ a : S, xor a a = zero
  xor_assoc : ∀ a b c : S, xor (xor a b) c = xor a (xor b c)
  xor_comm : ∀ a b : S, xor a b = xor b a
  xor_zero : ∀ a : S, xor a zero = a

variable {S V : Type} [XorLike S] [LawfulXor S] [AddCommGroup V]

/-- On-path step: if the parties' control bits differ, then after one level along the programmed bit
    they still differ and the output shares add up to the programmed value. -/
theorem onpath_keep (g : Prg S V) (bit : Bool) (value : V) (k0 k1 : S) (t0 t1 : Bool)
    (ht : xor t0 t1 = true) :
    let r := genLevel g bit value k0 k1 t0 t1
    let o0 := evalLevel g true r.1 bit k0 t0
    let o1 := evalLevel g false r.1 bit k1 t1
    o0.2 = r.2.1 ∧ o1.2 = r.2.2 ∧ xor r.2.1.2 r.2.2.2 = true ∧ o0.1 + o1.1 = value := by
  cases bit <;> cases t0 <;> cases t1 <;> simp at ht <;>
    simp [genLevel, evalLevel, sel, cxor, cneg] <;>
    (try cases (g.extend k0).1.2) <;> (try cases (g.extend k1).1.2) <;>
    (try cases (g.extend k0).2.2) <;> (try cases (g.extend k1).2.2) <;> simp <;> abel

end IdpfM
