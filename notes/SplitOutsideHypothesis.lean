import Proto.SplitProof
#print axioms Mont.mulSplit_spec
-- the excluded region: p > B*B - B. B = 2^8, p = 65521 (prime), mu = -p^{-1} mod 256
def B8 : Nat := 256
def p16 : Nat := 65521
def muOf (p B : Nat) : Nat := ((List.range B).find? fun m => (p * m) % B == B - 1).getD 0
def inv (a m : Nat) : Nat := Id.run do
  let mut acc := 1; let mut b := a % m; let mut e := m - 2
  for _ in [0:40] do
    if e % 2 = 1 then acc := acc * b % m
    b := b * b % m; e := e / 2
  return acc
def spec (p x y : Nat) : Nat := x * y % p * inv (B8*B8 % p) p % p
def bad (p : Nat) : List (Nat × Nat) := Id.run do
  let mu := muOf p B8
  let mut out := []
  for x in [p-300:p] do
    for y in [p-300:p] do
      if Mont.mulSplit B8 p mu x y != spec p x y then
        if out.length < 3 then out := (x,y) :: out
  return out
#eval (muOf p16 B8, bad p16)
#eval bad 65267   -- prime below 2^16 - 2^8 ?
