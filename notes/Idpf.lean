/-! One level of the IDPF (BGI16-style DPF tree with incremental payloads), transcribed from
    src/idpf.rs generate_correction_word / eval_next. Seeds are abstract (`S` with xor), payloads in an
    abstract additive group. Prototype. -/
namespace IdpfM

class XorLike (S : Type) where
  xor : S → S → S
  zero : S

variable {S V : Type} [XorLike S]

def cxor (a b : S) (c : Bool) : S := if c then XorLike.xor a b else a
def sel {α : Type} (c : Bool) (l r : α) : α := if c then r else l

structure CW (S V : Type) where
  seed : S
  cbL : Bool
  cbR : Bool
  value : V

/-- `extend`: seed ↦ ((seedL, bitL), (seedR, bitR)); `convert`: seed ↦ (next seed, payload). -/
structure Prg (S V : Type) where
  extend : S → (S × Bool) × (S × Bool)
  convert : S → S × V

variable [Add V] [Sub V] [Neg V] [Zero V]

def cneg (v : V) (c : Bool) : V := if c then -v else v

def genLevel (g : Prg S V) (bit : Bool) (value : V) (k0 k1 : S) (t0 t1 : Bool) :
    CW S V × (S × Bool) × (S × Bool) :=
  let e0 := g.extend k0
  let e1 := g.extend k1
  let keep := bit
  let lose := !bit
  let cwSeed := XorLike.xor (sel lose e0.1.1 e0.2.1) (sel lose e1.1.1 e1.2.1)
  let cbL := xor (xor (xor e0.1.2 e1.1.2) bit) true
  let cbR := xor (xor e0.2.2 e1.2.2) bit
  let cbKeep := sel keep cbL cbR
  let t0' := xor (sel keep e0.1.2 e0.2.2) (cbKeep && t0)
  let t1' := xor (sel keep e1.1.2 e1.2.2) (cbKeep && t1)
  let s0 := cxor (sel keep e0.1.1 e0.2.1) cwSeed t0
  let s1 := cxor (sel keep e1.1.1 e1.2.1) cwSeed t1
  let c0 := g.convert s0
  let c1 := g.convert s1
  let cwv := cneg (value - c0.2 + c1.2) t1'
  (⟨cwSeed, cbL, cbR, cwv⟩, (c0.1, t0'), (c1.1, t1'))

def evalLevel (g : Prg S V) (isLeader : Bool) (cw : CW S V) (bit : Bool) (k : S) (t : Bool) :
    V × (S × Bool) :=
  let e := g.extend k
  let sL := cxor e.1.1 cw.seed t
  let tL := xor e.1.2 (cw.cbL && t)
  let sR := cxor e.2.1 cw.seed t
  let tR := xor e.2.2 (cw.cbR && t)
  let s := sel bit sL sR
  let t' := sel bit tL tR
  let c := g.convert s
  let out := c.2 + (if t' then cw.value else 0)
  (cneg out (!isLeader), (c.1, t'))

end IdpfM
