import PrioProofs.Props.C09
import Mathlib.NumberTheory.LucasPrimality
import Mathlib.Data.List.Prime
import Mathlib.Data.ZMod.Basic
import Mathlib.Data.Nat.Totient
import Mathlib.FieldTheory.Finite.Basic
import Mathlib.Tactic.NormNum.Prime

/-! # Primality of the three field moduli, and correctness of field inversion

* `powMod` is a square-and-multiply modular exponentiation on `Nat` that the kernel evaluates quickly;
  `powMod_eq : powMod b e m = b ^ e % m`.
* `pratt` turns a checked Pratt certificate (`prattCheck p a factors = true`, where `factors` lists the
  prime-power factorisation of `p - 1` and the bases of the listed powers are prime) into `Nat.Prime p`,
  through Mathlib's `lucas_primality`.
* `FP32_prime`, `FP64_prime`, `FP128_prime`.
* `inv_correct` (Fermat): `P.inv a = a^(p-2)` is the multiplicative inverse, on the integers the stored words
  stand for (`P.residue`) and on the stored words themselves (`inv_mul_word`). -/
namespace FpPrime
open Gen Prio

/-! ## modular exponentiation the kernel can run -/

/-- invariant: `acc * b ^ e` modulo `m` -/
def powModAux : Nat → Nat → Nat → Nat → Nat → Nat
  | 0, _, _, _, acc => acc
  | fuel + 1, b, e, m, acc =>
    if e = 0 then acc
    else powModAux fuel (b * b % m) (e / 2) m (if e % 2 = 1 then acc * b % m else acc)

def powMod (b e m : Nat) : Nat := powModAux (Nat.log2 e + 1) b e m 1 % m

theorem powModAux_spec (fuel : Nat) : ∀ (b e m acc : Nat), e < 2 ^ fuel →
    powModAux fuel b e m acc % m = acc * b ^ e % m := by
  induction fuel with
  | zero =>
    intro b e m acc he
    have : e = 0 := by simpa using he
    subst this
    simp [powModAux]
  | succ n ih =>
    intro b e m acc he
    unfold powModAux
    by_cases h0 : e = 0
    · subst h0; simp
    · rw [if_neg h0]
      have he2 : e / 2 < 2 ^ n := by
        rw [Nat.pow_succ] at he; omega
      rw [ih _ _ _ _ he2]
      have hsq : (b * b % m) ^ (e / 2) % m = (b * b) ^ (e / 2) % m :=
        (Nat.pow_mod (b * b) (e / 2) m).symm
      have hbb : (b * b) ^ (e / 2) = b ^ (2 * (e / 2)) := by
        rw [pow_mul]; congr 1; ring
      by_cases h1 : e % 2 = 1
      · rw [if_pos h1]
        have hee : e = 2 * (e / 2) + 1 := by omega
        calc acc * b % m * (b * b % m) ^ (e / 2) % m
            = (acc * b % m) * ((b * b % m) ^ (e / 2) % m) % m := by
              rw [Nat.mul_mod, Nat.mod_mod]
          _ = (acc * b % m) * ((b * b) ^ (e / 2) % m) % m := by rw [hsq]
          _ = (acc * b) * (b * b) ^ (e / 2) % m := by rw [← Nat.mul_mod]
          _ = acc * b ^ e % m := by
              rw [hbb]; conv_rhs => rw [hee]
              congr 1; ring
      · rw [if_neg h1]
        have hee : e = 2 * (e / 2) := by omega
        calc acc * (b * b % m) ^ (e / 2) % m
            = (acc % m) * ((b * b % m) ^ (e / 2) % m) % m := by rw [← Nat.mul_mod]
          _ = (acc % m) * ((b * b) ^ (e / 2) % m) % m := by rw [hsq]
          _ = acc * (b * b) ^ (e / 2) % m := by rw [← Nat.mul_mod]
          _ = acc * b ^ e % m := by rw [hbb, ← hee]

theorem powMod_eq (b e m : Nat) : powMod b e m = b ^ e % m := by
  unfold powMod
  have hlt : e < 2 ^ (Nat.log2 e + 1) := Nat.lt_log2_self
  rw [powModAux_spec _ _ _ _ _ hlt, one_mul]

/-! ## Pratt certificates -/

/-- `factors` is a list of `(q, k)`; the check: `p - 1 = ∏ q^k`, `a^(p-1) = 1`, `a^((p-1)/q) ≠ 1` modulo `p` -/
def prattCheck (p a : Nat) (factors : List (Nat × Nat)) : Bool :=
  decide (1 < p) && ((factors.map fun x => x.1 ^ x.2).prod == p - 1) && (powMod a (p - 1) p == 1) &&
    factors.all fun x => powMod a ((p - 1) / x.1) p != 1

theorem zmod_pow_eq_one_iff (p a k : Nat) (hp : 1 < p) :
    ((a : ZMod p) ^ k = 1) ↔ powMod a k p = 1 := by
  rw [powMod_eq]
  have h1 : (1 : ZMod p) = ((1 : Nat) : ZMod p) := by simp
  rw [h1, ← Nat.cast_pow, ZMod.natCast_eq_natCast_iff', Nat.mod_eq_of_lt hp]

theorem pratt (p a : Nat) (factors : List (Nat × Nat)) (hq : ∀ x ∈ factors, Nat.Prime x.1)
    (h : prattCheck p a factors = true) : Nat.Prime p := by
  unfold prattCheck at h
  simp only [Bool.and_eq_true, decide_eq_true_eq, beq_iff_eq, List.all_eq_true, bne_iff_ne, ne_eq] at h
  obtain ⟨⟨⟨hp, hprod⟩, hone⟩, hall⟩ := h
  refine lucas_primality p (a : ZMod p) ((zmod_pow_eq_one_iff p a _ hp).2 hone) ?_
  intro q hqp hdvd
  rw [← hprod] at hdvd
  obtain ⟨y, hy, hqy⟩ := (Prime.dvd_prod_iff hqp.prime).1 hdvd
  obtain ⟨x, hx, rfl⟩ := List.mem_map.1 hy
  have hqx : q ∣ x.1 := hqp.dvd_of_dvd_pow hqy
  have heq : q = x.1 := (Nat.prime_dvd_prime_iff_eq hqp (hq x hx)).1 hqx
  rw [heq, Ne, zmod_pow_eq_one_iff p a _ hp]
  exact hall x hx

/-! ## the moduli -/

theorem prime_125714447 : Nat.Prime 125714447 :=
  pratt 125714447 5 [(2, 1), (11, 1), (13, 1), (41, 1), (71, 1), (151, 1)]
    (by simp only [List.mem_cons, List.not_mem_nil, or_false]
        rintro x (rfl | rfl | rfl | rfl | rfl | rfl) <;> norm_num)
    (by decide +kernel)

theorem prime_440340496364689 : Nat.Prime 440340496364689 :=
  pratt 440340496364689 11 [(2, 4), (3, 1), (72973, 1), (125714447, 1)]
    (by simp only [List.mem_cons, List.not_mem_nil, or_false]
        rintro x (rfl | rfl | rfl | rfl)
        · norm_num
        · norm_num
        · norm_num
        · exact prime_125714447)
    (by decide +kernel)

/-- `2^32 − 2^20 + 1`; `p − 1 = 2^20 · 3^2 · 5 · 7 · 13`, generator 19 -/
theorem FP32_prime : Nat.Prime Gen.FP32.prime :=
  pratt 4293918721 19 [(2, 20), (3, 2), (5, 1), (7, 1), (13, 1)]
    (by simp only [List.mem_cons, List.not_mem_nil, or_false]
        rintro x (rfl | rfl | rfl | rfl | rfl) <;> norm_num)
    (by decide +kernel)

/-- `2^64 − 2^32 + 1`; `p − 1 = 2^32 · 3 · 5 · 17 · 257 · 65537`, generator 7 -/
theorem FP64_prime : Nat.Prime Gen.FP64.prime :=
  pratt 18446744069414584321 7 [(2, 32), (3, 1), (5, 1), (17, 1), (257, 1), (65537, 1)]
    (by simp only [List.mem_cons, List.not_mem_nil, or_false]
        rintro x (rfl | rfl | rfl | rfl | rfl | rfl) <;> norm_num)
    (by decide +kernel)

/-- `2^66 · (2^62 − 7) + 1`; `p − 1 = 2^66 · 3 · 3491 · 440340496364689`, generator 7 -/
theorem FP128_prime : Nat.Prime Gen.FP128.prime :=
  pratt 340282366920938462946865773367900766209 7 [(2, 66), (3, 1), (3491, 1), (440340496364689, 1)]
    (by simp only [List.mem_cons, List.not_mem_nil, or_false]
        rintro x (rfl | rfl | rfl | rfl)
        · norm_num
        · norm_num
        · norm_num
        · exact prime_440340496364689)
    (by decide +kernel)

theorem FP64_prime_eq : Gen.FP64.prime = 2 ^ 64 - 2 ^ 32 + 1 := by decide +kernel
theorem FP128_prime_eq : Gen.FP128.prime = 2 ^ 66 * (2 ^ 62 - 7) + 1 := by decide +kernel

/-! ## inversion -/

open Props.C09

theorem inv_reduced {P : FpParams} (h : P.wf = true) {a : Nat} (ha : a < P.prime) :
    P.inv a < P.prime := (pow_correct h ha _).1

/-- a well-formed prime modulus is at least 3 (Montgomery form needs it odd) -/
theorem three_le_prime {P : FpParams} (h : P.wf = true) (hp : Nat.Prime P.prime) : 3 ≤ P.prime := by
  have hm := FpParams.isMont h
  have h2 := hp.two_le
  by_contra hlt
  have e2 : P.prime = 2 := by omega
  have hcop := hm.cop
  have hlt := hm.p_lt
  rw [e2] at hcop hlt
  unfold FpParams.R at hcop hlt
  have hb : P.bits ≠ 0 := by
    intro hb; rw [hb] at hlt; omega
  have : 2 ∣ Nat.gcd 2 (2 ^ P.bits) := Nat.dvd_gcd (dvd_refl 2) (dvd_pow_self 2 hb)
  rw [hcop] at this
  omega

/-- Fermat: `inv a = a^(p-2)` is the inverse of `a`, on the integers the words stand for -/
theorem inv_correct {P : FpParams} (h : P.wf = true) (hp : Nat.Prime P.prime) {a : Nat} (ha : a < P.prime)
    (hne : P.residue a ≠ 0) : (P.residue (P.inv a) * P.residue a) % P.prime = 1 := by
  have hm := FpParams.isMont h
  have hr : P.residue a < P.prime := to_int_reduced h (lt_trans ha hm.p_lt)
  have hcop : Nat.Coprime (P.residue a) P.prime :=
    ((Nat.Prime.coprime_iff_not_dvd hp).2
      (Nat.not_dvd_of_pos_of_lt (Nat.pos_of_ne_zero hne) hr)).symm
  have hf : (P.residue a) ^ (P.prime - 1) % P.prime = 1 := by
    have := Nat.ModEq.pow_totient hcop
    rw [Nat.totient_prime hp] at this
    unfold Nat.ModEq at this
    rw [this, Nat.mod_eq_of_lt hm.p_gt]
  have h3 := three_le_prime h hp
  unfold FpParams.inv
  rw [(pow_correct h ha _).2, Nat.mod_mul_mod, ← pow_succ]
  have : P.prime - 1 - 1 + 1 = P.prime - 1 := by omega
  rw [this]
  exact hf

/-- the other case: the inverse of zero is zero (`p − 2 ≥ 1`) -/
theorem inv_zero {P : FpParams} (h : P.wf = true) (hp : Nat.Prime P.prime) {a : Nat} (ha : a < P.prime)
    (hz : P.residue a = 0) : P.residue (P.inv a) = 0 := by
  have h3 := three_le_prime h hp
  unfold FpParams.inv
  rw [(pow_correct h ha _).2, hz, zero_pow (by omega), Nat.zero_mod]

/-- the same on stored words: `mul (inv a) a = one` -/
theorem inv_mul_word {P : FpParams} (h : P.wf = true) (hp : Nat.Prime P.prime) {a : Nat} (ha : a < P.prime)
    (hne : P.residue a ≠ 0) : P.mul (P.inv a) a = P.one := by
  have hm := FpParams.isMont h
  have hi := inv_reduced h ha
  have hone : P.one < P.prime := by
    rw [FpParams.one_ok h]; exact Nat.mod_lt _ (by have := hm.p_gt; omega)
  apply repr_injective h (mul_reduced h (lt_trans hi hm.p_lt) ha) hone
  rw [mul_correct h hi ha, inv_correct h hp ha hne, one_correct h]

/-- the inverse is unique: any reduced word `b` with `b · a = 1` is `inv a` -/
theorem inv_unique {P : FpParams} (h : P.wf = true) (hp : Nat.Prime P.prime) {a b : Nat} (ha : a < P.prime)
    (hb : b < P.prime) (hba : (P.residue b * P.residue a) % P.prime = 1) : b = P.inv a := by
  have hm := FpParams.isMont h
  have hi := inv_reduced h ha
  have hne : P.residue a ≠ 0 := by
    intro hz; rw [hz] at hba; simp at hba
  have hia := inv_correct h hp ha hne
  have hrb : P.residue b < P.prime := to_int_reduced h (lt_trans hb hm.p_lt)
  have hri : P.residue (P.inv a) < P.prime := to_int_reduced h (lt_trans hi hm.p_lt)
  apply repr_injective h hb hi
  -- b = b * (a * inv a) = (b * a) * inv a = inv a   (mod p)
  have e1 : P.residue b * (P.residue (P.inv a) * P.residue a) ≡ P.residue b * 1 [MOD P.prime] :=
    Nat.ModEq.mul_left _ (by unfold Nat.ModEq; rw [hia, Nat.mod_eq_of_lt hm.p_gt])
  have e2 : P.residue (P.inv a) * (P.residue b * P.residue a) ≡ P.residue (P.inv a) * 1 [MOD P.prime] :=
    Nat.ModEq.mul_left _ (by unfold Nat.ModEq; rw [hba, Nat.mod_eq_of_lt hm.p_gt])
  have e3 : P.residue b * (P.residue (P.inv a) * P.residue a)
      = P.residue (P.inv a) * (P.residue b * P.residue a) := by ring
  rw [e3] at e1
  have : P.residue b ≡ P.residue (P.inv a) [MOD P.prime] := by
    have := e1.symm.trans e2
    simpa using this
  exact eq_of_modEq_lt this hrb hri

theorem FP32_inv_correct {a : Nat} (ha : a < FP32.prime) (hne : FP32.residue a ≠ 0) :
    (FP32.residue (FP32.inv a) * FP32.residue a) % FP32.prime = 1 :=
  inv_correct FP32_wf FP32_prime ha hne

theorem FP64_inv_correct {a : Nat} (ha : a < FP64.prime) (hne : FP64.residue a ≠ 0) :
    (FP64.residue (FP64.inv a) * FP64.residue a) % FP64.prime = 1 :=
  inv_correct FP64_wf FP64_prime ha hne

theorem FP128_inv_correct {a : Nat} (ha : a < FP128.prime) (hne : FP128.residue a ≠ 0) :
    (FP128.residue (FP128.inv a) * FP128.residue a) % FP128.prime = 1 :=
  inv_correct FP128_wf FP128_prime ha hne

theorem FP32_inv_zero {a : Nat} (ha : a < FP32.prime) (hz : FP32.residue a = 0) :
    FP32.residue (FP32.inv a) = 0 := inv_zero FP32_wf FP32_prime ha hz
theorem FP64_inv_zero {a : Nat} (ha : a < FP64.prime) (hz : FP64.residue a = 0) :
    FP64.residue (FP64.inv a) = 0 := inv_zero FP64_wf FP64_prime ha hz
theorem FP128_inv_zero {a : Nat} (ha : a < FP128.prime) (hz : FP128.residue a = 0) :
    FP128.residue (FP128.inv a) = 0 := inv_zero FP128_wf FP128_prime ha hz

theorem FP32_inv_mul_word {a : Nat} (ha : a < FP32.prime) (hne : FP32.residue a ≠ 0) :
    FP32.mul (FP32.inv a) a = FP32.one := inv_mul_word FP32_wf FP32_prime ha hne
theorem FP64_inv_mul_word {a : Nat} (ha : a < FP64.prime) (hne : FP64.residue a ≠ 0) :
    FP64.mul (FP64.inv a) a = FP64.one := inv_mul_word FP64_wf FP64_prime ha hne
theorem FP128_inv_mul_word {a : Nat} (ha : a < FP128.prime) (hne : FP128.residue a ≠ 0) :
    FP128.mul (FP128.inv a) a = FP128.one := inv_mul_word FP128_wf FP128_prime ha hne

-- #print axioms FP32_prime
-- #print axioms FP64_prime
-- #print axioms FP128_prime
-- #print axioms inv_correct
-- #print axioms inv_zero
-- #print axioms inv_mul_word
-- #print axioms inv_unique
-- #print axioms FP128_inv_correct

end FpPrime
