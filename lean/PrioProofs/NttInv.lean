import PrioProofs.NttDft
import Mathlib.Algebra.Ring.GeomSum
import Mathlib.Algebra.Field.Basic
import Mathlib.RingTheory.RootsOfUnity.PrimitiveRoots
import Mathlib.Tactic.LinearCombination

/-! The inverse NTT of `src/ntt.rs` (`ntt_inv` = `ntt_internal` followed by `ntt_inv_finish`) inverts
    the discrete Fourier transform. -/
namespace Prio.Ntt
open Finset BigOperators

variable {F : Type} [Field F]

/-! ## Part 1: the finishing step -/

/-- the swap loop of `ntt_inv_finish`: after `m` iterations positions `1..m` and `n-m..n-1` hold the
    scaled mirror image, everything else is as before -/
theorem finish_loop (a0 : Array F) (n h : Nat) (s : F) (hn : n = 2 * h) (hs : n ≤ a0.size) :
    ∀ m, m + 1 ≤ h →
      ((List.range m).foldl (fun (a : Array F) k =>
        (a.setIfInBounds (k + 1) (a.getD (n - (k + 1)) 0 * s)).setIfInBounds (n - (k + 1))
          (a.getD (k + 1) 0 * s)) a0).size = a0.size ∧
      ∀ p, ((List.range m).foldl (fun (a : Array F) k =>
        (a.setIfInBounds (k + 1) (a.getD (n - (k + 1)) 0 * s)).setIfInBounds (n - (k + 1))
          (a.getD (k + 1) 0 * s)) a0).getD p 0 =
        if (1 ≤ p ∧ p ≤ m) ∨ (n - m ≤ p ∧ p < n) then a0.getD (n - p) 0 * s else a0.getD p 0 := by
  intro m
  induction m with
  | zero =>
    intro _
    refine ⟨rfl, fun p => ?_⟩
    rw [if_neg (by omega)]; rfl
  | succ m ih =>
    intro hm
    obtain ⟨s1, s2⟩ := ih (by omega)
    rw [List.range_succ, List.foldl_append]
    simp only [List.foldl_cons, List.foldl_nil]
    refine ⟨by rw [Array.size_setIfInBounds, Array.size_setIfInBounds, s1], ?_⟩
    intro p
    generalize (List.foldl (fun (a : Array F) k =>
        (a.setIfInBounds (k + 1) (a.getD (n - (k + 1)) 0 * s)).setIfInBounds (n - (k + 1))
          (a.getD (k + 1) 0 * s)) a0 (List.range m)) = r at s1 s2 ⊢
    have v1 : r.getD (m + 1) 0 = a0.getD (m + 1) 0 := by rw [s2, if_neg (by omega)]
    have v2 : r.getD (n - (m + 1)) 0 = a0.getD (n - (m + 1)) 0 := by rw [s2, if_neg (by omega)]
    rw [getD_set _ _ p, getD_set _ _ p, Array.size_setIfInBounds, s1, v1, v2, s2 p]
    by_cases c1 : n - (m + 1) = p
    · rw [if_pos ⟨c1, by omega⟩, if_pos (by omega)]
      have : n - p = m + 1 := by omega
      rw [this]
    · rw [if_neg (fun hh => c1 hh.1)]
      by_cases c2 : m + 1 = p
      · rw [if_pos ⟨c2, by omega⟩, if_pos (by omega), ← c2]
      · rw [if_neg (fun hh => c2 hh.1)]
        by_cases c3 : (1 ≤ p ∧ p ≤ m) ∨ (n - m ≤ p ∧ p < n)
        · rw [if_pos c3, if_pos (by omega)]
        · rw [if_neg c3, if_neg (by omega)]

/-- `ntt_inv_finish` for an even size `n = 2 h ≥ 2` -/
theorem nttInvFinish_even (a : Array F) (n h : Nat) (hn : n = 2 * h) (hh : 1 ≤ h) (s : F) (hs : n ≤ a.size) :
    (nttInvFinish a n s).size = a.size ∧
    (∀ j, j < n → (nttInvFinish a n s).getD j 0 = a.getD ((n - j) % n) 0 * s) ∧
    (∀ j, n ≤ j → (nttInvFinish a n s).getD j 0 = a.getD j 0) := by
  unfold nttInvFinish
  have hh2 : n / 2 = h := by omega
  simp only [hh2]
  set a0 := (a.setIfInBounds 0 (a.getD 0 0 * s)).setIfInBounds h
    ((a.setIfInBounds 0 (a.getD 0 0 * s)).getD h 0 * s) with ha0
  have hsz0 : a0.size = a.size := by simp [ha0]
  have hv0 : ∀ p, a0.getD p 0 = if p = 0 ∨ p = h then a.getD p 0 * s else a.getD p 0 := by
    intro p
    have v1 : (a.setIfInBounds 0 (a.getD 0 0 * s)).getD h 0 = a.getD h 0 := by
      rw [getD_set, if_neg (by omega)]
    rw [ha0, v1, getD_set _ _ p, getD_set _ _ p, Array.size_setIfInBounds]
    by_cases c1 : h = p
    · rw [if_pos ⟨c1, by omega⟩, if_pos (Or.inr c1.symm), c1]
    · rw [if_neg (fun hh => c1 hh.1)]
      by_cases c2 : 0 = p
      · rw [if_pos ⟨c2, by omega⟩, if_pos (Or.inl c2.symm), ← c2]
      · rw [if_neg (fun hh => c2 hh.1), if_neg (by omega)]
  obtain ⟨s1, s2⟩ := finish_loop a0 n h s hn (by omega) (h - 1) (by omega)
  refine ⟨by rw [s1, hsz0], ?_, ?_⟩
  · intro j hj
    rw [s2 j]
    by_cases c : (1 ≤ j ∧ j ≤ h - 1) ∨ (n - (h - 1) ≤ j ∧ j < n)
    · rw [if_pos c, hv0, if_neg (by omega)]
      have : (n - j) % n = n - j := Nat.mod_eq_of_lt (by omega)
      rw [this]
    · rw [if_neg c, hv0, if_pos (by omega)]
      have : (n - j) % n = j := by
        rcases (by omega : j = 0 ∨ j = h) with e | e
        · subst e; simp
        · have : n - j = j := by omega
          rw [this]; exact Nat.mod_eq_of_lt hj
      rw [this]
  · intro j hj
    rw [s2 j, if_neg (by omega), hv0, if_neg (by omega)]

/-- **the finishing step reverses the indices modulo the size and scales** -/
theorem nttInvFinish_spec (a : Array F) (d : Nat) (hd : 1 ≤ d) (s : F) (hs : 2 ^ d ≤ a.size) :
    (nttInvFinish a (2 ^ d) s).size = a.size ∧
    (∀ j, j < 2 ^ d → (nttInvFinish a (2 ^ d) s).getD j 0 = a.getD ((2 ^ d - j) % 2 ^ d) 0 * s) ∧
    (∀ j, 2 ^ d ≤ j → (nttInvFinish a (2 ^ d) s).getD j 0 = a.getD j 0) := by
  have e : 2 ^ d = 2 * 2 ^ (d - 1) := by
    have : d = (d - 1) + 1 := by omega
    conv_lhs => rw [this, pow_succ]
    ring
  exact nttInvFinish_even a (2 ^ d) (2 ^ (d - 1)) e (Nat.pow_pos (by norm_num)) s hs

/-- size 1: position 0 is multiplied by the scale twice (the two unconditional writes of
    `ntt_inv_finish` coincide), the rest is untouched -/
theorem nttInvFinish_one (a : Array F) (s : F) :
    (nttInvFinish a 1 s).size = a.size ∧
    (0 < a.size → (nttInvFinish a 1 s).getD 0 0 = a.getD 0 0 * s * s) ∧
    (∀ j, 1 ≤ j → (nttInvFinish a 1 s).getD j 0 = a.getD j 0) := by
  unfold nttInvFinish
  simp only [Nat.reduceDiv, Nat.zero_sub, List.range_zero, List.foldl_nil]
  refine ⟨by simp, ?_, ?_⟩
  · intro h0
    rw [getD_set _ _ 0, Array.size_setIfInBounds, if_pos ⟨rfl, h0⟩, getD_set _ _ 0, if_pos ⟨rfl, h0⟩]
  · intro j hj
    rw [getD_set _ _ j, if_neg (by omega), getD_set _ _ j, if_neg (by omega)]

/-! ## Part 2: the nodes `ω_d^i` are distinct and orthogonal -/

/-- `ω d` has exact order `2^d` (when `2 ≠ 0`, i.e. `-1 ≠ 1`) -/
theorem Roots.isPrimitiveRoot {ω : Nat → F} {d : Nat} (h : Roots ω d) (h2 : (2 : F) ≠ 0) (hd : 1 ≤ d) :
    IsPrimitiveRoot (ω d) (2 ^ d) := by
  rw [IsPrimitiveRoot.iff_orderOf]
  have e : d = (d - 1) + 1 := by omega
  have hnot : ¬ ω d ^ 2 ^ (d - 1) = 1 := by
    rw [h.pow_half d hd (le_refl d)]
    intro h'
    exact h2 (by linear_combination -h')
  have hfin : ω d ^ 2 ^ (d - 1 + 1) = 1 := by
    rw [← e]; exact h.pow_full hd d (le_refl d)
  have := orderOf_eq_prime_pow (p := 2) hnot hfin
  rw [← e] at this
  exact this

theorem geom_zero (x : F) (n : Nat) (hx : x ^ n = 1) (hx1 : x ≠ 1) : ∑ t ∈ range n, x ^ t = 0 := by
  have := mul_geom_sum x n
  rw [hx, sub_self] at this
  exact (mul_eq_zero.mp this).resolve_left (sub_ne_zero.mpr hx1)

/-- **orthogonality of the nodes** -/
theorem roots_orthogonal {ω : Nat → F} {d : Nat} (h : Roots ω d) (h2 : (2 : F) ≠ 0) (m : Nat)
    (hm0 : 0 < m) (hm : m < 2 ^ d) : ∑ k ∈ range (2 ^ d), (ω d ^ m) ^ k = 0 := by
  have hd : 1 ≤ d := by
    rcases Nat.eq_zero_or_pos d with e | e
    · subst e; simp at hm; omega
    · exact e
  have hp := h.isPrimitiveRoot h2 hd
  apply geom_zero
  · rw [← pow_mul, mul_comm, pow_mul, h.pow_full hd d (le_refl d), one_pow]
  · intro h1
    have := Nat.le_of_dvd hm0 ((hp.pow_eq_one_iff_dvd m).mp h1)
    omega

/-- **the nodes are distinct** -/
theorem roots_distinct {ω : Nat → F} {d : Nat} (h : Roots ω d) (h2 : (2 : F) ≠ 0) (i j : Nat)
    (hi : i < 2 ^ d) (hj : j < 2 ^ d) (hij : ω d ^ i = ω d ^ j) : i = j := by
  rcases Nat.eq_zero_or_pos d with e | e
  · subst e; simp at hi hj; omega
  · exact (h.isPrimitiveRoot h2 e).pow_inj hi hj hij

/-! ## Part 3: the algebra of inversion, for an abstract node generator `w` of order `n` -/

section core
variable (w : F) (n : Nat) (hn : 0 < n) (hw : w ^ n = 1)
  (hinj : ∀ i j, i < n → j < n → w ^ i = w ^ j → i = j)
include hn hw

theorem core_ne_zero : w ≠ 0 := by
  intro h0
  rw [h0, zero_pow (by omega)] at hw
  exact zero_ne_one hw

omit hn in
/-- the index reversal is inversion of the node -/
theorem core_neg (t : Nat) (ht : t < n) : w ^ ((n - t) % n) = (w ^ t)⁻¹ := by
  apply eq_inv_of_mul_eq_one_left
  rw [← pow_add]
  rcases Nat.eq_zero_or_pos t with e | e
  · subst e; simp
  · rw [Nat.mod_eq_of_lt (by omega), Nat.sub_add_cancel (by omega), hw]

include hinj

theorem core_sum (i k : Nat) (hi : i < n) (hk : k < n) :
    ∑ t ∈ range n, (w ^ i * (w ^ k)⁻¹) ^ t = if i = k then (n : F) else 0 := by
  have hw0 := core_ne_zero w n hn hw
  by_cases c : i = k
  · subst c
    rw [if_pos rfl, mul_inv_cancel₀ (pow_ne_zero _ hw0)]
    simp
  · rw [if_neg c]
    apply geom_zero
    · rw [mul_pow, inv_pow, ← pow_mul, ← pow_mul, mul_comm i, mul_comm k, pow_mul, pow_mul, hw]
      simp
    · intro h1
      rw [mul_inv_eq_one₀ (pow_ne_zero _ hw0)] at h1
      exact c (hinj i k hi hk h1)

theorem core_interp (s : F) (hs : s * (n : F) = 1) (x : Nat → F) (i : Nat) (hi : i < n) :
    ∑ t ∈ range n, (s * ∑ k ∈ range n, x k * (w ^ ((n - t) % n)) ^ k) * (w ^ i) ^ t = x i := by
  have term : ∀ t ∈ range n, (s * ∑ k ∈ range n, x k * (w ^ ((n - t) % n)) ^ k) * (w ^ i) ^ t =
      ∑ k ∈ range n, s * x k * (w ^ i * (w ^ k)⁻¹) ^ t := by
    intro t ht
    rw [core_neg w n hw t (mem_range.mp ht), mul_sum, sum_mul]
    apply sum_congr rfl
    intro k _
    have : ((w ^ t)⁻¹) ^ k = ((w ^ k)⁻¹) ^ t := by
      rw [inv_pow, inv_pow, ← pow_mul, ← pow_mul, mul_comm]
    rw [this, mul_pow]; ring
  rw [sum_congr rfl term, sum_comm]
  have inner : ∀ k ∈ range n, ∑ t ∈ range n, s * x k * (w ^ i * (w ^ k)⁻¹) ^ t =
      if i = k then x k else 0 := by
    intro k hk
    rw [← mul_sum, core_sum w n hn hw hinj i k hi (mem_range.mp hk)]
    by_cases c : i = k
    · rw [if_pos c, if_pos c]; linear_combination x k * hs
    · rw [if_neg c, if_neg c, mul_zero]
  rw [sum_congr rfl inner, sum_ite_eq, if_pos (mem_range.mpr hi)]

theorem core_values (s : F) (hs : s * (n : F) = 1) (x coef : Nat → F)
    (hv : ∀ i, i < n → x i = ∑ u ∈ range n, coef u * (w ^ i) ^ u) (t : Nat) (ht : t < n) :
    s * ∑ k ∈ range n, x k * (w ^ ((n - t) % n)) ^ k = coef t := by
  have term : ∀ k ∈ range n, x k * (w ^ ((n - t) % n)) ^ k =
      ∑ u ∈ range n, coef u * (w ^ u * (w ^ t)⁻¹) ^ k := by
    intro k hk
    rw [core_neg w n hw t ht, hv k (mem_range.mp hk), sum_mul]
    apply sum_congr rfl
    intro u _
    have : (w ^ k) ^ u = (w ^ u) ^ k := by rw [← pow_mul, ← pow_mul, mul_comm]
    rw [this, mul_pow]; ring
  rw [sum_congr rfl term, sum_comm]
  have inner : ∀ u ∈ range n, ∑ k ∈ range n, coef u * (w ^ u * (w ^ t)⁻¹) ^ k =
      if u = t then coef u * (n : F) else 0 := by
    intro u hu
    rw [← mul_sum, core_sum w n hn hw hinj u t (mem_range.mp hu) ht]
    by_cases c : u = t
    · rw [if_pos c, if_pos c]
    · rw [if_neg c, if_neg c, mul_zero]
  rw [sum_congr rfl inner, sum_ite_eq', if_pos (mem_range.mpr ht)]
  linear_combination coef t * hs

end core

/-! ## Part 4: `ntt_inv` -/

/-- **explicit formula for `ntt_inv`** -/
theorem nttInv_formula {ω : Nat → F} (root : Nat → Option F) (d : Nat) (h : Roots ω d)
    (outp inp : Array F) (s : F) (hd : d ≤ maxRoots) (hop : 2 ^ d ≤ outp.size)
    (hr : RootsAvail root ω d) (hne : d = 0 → inp.size ≠ 0) (hs1 : d = 0 → s = 1) :
    ∃ c, nttInv root outp inp (2 ^ d) s = .ok c ∧ c.size = outp.size ∧
      ∀ j, j < 2 ^ d → c.getD j 0 = s * ∑ k ∈ range (2 ^ d), inp.getD k 0 * (ω d ^ ((2 ^ d - j) % 2 ^ d)) ^ k := by
  obtain ⟨a, e1, e2, e3⟩ := ntt_eq_dft (ω := ω) root false d outp.size (by simpa using h) outp inp hd
    (by simp) hop hop (by simpa using hr) hne
  unfold nttInv
  rw [e1]
  simp only
  have e3' : ∀ k, k < 2 ^ d → a.getD k 0 = ∑ t ∈ range (2 ^ d), inp.getD t 0 * (ω d ^ k) ^ t := by
    intro k hk
    rw [e3 k hk]
    simp [sigma]
  rcases Nat.eq_zero_or_pos d with hd0 | hd0
  · subst hd0
    obtain ⟨f1, f2, _⟩ := nttInvFinish_one a s
    have hpos : 0 < a.size := by rw [e2]; simp at hop; omega
    refine ⟨_, rfl, by simp only [pow_zero]; rw [f1, e2], ?_⟩
    intro j hj
    have hj0 : j = 0 := by simpa using hj
    subst hj0
    simp only [pow_zero] at f2 ⊢
    rw [f2 hpos, e3' 0 (by simp), hs1 rfl]
    simp
  · obtain ⟨f1, f2, _⟩ := nttInvFinish_spec a d hd0 s (by rw [e2]; exact hop)
    refine ⟨_, rfl, by rw [f1, e2], ?_⟩
    intro j hj
    rw [f2 j hj, e3' _ (Nat.mod_lt _ (Nat.pow_pos (by norm_num))), mul_comm]

theorem cast_two_pow (d : Nat) : ((2 ^ d : Nat) : F) = (2 : F) ^ d := by
  push_cast; rfl

/-- **interpolation**: the output of `ntt_inv`, read as coefficients, takes the value `inp[i]` at the
    node `ω_d^i` -/
theorem nttInv_interpolates {ω : Nat → F} (root : Nat → Option F) (d : Nat) (h : Roots ω d) (h2 : (2 : F) ≠ 0)
    (outp inp : Array F) (s : F) (hs : s * (2 : F) ^ d = 1) (hd : d ≤ maxRoots) (hop : 2 ^ d ≤ outp.size)
    (hr : RootsAvail root ω d) (hne : d = 0 → inp.size ≠ 0) :
    ∃ c, nttInv root outp inp (2 ^ d) s = .ok c ∧ c.size = outp.size ∧
      ∀ i, i < 2 ^ d → ∑ t ∈ range (2 ^ d), c.getD t 0 * (ω d ^ i) ^ t = inp.getD i 0 := by
  have hs1 : d = 0 → s = 1 := by intro e; subst e; simpa using hs
  obtain ⟨c, e1, e2, e3⟩ := nttInv_formula root d h outp inp s hd hop hr hne hs1
  refine ⟨c, e1, e2, ?_⟩
  intro i hi
  rcases Nat.eq_zero_or_pos d with hd0 | hd0
  · subst hd0
    have hi0 : i = 0 := by simpa using hi
    subst hi0
    have := e3 0 (by simp)
    rw [hs1 rfl] at this
    simp at this ⊢
    exact this
  · rw [sum_congr rfl (fun t ht => by rw [e3 t (mem_range.mp ht)])]
    exact core_interp (ω d) (2 ^ d) (Nat.pow_pos (by norm_num)) (h.pow_full hd0 d (le_refl d))
      (fun i j hi hj => roots_distinct h h2 i j hi hj) s (by rw [cast_two_pow]; exact hs)
      (fun k => inp.getD k 0) i hi

/-- **and conversely**: applied to the values of a polynomial of degree `< 2^d` at the nodes,
    `ntt_inv` returns its coefficients -/
theorem nttInv_of_values {ω : Nat → F} (root : Nat → Option F) (d : Nat) (h : Roots ω d) (h2 : (2 : F) ≠ 0)
    (outp inp : Array F) (s : F) (hs : s * (2 : F) ^ d = 1) (hd : d ≤ maxRoots) (hop : 2 ^ d ≤ outp.size)
    (hr : RootsAvail root ω d) (hne : d = 0 → inp.size ≠ 0) (coef : Nat → F)
    (hv : ∀ i, i < 2 ^ d → inp.getD i 0 = ∑ t ∈ range (2 ^ d), coef t * (ω d ^ i) ^ t) :
    ∃ c, nttInv root outp inp (2 ^ d) s = .ok c ∧ c.size = outp.size ∧ ∀ t, t < 2 ^ d → c.getD t 0 = coef t := by
  have hs1 : d = 0 → s = 1 := by intro e; subst e; simpa using hs
  obtain ⟨c, e1, e2, e3⟩ := nttInv_formula root d h outp inp s hd hop hr hne hs1
  refine ⟨c, e1, e2, ?_⟩
  intro t ht
  rw [e3 t ht]
  rcases Nat.eq_zero_or_pos d with hd0 | hd0
  · subst hd0
    have ht0 : t = 0 := by simpa using ht
    subst ht0
    have := hv 0 (by simp)
    rw [hs1 rfl]
    simp at this ⊢
    exact this
  · exact core_values (ω d) (2 ^ d) (Nat.pow_pos (by norm_num)) (h.pow_full hd0 d (le_refl d))
      (fun i j hi hj => roots_distinct h h2 i j hi hj) s (by rw [cast_two_pow]; exact hs)
      (fun k => inp.getD k 0) coef hv t ht

/-- **round trip**: the forward transform of the output of `ntt_inv` returns the input (on the
    indices `< 2^d`), for any output buffer of sufficient length -/
theorem ntt_of_nttInv {ω : Nat → F} (root : Nat → Option F) (d : Nat) (h : Roots ω d) (h2 : (2 : F) ≠ 0)
    (outp inp : Array F) (s : F) (hs : s * (2 : F) ^ d = 1) (hd : d ≤ maxRoots) (hop : 2 ^ d ≤ outp.size)
    (hr : RootsAvail root ω d) (hne : d = 0 → inp.size ≠ 0) :
    ∃ c, nttInv root outp inp (2 ^ d) s = .ok c ∧ c.size = outp.size ∧
      ∀ (outLen : Nat) (outp' : Array F), 2 ^ d ≤ outLen → 2 ^ d ≤ outp'.size →
        ∃ a, nttInternal root outLen outp' c (2 ^ d) false = .ok a ∧ a.size = outp'.size ∧
          ∀ i, i < 2 ^ d → a.getD i 0 = inp.getD i 0 := by
  obtain ⟨c, e1, e2, e3⟩ := nttInv_interpolates root d h h2 outp inp s hs hd hop hr hne
  refine ⟨c, e1, e2, ?_⟩
  intro outLen outp' hol hop'
  have hpos : 0 < 2 ^ d := Nat.pow_pos (by norm_num)
  obtain ⟨a, a1, a2, a3⟩ := ntt_eq_dft (ω := ω) root false d outLen (by simpa using h) outp' c hd
    (by simp) hol hop' (by simpa using hr) (fun _ => by rw [e2]; omega)
  refine ⟨a, a1, a2, ?_⟩
  intro i hi
  rw [a3 i hi, ← e3 i hi]
  simp [sigma]

-- all of the following depend only on [propext, Classical.choice, Quot.sound]:
-- #print axioms nttInvFinish_spec
-- #print axioms nttInvFinish_one
-- #print axioms roots_orthogonal
-- #print axioms roots_distinct
-- #print axioms nttInv_formula
-- #print axioms nttInv_interpolates
-- #print axioms nttInv_of_values
-- #print axioms ntt_of_nttInv

end Prio.Ntt
