import PrioModel.Poly
import PrioProofs.NttDft
import Mathlib.LinearAlgebra.Lagrange
import Mathlib.Tactic.Ring
import Mathlib.Tactic.FieldSimp
import Mathlib.Tactic.LinearCombination

/-! `extendValues` (the model of `extend_values_to_power_of_2`) extends the values of a polynomial of
degree `< numValues` at the first `numValues` nodes to its values at all further nodes. -/
namespace Prio.Ntt
open Finset BigOperators

variable {F : Type} [Field F]

/-- the barycentric weight of node `i` among the nodes `0..k-1` -/
def bw (x : Nat → F) (k i : Nat) : F := ∏ j ∈ range k, if i = j then 1 else (x i - x j)

/-- one outer step of `extendValues` -/
def extStep (r : Array F) (m : Nat) (st : Array F × Array F) (t : Nat) : Array F × Array F :=
  let k := m + t
  let w1 := (List.range k).foldl (fun (w : Array F) i =>
    w.setIfInBounds i (w.getD i 0 * (r.getD i 0 - r.getD k 0))) st.1
  let nd := (List.range k).foldl (fun (nd : F × F) i =>
      (nd.1 * w1.getD i 0 + nd.2 * st.2.getD i 0, nd.2 * w1.getD i 0)) ((0 : F), (1 : F))
  let wk := (List.range k).foldl (fun acc j => acc * (r.getD k 0 - r.getD j 0)) (1 : F)
  (w1.setIfInBounds k wk, st.2.setIfInBounds k (-wk * nd.1 * nd.2⁻¹))

/-- the initial weights of `extendValues` -/
def extInit (r : Array F) (n m : Nat) : Array F :=
  (List.range m).foldl (fun (w : Array F) i =>
    w.setIfInBounds i ((List.range m).foldl (fun acc j =>
      if i != j then acc * (r.getD i 0 - r.getD j 0) else acc) 1)) (Array.replicate n 0)

theorem extendValues_eq (r poly : Array F) (m : Nat) :
    extendValues r poly m =
      ((List.range (poly.size - m)).foldl (extStep r m) (extInit r poly.size m, poly)).2 := rfl

/-! ### the folds -/

theorem foldl_prod_range (g : Nat → F) (f : F → Nat → F) (hf : ∀ acc j, f acc j = acc * g j)
    (n : Nat) (a : F) : (List.range n).foldl f a = a * ∏ j ∈ range n, g j := by
  induction n with
  | zero => simp
  | succ n ih =>
    rw [List.range_succ, List.foldl_append, ih, prod_range_succ]
    simp only [List.foldl_cons, List.foldl_nil, hf]
    ring

theorem foldl_set_range (f : Nat → F → F) (k : Nat) (w : Array F) :
    ((List.range k).foldl (fun (w : Array F) i => w.setIfInBounds i (f i (w.getD i 0))) w).size
        = w.size ∧
    ∀ p, ((List.range k).foldl (fun (w : Array F) i => w.setIfInBounds i (f i (w.getD i 0))) w).getD p 0
        = if p < k ∧ p < w.size then f p (w.getD p 0) else w.getD p 0 := by
  induction k with
  | zero => simp
  | succ k ih =>
    obtain ⟨ih1, ih2⟩ := ih
    rw [List.range_succ, List.foldl_append]
    simp only [List.foldl_cons, List.foldl_nil]
    refine ⟨by rw [Array.size_setIfInBounds, ih1], fun p => ?_⟩
    rw [getD_set, ih1, ih2 k]
    by_cases hp : k = p
    · subst hp
      by_cases hs : k < w.size
      · rw [if_pos ⟨rfl, hs⟩, if_neg (by omega), if_pos ⟨by omega, hs⟩]
      · rw [if_neg (by omega), ih2, if_neg (by omega), if_neg (by omega)]
    · rw [if_neg (fun h => hp h.1), ih2]
      by_cases c : p < k ∧ p < w.size
      · rw [if_pos c, if_pos ⟨by omega, c.2⟩]
      · rw [if_neg c, if_neg (by omega)]

theorem foldl_frac (a b : Nat → F) (k : Nat) (ha : ∀ i, i < k → a i ≠ 0) :
    ((List.range k).foldl (fun (nd : F × F) i => (nd.1 * a i + nd.2 * b i, nd.2 * a i))
        ((0 : F), (1 : F))).2 ≠ 0 ∧
    ((List.range k).foldl (fun (nd : F × F) i => (nd.1 * a i + nd.2 * b i, nd.2 * a i))
        ((0 : F), (1 : F))).1 =
      ((List.range k).foldl (fun (nd : F × F) i => (nd.1 * a i + nd.2 * b i, nd.2 * a i))
        ((0 : F), (1 : F))).2 * ∑ i ∈ range k, b i / a i := by
  induction k with
  | zero => simp
  | succ k ih =>
    obtain ⟨ih1, ih2⟩ := ih (fun i hi => ha i (by omega))
    have hk := ha k (by omega)
    rw [List.range_succ, List.foldl_append]
    simp only [List.foldl_cons, List.foldl_nil]
    refine ⟨mul_ne_zero ih1 hk, ?_⟩
    rw [sum_range_succ, ih2]
    field_simp

/-! ### the weights -/

theorem bw_succ_of_lt (x : Nat → F) (k i : Nat) (hi : i < k) :
    bw x (k + 1) i = bw x k i * (x i - x k) := by
  unfold bw
  rw [prod_range_succ, if_neg (by omega)]

theorem bw_self (x : Nat → F) (k : Nat) : bw x k k = ∏ j ∈ range k, (x k - x j) := by
  unfold bw
  refine prod_congr rfl fun j hj => ?_
  rw [if_neg (by have := mem_range.mp hj; omega)]

theorem bw_succ_self (x : Nat → F) (k : Nat) : bw x (k + 1) k = ∏ j ∈ range k, (x k - x j) := by
  rw [← bw_self]
  unfold bw
  rw [prod_range_succ, if_pos rfl, mul_one]

theorem bw_eq_prod_erase (x : Nat → F) (k i : Nat) :
    bw x k i = ∏ j ∈ (range k).erase i, (x i - x j) := by
  unfold bw
  rw [← filter_ne (range k) i, prod_filter]
  refine prod_congr rfl fun j _ => ?_
  by_cases h : i = j
  · rw [if_pos h, if_neg (not_not.mpr h)]
  · rw [if_neg h, if_pos h]

theorem bw_ne_zero (x : Nat → F) (k i : Nat)
    (hinj : ∀ j, j < k → x i = x j → i = j) : bw x k i ≠ 0 := by
  unfold bw
  rw [prod_ne_zero_iff]
  intro j hj
  by_cases h : i = j
  · rw [if_pos h]; exact one_ne_zero
  · rw [if_neg h]
    exact sub_ne_zero_of_ne fun e => h (hinj j (mem_range.mp hj) e)

/-! ### the interpolation identity -/

/-- the divided difference of order `k` of a polynomial of degree `< k` vanishes -/
theorem sum_div_bw_eq_zero (x : Nat → F) (k m : Nat) (hmk : m ≤ k) (coef : Nat → F)
    (hinj : ∀ i j, i < k + 1 → j < k + 1 → x i = x j → i = j) :
    ∑ i ∈ range (k + 1), (∑ t ∈ range m, coef t * x i ^ t) / bw x (k + 1) i = 0 := by
  classical
  set P : Polynomial F := ∑ t ∈ range m, Polynomial.C (coef t) * Polynomial.X ^ t with hP
  have hcoeff : ∀ d, m ≤ d → P.coeff d = 0 := by
    intro d hd
    rw [hP, Polynomial.finsetSum_coeff]
    refine sum_eq_zero fun t ht => ?_
    rw [Polynomial.coeff_C_mul_X_pow, if_neg (by have := mem_range.mp ht; omega)]
  have heval : ∀ y, P.eval y = ∑ t ∈ range m, coef t * y ^ t := by
    intro y
    rw [hP, Polynomial.eval_finsetSum]
    refine sum_congr rfl fun t _ => ?_
    rw [Polynomial.eval_mul, Polynomial.eval_C, Polynomial.eval_pow, Polynomial.eval_X]
  have hvs : Set.InjOn x (range (k + 1) : Finset Nat) := by
    intro i hi j hj e
    exact hinj i j (by simpa using hi) (by simpa using hj) e
  have hdeg : P.degree < #(range (k + 1)) := by
    rw [card_range, Polynomial.degree_lt_iff_coeff_zero]
    intro d hd
    exact hcoeff d (by omega)
  have := Lagrange.coeff_eq_sum hvs hdeg
  rw [card_range, Nat.add_sub_cancel, hcoeff k hmk] at this
  rw [this]
  refine sum_congr rfl fun i _ => ?_
  rw [heval, bw_eq_prod_erase]

/-! ### the outer loop -/

/-- the loop invariant before processing index `k` -/
def ExtInv (x : Nat → F) (val : Nat → F) (n k : Nat) (st : Array F × Array F) : Prop :=
  st.1.size = n ∧ st.2.size = n ∧ (∀ i, i < k → st.1.getD i 0 = bw x k i) ∧
    (∀ i, i < k → st.2.getD i 0 = val i)

theorem extStep_inv (r : Array F) (m n t : Nat) (coef : Nat → F) (st : Array F × Array F)
    (hk : m + t < n)
    (hinj : ∀ i j, i < n → j < n → r.getD i 0 = r.getD j 0 → i = j)
    (h : ExtInv (fun i => r.getD i 0) (fun i => ∑ s ∈ range m, coef s * r.getD i 0 ^ s) n (m + t) st) :
    ExtInv (fun i => r.getD i 0) (fun i => ∑ s ∈ range m, coef s * r.getD i 0 ^ s) n (m + t + 1)
      (extStep r m st t) := by
  obtain ⟨h1, h2, h3, h4⟩ := h
  obtain ⟨A1, A2⟩ := foldl_set_range (fun i v => v * (r.getD i 0 - r.getD (m + t) 0)) (m + t) st.1
  have C := foldl_prod_range (fun j => r.getD (m + t) 0 - r.getD j 0)
    (fun acc j => acc * (r.getD (m + t) 0 - r.getD j 0)) (fun _ _ => rfl) (m + t) 1
  rw [one_mul, ← bw_succ_self (fun i => r.getD i 0)] at C
  unfold extStep
  simp only []
  generalize hw1 : (List.range (m + t)).foldl (fun (w : Array F) i =>
    w.setIfInBounds i (w.getD i 0 * (r.getD i 0 - r.getD (m + t) 0))) st.1 = w1 at A1 A2 ⊢
  have W1 : ∀ i, i < m + t → w1.getD i 0 = bw (fun i => r.getD i 0) (m + t + 1) i := by
    intro i hi
    rw [A2, if_pos ⟨hi, by omega⟩, h3 i hi, bw_succ_of_lt _ _ _ hi]
  have hne : ∀ i, i < m + t + 1 → bw (fun i => r.getD i 0) (m + t + 1) i ≠ 0 := by
    intro i hi
    exact bw_ne_zero _ _ _ fun j hj e => hinj i j (by omega) (by omega) e
  obtain ⟨B1, B2⟩ := foldl_frac (fun i => w1.getD i 0) (fun i => st.2.getD i 0) (m + t)
    (fun i hi => by rw [W1 i hi]; exact hne i (by omega))
  generalize (List.range (m + t)).foldl (fun (nd : F × F) i =>
      (nd.1 * w1.getD i 0 + nd.2 * st.2.getD i 0, nd.2 * w1.getD i 0)) ((0 : F), (1 : F)) = nd
    at B1 B2 ⊢
  rw [C]
  have S : ∑ i ∈ range (m + t), st.2.getD i 0 / w1.getD i 0 =
      ∑ i ∈ range (m + t), (∑ s ∈ range m, coef s * r.getD i 0 ^ s) /
        bw (fun i => r.getD i 0) (m + t + 1) i := by
    refine sum_congr rfl fun i hi => ?_
    rw [W1 i (mem_range.mp hi), h4 i (mem_range.mp hi)]
  have Z := sum_div_bw_eq_zero (fun i => r.getD i 0) (m + t) m (by omega) coef
    (fun i j hi hj e => hinj i j (by omega) (by omega) e)
  rw [sum_range_succ, ← S] at Z
  have hwk := hne (m + t) (by omega)
  refine ⟨by rw [Array.size_setIfInBounds, A1, h1], by rw [Array.size_setIfInBounds, h2], ?_, ?_⟩
  · intro i hi
    rw [getD_set]
    by_cases e : m + t = i
    · subst e
      rw [if_pos ⟨rfl, by omega⟩]
    · rw [if_neg (fun hh => e hh.1)]
      exact W1 i (by omega)
  · intro i hi
    rw [getD_set]
    by_cases e : m + t = i
    · subst e
      rw [if_pos ⟨rfl, by omega⟩, B2]
      field_simp
      field_simp at Z
      linear_combination -Z
    · rw [if_neg (fun hh => e hh.1)]
      exact h4 i (by omega)

theorem extInit_inv (r poly : Array F) (m : Nat) (hmn : m ≤ poly.size) (val : Nat → F)
    (hv : ∀ i, i < m → poly.getD i 0 = val i) :
    ExtInv (fun i => r.getD i 0) val poly.size m (extInit r poly.size m, poly) := by
  obtain ⟨A1, A2⟩ := foldl_set_range (fun i (_ : F) => (List.range m).foldl (fun acc j =>
      if i != j then acc * (r.getD i 0 - r.getD j 0) else acc) (1 : F)) m
    (Array.replicate poly.size (0 : F))
  refine ⟨?_, rfl, ?_, hv⟩
  · show (extInit r poly.size m).size = poly.size
    unfold extInit
    rw [A1, Array.size_replicate]
  · intro i hi
    show (extInit r poly.size m).getD i 0 = _
    unfold extInit
    rw [A2, if_pos ⟨hi, by rw [Array.size_replicate]; omega⟩]
    rw [foldl_prod_range (fun j => if i = j then 1 else (r.getD i 0 - r.getD j 0)), one_mul]
    · rfl
    · intro acc j
      by_cases e : i = j
      · simp [e]
      · simp [e]

theorem foldl_extStep_inv (r poly : Array F) (m : Nat) (hmn : m ≤ poly.size) (coef : Nat → F)
    (hinj : ∀ i j, i < poly.size → j < poly.size → r.getD i 0 = r.getD j 0 → i = j)
    (hv : ∀ i, i < m → poly.getD i 0 = ∑ t ∈ range m, coef t * (r.getD i 0) ^ t)
    (t : Nat) (ht : m + t ≤ poly.size) :
    ExtInv (fun i => r.getD i 0) (fun i => ∑ s ∈ range m, coef s * r.getD i 0 ^ s) poly.size (m + t)
      ((List.range t).foldl (extStep r m) (extInit r poly.size m, poly)) := by
  induction t with
  | zero => exact extInit_inv r poly m hmn _ hv
  | succ t ih =>
    rw [List.range_succ, List.foldl_append]
    simp only [List.foldl_cons, List.foldl_nil]
    exact extStep_inv r m poly.size t coef _ (by omega) hinj (ih (by omega))

/-- `extendValues` without the assumption `1 ≤ m` and without any assumption on `r.size`
(for `m = 0` the polynomial is zero and all entries are filled with zero). -/
theorem extendValues_spec' (r poly : Array F) (m : Nat) (hmn : m ≤ poly.size)
    (hinj : ∀ i j, i < poly.size → j < poly.size → r.getD i 0 = r.getD j 0 → i = j)
    (coef : Nat → F)
    (hv : ∀ i, i < m → poly.getD i 0 = ∑ t ∈ range m, coef t * (r.getD i 0) ^ t) :
    (extendValues r poly m).size = poly.size ∧
    ∀ i, i < poly.size → (extendValues r poly m).getD i 0 = ∑ t ∈ range m, coef t * (r.getD i 0) ^ t := by
  have h := foldl_extStep_inv r poly m hmn coef hinj hv (poly.size - m) (by omega)
  obtain ⟨_, h2, _, h4⟩ := h
  rw [extendValues_eq]
  exact ⟨h2, fun i hi => h4 i (by omega)⟩

set_option linter.unusedVariables false in
/-- the values of a polynomial of degree `< m` at the nodes `r_0 … r_{m-1}` are extended by
`extendValues` to its values at all nodes `r_0 … r_{n-1}` -/
theorem extendValues_spec (r poly : Array F) (m : Nat) (hm : 1 ≤ m) (hmn : m ≤ poly.size)
    (hr : poly.size ≤ r.size)
    (hinj : ∀ i j, i < poly.size → j < poly.size → r.getD i 0 = r.getD j 0 → i = j)
    (coef : Nat → F)
    (hv : ∀ i, i < m → poly.getD i 0 = ∑ t ∈ range m, coef t * (r.getD i 0) ^ t) :
    (extendValues r poly m).size = poly.size ∧
    ∀ i, i < poly.size → (extendValues r poly m).getD i 0 = ∑ t ∈ range m, coef t * (r.getD i 0) ^ t :=
  extendValues_spec' r poly m hmn hinj coef hv

-- #print axioms extendValues_spec
-- #print axioms extendValues_spec'

end Prio.Ntt
