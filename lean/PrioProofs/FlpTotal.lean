import PrioModel.Flp
import Mathlib.Algebra.Field.Defs

/-! Panic-freedom of the FLP `decide` (for C16). -/
namespace Prio.Flp

variable {F : Type} [Field F] [BEq F]

theorem verifierLen_eq (C : FieldCtx F) (t : TypeSpec) : t.verifierLen = 2 + (t.gadget C).arity := by
  cases t <;> simp [TypeSpec.verifierLen, TypeSpec.gadget, Gadget.arity, TypeSpec.chunkLen] <;> omega

theorem gadget_eval_no_panic (g : Gadget F) (inp : List F) : g.eval inp ≠ .panic := by
  unfold Gadget.eval
  split
  · simp
  · cases g.kind <;> simp

/-- `decide` never panics: the verifier has `2 + arity` elements whenever the length check passes -/
theorem decide_no_panic (C : FieldCtx F) (t : TypeSpec) (v : List F) : decide C t v ≠ .panic := by
  unfold decide
  by_cases h1 : v.length ≠ t.verifierLen
  · rw [if_pos h1]; simp
  rw [if_neg h1]
  simp only [ne_eq, Decidable.not_not] at h1
  split
  · simp
  · simp only
    have : ¬ (1 + (t.gadget C).arity ≥ v.length) := by
      rw [h1, verifierLen_eq C t]; omega
    rw [if_neg this]
    have := gadget_eval_no_panic (t.gadget C) ((v.drop 1).take (t.gadget C).arity)
    cases h : (t.gadget C).eval ((v.drop 1).take (t.gadget C).arity) with
    | panic => exact absurd h this
    | err => simp
    | ok x => simp

end Prio.Flp
