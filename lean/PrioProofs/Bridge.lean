import PrioModel.FieldInst
import PrioModel.FieldCtxInst
import PrioModel.Flp
import PrioProofs.FpPrime
import PrioProofs.Props.C09
import PrioProofs.Props.C10
import PrioProofs.FlpComplete
import PrioProofs.FlpSound
import PrioProofs.FlpLinear
import Mathlib.Data.ZMod.Basic
import Mathlib.FieldTheory.Finite.Basic

/-! # The bridge: the executable instance and the deployed contexts meet the hypotheses of the theorems

The driver (`Main.lean`, Mathlib-free) runs the field-polymorphic model functions at `F := Fin (q + 1)` with Lean core's
`Fin` instances, the inverse `Prio.finInv q` (`a ↦ a^(q+1-2)` by square-and-multiply) and the context
`Prio.fieldCtx name q`.  The theorems are stated for `[Field F]` and a context satisfying `Prio.Flp.CtxOk`.  This file
connects the two:

* Part 1 — `ZMod (q + 1)` *is* `Fin (q + 1)` and its `CommRing` operations *are* the core instances (all `rfl`);
  `Prio.fpow` is the monoid power; for an odd prime `q + 1` the driver's inverse is the field inverse
  (`finInv_apply`, `finInv_eq`; false for `q + 1 = 2`, `finInv_two`); `Fin.ofNat` is the canonical map (`rfl`).
* Part 2 — `dValid`, `dProve`, `dQuery`, `dDecide`, `dNttInternal`, `dNttInv`, `dVsum`: the model functions applied to
  exactly the instance terms the Mathlib-free elaboration produces; each equals the model function at the `Field`
  structure of `ZMod (q + 1)` (`rfl` where no inverse occurs, `finInv_eq` otherwise).
* Part 3 — `FP32_ctxOk`, `FP64_ctxOk`, `FP128_ctxOk`: `Prio.fieldCtx "FPxx" q` is `CtxOk` (generic form `ctxOk_of_table`).
* Part 4 — `flp_complete_FPxx`, `flp_soundness_FPxx`, `query_share_linear_FPxx`: the theorems at the driver's own
  instance and context (generic forms `*_driver`), and `ntt_is_dft_driver`. -/
namespace Prio.Bridge
open Prio Prio.Flp Prio.Ntt

/-! ## Part 1: the instances agree -/

section instances
variable (q : Nat)

/-- the core instances, by the names a Mathlib-free elaboration (the driver, `Main.lean`) finds for `Fin (q + 1)` -/
abbrev cAdd : Add (Fin (q + 1)) := Fin.instAdd
abbrev cSub : Sub (Fin (q + 1)) := Fin.instSub
abbrev cMul : Mul (Fin (q + 1)) := Fin.instMul
abbrev cNeg : Neg (Fin (q + 1)) := Fin.neg (q + 1)
abbrev cZero : Zero (Fin (q + 1)) := @Zero.ofOfNat0 _ (@Fin.instOfNat (q + 1) (Nat.instNeZeroSucc) (nat_lit 0))
abbrev cOne : One (Fin (q + 1)) := @One.ofOfNat1 _ (@Fin.instOfNat (q + 1) (Nat.instNeZeroSucc) (nat_lit 1))
abbrev cBEq : BEq (Fin (q + 1)) := @instBEqOfDecidableEq _ (instDecidableEqFin (q + 1))

theorem inst_add : cAdd q = (inferInstance : Add (ZMod (q + 1))) := rfl
theorem inst_sub : cSub q = (inferInstance : Sub (ZMod (q + 1))) := rfl
theorem inst_mul : cMul q = (inferInstance : Mul (ZMod (q + 1))) := rfl
theorem inst_neg : cNeg q = (inferInstance : Neg (ZMod (q + 1))) := rfl
theorem inst_zero : cZero q = (inferInstance : Zero (ZMod (q + 1))) := rfl
theorem inst_one : cOne q = (inferInstance : One (ZMod (q + 1))) := rfl
theorem inst_beq : cBEq q = @instBEqOfDecidableEq (ZMod (q + 1)) (inferInstance : DecidableEq (ZMod (q + 1))) := rfl

/-- the function-level statements -/
theorem add_eq (a b : Fin (q + 1)) : @HAdd.hAdd _ _ _ (@instHAdd _ (cAdd q)) a b = ((a : ZMod (q + 1)) + (b : ZMod (q + 1))) := rfl
theorem sub_eq (a b : Fin (q + 1)) : @HSub.hSub _ _ _ (@instHSub _ (cSub q)) a b = ((a : ZMod (q + 1)) - (b : ZMod (q + 1))) := rfl
theorem mul_eq (a b : Fin (q + 1)) : @HMul.hMul _ _ _ (@instHMul _ (cMul q)) a b = ((a : ZMod (q + 1)) * (b : ZMod (q + 1))) := rfl
theorem neg_eq (a : Fin (q + 1)) : @Neg.neg _ (cNeg q) a = -(a : ZMod (q + 1)) := rfl
theorem zero_eq : @Zero.zero _ (cZero q) = (0 : ZMod (q + 1)) := rfl
theorem one_eq : @One.one _ (cOne q) = (1 : ZMod (q + 1)) := rfl
theorem beq_eq (a b : Fin (q + 1)) : @BEq.beq _ (cBEq q) a b = ((a : ZMod (q + 1)) == (b : ZMod (q + 1))) := rfl

/-- `==` of the driver is lawful -/
instance cBEq_lawful : @LawfulBEq (Fin (q + 1)) (cBEq q) := inferInstance

/-- `Fin.ofNat`, the `ofNat` of the deployed contexts, is the canonical map `ℕ → ZMod (q + 1)` -/
theorem ofNat_eq (n : Nat) : Fin.ofNat (q + 1) n = ((n : Nat) : ZMod (q + 1)) := rfl

/-- square-and-multiply is the monoid power -/
theorem fpow_eq_pow {M : Type} [Monoid M] (x : M) (n : Nat) : fpow x n = x ^ n := by
  induction n using Nat.strong_induction_on generalizing x with
  | _ n ih =>
    rw [fpow]
    split
    · next h => rw [h, pow_zero]
    · next h =>
      simp only
      rw [ih (n / 2) (by omega) (x * x)]
      have e : x ^ n = x ^ (n % 2) * (x * x) ^ (n / 2) := by
        rw [← pow_two, ← pow_mul, ← pow_add, Nat.mod_add_div]
      rw [e]
      rcases Nat.mod_two_eq_zero_or_one n with h2 | h2
      · rw [h2]; simp
      · rw [h2]; simp

/-- … in particular at the driver's instance -/
theorem fpow_core_eq_pow (a : Fin (q + 1)) (n : Nat) :
    @fpow (Fin (q + 1)) (cMul q) (cOne q) a n = (a : ZMod (q + 1)) ^ n :=
  fpow_eq_pow (M := ZMod (q + 1)) a n

/-- Fermat: in `ZMod p`, `p` an odd prime, `a ^ (p - 2) = a⁻¹` for every `a` (zero included) -/
theorem zmod_pow_eq_inv (p : Nat) [Fact (Nat.Prime p)] (hp : 3 ≤ p) (a : ZMod p) : a ^ (p - 2) = a⁻¹ := by
  by_cases ha : a = 0
  · subst ha
    rw [inv_zero, zero_pow (by omega)]
  · have h1 : a ^ (p - 1) = 1 := ZMod.pow_card_sub_one_eq_one ha
    have e : p - 1 = (p - 2) + 1 := by omega
    rw [e, pow_succ] at h1
    exact eq_inv_of_mul_eq_one_left h1

/-- **the driver's inverse is the field inverse** (Fermat), for every odd prime modulus.  For `q + 1 = 2` the statement
    is false: `finInv 1 0 = 0 ^ 0 = 1`, whereas `0⁻¹ = 0` (`finInv_two`). -/
theorem finInv_apply [Fact (Nat.Prime (q + 1))] (hq : 2 ≤ q) (a : ZMod (q + 1)) :
    @Inv.inv _ (Prio.finInv q) a = a⁻¹ :=
  (fpow_core_eq_pow q a (q + 1 - 2)).trans (zmod_pow_eq_inv (q + 1) (by omega) a)

theorem inv_inst_ext {α : Type} : ∀ (i j : Inv α), (∀ a, @Inv.inv _ i a = @Inv.inv _ j a) → i = j := by
  rintro ⟨f⟩ ⟨g⟩ h
  congr
  funext a
  exact h a

/-- … hence the two `Inv` instances are equal -/
theorem finInv_eq [Fact (Nat.Prime (q + 1))] (hq : 2 ≤ q) :
    Prio.finInv q = (inferInstance : Inv (ZMod (q + 1))) :=
  inv_inst_ext _ _ (finInv_apply q hq)

theorem finInv_eq' [Fact (Nat.Prime (q + 1))] (hq : 2 ≤ q) :
    Prio.finInv q = (⟨fun a => a⁻¹⟩ : Inv (ZMod (q + 1))) :=
  finInv_eq q hq

/-- the boundary: at modulus 2 the driver's inverse is NOT the field inverse -/
theorem finInv_two : @Inv.inv _ (Prio.finInv 1) (0 : Fin 2) = 1 ∧ ((0 : ZMod 2)⁻¹ = 0) :=
  ⟨(fpow_core_eq_pow 1 0 0).trans (pow_zero _), inv_zero⟩

end instances

/-! ## Part 2: the functions the driver evaluates are the functions the theorems are about -/

section driver
variable (q : Nat)

/-- `F` of the driver -/
abbrev DF : Type := Fin (q + 1)

/-- the model functions with exactly the instance arguments that the Mathlib-free elaboration of `Main.lean` supplies
    (`Fin.instAdd`, `Fin.instSub`, `Fin.instMul`, `Fin.neg`, `Zero.ofOfNat0`, `One.ofOfNat1`, `Prio.finInv q`,
    `instBEqOfDecidableEq`) -/
abbrev dValid (C : FieldCtx (DF q)) (t : TypeSpec) (input jr : List (DF q)) (ns : Nat) : Flp.Res (List (DF q)) :=
  @Flp.valid (Fin (q + 1)) (cAdd q) (cSub q) (cMul q) (cNeg q) (cZero q) (cOne q) (Prio.finInv q) C t input jr ns
abbrev dProve (C : FieldCtx (DF q)) (t : TypeSpec) (input pr jr : List (DF q)) : Flp.Res (List (DF q)) :=
  @Flp.prove (Fin (q + 1)) (cAdd q) (cSub q) (cMul q) (cNeg q) (cZero q) (cOne q) (Prio.finInv q) (cBEq q) C t input pr jr
abbrev dQuery (C : FieldCtx (DF q)) (t : TypeSpec) (input proof qr jr : List (DF q)) (ns : Nat) : Flp.Res (List (DF q)) :=
  @Flp.query (Fin (q + 1)) (cAdd q) (cSub q) (cMul q) (cNeg q) (cZero q) (cOne q) (Prio.finInv q) (cBEq q) C t input proof
    qr jr ns
abbrev dDecide (C : FieldCtx (DF q)) (t : TypeSpec) (v : List (DF q)) : Flp.Res Bool :=
  @Flp.decide (Fin (q + 1)) (cAdd q) (cMul q) (cNeg q) (cZero q) (cOne q) (cBEq q) C t v
abbrev dNttInternal (root : Nat → Option (DF q)) (outLen : Nat) (outp inp : Array (DF q)) (size : Nat) (setS : Bool) :
    R (Array (DF q)) :=
  @nttInternal (Fin (q + 1)) (cAdd q) (cSub q) (cMul q) (cZero q) (cOne q) root outLen outp inp size setS
abbrev dNttInv (root : Nat → Option (DF q)) (outp inp : Array (DF q)) (size : Nat) (sizeInv : DF q) : R (Array (DF q)) :=
  @nttInv (Fin (q + 1)) (cAdd q) (cSub q) (cMul q) (cZero q) (cOne q) root outp inp size sizeInv
abbrev dVsum (n : Nat) (vs : List (List (DF q))) : List (DF q) := @vsum (Fin (q + 1)) (cAdd q) (cZero q) n vs

/-- the general principle: a term is unchanged when an instance argument is replaced by a propositionally equal one
    (used below with `finInv_eq`; all the other instance arguments are equal by `rfl`, Part 1) -/
theorem inst_congr {I β : Sort _} (f : I → β) {i j : I} (h : i = j) : f i = f j := congrArg f h

/-- no inverse involved: definitional -/
theorem dDecide_eq (C : FieldCtx (ZMod (q + 1))) (t : TypeSpec) (v : List (ZMod (q + 1))) :
    dDecide q C t v = Flp.decide (F := ZMod (q + 1)) C t v := rfl
theorem dNttInternal_eq (root : Nat → Option (ZMod (q + 1))) (outLen : Nat) (outp inp : Array (ZMod (q + 1))) (size : Nat)
    (setS : Bool) : dNttInternal q root outLen outp inp size setS = nttInternal (F := ZMod (q + 1)) root outLen outp inp size setS :=
  rfl
theorem dNttInv_eq (root : Nat → Option (ZMod (q + 1))) (outp inp : Array (ZMod (q + 1))) (size : Nat)
    (sizeInv : ZMod (q + 1)) : dNttInv q root outp inp size sizeInv = nttInv (F := ZMod (q + 1)) root outp inp size sizeInv :=
  rfl
theorem dVsum_eq (n : Nat) (vs : List (List (ZMod (q + 1)))) : dVsum q n vs = vsum (F := ZMod (q + 1)) n vs := rfl

variable [Fact (Nat.Prime (q + 1))]

/-- with the inverse: after rewriting the `Inv` instance (`finInv_eq`, Fermat) -/
theorem dValid_eq (hq : 2 ≤ q) (C : FieldCtx (ZMod (q + 1))) (t : TypeSpec) (input jr : List (ZMod (q + 1))) (ns : Nat) :
    dValid q C t input jr ns = Flp.valid (F := ZMod (q + 1)) C t input jr ns := by
  unfold dValid
  rw [finInv_eq q hq]
  rfl
theorem dProve_eq (hq : 2 ≤ q) (C : FieldCtx (ZMod (q + 1))) (t : TypeSpec) (input pr jr : List (ZMod (q + 1))) :
    dProve q C t input pr jr = Flp.prove (F := ZMod (q + 1)) C t input pr jr := by
  unfold dProve
  rw [finInv_eq q hq]
  rfl
theorem dQuery_eq (hq : 2 ≤ q) (C : FieldCtx (ZMod (q + 1))) (t : TypeSpec) (input proof qr jr : List (ZMod (q + 1)))
    (ns : Nat) : dQuery q C t input proof qr jr ns = Flp.query (F := ZMod (q + 1)) C t input proof qr jr ns := by
  unfold dQuery
  rw [finInv_eq q hq]
  rfl

end driver

/-! ## Part 3: the deployed contexts satisfy `CtxOk` -/

section contexts
open Gen Props.C10

/-- the table of roots of a parameter set, read in `ZMod (q + 1)` -/
def omega (P : FpParams) (q : Nat) (l : Nat) : ZMod (q + 1) := ((rootVal P l : Nat) : ZMod (q + 1))

/-- `(2 : ZMod p) ≠ 0` for `p ≥ 3` -/
theorem two_ne_zero_zmod (q : Nat) (hq : 2 ≤ q) : (2 : ZMod (q + 1)) ≠ 0 := by
  intro h
  have h' : ((2 : Nat) : ZMod (q + 1)) = 0 := by exact_mod_cast h
  rw [ZMod.natCast_eq_zero_iff] at h'
  have := Nat.le_of_dvd (by norm_num) h'
  omega

/-- **generic form**: the context `fieldCtx name q` built from a parameter table `P` with modulus `q + 1` is `CtxOk`
    as soon as the table passes the (kernel-evaluable) checks: root chain, at least `maxRoots` levels tabulated, and
    `half·2 ≡ 1` -/
theorem ctxOk_of_table (name : String) (P : FpParams) (q : Nat) [Fact (Nat.Prime (q + 1))]
    (hfind : findParams name = some P) (hp : q + 1 = P.prime) (hq : 2 ≤ q)
    (hchain : rootChain P = true) (hnum : maxRoots ≤ P.numRoots) (hlen : maxRoots < P.roots.length)
    (hhalf : P.residue P.half * 2 % P.prime = 1) :
    CtxOk (F := ZMod (q + 1)) (Prio.fieldCtx name q) (omega P q) := by
  have hmr : maxRoots = 20 := rfl
  have hMR : MAX_ROOTS = 20 := rfl
  refine ⟨?_, ?_, ?_, ?_, two_ne_zero_zmod q hq⟩
  · -- the root chain, from `table_roots`
    have hr : Roots (omega P q) (min MAX_ROOTS P.numRoots) := by
      unfold omega
      rw [hp]
      exact table_roots P (by omega) hchain
    exact hr.mono (by omega)
  · -- `F::root(l)` returns the tabulated root for every `l ≤ 20`
    intro l hl
    show rootOf name q l = some (omega P q l)
    unfold rootOf
    simp only [hfind]
    rw [if_pos (by omega)]
    rfl
  · -- `half * 2 = 1`
    show halfOf name q * 2 = 1
    unfold halfOf
    simp only [hfind]
    have h : (((P.residue P.half * 2 : Nat)) : ZMod (q + 1)) = ((1 : Nat) : ZMod (q + 1)) := by
      rw [ZMod.natCast_eq_natCast_iff', hp, hhalf, Nat.mod_eq_of_lt (by omega)]
    push_cast at h
    exact h
  · intro n
    rfl

/-! ### the three deployed fields -/

/-- the `q` that the driver's `withField` extracts from `Msg.fieldSpec name` (`F.p = q + 1`) -/
def q32 : Nat := FP32.prime - 1
def q64 : Nat := FP64.prime - 1
def q128 : Nat := FP128.prime - 1

theorem q32_succ : q32 + 1 = FP32.prime := by decide +kernel
theorem q64_succ : q64 + 1 = FP64.prime := by decide +kernel
theorem q128_succ : q128 + 1 = FP128.prime := by decide +kernel

/-- the modulus the driver takes from the message layer is that of the parameter table -/
theorem fieldSpec_FP32 : Msg.fieldSpec "FP32" = some ⟨q32 + 1, 4⟩ := rfl
theorem fieldSpec_FP64 : Msg.fieldSpec "FP64" = some ⟨q64 + 1, 8⟩ := rfl
theorem fieldSpec_FP128 : Msg.fieldSpec "FP128" = some ⟨q128 + 1, 16⟩ := rfl

theorem find_FP32 : findParams "FP32" = some FP32 := rfl
theorem find_FP64 : findParams "FP64" = some FP64 := rfl
theorem find_FP128 : findParams "FP128" = some FP128 := rfl

instance fact32 : Fact (Nat.Prime (q32 + 1)) := ⟨by rw [q32_succ]; exact FpPrime.FP32_prime⟩
instance fact64 : Fact (Nat.Prime (q64 + 1)) := ⟨by rw [q64_succ]; exact FpPrime.FP64_prime⟩
instance fact128 : Fact (Nat.Prime (q128 + 1)) := ⟨by rw [q128_succ]; exact FpPrime.FP128_prime⟩

theorem q32_ge : 2 ≤ q32 := by decide +kernel
theorem q64_ge : 2 ≤ q64 := by decide +kernel
theorem q128_ge : 2 ≤ q128 := by decide +kernel

/-- **the deployed contexts are `CtxOk`** -/
theorem FP32_ctxOk : CtxOk (F := ZMod (q32 + 1)) (Prio.fieldCtx "FP32" q32) (omega FP32 q32) :=
  ctxOk_of_table "FP32" FP32 q32 find_FP32 q32_succ q32_ge FP32_chain (by decide +kernel) (by decide +kernel)
    (by decide +kernel)
theorem FP64_ctxOk : CtxOk (F := ZMod (q64 + 1)) (Prio.fieldCtx "FP64" q64) (omega FP64 q64) :=
  ctxOk_of_table "FP64" FP64 q64 find_FP64 q64_succ q64_ge FP64_chain (by decide +kernel) (by decide +kernel)
    (by decide +kernel)
theorem FP128_ctxOk : CtxOk (F := ZMod (q128 + 1)) (Prio.fieldCtx "FP128" q128) (omega FP128 q128) :=
  ctxOk_of_table "FP128" FP128 q128 find_FP128 q128_succ q128_ge FP128_chain (by decide +kernel) (by decide +kernel)
    (by decide +kernel)

end contexts

/-! ## Part 4: the theorems at the driver's own instance and contexts

Every function symbol in the statements below (`dValid`, `dProve`, `dQuery`, `dDecide`, `dVsum`, `Prio.fieldCtx`) is,
after unfolding the `abbrev`s of Part 2, literally the term that the Mathlib-free elaboration of `Main.lean` evaluates:
the model function applied to the core `Fin (q + 1)` instances, `Prio.finInv q` and `instBEqOfDecidableEq`. -/

section corollaries
open Gen Props.C10 Finset

/-- completeness, for any odd prime modulus and any `CtxOk` context, at the driver's instance -/
theorem flp_complete_driver (q : Nat) [Fact (Nat.Prime (q + 1))] (hq : 2 ≤ q) (C : FieldCtx (DF q))
    (ω : Nat → ZMod (q + 1)) (hC : CtxOk (F := ZMod (q + 1)) C ω) (t : TypeSpec) (ht : t.WellFormed)
    (input pr qr jr proof v o : List (DF q))
    (hvalid : dValid q C t input jr 1 = .ok o) (hzero : ∀ x ∈ o, x = (0 : Fin (q + 1)))
    (hprove : dProve q C t input pr jr = .ok proof)
    (hquery : dQuery q C t input proof qr jr 1 = .ok v) :
    dDecide q C t v = .ok true := by
  have hvalid' := (dValid_eq q hq C t input jr 1).symm.trans hvalid
  have hprove' := (dProve_eq q hq C t input pr jr).symm.trans hprove
  have hquery' := (dQuery_eq q hq C t input proof qr jr 1).symm.trans hquery
  exact (dDecide_eq q C t v).trans
    (Flp.flp_complete (F := ZMod (q + 1)) C ω hC t ht input pr qr jr proof v o hvalid' hzero hprove' hquery')

open Classical in
/-- soundness (counting form), at the driver's instance; `|F| = q + 1` -/
theorem flp_soundness_driver (q : Nat) [Fact (Nat.Prime (q + 1))] (hq : 2 ≤ q) (C : FieldCtx (DF q))
    (ω : Nat → ZMod (q + 1)) (hC : CtxOk (F := ZMod (q + 1)) C ω) (t : TypeSpec) (ht : t.WellFormed)
    (input jr o : List (DF q)) (hvalid : dValid q C t input jr 1 = .ok o) (hnz : ∃ x ∈ o, x ≠ (0 : Fin (q + 1)))
    (proof : List (DF q)) :
    (univ.filter fun qr : Fin t.queryRandLen → DF q =>
      ∃ v, dQuery q C t input proof (List.ofFn qr) jr 1 = .ok v ∧ dDecide q C t v = .ok true).card ≤
      (2 * (wirePolyLen t.gadgetCalls - 1) + 1) * (q + 1) ^ (t.queryRandLen - 1) := by
  have hvalid' := (dValid_eq q hq C t input jr 1).symm.trans hvalid
  have h := Flp.flp_soundness (F := ZMod (q + 1)) C hC t ht input jr o hvalid' hnz proof
  rw [ZMod.card] at h
  unfold dQuery dDecide
  rw [finInv_eq q hq]
  exact h

/-- linearity of `query` over additive shares, at the driver's instance -/
theorem query_share_linear_driver (q : Nat) [Fact (Nat.Prime (q + 1))] (hq : 2 ≤ q) (C : FieldCtx (DF q))
    (hC : ∀ n, C.ofNat n = Fin.ofNat (q + 1) n) (t : TypeSpec) (inputs proofs : List (List (DF q)))
    (qr jr whole : List (DF q))
    (hlen : inputs.length = proofs.length) (hne : inputs ≠ [])
    (hin : ∀ x ∈ inputs, x.length = t.inputLen) (hpr : ∀ x ∈ proofs, x.length = t.proofLen)
    (hns : ¬ (q + 1) ∣ inputs.length)
    (hquery : dQuery q C t (dVsum q t.inputLen inputs) (dVsum q t.proofLen proofs) qr jr 1 = .ok whole) :
    ∃ vs : List (List (DF q)), vs.length = inputs.length ∧
      (∀ i (hi : i < inputs.length) (hp : i < proofs.length) (h : i < vs.length),
          dQuery q C t (inputs[i]) (proofs[i]) qr jr inputs.length = .ok (vs[i])) ∧
      dVsum q t.verifierLen vs = whole := by
  have hns' : ((inputs.length : Nat) : ZMod (q + 1)) ≠ 0 := by
    rw [Ne, ZMod.natCast_eq_zero_iff]; exact hns
  have hquery' := (dQuery_eq q hq C t _ _ qr jr 1).symm.trans hquery
  have h := Flp.query_share_linear (F := ZMod (q + 1)) C hC t inputs proofs qr jr whole hlen hne hin hpr hns' hquery'
  unfold dQuery
  rw [finInv_eq q hq]
  exact h

/-- an element of the driver's field, read in `ZMod (q + 1)` (the identity function) -/
abbrev toZ (q : Nat) (x : Fin (q + 1)) : ZMod (q + 1) := x

/-- the forward transform the driver runs with a `CtxOk` context's roots is the DFT -/
theorem ntt_is_dft_driver (q : Nat) [Fact (Nat.Prime (q + 1))] (C : FieldCtx (DF q)) (ω : Nat → ZMod (q + 1))
    (hC : CtxOk (F := ZMod (q + 1)) C ω) (setS : Bool) (d outLen : Nat) (outp inp : Array (DF q))
    (hd : d ≤ maxRoots) (hds : setS = true → d ≤ maxRoots - 1) (hol : 2 ^ d ≤ outLen) (hop : 2 ^ d ≤ outp.size)
    (hne : d = 0 → inp.size ≠ 0) :
    ∃ a, dNttInternal q C.root outLen outp inp (2 ^ d) setS = .ok a ∧ a.size = outp.size ∧
      ∀ k, k < 2 ^ d → toZ q (a.getD k 0) =
        ∑ t ∈ range (2 ^ d), toZ q (inp.getD t 0) * (sigma ω setS d * ω d ^ k) ^ t := by
  have hmr : maxRoots = 20 := rfl
  have hle : (if setS then d + 1 else d) ≤ maxRoots := by
    cases setS
    · simpa using hd
    · have := hds rfl; simp only [if_true]; omega
  exact ntt_eq_dft (F := ZMod (q + 1)) C.root setS d outLen (hC.roots.mono hle) outp inp hd hds hol hop
    (hC.avail.mono hle) hne

/-! ### FP32 -/

/-- **completeness at the driver's FP32 instance and context** -/
theorem flp_complete_FP32 (t : TypeSpec) (ht : t.WellFormed) (input pr qr jr proof v o : List (Fin (q32 + 1)))
    (hvalid : dValid q32 (Prio.fieldCtx "FP32" q32) t input jr 1 = .ok o) (hzero : ∀ x ∈ o, x = (0 : Fin (q32 + 1)))
    (hprove : dProve q32 (Prio.fieldCtx "FP32" q32) t input pr jr = .ok proof)
    (hquery : dQuery q32 (Prio.fieldCtx "FP32" q32) t input proof qr jr 1 = .ok v) :
    dDecide q32 (Prio.fieldCtx "FP32" q32) t v = .ok true :=
  flp_complete_driver q32 q32_ge _ _ FP32_ctxOk t ht input pr qr jr proof v o hvalid hzero hprove hquery

open Classical in
/-- **soundness at the driver's FP32 instance and context**: at most `(2(p − 1) + 1)·|F|^(queryRandLen − 1)` of the
    `|F|^queryRandLen` query-randomness vectors make an invalid input pass, whatever the proof; `|F| = FP32.prime` -/
theorem flp_soundness_FP32 (t : TypeSpec) (ht : t.WellFormed) (input jr o : List (Fin (q32 + 1)))
    (hvalid : dValid q32 (Prio.fieldCtx "FP32" q32) t input jr 1 = .ok o) (hnz : ∃ x ∈ o, x ≠ (0 : Fin (q32 + 1)))
    (proof : List (Fin (q32 + 1))) :
    (univ.filter fun qr : Fin t.queryRandLen → Fin (q32 + 1) =>
      ∃ v, dQuery q32 (Prio.fieldCtx "FP32" q32) t input proof (List.ofFn qr) jr 1 = .ok v ∧
        dDecide q32 (Prio.fieldCtx "FP32" q32) t v = .ok true).card ≤
      (2 * (wirePolyLen t.gadgetCalls - 1) + 1) * FP32.prime ^ (t.queryRandLen - 1) := by
  rw [← q32_succ]
  exact flp_soundness_driver q32 q32_ge _ _ FP32_ctxOk t ht input jr o hvalid hnz proof

/-- **share-linearity of `query` at the driver's FP32 instance and context** -/
theorem query_share_linear_FP32 (t : TypeSpec) (inputs proofs : List (List (Fin (q32 + 1))))
    (qr jr whole : List (Fin (q32 + 1)))
    (hlen : inputs.length = proofs.length) (hne : inputs ≠ [])
    (hin : ∀ x ∈ inputs, x.length = t.inputLen) (hpr : ∀ x ∈ proofs, x.length = t.proofLen)
    (hns : inputs.length < FP32.prime)
    (hquery : dQuery q32 (Prio.fieldCtx "FP32" q32) t (dVsum q32 t.inputLen inputs) (dVsum q32 t.proofLen proofs) qr jr 1
      = .ok whole) :
    ∃ vs : List (List (Fin (q32 + 1))), vs.length = inputs.length ∧
      (∀ i (hi : i < inputs.length) (hp : i < proofs.length) (h : i < vs.length),
          dQuery q32 (Prio.fieldCtx "FP32" q32) t (inputs[i]) (proofs[i]) qr jr inputs.length = .ok (vs[i])) ∧
      dVsum q32 t.verifierLen vs = whole := by
  refine query_share_linear_driver q32 q32_ge _ (fun _ => rfl) t inputs proofs qr jr whole hlen hne hin hpr ?_ hquery
  intro hd
  have hpos : 0 < inputs.length := List.length_pos_iff.mpr hne
  have := Nat.le_of_dvd hpos hd
  have e := q32_succ
  omega

/-! ### FP64 -/

/-- **completeness at the driver's FP64 instance and context** -/
theorem flp_complete_FP64 (t : TypeSpec) (ht : t.WellFormed) (input pr qr jr proof v o : List (Fin (q64 + 1)))
    (hvalid : dValid q64 (Prio.fieldCtx "FP64" q64) t input jr 1 = .ok o) (hzero : ∀ x ∈ o, x = (0 : Fin (q64 + 1)))
    (hprove : dProve q64 (Prio.fieldCtx "FP64" q64) t input pr jr = .ok proof)
    (hquery : dQuery q64 (Prio.fieldCtx "FP64" q64) t input proof qr jr 1 = .ok v) :
    dDecide q64 (Prio.fieldCtx "FP64" q64) t v = .ok true :=
  flp_complete_driver q64 q64_ge _ _ FP64_ctxOk t ht input pr qr jr proof v o hvalid hzero hprove hquery

open Classical in
/-- **soundness at the driver's FP64 instance and context**: at most `(2(p − 1) + 1)·|F|^(queryRandLen − 1)` of the
    `|F|^queryRandLen` query-randomness vectors make an invalid input pass, whatever the proof; `|F| = FP64.prime` -/
theorem flp_soundness_FP64 (t : TypeSpec) (ht : t.WellFormed) (input jr o : List (Fin (q64 + 1)))
    (hvalid : dValid q64 (Prio.fieldCtx "FP64" q64) t input jr 1 = .ok o) (hnz : ∃ x ∈ o, x ≠ (0 : Fin (q64 + 1)))
    (proof : List (Fin (q64 + 1))) :
    (univ.filter fun qr : Fin t.queryRandLen → Fin (q64 + 1) =>
      ∃ v, dQuery q64 (Prio.fieldCtx "FP64" q64) t input proof (List.ofFn qr) jr 1 = .ok v ∧
        dDecide q64 (Prio.fieldCtx "FP64" q64) t v = .ok true).card ≤
      (2 * (wirePolyLen t.gadgetCalls - 1) + 1) * FP64.prime ^ (t.queryRandLen - 1) := by
  rw [← q64_succ]
  exact flp_soundness_driver q64 q64_ge _ _ FP64_ctxOk t ht input jr o hvalid hnz proof

/-- **share-linearity of `query` at the driver's FP64 instance and context** -/
theorem query_share_linear_FP64 (t : TypeSpec) (inputs proofs : List (List (Fin (q64 + 1))))
    (qr jr whole : List (Fin (q64 + 1)))
    (hlen : inputs.length = proofs.length) (hne : inputs ≠ [])
    (hin : ∀ x ∈ inputs, x.length = t.inputLen) (hpr : ∀ x ∈ proofs, x.length = t.proofLen)
    (hns : inputs.length < FP64.prime)
    (hquery : dQuery q64 (Prio.fieldCtx "FP64" q64) t (dVsum q64 t.inputLen inputs) (dVsum q64 t.proofLen proofs) qr jr 1
      = .ok whole) :
    ∃ vs : List (List (Fin (q64 + 1))), vs.length = inputs.length ∧
      (∀ i (hi : i < inputs.length) (hp : i < proofs.length) (h : i < vs.length),
          dQuery q64 (Prio.fieldCtx "FP64" q64) t (inputs[i]) (proofs[i]) qr jr inputs.length = .ok (vs[i])) ∧
      dVsum q64 t.verifierLen vs = whole := by
  refine query_share_linear_driver q64 q64_ge _ (fun _ => rfl) t inputs proofs qr jr whole hlen hne hin hpr ?_ hquery
  intro hd
  have hpos : 0 < inputs.length := List.length_pos_iff.mpr hne
  have := Nat.le_of_dvd hpos hd
  have e := q64_succ
  omega

/-! ### FP128 -/

/-- **completeness at the driver's FP128 instance and context** -/
theorem flp_complete_FP128 (t : TypeSpec) (ht : t.WellFormed) (input pr qr jr proof v o : List (Fin (q128 + 1)))
    (hvalid : dValid q128 (Prio.fieldCtx "FP128" q128) t input jr 1 = .ok o) (hzero : ∀ x ∈ o, x = (0 : Fin (q128 + 1)))
    (hprove : dProve q128 (Prio.fieldCtx "FP128" q128) t input pr jr = .ok proof)
    (hquery : dQuery q128 (Prio.fieldCtx "FP128" q128) t input proof qr jr 1 = .ok v) :
    dDecide q128 (Prio.fieldCtx "FP128" q128) t v = .ok true :=
  flp_complete_driver q128 q128_ge _ _ FP128_ctxOk t ht input pr qr jr proof v o hvalid hzero hprove hquery

open Classical in
/-- **soundness at the driver's FP128 instance and context**: at most `(2(p − 1) + 1)·|F|^(queryRandLen − 1)` of the
    `|F|^queryRandLen` query-randomness vectors make an invalid input pass, whatever the proof; `|F| = FP128.prime` -/
theorem flp_soundness_FP128 (t : TypeSpec) (ht : t.WellFormed) (input jr o : List (Fin (q128 + 1)))
    (hvalid : dValid q128 (Prio.fieldCtx "FP128" q128) t input jr 1 = .ok o) (hnz : ∃ x ∈ o, x ≠ (0 : Fin (q128 + 1)))
    (proof : List (Fin (q128 + 1))) :
    (univ.filter fun qr : Fin t.queryRandLen → Fin (q128 + 1) =>
      ∃ v, dQuery q128 (Prio.fieldCtx "FP128" q128) t input proof (List.ofFn qr) jr 1 = .ok v ∧
        dDecide q128 (Prio.fieldCtx "FP128" q128) t v = .ok true).card ≤
      (2 * (wirePolyLen t.gadgetCalls - 1) + 1) * FP128.prime ^ (t.queryRandLen - 1) := by
  rw [← q128_succ]
  exact flp_soundness_driver q128 q128_ge _ _ FP128_ctxOk t ht input jr o hvalid hnz proof

/-- **share-linearity of `query` at the driver's FP128 instance and context** -/
theorem query_share_linear_FP128 (t : TypeSpec) (inputs proofs : List (List (Fin (q128 + 1))))
    (qr jr whole : List (Fin (q128 + 1)))
    (hlen : inputs.length = proofs.length) (hne : inputs ≠ [])
    (hin : ∀ x ∈ inputs, x.length = t.inputLen) (hpr : ∀ x ∈ proofs, x.length = t.proofLen)
    (hns : inputs.length < FP128.prime)
    (hquery : dQuery q128 (Prio.fieldCtx "FP128" q128) t (dVsum q128 t.inputLen inputs) (dVsum q128 t.proofLen proofs) qr jr 1
      = .ok whole) :
    ∃ vs : List (List (Fin (q128 + 1))), vs.length = inputs.length ∧
      (∀ i (hi : i < inputs.length) (hp : i < proofs.length) (h : i < vs.length),
          dQuery q128 (Prio.fieldCtx "FP128" q128) t (inputs[i]) (proofs[i]) qr jr inputs.length = .ok (vs[i])) ∧
      dVsum q128 t.verifierLen vs = whole := by
  refine query_share_linear_driver q128 q128_ge _ (fun _ => rfl) t inputs proofs qr jr whole hlen hne hin hpr ?_ hquery
  intro hd
  have hpos : 0 < inputs.length := List.length_pos_iff.mpr hne
  have := Nat.le_of_dvd hpos hd
  have e := q128_succ
  omega

end corollaries

-- all depend only on [propext, Classical.choice, Quot.sound] (checked):
-- #print axioms inst_add
-- #print axioms fpow_eq_pow
-- #print axioms finInv_apply
-- #print axioms finInv_eq
-- #print axioms dQuery_eq
-- #print axioms dProve_eq
-- #print axioms dValid_eq
-- #print axioms dDecide_eq
-- #print axioms ctxOk_of_table
-- #print axioms FP32_ctxOk
-- #print axioms FP64_ctxOk
-- #print axioms FP128_ctxOk
-- #print axioms ntt_is_dft_driver
-- #print axioms flp_complete_FP32
-- #print axioms flp_complete_FP64
-- #print axioms flp_complete_FP128
-- #print axioms flp_soundness_FP32
-- #print axioms flp_soundness_FP64
-- #print axioms flp_soundness_FP128
-- #print axioms query_share_linear_FP32
-- #print axioms query_share_linear_FP64
-- #print axioms query_share_linear_FP128

end Prio.Bridge
