import PrioProofs.NttInv
import PrioModel.Flp
import Mathlib.Data.List.Forall2
import Mathlib.Data.List.GetD

/-! Doubling (`double_evaluations`), multiplication in the Lagrange basis (`poly_mul_lagrange`),
    Horner evaluation, and the gadget polynomials (`Gadget::eval_poly`) of `src/flp/gadgets.rs`. -/
namespace Prio.Ntt
open Finset BigOperators

variable {F : Type} [Field F]

/-! ## Part 0: helpers -/

theorem Roots.mono {ω : Nat → F} {top top' : Nat} (h : Roots ω top) (hle : top' ≤ top) : Roots ω top' :=
  ⟨h.one_neg, fun l hl hlt => h.sq l hl (by omega)⟩

theorem Roots.pred {ω : Nat → F} {d : Nat} (h : Roots ω (d + 1)) : Roots ω d := h.mono (by omega)

omit [Field F] in
theorem RootsAvail.mono {root : Nat → Option F} {ω : Nat → F} {top top' : Nat} (h : RootsAvail root ω top)
    (hle : top' ≤ top) : RootsAvail root ω top' :=
  fun l hl => h l (by omega)

omit [Field F] in
theorem RootsAvail.pred {root : Nat → Option F} {ω : Nat → F} {d : Nat} (h : RootsAvail root ω (d + 1)) :
    RootsAvail root ω d := h.mono (by omega)

theorem Roots.pow_even {ω : Nat → F} {d : Nat} (h : Roots ω (d + 1)) (k : Nat) :
    ω (d + 1) ^ (2 * k) = ω d ^ k := by
  rw [pow_mul, pow_two, h.sq (d + 1) (by omega) (le_refl _)]
  rfl

theorem Roots.pow_odd {ω : Nat → F} {d : Nat} (h : Roots ω (d + 1)) (k : Nat) :
    ω (d + 1) ^ (2 * k + 1) = ω (d + 1) * ω d ^ k := by
  rw [pow_succ, h.pow_even k, mul_comm]

omit [Field F] in
theorem log2_two_pow_check (d : Nat) : ¬ ((2 : Nat) ^ d = 0 ∨ 2 ^ Nat.log2 (2 ^ d) ≠ 2 ^ d) := by
  rw [Nat.log2_two_pow]
  have : 0 < 2 ^ d := Nat.pow_pos (by norm_num)
  omega

theorem getD_ofFn {n : Nat} (f : Fin n → F) (k : Nat) (hk : k < n) : (Array.ofFn f).getD k 0 = f ⟨k, hk⟩ := by
  simp [Array.getD_eq_getD_getElem?, hk]

theorem getD_oob (a : Array F) (k : Nat) (hk : a.size ≤ k) : a.getD k 0 = 0 := by
  rw [Array.getD_eq_getD_getElem?, Array.getElem?_eq_none hk]
  rfl

theorem getD_replicate_zero (n k : Nat) : (Array.replicate n (0 : F)).getD k 0 = 0 := by
  by_cases hk : k < n
  · simp [Array.getD_eq_getD_getElem?, hk]
  · exact getD_oob _ _ (by simp; omega)

theorem inv_two_pow (h2 : (2 : F) ≠ 0) (d : Nat) : (((2 ^ d : Nat) : F))⁻¹ * (2 : F) ^ d = 1 := by
  rw [cast_two_pow]
  exact inv_mul_cancel₀ (pow_ne_zero _ h2)

/-! ## Part 1: doubling -/

/-- **`double_evaluations`**: from the values of a polynomial of degree `< 2^d` on the `2^d` nodes
    `ω_d^i` to its values on the `2^(d+1)` nodes `ω_(d+1)^k` -/
theorem doubleEvaluations_spec {ω : Nat → F} (root : Nat → Option F) (d : Nat) (h : Roots ω (d + 1))
    (h2 : (2 : F) ≠ 0) (hr : RootsAvail root ω (d + 1)) (hd : d + 1 ≤ maxRoots)
    (evals : Array F) (hsz : evals.size = 2 ^ d) (s : F) (hs : s * (2 : F) ^ d = 1) (coef : Nat → F)
    (hv : ∀ i, i < 2 ^ d → evals.getD i 0 = ∑ t ∈ range (2 ^ d), coef t * (ω d ^ i) ^ t) :
    ∃ out, doubleEvaluations root (2 * 2 ^ d) evals s = .ok out ∧ out.size = 2 ^ (d + 1) ∧
      ∀ k, k < 2 ^ (d + 1) → out.getD k 0 = ∑ t ∈ range (2 ^ d), coef t * (ω (d + 1) ^ k) ^ t := by
  have hpos : 0 < 2 ^ d := Nat.pow_pos (by norm_num)
  have hrep : 2 ^ d ≤ (Array.replicate (2 ^ d) (0 : F)).size := by simp
  obtain ⟨front, f1, f2, f3⟩ := nttInv_of_values root d h.pred h2 (Array.replicate (2 ^ d) 0) evals s hs
    (by omega) hrep hr.pred (fun _ => by rw [hsz]; omega) coef hv
  obtain ⟨back, b1, b2, b3⟩ := ntt_eq_dft (ω := ω) root true d (2 ^ d) (by simpa using h)
    (Array.replicate (2 ^ d) 0) front (by omega) (fun _ => by omega) (le_refl _) hrep (by simpa using hr)
    (fun _ => by rw [f2]; simp)
  have hchk := log2_two_pow_check d
  rw [← hsz] at f1 b1 hchk
  unfold doubleEvaluations
  simp only
  rw [if_neg hchk, if_neg (by rw [hsz]; simp), f1]
  simp only
  rw [b1]
  simp only
  refine ⟨_, rfl, by simp [hsz, pow_succ, mul_comm], ?_⟩
  intro k hk
  have hk' : k < 2 * evals.size := by rw [pow_succ] at hk; omega
  rw [getD_ofFn _ k hk']
  simp only
  by_cases c : k % 2 = 0
  · rw [if_pos c, hv (k / 2) (by omega)]
    apply sum_congr rfl
    intro t _
    have : k = 2 * (k / 2) := by omega
    conv_rhs => rw [this, h.pow_even]
  · rw [if_neg c, b3 (k / 2) (by omega)]
    apply sum_congr rfl
    intro t ht
    have : k = 2 * (k / 2) + 1 := by omega
    conv_rhs => rw [this, h.pow_odd]
    rw [f3 t (mem_range.mp ht)]
    simp [sigma]

/-! ## Part 2: multiplication in the Lagrange basis -/

/-- **`poly_mul_lagrange`**: from the values of two polynomials of degree `< 2^d` on the `2^d` nodes
    to the values of their product on the `2^(d+1)` nodes -/
theorem polyMulLagrange_spec {ω : Nat → F} (root : Nat → Option F) (d : Nat) (h : Roots ω (d + 1))
    (h2 : (2 : F) ≠ 0) (hr : RootsAvail root ω (d + 1)) (hd : d + 1 ≤ maxRoots)
    (p q : Array F) (hp : p.size = 2 ^ d) (hq : q.size = 2 ^ d) (s : F) (hs : s * (2 : F) ^ d = 1)
    (cp cq : Nat → F)
    (hvp : ∀ i, i < 2 ^ d → p.getD i 0 = ∑ t ∈ range (2 ^ d), cp t * (ω d ^ i) ^ t)
    (hvq : ∀ i, i < 2 ^ d → q.getD i 0 = ∑ t ∈ range (2 ^ d), cq t * (ω d ^ i) ^ t) :
    ∃ out, polyMulLagrange root (2 * 2 ^ d) p q s = .ok out ∧ out.size = 2 ^ (d + 1) ∧
      ∀ k, k < 2 ^ (d + 1) → out.getD k 0 =
        (∑ t ∈ range (2 ^ d), cp t * (ω (d + 1) ^ k) ^ t) * (∑ t ∈ range (2 ^ d), cq t * (ω (d + 1) ^ k) ^ t) := by
  obtain ⟨pp, p1, p2, p3⟩ := doubleEvaluations_spec root d h h2 hr hd p hp s hs cp hvp
  obtain ⟨qq, q1, q2, q3⟩ := doubleEvaluations_spec root d h h2 hr hd q hq s hs cq hvq
  unfold polyMulLagrange
  simp only [hp, hq]
  rw [if_neg (by simp), if_neg (log2_two_pow_check d), p1]
  simp only
  rw [q1]
  simp only
  refine ⟨_, rfl, by simp [p2], ?_⟩
  intro k hk
  rw [getD_ofFn _ k (by rw [p2]; exact hk)]
  simp only
  rw [p3 k hk, q3 k hk]

/-! ## Part 3: Horner -/

theorem horner_foldl (x : F) (cs : List F) (acc : F) :
    cs.foldl (fun a c => a * x + c) acc =
      acc * x ^ cs.length + ∑ t ∈ range cs.length, cs.reverse.getD t 0 * x ^ t := by
  induction cs generalizing acc with
  | nil => simp
  | cons c cs ih =>
    simp only [List.foldl_cons, ih, List.length_cons, List.reverse_cons]
    rw [sum_range_succ]
    have e1 : ∀ t ∈ range cs.length, (cs.reverse ++ [c]).getD t 0 * x ^ t = cs.reverse.getD t 0 * x ^ t := by
      intro t ht
      have : t < cs.reverse.length := by simpa using ht
      rw [List.getD_append _ _ _ _ this]
    rw [sum_congr rfl e1]
    have e2 : (cs.reverse ++ [c]).getD cs.length 0 = c := by
      rw [List.getD_append_right _ _ _ _ (by simp)]
      simp
    rw [e2]
    ring

/-- **`poly_eval_monomial`** (Horner) computes `Σ pᵢ xⁱ` -/
theorem polyEvalMonomial_eq_sum (p : List F) (x : F) :
    polyEvalMonomial p x = ∑ t ∈ range p.length, p.getD t 0 * x ^ t := by
  unfold polyEvalMonomial
  cases hrev : p.reverse with
  | nil =>
    have : p = [] := by simpa using hrev
    simp [this]
  | cons top rest =>
    simp only
    rw [horner_foldl]
    have hp : p = rest.reverse ++ [top] := by
      have := congrArg List.reverse hrev
      simpa using this
    rw [hp]
    simp only [List.length_append, List.length_reverse, List.length_cons, List.length_nil, zero_add]
    rw [sum_range_succ]
    have e1 : ∀ t ∈ range rest.length, (rest.reverse ++ [top]).getD t 0 * x ^ t = rest.reverse.getD t 0 * x ^ t := by
      intro t ht
      have : t < rest.reverse.length := by simpa using ht
      rw [List.getD_append _ _ _ _ this]
    rw [sum_congr rfl e1]
    have e2 : (rest.reverse ++ [top]).getD rest.length 0 = top := by
      rw [List.getD_append_right _ _ _ _ (by simp)]
      simp
    rw [e2]
    ring

end Prio.Ntt

namespace Prio.Flp
open Prio.Ntt Finset BigOperators

/-! ## Part 4: the gadget polynomials -/

/-! ### `next_power_of_two`, `wire_poly_len`, `gadget_poly_len` -/

theorem nextPow2_of_bounds (n D : Nat) (hlo : 2 ^ D < n) (hhi : n ≤ 2 ^ (D + 1)) : nextPow2 n = 2 ^ (D + 1) := by
  unfold nextPow2
  have hpos : 0 < 2 ^ D := Nat.pow_pos (by norm_num)
  rw [if_neg (by omega)]
  have : Nat.log2 (n - 1) = D := by
    rw [Nat.log2_eq_iff (by omega)]
    omega
  rw [this]

theorem nextPow2_two_pow (d : Nat) : nextPow2 (2 ^ d) = 2 ^ d := by
  rcases Nat.eq_zero_or_pos d with e | e
  · subst e; simp [nextPow2]
  · obtain ⟨m, rfl⟩ : ∃ m, d = m + 1 := ⟨d - 1, by omega⟩
    apply nextPow2_of_bounds _ m _ (le_refl _)
    rw [pow_succ]
    have : 0 < 2 ^ m := Nat.pow_pos (by norm_num)
    omega

theorem le_nextPow2 (n : Nat) : n ≤ nextPow2 n := by
  unfold nextPow2
  split
  · omega
  · have := @Nat.lt_log2_self (n - 1)
    omega

theorem nextPow2_is_pow (n : Nat) : ∃ D, nextPow2 n = 2 ^ D := by
  unfold nextPow2
  split
  · exact ⟨0, rfl⟩
  · exact ⟨_, rfl⟩

/-- the size of the gadget polynomial of a degree-2 gadget: twice the wire polynomial length -/
theorem nextPow2_deg2 (d : Nat) (hd : 1 ≤ d) : nextPow2 (2 * (2 ^ d - 1) + 1) = 2 ^ (d + 1) := by
  obtain ⟨m, rfl⟩ : ∃ m, d = m + 1 := ⟨d - 1, by omega⟩
  have h0 : 0 < 2 ^ m := Nat.pow_pos (by norm_num)
  have h1 : 2 ^ (m + 1) = 2 * 2 ^ m := by rw [pow_succ]; ring
  have h2 : 2 ^ (m + 1 + 1) = 4 * 2 ^ m := by rw [pow_succ, pow_succ]; ring
  apply nextPow2_of_bounds
  · rw [h1]; omega
  · rw [h2, h1]; omega

theorem gadgetPolyLen_two (n : Nat) : gadgetPolyLen 2 n = 2 * (n - 1) + 1 := rfl

theorem nextPow2_gadgetPolyLen_two (d : Nat) (hd : 1 ≤ d) : nextPow2 (gadgetPolyLen 2 (2 ^ d)) = 2 ^ (d + 1) :=
  nextPow2_deg2 d hd

/-- `wire_poly_len(calls)` is a power of two, at least 2 when there is a call -/
theorem wirePolyLen_is_pow (calls : Nat) : ∃ d, wirePolyLen calls = 2 ^ d ∧ (1 ≤ calls → 1 ≤ d) := by
  obtain ⟨d, hd⟩ := nextPow2_is_pow (1 + calls)
  refine ⟨d, hd, fun hc => ?_⟩
  have := le_nextPow2 (1 + calls)
  rw [hd] at this
  rcases Nat.eq_zero_or_pos d with e | e
  · subst e; simp at this; omega
  · exact e

/-- for a gadget of degree at least one the output domain is at least as large as the wire domain -/
theorem le_of_nextPow2_gadgetPolyLen (deg d D : Nat) (hdeg : 1 ≤ deg)
    (hD : nextPow2 (gadgetPolyLen deg (2 ^ d)) = 2 ^ D) : d ≤ D := by
  have h1 := le_nextPow2 (gadgetPolyLen deg (2 ^ d))
  rw [hD] at h1
  have hpos : 0 < 2 ^ d := Nat.pow_pos (by norm_num)
  have h2 : 2 ^ d ≤ gadgetPolyLen deg (2 ^ d) := by
    unfold gadgetPolyLen
    have : 1 * (2 ^ d - 1) ≤ deg * (2 ^ d - 1) := Nat.mul_le_mul_right _ hdeg
    omega
  exact (Nat.pow_le_pow_iff_right (by norm_num)).mp (le_trans h2 h1)

/-! ### the gadget polynomials -/

variable {F : Type} [Field F] [BEq F]

/-- `w` holds the values of the polynomial with coefficients `c` (degree `< 2^d`) on the nodes `ω_d^i` -/
def WireOf (ω : Nat → F) (d : Nat) (w : Array F) (c : Nat → F) : Prop :=
  w.size = 2 ^ d ∧ ∀ i, i < 2 ^ d → w.getD i 0 = ∑ t ∈ range (2 ^ d), c t * (ω d ^ i) ^ t

omit [BEq F] in
theorem sizeInv_ok (C : FieldCtx F) (hof : ∀ n, C.ofNat n = (n : F)) (h2 : (2 : F) ≠ 0) (d : Nat) :
    (C.ofNat (2 ^ d))⁻¹ * (2 : F) ^ d = 1 := by
  rw [hof]; exact inv_two_pow h2 d

omit [Field F] [BEq F] in
theorem any_size_false (wires : List (Array F)) (n : Nat) (h : ∀ w ∈ wires, w.size = n) :
    wires.any (fun w => w.size != n) = false := by
  rw [List.any_eq_false]
  intro w hw
  simp [h w hw]

/-- **`Mul::eval_poly`** -/
theorem evalPoly_mul_spec {ω : Nat → F} (C : FieldCtx F) (calls d : Nat) (h : Roots ω (d + 1)) (h2 : (2 : F) ≠ 0)
    (hr : RootsAvail C.root ω (d + 1)) (hof : ∀ n, C.ofNat n = (n : F)) (hd1 : 1 ≤ d) (hd : d + 1 ≤ maxRoots)
    (wires : List (Array F)) (coefs : List (Nat → F)) (hw : List.Forall₂ (WireOf ω d) wires coefs)
    (hlen : wires.length = 2) :
    ∃ out, (Gadget.mk .mul calls).evalPoly C (2 ^ (d + 1)) wires = .ok out ∧ out.size = 2 ^ (d + 1) ∧
      ∀ k, k < 2 ^ (d + 1) →
        (Gadget.mk .mul calls).eval (coefs.map fun c => ∑ t ∈ range (2 ^ d), c t * (ω (d + 1) ^ k) ^ t) =
          .ok (out.getD k 0) := by
  obtain ⟨a, b, rfl⟩ : ∃ a b, wires = [a, b] := by
    match wires, hlen with
    | [a, b], _ => exact ⟨a, b, rfl⟩
  obtain ⟨ca, cb, rfl, ha, hb⟩ : ∃ ca cb, coefs = [ca, cb] ∧ WireOf ω d a ca ∧ WireOf ω d b cb := by
    cases hw with
    | cons h1 hw' =>
      cases hw' with
      | cons h2 hw'' =>
        cases hw''
        exact ⟨_, _, rfl, h1, h2⟩
  obtain ⟨out, o1, o2, o3⟩ := polyMulLagrange_spec C.root d h h2 hr hd a b ha.1 hb.1 (C.ofNat (2 ^ d))⁻¹
    (sizeInv_ok C hof h2 d) ca cb ha.2 hb.2
  have e21 : 2 ^ (d + 1) = 2 * 2 ^ d := by rw [pow_succ]; ring
  have c1 : ¬ ([a, b].length ≠ (Gadget.mk (F := F) .mul calls).arity ∨ [a, b].length = 0) := by
    simp [Gadget.arity]
  have c2 : ([a, b].any fun w => w.size != ([a, b].headD #[]).size) = false := by
    apply any_size_false
    intro w hw
    simp only [List.mem_cons, List.not_mem_nil, or_false] at hw
    rcases hw with rfl | rfl
    · rfl
    · exact hb.1.trans ha.1.symm
  have c3 : ¬ (2 ^ (d + 1) ≠ nextPow2 (gadgetPolyLen (Gadget.mk (F := F) .mul calls).degree ([a, b].headD #[]).size)) := by
    simp only [List.headD_cons, ha.1, Gadget.degree, nextPow2_gadgetPolyLen_two d hd1]
    simp
  unfold Gadget.evalPoly
  simp only [c1, c2, c3, ↓reduceIte, Bool.false_eq_true]
  simp only [List.headD_cons, ha.1, List.getD_cons_zero, List.getD_cons_succ]
  refine ⟨out, by rw [e21, o1]; rfl, o2, ?_⟩
  intro k hk
  have c4 : ¬ ((List.map (fun c => ∑ t ∈ range (2 ^ d), c t * (ω (d + 1) ^ k) ^ t) [ca, cb]).length ≠
      (Gadget.mk (F := F) .mul calls).arity ∨
      (List.map (fun c => ∑ t ∈ range (2 ^ d), c t * (ω (d + 1) ^ k) ^ t) [ca, cb]).length = 0) := by
    simp [Gadget.arity]
  unfold Gadget.eval
  simp only [c4, ↓reduceIte]
  simp only [List.map_cons, List.getD_cons_zero, List.getD_cons_succ]
  rw [o3 k hk]

omit [BEq F] in
/-- the zero-padded transform of the coefficients: only the first `2^d` terms contribute -/
theorem sum_pad (mono : Array F) (c : Nat → F) (d D : Nat) (hdD : d ≤ D) (hsz : mono.size = 2 ^ d)
    (hm : ∀ t, t < 2 ^ d → mono.getD t 0 = c t) (x : F) :
    ∑ t ∈ range (2 ^ D), mono.getD t 0 * x ^ t = ∑ t ∈ range (2 ^ d), c t * x ^ t := by
  have hle : 2 ^ d ≤ 2 ^ D := Nat.pow_le_pow_right (by norm_num) hdD
  rw [← sum_subset (range_subset_range.mpr hle)]
  · apply sum_congr rfl
    intro t ht
    rw [hm t (mem_range.mp ht)]
  · intro t _ ht
    rw [getD_oob mono t (by rw [hsz]; simpa using ht), zero_mul]

/-- **`PolyEval::eval_poly`** (any polynomial; `2^D` is the size of the output domain, `d ≤ D` holds as soon
    as the polynomial has degree at least one, see `le_of_nextPow2_gadgetPolyLen`) -/
theorem evalPoly_polyEval_spec {ω : Nat → F} (C : FieldCtx F) (poly : List F) (calls d D : Nat)
    (h : Roots ω D) (h2 : (2 : F) ≠ 0) (hr : RootsAvail C.root ω D) (hof : ∀ n, C.ofNat n = (n : F))
    (hdD : d ≤ D) (hD : D ≤ maxRoots) (hcalls : wirePolyLen calls = 2 ^ d)
    (hout : nextPow2 (gadgetPolyLen (polyDeg poly) (2 ^ d)) = 2 ^ D)
    (wires : List (Array F)) (coefs : List (Nat → F)) (hw : List.Forall₂ (WireOf ω d) wires coefs)
    (hlen : wires.length = 1) :
    ∃ out, (Gadget.mk (.polyEval poly) calls).evalPoly C (2 ^ D) wires = .ok out ∧ out.size = 2 ^ D ∧
      ∀ k, k < 2 ^ D →
        (Gadget.mk (.polyEval poly) calls).eval (coefs.map fun c => ∑ t ∈ range (2 ^ d), c t * (ω D ^ k) ^ t) =
          .ok (out.getD k 0) := by
  obtain ⟨w, rfl⟩ : ∃ w, wires = [w] := by
    match wires, hlen with
    | [w], _ => exact ⟨w, rfl⟩
  obtain ⟨c, rfl, hwc⟩ : ∃ c, coefs = [c] ∧ WireOf ω d w c := by
    cases hw with
    | cons h1 hw' =>
      cases hw'
      exact ⟨_, rfl, h1⟩
  have hposd : 0 < 2 ^ d := Nat.pow_pos (by norm_num)
  have hrepd : 2 ^ d ≤ (Array.replicate (2 ^ d) (0 : F)).size := by simp
  have hrepD : 2 ^ D ≤ (Array.replicate (2 ^ D) (0 : F)).size := by simp
  obtain ⟨mono, m1, m2, m3⟩ := nttInv_of_values C.root d (h.mono hdD) h2 (Array.replicate (2 ^ d) 0) w
    (C.ofNat (2 ^ d))⁻¹ (sizeInv_ok C hof h2 d) (by omega) hrepd (hr.mono hdD) (fun _ => by rw [hwc.1]; omega) c hwc.2
  have hmsz : mono.size = 2 ^ d := by rw [m2]; simp
  obtain ⟨ext, e1, e2, e3⟩ := ntt_eq_dft (ω := ω) C.root false D (2 ^ D) (by simpa using h)
    (Array.replicate (2 ^ D) 0) mono hD (by simp) (le_refl _) hrepD (by simpa using hr)
    (fun _ => by rw [hmsz]; omega)
  have hesz : ext.size = 2 ^ D := by rw [e2]; simp
  have c1 : ¬ ([w].length ≠ (Gadget.mk (.polyEval poly) calls).arity ∨ [w].length = 0) := by
    simp [Gadget.arity]
  have c2 : ([w].any fun w' => w'.size != ([w].headD #[]).size) = false := by
    apply any_size_false
    intro w' hw'
    simp only [List.mem_cons, List.not_mem_nil, or_false] at hw'
    rw [hw']; rfl
  have c3 : ¬ (2 ^ D ≠ nextPow2 (gadgetPolyLen (Gadget.mk (.polyEval poly) calls).degree ([w].headD #[]).size)) := by
    simp only [List.headD_cons, hwc.1, Gadget.degree, hout]
    simp
  unfold Gadget.evalPoly
  simp only [c1, c2, c3, ↓reduceIte, Bool.false_eq_true]
  simp only [List.headD_cons, hwc.1, List.getD_cons_zero, Gadget.degree, hcalls, hout]
  rw [m1]
  simp only
  rw [e1]
  simp only
  refine ⟨_, rfl, by simp, ?_⟩
  intro k hk
  have c4 : ¬ ((List.map (fun c => ∑ t ∈ range (2 ^ d), c t * (ω D ^ k) ^ t) [c]).length ≠
      (Gadget.mk (.polyEval poly) calls).arity ∨
      (List.map (fun c => ∑ t ∈ range (2 ^ d), c t * (ω D ^ k) ^ t) [c]).length = 0) := by
    simp [Gadget.arity]
  unfold Gadget.eval
  simp only [c4, ↓reduceIte]
  simp only [List.map_cons, List.getD_cons_zero]
  rw [getD_ofFn _ k hk]
  simp only
  rw [if_pos (by rw [hesz]; exact hk), e3 k hk]
  simp only [sigma, Bool.false_eq_true, if_false, one_mul]
  rw [sum_pad mono c d D hdD hmsz m3]

omit [BEq F] in
theorem wireOf_size {ω : Nat → F} {d : Nat} {wires : List (Array F)} {coefs : List (Nat → F)}
    (hw : List.Forall₂ (WireOf ω d) wires coefs) : ∀ w ∈ wires, w.size = 2 ^ d := by
  induction hw with
  | nil => intro w hw; cases hw
  | cons h1 _ ih =>
    intro w hw
    rcases List.mem_cons.mp hw with rfl | hm
    · exact h1.1
    · exact ih w hm

omit [BEq F] in
/-- the accumulation loop of `ParallelSum<Mul>::eval_poly` against the one of `ParallelSum<Mul>::eval` -/
theorem evalPoly_go_spec {ω : Nat → F} (C : FieldCtx F) (d : Nat) (h : Roots ω (d + 1)) (h2 : (2 : F) ≠ 0)
    (hr : RootsAvail C.root ω (d + 1)) (hd : d + 1 ≤ maxRoots) (s : F) (hs : s * (2 : F) ^ d = 1) :
    ∀ (m : Nat) (wires : List (Array F)) (coefs : List (Nat → F)) (acc : Array F),
      List.Forall₂ (WireOf ω d) wires coefs → wires.length = 2 * m → acc.size = 2 * 2 ^ d →
      ∃ out, Gadget.evalPoly.go C (2 * 2 ^ d) s wires acc = .ok out ∧ out.size = 2 * 2 ^ d ∧
        ∀ k, k < 2 * 2 ^ d → out.getD k 0 =
          Gadget.eval.go (coefs.map fun c => ∑ t ∈ range (2 ^ d), c t * (ω (d + 1) ^ k) ^ t) (acc.getD k 0) := by
  have e21 : 2 ^ (d + 1) = 2 * 2 ^ d := by rw [pow_succ]; ring
  intro m
  induction m with
  | zero =>
    intro wires coefs acc hw hlen hacc
    have : wires = [] := by
      match wires, hlen with
      | [], _ => rfl
    subst this
    cases hw
    exact ⟨acc, rfl, hacc, fun k _ => rfl⟩
  | succ m ih =>
    intro wires coefs acc hw hlen hacc
    obtain ⟨a, b, rest, rfl⟩ : ∃ a b rest, wires = a :: b :: rest := by
      match wires, hlen with
      | a :: b :: rest, _ => exact ⟨a, b, rest, rfl⟩
    obtain ⟨ca, cb, crest, rfl, ha, hb, hrest⟩ : ∃ ca cb crest, coefs = ca :: cb :: crest ∧ WireOf ω d a ca ∧
        WireOf ω d b cb ∧ List.Forall₂ (WireOf ω d) rest crest := by
      cases hw with
      | cons h1 hw' =>
        cases hw' with
        | cons h2 hw'' => exact ⟨_, _, _, rfl, h1, h2, hw''⟩
    obtain ⟨part, o1, o2, o3⟩ := polyMulLagrange_spec C.root d h h2 hr hd a b ha.1 hb.1 s hs ca cb ha.2 hb.2
    rw [e21] at o2 o3
    have hlen' : rest.length = 2 * m := by simp only [List.length_cons] at hlen; omega
    obtain ⟨out, r1, r2, r3⟩ := ih rest crest
      (Array.ofFn (n := 2 * 2 ^ d) fun k => acc.getD k.val 0 + part.getD k.val 0) hrest hlen' (by simp)
    refine ⟨out, ?_, r2, ?_⟩
    · simp only [Gadget.evalPoly.go, o1, ofR]
      exact r1
    · intro k hk
      rw [r3 k hk, getD_ofFn _ k hk]
      simp only [List.map_cons, Gadget.eval.go]
      rw [o3 k hk]

/-- **`ParallelSum<Mul>::eval_poly`** -/
theorem evalPoly_parallelSumMul_spec {ω : Nat → F} (C : FieldCtx F) (chunks calls d : Nat) (h : Roots ω (d + 1))
    (h2 : (2 : F) ≠ 0) (hr : RootsAvail C.root ω (d + 1)) (hof : ∀ n, C.ofNat n = (n : F)) (hd1 : 1 ≤ d)
    (hd : d + 1 ≤ maxRoots) (hch : 1 ≤ chunks)
    (wires : List (Array F)) (coefs : List (Nat → F)) (hw : List.Forall₂ (WireOf ω d) wires coefs)
    (hlen : wires.length = chunks * 2) :
    ∃ out, (Gadget.mk (.parallelSumMul chunks) calls).evalPoly C (2 ^ (d + 1)) wires = .ok out ∧
      out.size = 2 ^ (d + 1) ∧
      ∀ k, k < 2 ^ (d + 1) →
        (Gadget.mk (.parallelSumMul chunks) calls).eval
          (coefs.map fun c => ∑ t ∈ range (2 ^ d), c t * (ω (d + 1) ^ k) ^ t) = .ok (out.getD k 0) := by
  have e21 : 2 ^ (d + 1) = 2 * 2 ^ d := by rw [pow_succ]; ring
  have hsz := wireOf_size hw
  obtain ⟨a, rest, rfl⟩ : ∃ a rest, wires = a :: rest := by
    match wires, hlen with
    | a :: rest, _ => exact ⟨a, rest, rfl⟩
    | [], hl => simp at hl; omega
  have ha : a.size = 2 ^ d := hsz a (by simp)
  have c1 : ¬ ((a :: rest).length ≠ (Gadget.mk (F := F) (.parallelSumMul chunks) calls).arity ∨ (a :: rest).length = 0) := by
    simp only [Gadget.arity, hlen]
    simp; omega
  have c2 : ((a :: rest).any fun w => w.size != ((a :: rest).headD #[]).size) = false := by
    apply any_size_false
    intro w hwm
    rw [hsz w hwm, List.headD_cons, ha]
  have c3 : ¬ (2 ^ (d + 1) ≠ nextPow2 (gadgetPolyLen (Gadget.mk (F := F) (.parallelSumMul chunks) calls).degree
      ((a :: rest).headD #[]).size)) := by
    simp only [List.headD_cons, ha, Gadget.degree, nextPow2_gadgetPolyLen_two d hd1]
    simp
  obtain ⟨out, o1, o2, o3⟩ := evalPoly_go_spec C d h h2 hr hd (C.ofNat (2 ^ d))⁻¹ (sizeInv_ok C hof h2 d) chunks
    (a :: rest) coefs (Array.replicate (2 * 2 ^ d) 0) hw (by rw [hlen]; ring) (by simp)
  unfold Gadget.evalPoly
  simp only [c1, c2, c3, ↓reduceIte, Bool.false_eq_true]
  simp only [List.headD_cons, ha]
  rw [e21]
  refine ⟨out, o1, o2, ?_⟩
  intro k hk
  have c4 : ¬ ((List.map (fun c => ∑ t ∈ range (2 ^ d), c t * (ω (d + 1) ^ k) ^ t) coefs).length ≠
      (Gadget.mk (F := F) (.parallelSumMul chunks) calls).arity ∨
      (List.map (fun c => ∑ t ∈ range (2 ^ d), c t * (ω (d + 1) ^ k) ^ t) coefs).length = 0) := by
    simp only [Gadget.arity, List.length_map, ← hw.length_eq, hlen]
    simp; omega
  unfold Gadget.eval
  simp only [c4, ↓reduceIte]
  rw [o3 k hk, getD_replicate_zero]

/-! ### corollaries: degree-2 `PolyEval`, the range-check polynomial, a uniform statement -/

/-- **`PolyEval::eval_poly`** for a polynomial of degree exactly 2: the output domain has `2^(d+1)` nodes -/
theorem evalPoly_polyEval_deg2_spec {ω : Nat → F} (C : FieldCtx F) (poly : List F) (calls d : Nat)
    (h : Roots ω (d + 1)) (h2 : (2 : F) ≠ 0) (hr : RootsAvail C.root ω (d + 1)) (hof : ∀ n, C.ofNat n = (n : F))
    (hd1 : 1 ≤ d) (hd : d + 1 ≤ maxRoots) (hcalls : wirePolyLen calls = 2 ^ d) (hdeg : polyDeg poly = 2)
    (wires : List (Array F)) (coefs : List (Nat → F)) (hw : List.Forall₂ (WireOf ω d) wires coefs)
    (hlen : wires.length = 1) :
    ∃ out, (Gadget.mk (.polyEval poly) calls).evalPoly C (2 ^ (d + 1)) wires = .ok out ∧ out.size = 2 ^ (d + 1) ∧
      ∀ k, k < 2 ^ (d + 1) →
        (Gadget.mk (.polyEval poly) calls).eval (coefs.map fun c => ∑ t ∈ range (2 ^ d), c t * (ω (d + 1) ^ k) ^ t) =
          .ok (out.getD k 0) :=
  evalPoly_polyEval_spec C poly calls d (d + 1) h h2 hr hof (by omega) hd hcalls
    (by rw [hdeg]; exact nextPow2_gadgetPolyLen_two d hd1) wires coefs hw hlen

/-- the polynomial `x(x-1)` of the `Sum` type (`poly_range_check(0, 2)`) has degree 2 -/
theorem polyDeg_range_check [LawfulBEq F] (C : FieldCtx F) : polyDeg ([0, -(C.ofNat 1), 1] : List F) = 2 := by
  simp [polyDeg, polyDeg.go]

omit [BEq F] in
/-- the hypotheses on the wires, by index -/
theorem wireOf_of_index {ω : Nat → F} {d : Nat} (wires : List (Array F)) (coefs : List (Nat → F))
    (hlen : wires.length = coefs.length)
    (hsz : ∀ j (hj : j < wires.length), wires[j].size = 2 ^ d)
    (hv : ∀ j (hj : j < wires.length) (hj' : j < coefs.length) i, i < 2 ^ d →
      wires[j].getD i 0 = ∑ t ∈ range (2 ^ d), coefs[j] t * (ω d ^ i) ^ t) :
    List.Forall₂ (WireOf ω d) wires coefs := by
  apply List.forall₂_of_length_eq_of_get hlen
  intro j h1 h2
  exact ⟨hsz j h1, hv j h1 h2⟩

/-- **`Gadget::eval_poly`, all gadget kinds**: for a gadget of degree and arity at least one, wire polynomials
    of length `2^d = wire_poly_len(calls)` (`d ≥ 1`) given by their values on the nodes `ω_d^i`, and an output
    buffer of length `2^D = next_power_of_two(gadget_poly_len(degree, 2^d))` within the table of roots,
    `eval_poly` succeeds and entry `k` of its output is the gadget applied to the values of the wire polynomials
    at the node `ω_D^k` -/
theorem evalPoly_spec {ω : Nat → F} (C : FieldCtx F) (g : Gadget F) (d D : Nat)
    (h : Roots ω D) (h2 : (2 : F) ≠ 0) (hr : RootsAvail C.root ω D) (hof : ∀ n, C.ofNat n = (n : F))
    (hd1 : 1 ≤ d) (hD : D ≤ maxRoots) (hcalls : wirePolyLen g.calls = 2 ^ d)
    (hdeg : 1 ≤ g.degree) (harity : 1 ≤ g.arity)
    (hout : nextPow2 (gadgetPolyLen g.degree (2 ^ d)) = 2 ^ D)
    (wires : List (Array F)) (coefs : List (Nat → F)) (hw : List.Forall₂ (WireOf ω d) wires coefs)
    (hlen : wires.length = g.arity) :
    ∃ out, g.evalPoly C (2 ^ D) wires = .ok out ∧ out.size = 2 ^ D ∧
      ∀ k, k < 2 ^ D →
        g.eval (coefs.map fun c => ∑ t ∈ range (2 ^ d), c t * (ω D ^ k) ^ t) = .ok (out.getD k 0) := by
  obtain ⟨kind, calls⟩ := g
  cases kind with
  | mul =>
    have hD' : D = d + 1 := by
      have : 2 ^ (d + 1) = 2 ^ D := by rw [← hout]; exact (nextPow2_gadgetPolyLen_two d hd1).symm
      exact (Nat.pow_right_injective (le_refl 2) this).symm
    subst hD'
    exact evalPoly_mul_spec C calls d h h2 hr hof hd1 hD wires coefs hw hlen
  | parallelSumMul chunks =>
    have hD' : D = d + 1 := by
      have : 2 ^ (d + 1) = 2 ^ D := by rw [← hout]; exact (nextPow2_gadgetPolyLen_two d hd1).symm
      exact (Nat.pow_right_injective (le_refl 2) this).symm
    subst hD'
    have hch : 1 ≤ chunks := by simp only [Gadget.arity] at harity; omega
    exact evalPoly_parallelSumMul_spec C chunks calls d h h2 hr hof hd1 hD hch wires coefs hw hlen
  | polyEval poly =>
    exact evalPoly_polyEval_spec C poly calls d D h h2 hr hof
      (le_of_nextPow2_gadgetPolyLen _ d D hdeg hout) hD hcalls hout wires coefs hw hlen

/-- the gadget of the `Sum` type, on the wire recorded by `prove` -/
theorem evalPoly_sum_gadget_spec [LawfulBEq F] {ω : Nat → F} (C : FieldCtx F) (bits d : Nat)
    (h : Roots ω (d + 1)) (h2 : (2 : F) ≠ 0) (hr : RootsAvail C.root ω (d + 1)) (hof : ∀ n, C.ofNat n = (n : F))
    (hd1 : 1 ≤ d) (hd : d + 1 ≤ maxRoots) (hcalls : wirePolyLen bits = 2 ^ d)
    (w : Array F) (c : Nat → F) (hw : WireOf ω d w c) :
    ∃ out, ((TypeSpec.sum bits).gadget C).evalPoly C (2 ^ (d + 1)) [w] = .ok out ∧ out.size = 2 ^ (d + 1) ∧
      ∀ k, k < 2 ^ (d + 1) →
        ((TypeSpec.sum bits).gadget C).eval [∑ t ∈ range (2 ^ d), c t * (ω (d + 1) ^ k) ^ t] = .ok (out.getD k 0) :=
  evalPoly_polyEval_deg2_spec C _ bits d h h2 hr hof hd1 hd hcalls (polyDeg_range_check C) [w] [c]
    (List.Forall₂.cons hw List.Forall₂.nil) rfl

-- all of the following depend only on [propext, Classical.choice, Quot.sound]:
-- #print axioms Prio.Ntt.doubleEvaluations_spec
-- #print axioms Prio.Ntt.polyMulLagrange_spec
-- #print axioms Prio.Ntt.polyEvalMonomial_eq_sum
-- #print axioms nextPow2_deg2
-- #print axioms wirePolyLen_is_pow
-- #print axioms le_of_nextPow2_gadgetPolyLen
-- #print axioms evalPoly_mul_spec
-- #print axioms evalPoly_polyEval_spec
-- #print axioms evalPoly_polyEval_deg2_spec
-- #print axioms evalPoly_parallelSumMul_spec
-- #print axioms polyDeg_range_check
-- #print axioms wireOf_of_index
-- #print axioms evalPoly_spec
-- #print axioms evalPoly_sum_gadget_spec

end Prio.Flp
