import PrioProofs.FlpSound
import PrioModel.Ctor
import Mathlib.Algebra.Polynomial.Roots
import Mathlib.Data.Fintype.BigOperators
import Mathlib.Data.List.OfFn
import Mathlib.Tactic.Ring
import Mathlib.Tactic.LinearCombination

/-! # The validity circuits decide their languages

`InLanguage C t x`: the word `x` is a valid encoded measurement of type `t` — stated without the circuits.

* `valid_complete`: every word of the language is accepted under EVERY joint randomness.
* `count_language_sound`, `sum_language_sound`: for the types without joint randomness, a word outside the language yields a
  non-zero output entry.
* `valid_sound_count`: for the chunked types, a word (of the right length) outside the language is accepted by at
  most `chunkLen · |F|^(jointRandLen − 1)` joint-randomness vectors.
* `encode_inLanguage`: the measurement encoders of `PrioModel/Ctor.lean` produce words of the language. -/
namespace Prio.Flp
open Prio.Ntt Finset Polynomial

variable {F : Type} [Field F]

/-! ## Part 0: lists -/

theorem foldl_add_eq_sum (l : List F) (a : F) : l.foldl (fun a b => a + b) a = a + l.sum := by
  induction l generalizing a with
  | nil => simp
  | cons x xs ih => rw [List.foldl_cons, ih, List.sum_cons, add_assoc]

theorem chunksOf_flatten {α : Type} (n : Nat) (hn : 1 ≤ n) : ∀ (fuel : Nat) (l : List α), l.length ≤ fuel →
    (chunksOf n fuel l).flatten = l
  | 0, l, h => by
    have : l = [] := List.length_eq_zero_iff.mp (by omega)
    subst this; rfl
  | fuel + 1, l, h => by
    unfold chunksOf
    by_cases hc : l.isEmpty = true ∨ n = 0
    · rw [if_pos hc]
      rcases hc with hc | hc
      · rw [List.isEmpty_iff.mp hc]; rfl
      · omega
    · rw [if_neg hc, List.flatten_cons, chunksOf_flatten n hn fuel (l.drop n) (by rw [List.length_drop]; omega),
        List.take_append_drop]

theorem chunksOf_chunk_length {α : Type} (n : Nat) : ∀ (fuel : Nat) (l : List α), ∀ ch ∈ chunksOf n fuel l, ch.length ≤ n
  | 0, l, ch, h => by simp [chunksOf] at h
  | fuel + 1, l, ch, h => by
    unfold chunksOf at h
    by_cases hc : l.isEmpty = true ∨ n = 0
    · rw [if_pos hc] at h; simp at h
    · rw [if_neg hc] at h
      rcases List.mem_cons.mp h with rfl | h
      · rw [List.length_take]; omega
      · exact chunksOf_chunk_length n fuel _ ch h

theorem chunksOf_mem {α : Type} (n : Nat) : ∀ (fuel : Nat) (l : List α), ∀ ch ∈ chunksOf n fuel l, ∀ e ∈ ch, e ∈ l
  | 0, l, ch, h => by simp [chunksOf] at h
  | fuel + 1, l, ch, h => by
    unfold chunksOf at h
    by_cases hc : l.isEmpty = true ∨ n = 0
    · rw [if_pos hc] at h; simp at h
    · rw [if_neg hc] at h
      intro e he
      rcases List.mem_cons.mp h with rfl | h
      · exact List.mem_of_mem_take he
      · exact List.mem_of_mem_drop (chunksOf_mem n fuel _ ch h e he)

theorem divCeil_step (len n : Nat) (hl : 1 ≤ len) (hn : 1 ≤ n) : 1 + divCeil (len - n) n ≤ divCeil len n := by
  unfold divCeil
  by_cases h : n ≤ len
  · have e : len + n - 1 = (len - n + n - 1) + n := by omega
    rw [e, Nat.add_div_right _ (by omega)]
    omega
  · have e : len - n = 0 := by omega
    rw [e, Nat.zero_add, Nat.div_eq_of_lt (by omega)]
    exact (Nat.one_le_div_iff (by omega)).mpr (by omega)

theorem chunksOf_length_le {α : Type} (n : Nat) (hn : 1 ≤ n) : ∀ (fuel : Nat) (l : List α),
    (chunksOf n fuel l).length ≤ divCeil l.length n
  | 0, l => by simp [chunksOf]
  | fuel + 1, l => by
    unfold chunksOf
    by_cases hc : l.isEmpty = true ∨ n = 0
    · rw [if_pos hc]; simp
    · rw [if_neg hc, List.length_cons]
      have hl : 1 ≤ l.length := by
        rcases l with _ | ⟨a, l⟩
        · simp at hc
        · simp
      have := chunksOf_length_le n hn fuel (l.drop n)
      rw [List.length_drop] at this
      have := divCeil_step l.length n hl hn
      omega

theorem chunksOf_zero {α : Type} (fuel : Nat) (l : List α) : chunksOf 0 fuel l = [] := by
  cases fuel <;> simp [chunksOf]

omit [Field F] in
theorem ofFn_update {n : Nat} (a : Fin n → F) (i : Fin n) (r : F) :
    List.ofFn (Function.update a i r) = (List.ofFn a).set i.val r := by
  apply List.ext_getElem
  · simp
  · intro j h1 h2
    rw [List.getElem_ofFn, List.getElem_set, List.getElem_ofFn, Function.update_apply]
    by_cases e : i.val = j
    · rw [if_pos e, if_pos (Fin.ext e.symm)]
    · rw [if_neg e, if_neg (fun h => e (by rw [← h]))]

open Classical in
/-- counting over `F^n` by fixing all coordinates but one -/
theorem card_filter_coord_le [Fintype F] {n : Nat} (i0 : Fin n) (P : (Fin n → F) → Prop) (d : Nat)
    (h : ∀ a : Fin n → F, (univ.filter fun r : F => P (Function.update a i0 r)).card ≤ d) :
    (univ.filter P).card ≤ d * Fintype.card F ^ (n - 1) := by
  cases n with
  | zero => exact i0.elim0
  | succ k =>
    rw [Nat.add_sub_cancel]
    calc (univ.filter P).card ≤ d * ((univ.filter P).image i0.removeNth).card := by
          apply Finset.card_le_mul_card_image
          intro b _
          refine le_trans (Finset.card_le_card_of_injOn (fun jr => jr i0) ?_ ?_) (h (i0.insertNth 0 b))
          · intro jr hjr
            rw [mem_coe, mem_filter, mem_filter] at hjr
            rw [mem_coe, mem_filter]
            refine ⟨mem_univ _, ?_⟩
            rw [Fin.update_insertNth, ← hjr.2, Fin.insertNth_self_removeNth]
            exact hjr.1.2
          · intro jr hjr jr' hjr' e
            rw [mem_coe, mem_filter] at hjr hjr'
            simp only at e
            rw [← Fin.insertNth_self_removeNth i0 jr, ← Fin.insertNth_self_removeNth i0 jr', e, hjr.2, hjr'.2]
      _ ≤ d * Fintype.card F ^ k := by
          apply Nat.mul_le_mul_left
          refine le_trans (Finset.card_le_univ _) ?_
          simp

/-! ## Part 1: the languages -/

/-- the range-checked integers of the blocks of `bits` entries (as `L1BoundSum` decodes them) -/
def l1Decoded (C : FieldCtx F) (bits lastWeight : Nat) (x : List F) : List F :=
  (chunksOf bits x.length x).map fun c => decodeRangeCheckedInt c (C.ofNat lastWeight)

/-- the linear relation of each type -/
def LinRel (C : FieldCtx F) (t : TypeSpec) (x : List F) : Prop :=
  match t with
  | .count | .sum _ | .sumVec .. => True
  | .histogram .. => x.sum = 1
  | .multihot length _ lastWeight _ =>
    (x.take length).sum = decodeRangeCheckedInt (x.drop length) (C.ofNat lastWeight)
  | .l1BoundSum mlen bits lastWeight _ =>
    ((l1Decoded C bits lastWeight x).take mlen).sum = (l1Decoded C bits lastWeight x).getD mlen 0

/-- **the language of a type**: words of the declared length, all of whose entries are bits, that satisfy the
    linear relation of the type (one-hot; claimed weight = observed weight; claimed norm = observed norm) -/
def InLanguage (C : FieldCtx F) (t : TypeSpec) (x : List F) : Prop :=
  x.length = t.inputLen ∧ (∀ e ∈ x, e = 0 ∨ e = 1) ∧
  match t with
  | .count | .sum _ | .sumVec .. => True
  | .histogram .. => x.sum = 1
  | .multihot length _ lastWeight _ =>
    (x.take length).sum = decodeRangeCheckedInt (x.drop length) (C.ofNat lastWeight)
  | .l1BoundSum mlen bits lastWeight _ =>
    ((l1Decoded C bits lastWeight x).take mlen).sum = (l1Decoded C bits lastWeight x).getD mlen 0

theorem inLanguage_iff (C : FieldCtx F) (t : TypeSpec) (x : List F) :
    InLanguage C t x ↔ x.length = t.inputLen ∧ (∀ e ∈ x, e = 0 ∨ e = 1) ∧ LinRel C t x := by
  cases t <;> rfl

/-- the types whose range checks go through `parallel_sum_range_checks` -/
def TypeSpec.IsChunked : TypeSpec → Prop
  | .count | .sum _ => False
  | _ => True

theorem isChunked_of_chunkLen (t : TypeSpec) (h : 1 ≤ t.chunkLen) : t.IsChunked := by
  cases t <;> simp [TypeSpec.chunkLen, TypeSpec.IsChunked] at h ⊢

/-! ## Part 2: the range-check gadget call as a polynomial in its joint-randomness element -/

/-- `∑ⱼ xⱼ(xⱼ − nsInv)·Xʲ`; the gadget call of the chunk evaluates to `r · rcPoly(r)` -/
noncomputable def rcPoly (nsInv : F) : List F → Polynomial F
  | [] => 0
  | x :: xs => C (x * (x - nsInv)) + X * rcPoly nsInv xs

/-- the arguments of the entries of a chunk, `p` the running power of `r` -/
def rcArgsOf (nsInv r : F) : F → List F → List F
  | _, [] => []
  | p, x :: xs => p * x :: (x - nsInv) :: rcArgsOf nsInv r (p * r) xs

theorem rc_fold_eq (nsInv r : F) : ∀ (ch pre : List F) (p : F),
    (ch.foldl (fun (st : List F × F) x => (st.1 ++ [st.2 * x, x - nsInv], st.2 * r)) (pre, p)).1 =
      pre ++ rcArgsOf nsInv r p ch
  | [], pre, p => by simp [rcArgsOf]
  | x :: xs, pre, p => by
    rw [List.foldl_cons, rc_fold_eq nsInv r xs]
    simp [rcArgsOf]

theorem rcArgsOf_length (nsInv r : F) : ∀ (ch : List F) (p : F), (rcArgsOf nsInv r p ch).length = 2 * ch.length
  | [], p => rfl
  | x :: xs, p => by
    simp only [rcArgsOf, List.length_cons, rcArgsOf_length nsInv r xs]
    omega

theorem go_rcArgsOf (nsInv r : F) (pad : List F) : ∀ (ch : List F) (p acc : F),
    Gadget.eval.go (rcArgsOf nsInv r p ch ++ pad) acc = Gadget.eval.go pad (acc + p * (rcPoly nsInv ch).eval r)
  | [], p, acc => by simp [rcArgsOf, rcPoly]
  | x :: xs, p, acc => by
    simp only [rcArgsOf, List.cons_append, Gadget.eval.go]
    rw [go_rcArgsOf nsInv r pad xs]
    congr 1
    simp only [rcPoly, eval_add, eval_C, eval_mul, eval_X]
    ring

theorem go_pad (nsInv : F) : ∀ (k : Nat) (acc : F),
    Gadget.eval.go (List.replicate k [(0 : F), -nsInv]).flatten acc = acc
  | 0, acc => by simp [Gadget.eval.go]
  | k + 1, acc => by
    rw [List.replicate_succ, List.flatten_cons]
    simp only [List.cons_append, List.nil_append, Gadget.eval.go]
    rw [go_pad nsInv k]
    ring

/-- the ParallelSum gadget on the arguments of a chunk -/
theorem eval_rcCall (calls chunk : Nat) (hc : 1 ≤ chunk) (nsInv : F) (ch : List F) (hl : ch.length ≤ chunk) (r : F) :
    (⟨.parallelSumMul chunk, calls⟩ : Gadget F).eval (rcCallArgs chunk nsInv ch r) =
      .ok (r * (rcPoly nsInv ch).eval r) := by
  have hlen : (rcCallArgs chunk nsInv ch r).length = chunk * 2 := by
    unfold rcCallArgs
    rw [rc_fold_eq]
    simp [rcArgsOf_length]
    omega
  unfold Gadget.eval
  rw [if_neg (by rw [hlen]; simp only [Gadget.arity]; omega)]
  simp only
  unfold rcCallArgs
  rw [rc_fold_eq, List.nil_append, go_rcArgsOf, go_pad, zero_add]

/-- the sum of the range-check calls: chunk `c` against joint randomness `r_c` -/
noncomputable def rcSum (nsInv : F) : List (List F) → List F → F
  | ch :: chs, r :: rs => r * (rcPoly nsInv ch).eval r + rcSum nsInv chs rs
  | _, _ => 0

theorem rcSum_eq (nsInv : F) : ∀ (chs : List (List F)) (rs : List F),
    ((chs.zip rs).map fun cr => cr.2 * (rcPoly nsInv cr.1).eval cr.2).sum = rcSum nsInv chs rs
  | [], rs => by simp [rcSum]
  | ch :: chs, [] => by simp [rcSum]
  | ch :: chs, r :: rs => by
    simp only [List.zip_cons_cons, List.map_cons, List.sum_cons, rcSum, rcSum_eq nsInv chs rs]

theorem gadget_chunked (C : FieldCtx F) (t : TypeSpec) (h : t.IsChunked) :
    t.gadget C = ⟨.parallelSumMul t.chunkLen, t.gadgetCalls⟩ := by
  cases t <;> first | exact h.elim | rfl

theorem gadgetArgs_chunked (C : FieldCtx F) (t : TypeSpec) (h : t.IsChunked) (x jr : List F) (ns : Nat) :
    gadgetArgs C t x jr ns = rcArgs x jr t.chunkLen (C.ofNat ns)⁻¹ := by
  cases t <;> first | exact h.elim | rfl

/-- the entries of the circuit output after the range-check entry -/
def linPart (C : FieldCtx F) (t : TypeSpec) (x : List F) (ns : Nat) : List F := (assemble C t x ns []).drop 1

theorem assemble_chunked (C : FieldCtx F) (t : TypeSpec) (h : t.IsChunked) (x : List F) (ns : Nat) (outs : List F) :
    assemble C t x ns outs = outs.foldl (· + ·) 0 :: linPart C t x ns := by
  cases t <;> first | exact h.elim | simp [assemble, linPart]

/-- **the chunked circuits in closed form**: they never fail on arguments of the declared lengths, and their
    output is the sum of the range-check calls followed by the linear part -/
theorem valid_chunked (C : FieldCtx F) (t : TypeSpec) (h : t.IsChunked) (x jr : List F) (ns : Nat)
    (hx : x.length = t.inputLen) (hjr : jr.length = t.jointRandLen) :
    valid C t x jr ns =
      .ok (rcSum (C.ofNat ns)⁻¹ (chunksOf t.chunkLen x.length x) jr :: linPart C t x ns) := by
  unfold valid
  rw [if_neg (by simp [hx, hjr]), validCircuit_nf, gadgetArgs_chunked C t h, gadget_chunked C t h]
  have hev : ∀ cr ∈ (chunksOf t.chunkLen x.length x).zip jr,
      (⟨.parallelSumMul t.chunkLen, t.gadgetCalls⟩ : Gadget F).eval (rcCallArgs t.chunkLen (C.ofNat ns)⁻¹ cr.1 cr.2) =
        .ok (cr.2 * (rcPoly (C.ofNat ns)⁻¹ cr.1).eval cr.2) := by
    intro cr hcr
    have hm := (List.of_mem_zip hcr).1
    rcases Nat.eq_zero_or_pos t.chunkLen with h0 | h0
    · rw [h0, chunksOf_zero] at hm; simp at hm
    · exact eval_rcCall _ _ h0 _ _ (chunksOf_chunk_length _ _ _ _ hm) _
  unfold rcArgs
  rw [List.mapM_map, mapM_ok _ (fun cr => cr.2 * (rcPoly (C.ofNat ns)⁻¹ cr.1).eval cr.2) _ hev]
  rw [Res.ok_bind, Res.pure_eq, assemble_chunked C t h, foldl_add_eq_sum, zero_add, rcSum_eq]

/-! ## Part 3: completeness for every joint randomness -/

theorem rcPoly_eq_zero_iff (nsInv : F) : ∀ ch : List F, rcPoly nsInv ch = 0 ↔ ∀ e ∈ ch, e * (e - nsInv) = 0
  | [] => by simp [rcPoly]
  | x :: xs => by
    have ih := rcPoly_eq_zero_iff nsInv xs
    simp only [rcPoly, List.mem_cons, forall_eq_or_imp]
    constructor
    · intro h
      have h0 : x * (x - nsInv) = 0 := by
        have := congrArg (fun p => Polynomial.coeff p 0) h
        simpa using this
      refine ⟨h0, ih.mp ?_⟩
      rw [h0, map_zero, zero_add] at h
      rcases mul_eq_zero.mp h with h | h
      · exact absurd h X_ne_zero
      · exact h
    · intro ⟨h0, h1⟩
      rw [h0, ih.mpr h1]; simp

theorem rcSum_zero (nsInv : F) : ∀ (chs : List (List F)) (rs : List F),
    (∀ ch ∈ chs, rcPoly nsInv ch = 0) → rcSum nsInv chs rs = 0
  | [], rs, _ => by simp [rcSum]
  | ch :: chs, [], _ => by simp [rcSum]
  | ch :: chs, r :: rs, h => by
    rw [rcSum, h ch (by simp), rcSum_zero nsInv chs rs (fun c hc => h c (by simp [hc]))]
    simp

theorem sum_drop_take_one : ∀ (l : List F) (m : Nat), ((l.drop m).take 1).sum = l.getD m 0
  | [], m => by simp
  | a :: l, 0 => by simp
  | a :: l, m + 1 => by simpa using sum_drop_take_one l m

/-- the linear outputs of a chunked circuit vanish exactly when the linear relation of the language holds -/
theorem linPart_zero_iff (C : FieldCtx F) (hC1 : C.ofNat 1 = 1) (t : TypeSpec) (h : t.IsChunked) (x : List F) :
    (∀ e ∈ linPart C t x 1, e = 0) ↔ LinRel C t x := by
  cases t with
  | count => exact h.elim
  | sum bits => exact h.elim
  | histogram l c =>
    simp only [linPart, assemble, LinRel, foldl_add_eq_sum, hC1, inv_one, List.drop_succ_cons, List.drop_zero,
      List.mem_singleton, forall_eq, neg_add_eq_zero]
    exact eq_comm
  | multihot l b w c =>
    simp only [linPart, assemble, LinRel, foldl_add_eq_sum, zero_add, List.drop_succ_cons, List.drop_zero,
      List.mem_singleton, forall_eq, sub_eq_zero]
  | sumVec l b w c => simp [linPart, assemble, LinRel]
  | l1BoundSum l b w c =>
    simp only [linPart, assemble, LinRel, l1Decoded, foldl_add_eq_sum, zero_add, List.drop_succ_cons, List.drop_zero,
      List.mem_singleton, forall_eq, sub_eq_zero, sum_drop_take_one]

theorem valid_count (C : FieldCtx F) (e : F) (ns : Nat) : valid C .count [e] [] ns = .ok [e * e - e] := by
  simp [valid, TypeSpec.inputLen, TypeSpec.jointRandLen, validCircuit, TypeSpec.gadget, Gadget.eval, Gadget.arity,
    bind, pure]

theorem valid_sum (C : FieldCtx F) (hC1 : C.ofNat 1 = 1) (bits : Nat) (x : List F) (hx : x.length = bits) (ns : Nat) :
    valid C (.sum bits) x [] ns = .ok (x.map fun e => e * e - e) := by
  unfold valid
  rw [if_neg (by simp [TypeSpec.inputLen, TypeSpec.jointRandLen, hx])]
  simp only [validCircuit]
  apply mapM_ok
  intro e _
  have : polyEvalMonomial ([0, -(C.ofNat 1), 1] : List F) e = e * e - e := by
    simp [polyEvalMonomial, hC1]; ring
  simp [TypeSpec.gadget, Gadget.eval, Gadget.arity, this]

theorem bit_sq (e : F) : e * e - e = 0 ↔ e = 0 ∨ e = 1 := by
  have : e * e - e = e * (e - 1) := by ring
  rw [this, mul_eq_zero, sub_eq_zero]

theorem bit_mul (e : F) : e * (e - 1) = 0 ↔ e = 0 ∨ e = 1 := by
  rw [mul_eq_zero, sub_eq_zero]

/-- acceptance of a chunked circuit in closed form -/
theorem valid_chunked_accept_iff (C : FieldCtx F) (hC1 : C.ofNat 1 = 1) (t : TypeSpec) (h : t.IsChunked)
    (x jr : List F) (hx : x.length = t.inputLen) (hjr : jr.length = t.jointRandLen) :
    (∃ o, valid C t x jr 1 = .ok o ∧ ∀ e ∈ o, e = 0) ↔
      rcSum 1 (chunksOf t.chunkLen x.length x) jr = 0 ∧ LinRel C t x := by
  rw [valid_chunked C t h x jr 1 hx hjr, hC1, inv_one, ← linPart_zero_iff C hC1 t h x]
  constructor
  · rintro ⟨o, ho, hz⟩
    cases ho
    exact ⟨hz _ (by simp), fun e he => hz e (by simp [he])⟩
  · rintro ⟨h1, h2⟩
    refine ⟨_, rfl, ?_⟩
    intro e he
    rcases List.mem_cons.mp he with rfl | he
    · exact h1
    · exact h2 e he

/-- **completeness of the validity circuits**: a word of the language is accepted — the circuit runs without
    error and all its outputs are zero — whatever the joint randomness (of the declared length) -/
theorem valid_complete (C : FieldCtx F) (hC : ∀ n, C.ofNat n = (n : F)) (t : TypeSpec) (x jr : List F)
    (hx : InLanguage C t x) (hjr : jr.length = t.jointRandLen) :
    ∃ o, valid C t x jr 1 = .ok o ∧ ∀ e ∈ o, e = 0 := by
  have hC1 : C.ofNat 1 = 1 := by rw [hC]; exact Nat.cast_one
  obtain ⟨hlen, hbits, hlin⟩ := (inLanguage_iff C t x).mp hx
  by_cases hch : t.IsChunked
  · rw [valid_chunked_accept_iff C hC1 t hch x jr hlen hjr]
    refine ⟨rcSum_zero _ _ _ ?_, hlin⟩
    intro ch hc
    rw [rcPoly_eq_zero_iff]
    intro e he
    exact (bit_mul e).mpr (hbits e (chunksOf_mem _ _ _ ch hc e he))
  · cases t with
    | count =>
      obtain ⟨e, rfl⟩ : ∃ e, x = [e] := List.length_eq_one_iff.mp hlen
      obtain rfl : jr = [] := List.length_eq_zero_iff.mp hjr
      refine ⟨_, valid_count C e 1, ?_⟩
      simpa using (bit_sq e).mpr (hbits e (by simp))
    | sum bits =>
      obtain rfl : jr = [] := List.length_eq_zero_iff.mp hjr
      refine ⟨_, valid_sum C hC1 bits x hlen 1, ?_⟩
      intro o ho
      obtain ⟨e, he, rfl⟩ := List.mem_map.mp ho
      exact (bit_sq e).mpr (hbits e he)
    | histogram l c => exact absurd trivial hch
    | multihot l b w c => exact absurd trivial hch
    | sumVec l b w c => exact absurd trivial hch
    | l1BoundSum l b w c => exact absurd trivial hch

/-! ## Part 4: soundness -/

/-- **Count**: a word of the right length outside the language yields a non-zero output -/
theorem count_language_sound (C : FieldCtx F) (x : List F) (hx : x.length = TypeSpec.count.inputLen)
    (hnot : ¬ InLanguage C .count x) : ∃ o, valid C .count x [] 1 = .ok o ∧ ∃ e ∈ o, e ≠ 0 := by
  obtain ⟨e, rfl⟩ : ∃ e, x = [e] := List.length_eq_one_iff.mp hx
  refine ⟨_, valid_count C e 1, _, List.mem_singleton.mpr rfl, ?_⟩
  intro h
  apply hnot
  refine ⟨hx, ?_, trivial⟩
  intro e' he'
  rw [List.mem_singleton.mp he']
  exact (bit_sq e).mp h

/-- **Sum**: a word of the right length outside the language yields a non-zero output entry -/
theorem sum_language_sound (C : FieldCtx F) (hC : ∀ n, C.ofNat n = (n : F)) (bits : Nat) (x : List F)
    (hx : x.length = (TypeSpec.sum bits).inputLen)
    (hnot : ¬ InLanguage C (.sum bits) x) : ∃ o, valid C (.sum bits) x [] 1 = .ok o ∧ ∃ e ∈ o, e ≠ 0 := by
  have hC1 : C.ofNat 1 = 1 := by rw [hC]; exact Nat.cast_one
  refine ⟨_, valid_sum C hC1 bits x hx 1, ?_⟩
  by_contra hall
  push Not at hall
  apply hnot
  refine ⟨hx, ?_, trivial⟩
  intro e he
  exact (bit_sq e).mp (hall _ (List.mem_map.mpr ⟨e, he, rfl⟩))

/-- for the types without joint randomness the circuit decides the language -/
theorem valid_iff_inLanguage_of_not_chunked (C : FieldCtx F) (hC : ∀ n, C.ofNat n = (n : F)) (t : TypeSpec)
    (ht : ¬ t.IsChunked) (x : List F) (hx : x.length = t.inputLen) :
    (∃ o, valid C t x [] 1 = .ok o ∧ ∀ e ∈ o, e = 0) ↔ InLanguage C t x := by
  constructor
  · rintro ⟨o, ho, hz⟩
    by_contra hnot
    cases t with
    | count =>
      obtain ⟨o', ho', e, he, hne⟩ := count_language_sound C x hx hnot
      rw [ho] at ho'; cases ho'
      exact hne (hz e he)
    | sum bits =>
      obtain ⟨o', ho', e, he, hne⟩ := sum_language_sound C hC bits x hx hnot
      rw [ho] at ho'; cases ho'
      exact hne (hz e he)
    | histogram l c => exact ht trivial
    | multihot l b w c => exact ht trivial
    | sumVec l b w c => exact ht trivial
    | l1BoundSum l b w c => exact ht trivial
  · intro h
    refine valid_complete C hC t x [] h ?_
    cases t with
    | count => rfl
    | sum bits => rfl
    | histogram l c => exact absurd trivial ht
    | multihot l b w c => exact absurd trivial ht
    | sumVec l b w c => exact absurd trivial ht
    | l1BoundSum l b w c => exact absurd trivial ht

theorem rcPoly_natDegree (nsInv : F) : ∀ ch : List F, (X * rcPoly nsInv ch).natDegree ≤ ch.length
  | [] => by simp [rcPoly]
  | x :: xs => by
    have ih := rcPoly_natDegree nsInv xs
    rw [rcPoly, mul_add]
    refine le_trans (natDegree_add_le _ _) (max_le ?_ ?_)
    · refine le_trans natDegree_mul_le ?_
      rw [natDegree_C]
      have := natDegree_X_le (R := F)
      simp only [List.length_cons]; omega
    · refine le_trans natDegree_mul_le ?_
      have := natDegree_X_le (R := F)
      simp only [List.length_cons]; omega

theorem rcSum_set (nsInv : F) : ∀ (chs : List (List F)) (rs : List F) (c : Nat) (r : F), c < rs.length →
    rcSum nsInv chs (rs.set c r) = rcSum nsInv chs (rs.set c 0) + r * (rcPoly nsInv (chs.getD c [])).eval r
  | [], rs, c, r, _ => by simp [rcSum, rcPoly]
  | ch :: chs, [], c, r, h => by simp at h
  | ch :: chs, r0 :: rs, 0, r, _ => by
    simp only [List.set_cons_zero, rcSum, List.getD_cons_zero]
    ring
  | ch :: chs, r0 :: rs, c + 1, r, h => by
    simp only [List.set_cons_succ, rcSum, List.getD_cons_succ]
    rw [rcSum_set nsInv chs rs c r (by simpa using h)]
    ring

theorem jointRandLen_chunked (t : TypeSpec) (h : t.IsChunked) : t.jointRandLen = divCeil t.inputLen t.chunkLen := by
  cases t <;> first | exact h.elim | rfl

/-- the polynomial of one joint-randomness coordinate is non-zero when its chunk has a non-bit -/
theorem rc_coord_poly (ch : List F) (e : F) (he : e ∈ ch) (h0 : e ≠ 0) (h1 : e ≠ 1) (rest : F) :
    X * rcPoly 1 ch + C rest ≠ 0 ∧ (X * rcPoly 1 ch + C rest).natDegree ≤ ch.length := by
  constructor
  · intro hQ
    have hz : rcPoly 1 ch = 0 := by
      ext n
      have := congrArg (fun p => Polynomial.coeff p (n + 1)) hQ
      simpa [coeff_X_mul, coeff_C_succ] using this
    rcases (bit_mul e).mp ((rcPoly_eq_zero_iff 1 ch).mp hz e he) with h | h
    · exact h0 h
    · exact h1 h
  · refine le_trans (natDegree_add_le _ _) (max_le (rcPoly_natDegree 1 ch) ?_)
    rw [natDegree_C]; exact Nat.zero_le _

open Classical in
/-- a word with a non-bit entry: in the joint-randomness coordinate of the chunk of that entry, whatever the other
    coordinates, at most `chunkLen` values are accepted (the roots of a non-zero polynomial `r·q(r) + rest`,
    `deg q < chunkLen`) -/
theorem nonbit_coord [Fintype F] (C : FieldCtx F) (hC : ∀ n, C.ofNat n = (n : F)) (t : TypeSpec)
    (hc : 1 ≤ t.chunkLen) (x : List F) (hx : x.length = t.inputLen) (e : F) (he : e ∈ x) (he0 : e ≠ 0) (he1 : e ≠ 1) :
    ∃ c : Fin t.jointRandLen, ∀ a : Fin t.jointRandLen → F,
      (univ.filter fun r : F =>
        ∃ o, valid C t x (List.ofFn (Function.update a c r)) 1 = .ok o ∧ ∀ e ∈ o, e = 0).card ≤ t.chunkLen := by
  have hch := isChunked_of_chunkLen t hc
  have hC1 : C.ofNat 1 = 1 := by rw [hC]; exact Nat.cast_one
  have hfl := chunksOf_flatten t.chunkLen hc x.length x le_rfl
  rw [← hfl] at he
  obtain ⟨ch, hchm, hech⟩ := List.mem_flatten.mp he
  obtain ⟨c, hcl, hcc⟩ := List.getElem_of_mem hchm
  have hcn : c < t.jointRandLen := by
    have := chunksOf_length_le t.chunkLen hc x.length x
    rw [jointRandLen_chunked t hch, ← hx]
    omega
  have hgetD : (chunksOf t.chunkLen x.length x).getD c [] = ch := by
    rw [List.getD_eq_getElem?_getD, List.getElem?_eq_getElem hcl, hcc]; rfl
  have hchl : ch.length ≤ t.chunkLen := chunksOf_chunk_length _ _ _ ch hchm
  refine ⟨⟨c, hcn⟩, fun a => ?_⟩
  obtain ⟨hQ0, hQd⟩ := rc_coord_poly ch e hech he0 he1
    (rcSum 1 (chunksOf t.chunkLen x.length x) ((List.ofFn a).set c 0))
  refine le_trans (card_roots_le _ hQ0 _ ?_) (le_trans hQd hchl)
  intro r hr
  rw [mem_filter] at hr
  have h := ((valid_chunked_accept_iff C hC1 t hch x _ hx (by simp)).mp hr.2).1
  rw [ofFn_update, rcSum_set _ _ _ _ _ (by simpa using hcn), hgetD] at h
  simp only [eval_add, eval_mul, eval_X, eval_C]
  linear_combination h

open Classical in
/-- **soundness of the chunked circuits over the joint randomness, counting form.**  For a word of the declared
    length outside the language, at most `chunkLen · |F|^(jointRandLen − 1)` of the `|F|^jointRandLen`
    joint-randomness vectors make the circuit accept (acceptance probability at most `chunkLen / |F|`).  When all
    entries are bits but the linear relation fails, no joint randomness is accepted. -/
theorem valid_sound_count [Fintype F] (C : FieldCtx F) (hC : ∀ n, C.ofNat n = (n : F)) (t : TypeSpec)
    (hc : 1 ≤ t.chunkLen) (x : List F) (hx : x.length = t.inputLen) (hnot : ¬ InLanguage C t x) :
    (univ.filter fun jr : Fin t.jointRandLen → F =>
      ∃ o, valid C t x (List.ofFn jr) 1 = .ok o ∧ ∀ e ∈ o, e = 0).card ≤
      t.chunkLen * Fintype.card F ^ (t.jointRandLen - 1) := by
  have hch := isChunked_of_chunkLen t hc
  have hC1 : C.ofNat 1 = 1 := by rw [hC]; exact Nat.cast_one
  by_cases hbits : ∀ e ∈ x, e = 0 ∨ e = 1
  · -- all entries are bits, the linear relation fails: no joint randomness is accepted
    have hlin : ¬ LinRel C t x := fun h => hnot ((inLanguage_iff C t x).mpr ⟨hx, hbits, h⟩)
    rw [filter_eq_empty_iff.mpr
      (fun jr _ h => hlin ((valid_chunked_accept_iff C hC1 t hch x _ hx (by simp)).mp h).2)]
    simp
  · -- a non-bit entry: its chunk contributes a non-zero polynomial in its own joint-randomness element
    push Not at hbits
    obtain ⟨e, he, he0, he1⟩ := hbits
    obtain ⟨c, hcard⟩ := nonbit_coord C hC t hc x hx e he he0 he1
    exact card_filter_coord_le c _ t.chunkLen hcard

/-- all entries bits, linear relation violated: the circuit rejects under EVERY joint randomness -/
theorem valid_linear_reject (C : FieldCtx F) (hC : ∀ n, C.ofNat n = (n : F)) (t : TypeSpec) (hch : t.IsChunked)
    (x jr : List F) (hx : x.length = t.inputLen) (hjr : jr.length = t.jointRandLen) (hlin : ¬ LinRel C t x) :
    ∃ o, valid C t x jr 1 = .ok o ∧ ∃ e ∈ o, e ≠ 0 := by
  have hC1 : C.ofNat 1 = 1 := by rw [hC]; exact Nat.cast_one
  refine ⟨_, valid_chunked C t hch x jr 1 hx hjr, ?_⟩
  by_contra hall
  push Not at hall
  exact hlin ((valid_chunked_accept_iff C hC1 t hch x jr hx hjr).mp ⟨_, valid_chunked C t hch x jr 1 hx hjr, hall⟩).2

/-- **the chunked circuits decide their languages**: over a field with more than `chunkLen` elements, a word of the
    declared length is accepted under every joint randomness iff it is in the language -/
theorem valid_forall_iff_inLanguage [Fintype F] (C : FieldCtx F) (hC : ∀ n, C.ofNat n = (n : F)) (t : TypeSpec)
    (hc : 1 ≤ t.chunkLen) (hF : t.chunkLen < Fintype.card F) (x : List F) (hx : x.length = t.inputLen) :
    (∀ jr : List F, jr.length = t.jointRandLen → ∃ o, valid C t x jr 1 = .ok o ∧ ∀ e ∈ o, e = 0) ↔
      InLanguage C t x := by
  classical
  have hch := isChunked_of_chunkLen t hc
  have hC1 : C.ofNat 1 = 1 := by rw [hC]; exact Nat.cast_one
  constructor
  · intro hall
    rw [inLanguage_iff]
    refine ⟨hx, ?_, ?_⟩
    · by_contra hbits
      push Not at hbits
      obtain ⟨e, he, he0, he1⟩ := hbits
      obtain ⟨c, hcard⟩ := nonbit_coord C hC t hc x hx e he he0 he1
      have := hcard (fun _ => 0)
      rw [filter_true_of_mem (fun r _ => hall _ (by simp)), card_univ] at this
      omega
    · have := hall (List.ofFn (fun _ : Fin t.jointRandLen => (0 : F))) (by simp)
      exact ((valid_chunked_accept_iff C hC1 t hch x _ hx (by simp)).mp this).2
  · intro h jr hjr
    exact valid_complete C hC t x jr h hjr

/-- the side condition `1 ≤ chunkLen` follows from `WellFormed` (at least one gadget call) -/
theorem chunkLen_pos_of_wellFormed (t : TypeSpec) (hch : t.IsChunked) (h : t.WellFormed) : 1 ≤ t.chunkLen := by
  unfold TypeSpec.WellFormed at h
  rcases Nat.eq_zero_or_pos t.chunkLen with h0 | h0
  · exfalso
    cases t with
    | count => exact hch
    | sum bits => exact hch
    | histogram l c =>
      simp only [TypeSpec.chunkLen] at h0; subst h0
      simp only [TypeSpec.gadgetCalls, divCeil_zero] at h; omega
    | multihot l b w c =>
      simp only [TypeSpec.chunkLen] at h0; subst h0
      simp only [TypeSpec.gadgetCalls, divCeil_zero] at h; omega
    | sumVec l b w c =>
      simp only [TypeSpec.chunkLen] at h0; subst h0
      simp only [TypeSpec.gadgetCalls, divCeil_zero] at h; omega
    | l1BoundSum l b w c =>
      simp only [TypeSpec.chunkLen] at h0; subst h0
      simp only [TypeSpec.gadgetCalls, divCeil_zero] at h; omega
  · exact h0

/-- the side condition is needed: with chunk length 0 the circuit makes no gadget call and accepts any entry -/
theorem sumVec_chunk_zero_accepts (C : FieldCtx F) (w : Nat) (e : F) :
    valid C (.sumVec 1 1 w 0) [e] [] 1 = .ok [0] := by
  rw [valid_chunked C (.sumVec 1 1 w 0) trivial [e] [] 1 rfl rfl]
  simp [TypeSpec.chunkLen, chunksOf_zero, rcSum, linPart, assemble]

/-- the same with any decidability instance for the acceptance predicate -/
theorem valid_sound_count' [Fintype F] [DecidableEq F] (C : FieldCtx F) (hC : ∀ n, C.ofNat n = (n : F)) (t : TypeSpec)
    (hc : 1 ≤ t.chunkLen) (x : List F) (hx : x.length = t.inputLen) (hnot : ¬ InLanguage C t x)
    [DecidablePred fun jr : Fin t.jointRandLen → F => ∃ o, valid C t x (List.ofFn jr) 1 = .ok o ∧ ∀ e ∈ o, e = 0] :
    (univ.filter fun jr : Fin t.jointRandLen → F =>
      ∃ o, valid C t x (List.ofFn jr) 1 = .ok o ∧ ∀ e ∈ o, e = 0).card ≤
      t.chunkLen * Fintype.card F ^ (t.jointRandLen - 1) := by
  have := valid_sound_count C hC t hc x hx hnot
  convert this

/-! ## Part 5: the measurement encoders produce words of the language -/

section encoders
open Prio.Ctor

/-- `∑ bᵢ·2ⁱ` over ℕ -/
def natBits : List Nat → Nat
  | [] => 0
  | b :: bs => b + 2 * natBits bs

theorem foldl_decode_cast : ∀ (l : List Nat) (a w : F),
    ((l.map (Nat.cast : Nat → F)).foldl (fun (st : F × F) v => (st.1 + v * st.2, st.2 * (1 + 1))) (a, w)).1 =
      a + w * (natBits l : F)
  | [], a, w => by simp [natBits]
  | b :: bs, a, w => by
    rw [List.map_cons, List.foldl_cons, foldl_decode_cast bs]
    simp only [natBits]; push_cast; ring

theorem decodeBitvector_cast (l : List Nat) : decodeBitvector (l.map (Nat.cast : Nat → F)) = (natBits l : F) := by
  unfold decodeBitvector; rw [foldl_decode_cast]; ring

theorem natBits_range : ∀ (k v : Nat), natBits ((List.range k).map fun i => v / 2 ^ i % 2) = v % 2 ^ k
  | 0, v => by simp [natBits, Nat.mod_one]
  | k + 1, v => by
    rw [List.range_succ_eq_map, List.map_cons, List.map_map, natBits]
    have : ((fun i => v / 2 ^ i % 2) ∘ Nat.succ) = fun i => (v / 2) / 2 ^ i % 2 := by
      funext i; simp only [Function.comp, Nat.succ_eq_add_one]; rw [pow_succ', Nat.div_div_eq_div_mul]
    rw [this, natBits_range k (v / 2), pow_succ', Nat.mod_mul]; simp

theorem decodeRangeCheckedInt_snoc (low : List F) (hi w : F) :
    decodeRangeCheckedInt (low ++ [hi]) w = decodeBitvector low + hi * w := by
  simp [decodeRangeCheckedInt]

/-- shape of an encoded range-checked integer, with the digits and the high bit named -/
theorem encodeRangeChecked_form (v bits lw : Nat) (enc : List Nat) (h : encodeRangeChecked v bits lw = some enc) :
    ∃ toEnc hi, (hi = 0 ∨ hi = 1) ∧ toEnc < 2 ^ (bits - 1) ∧
      enc = (List.range (bits - 1)).map (fun i => toEnc / 2 ^ i % 2) ++ [hi] ∧
      (lw ≤ 2 ^ (bits - 1) → toEnc + hi * lw = v) := by
  unfold encodeRangeChecked at h
  have hpos : 0 < 2 ^ (bits - 1) := Nat.pow_pos (by norm_num)
  simp only at h
  by_cases hv : v > 2 ^ (bits - 1) - 1
  · simp only [hv, if_true] at h
    by_cases hq : (v - lw) / 2 ^ (bits - 1) ≠ 0
    · rw [if_pos hq] at h; cases h
    · rw [if_neg hq] at h
      have hlt : v - lw < 2 ^ (bits - 1) := by
        rcases Nat.div_eq_zero_iff.mp (not_not.mp hq) with h | h <;> omega
      refine ⟨v - lw, 1, Or.inr rfl, hlt, (Option.some.inj h).symm, fun _ => by omega⟩
  · simp only [hv, if_false] at h
    by_cases hq : v / 2 ^ (bits - 1) ≠ 0
    · rw [if_pos hq] at h; cases h
    · rw [if_neg hq] at h
      have hlt : v < 2 ^ (bits - 1) := by
        rcases Nat.div_eq_zero_iff.mp (not_not.mp hq) with h | h <;> omega
      refine ⟨v, 0, Or.inl rfl, hlt, (Option.some.inj h).symm, fun _ => by omega⟩

theorem encodeRangeChecked_shape (v bits lw : Nat) (hb : 1 ≤ bits) (enc : List Nat)
    (h : encodeRangeChecked v bits lw = some enc) : enc.length = bits ∧ ∀ b ∈ enc, b = 0 ∨ b = 1 := by
  obtain ⟨toEnc, hi, hhi, _, rfl, _⟩ := encodeRangeChecked_form v bits lw enc h
  refine ⟨by simp; omega, ?_⟩
  intro b hb'
  rcases List.mem_append.mp hb' with hb' | hb'
  · obtain ⟨i, _, rfl⟩ := List.mem_map.mp hb'
    omega
  · rw [List.mem_singleton.mp hb']; exact hhi

/-- decoding an encoded range-checked integer gives the integer back (in any field: no wrap-around condition is
    needed in this direction) -/
theorem encodeRangeChecked_decode (v bits lw : Nat) (hlw : lw ≤ 2 ^ (bits - 1)) (enc : List Nat)
    (h : encodeRangeChecked v bits lw = some enc) :
    decodeRangeCheckedInt (enc.map (Nat.cast : Nat → F)) (lw : F) = (v : F) := by
  obtain ⟨toEnc, hi, _, hlt, rfl, hv⟩ := encodeRangeChecked_form v bits lw enc h
  rw [List.map_append, List.map_singleton, decodeRangeCheckedInt_snoc, decodeBitvector_cast, natBits_range,
    Nat.mod_eq_of_lt hlt, ← hv hlw]
  push_cast; ring

theorem cast_bit (b : Nat) (h : b = 0 ∨ b = 1) : ((b : Nat) : F) = 0 ∨ ((b : Nat) : F) = 1 := by
  rcases h with rfl | rfl <;> simp

theorem cast_bits (l : List Nat) (h : ∀ b ∈ l, b = 0 ∨ b = 1) :
    ∀ e ∈ l.map (Nat.cast : Nat → F), e = 0 ∨ e = 1 := by
  intro e he
  obtain ⟨b, hb, rfl⟩ := List.mem_map.mp he
  exact cast_bit b (h b hb)

theorem mapM_some_forall₂ {α β : Type} (f : α → Option β) : ∀ (l : List α) (r : List β), l.mapM f = some r →
    List.Forall₂ (fun a b => f a = some b) l r
  | [], r, h => by
    rw [List.mapM_nil] at h
    cases h; exact List.Forall₂.nil
  | a :: l, r, h => by
    rw [List.mapM_cons] at h
    cases ha : f a with
    | none => rw [ha] at h; cases h
    | some b =>
      cases hr : l.mapM f with
      | none => rw [ha, hr] at h; cases h
      | some bs =>
        rw [ha, hr] at h
        cases h
        exact List.Forall₂.cons ha (mapM_some_forall₂ f l bs hr)

theorem length_flatten_const {α : Type} (n : Nat) : ∀ (blocks : List (List α)), (∀ b ∈ blocks, b.length = n) →
    blocks.flatten.length = n * blocks.length
  | [], _ => by simp
  | b :: bs, h => by
    rw [List.flatten_cons, List.length_append, h b (by simp),
      length_flatten_const n bs (fun c hc => h c (by simp [hc])), List.length_cons]
    ring

theorem chunksOf_flatten_blocks {α : Type} (n : Nat) (hn : 1 ≤ n) : ∀ (blocks : List (List α)) (fuel : Nat),
    (∀ b ∈ blocks, b.length = n) → blocks.length ≤ fuel → chunksOf n fuel blocks.flatten = blocks
  | [], fuel, _, _ => by cases fuel <;> simp [chunksOf]
  | b :: bs, 0, _, h => by simp at h
  | b :: bs, fuel + 1, hb, h => by
    have hbl := hb b (by simp)
    unfold chunksOf
    have hne : ¬ ((b :: bs).flatten.isEmpty = true ∨ n = 0) := by
      rw [List.isEmpty_iff]
      rintro (h | h)
      · have := congrArg List.length h
        rw [List.flatten_cons, List.length_append, List.length_nil] at this
        omega
      · omega
    rw [if_neg hne, List.flatten_cons, List.take_left' hbl, List.drop_left' hbl,
      chunksOf_flatten_blocks n hn bs fuel (fun c hc => hb c (by simp [hc])) (by simpa using h)]

theorem sum_onehot (i : Nat) : ∀ len : Nat,
    ((List.range len).map fun j => if j = i then 1 else 0).sum = if i < len then 1 else 0
  | 0 => by simp
  | len + 1 => by
    rw [List.range_succ, List.map_append, List.sum_append, sum_onehot i len]
    by_cases h1 : i < len
    · have h2 : len ≠ i := by omega
      rw [if_pos h1, if_pos (by omega)]; simp [h2]
    · by_cases h2 : len = i
      · subst h2; simp
      · rw [if_neg h1, if_neg (by omega)]; simp [h2]

theorem sum_mod_two_eq_filter : ∀ m : List Nat, (m.map (· % 2)).sum = (m.filter (· % 2 = 1)).length
  | [] => rfl
  | a :: m => by
    rw [List.map_cons, List.sum_cons, sum_mod_two_eq_filter m, List.filter_cons]
    rcases Nat.mod_two_eq_zero_or_one a with h | h <;> simp [h]; omega

/-- the parameter relations the constructors establish (`Props.C16.ctor_weights`: `bits = bitsOf max ≥ 1`,
    `lastWeight max ≤ 2^(bits−1)`) -/
def TypeSpec.EncParams : TypeSpec → Prop
  | .count => True
  | .sum bits => 1 ≤ bits
  | .histogram _ _ => True
  | .multihot _ bw lw _ => 1 ≤ bw ∧ lw ≤ 2 ^ (bw - 1)
  | .sumVec _ bits _ _ => 1 ≤ bits
  | .l1BoundSum _ bits lw _ => 1 ≤ bits ∧ lw ≤ 2 ^ (bits - 1)

theorem forall₂_right {α β : Type} {R : α → β → Prop} {l : List α} {r : List β} (h : List.Forall₂ R l r) :
    ∀ b ∈ r, ∃ a ∈ l, R a b := by
  induction h with
  | nil => intro b hb; cases hb
  | cons hab _ ih =>
    intro b hb
    rcases List.mem_cons.mp hb with rfl | hb
    · exact ⟨_, by simp, hab⟩
    · obtain ⟨a, ha, hr⟩ := ih b hb
      exact ⟨a, by simp [ha], hr⟩

theorem forall₂_map_eq {α β γ : Type} {R : α → β → Prop} {l : List α} {r : List β} (h : List.Forall₂ R l r)
    (g : β → γ) (k : α → γ) (hgk : ∀ a b, R a b → g b = k a) : r.map g = l.map k := by
  induction h with
  | nil => rfl
  | cons hab _ ih => rw [List.map_cons, List.map_cons, hgk _ _ hab, ih]

theorem encode_count (C : FieldCtx F) (sumLW aux : Nat) (m enc : List Nat)
    (h : encodeMeasurement .count sumLW aux m = some enc) :
    InLanguage C .count (enc.map (Nat.cast : Nat → F)) := by
  simp only [encodeMeasurement] at h
  split at h
  · cases h
    refine ⟨rfl, cast_bits _ ?_, trivial⟩
    intro b hb
    rw [List.mem_singleton.mp hb]
    exact Nat.mod_two_eq_zero_or_one _
  · cases h

theorem encode_sum (C : FieldCtx F) (bits : Nat) (hb : 1 ≤ bits) (sumLW aux : Nat) (m enc : List Nat)
    (h : encodeMeasurement (.sum bits) sumLW aux m = some enc) :
    InLanguage C (.sum bits) (enc.map (Nat.cast : Nat → F)) := by
  simp only [encodeMeasurement] at h
  split at h
  · split at h
    · cases h
    · obtain ⟨hl, hbits⟩ := encodeRangeChecked_shape _ _ _ hb _ h
      exact ⟨by rw [List.length_map]; exact hl, cast_bits _ hbits, trivial⟩
  · cases h

theorem encode_histogram (C : FieldCtx F) (len chunk : Nat) (sumLW aux : Nat) (m enc : List Nat)
    (h : encodeMeasurement (.histogram len chunk) sumLW aux m = some enc) :
    InLanguage C (.histogram len chunk) (enc.map (Nat.cast : Nat → F)) := by
  simp only [encodeMeasurement] at h
  split at h
  · rename_i i
    split at h
    · cases h
    · rename_i hi
      cases h
      refine ⟨by simp [TypeSpec.inputLen], cast_bits _ ?_, ?_⟩
      · intro b hb
        obtain ⟨j, _, rfl⟩ := List.mem_map.mp hb
        split <;> simp
      · show (List.map (Nat.cast : Nat → F) _).sum = 1
        rw [← Nat.cast_list_sum, sum_onehot, if_pos (by omega)]
        simp
  · cases h

theorem encode_sumVec (C : FieldCtx F) (len bits lw chunk : Nat) (hb : 1 ≤ bits) (sumLW aux : Nat) (m enc : List Nat)
    (h : encodeMeasurement (.sumVec len bits lw chunk) sumLW aux m = some enc) :
    InLanguage C (.sumVec len bits lw chunk) (enc.map (Nat.cast : Nat → F)) := by
  simp only [encodeMeasurement] at h
  by_cases hlen : m.length ≠ len
  · rw [if_pos hlen] at h; cases h
  rw [if_neg hlen] at h
  obtain ⟨es, hes, rfl⟩ := Option.map_eq_some_iff.mp h
  have hf := mapM_some_forall₂ _ _ _ hes
  have hall : ∀ e ∈ es, e.length = bits ∧ ∀ b ∈ e, b = 0 ∨ b = 1 := by
    intro e he
    obtain ⟨v, _, hv⟩ := forall₂_right hf e he
    exact encodeRangeChecked_shape _ _ _ hb _ hv
  refine ⟨?_, cast_bits _ ?_, trivial⟩
  · rw [List.length_map, length_flatten_const bits es (fun e he => (hall e he).1), ← hf.length_eq]
    simp only [TypeSpec.inputLen]
    rw [not_not.mp hlen]
  · intro b hb'
    obtain ⟨e, he, hbe⟩ := List.mem_flatten.mp hb'
    exact (hall e he).2 b hbe

theorem encode_multihot (C : FieldCtx F) (hC : ∀ n, C.ofNat n = (n : F)) (len bw lw chunk : Nat)
    (hp : 1 ≤ bw ∧ lw ≤ 2 ^ (bw - 1)) (sumLW aux : Nat) (m enc : List Nat)
    (h : encodeMeasurement (.multihot len bw lw chunk) sumLW aux m = some enc) :
    InLanguage C (.multihot len bw lw chunk) (enc.map (Nat.cast : Nat → F)) := by
  simp only [encodeMeasurement] at h
  by_cases hlen : m.length ≠ len
  · rw [if_pos hlen] at h; cases h
  rw [if_neg hlen] at h
  split at h
  · cases h
  obtain ⟨w, hw, rfl⟩ := Option.map_eq_some_iff.mp h
  obtain ⟨hwl, hwb⟩ := encodeRangeChecked_shape _ _ _ hp.1 _ hw
  have hdec := encodeRangeChecked_decode (F := F) _ _ _ hp.2 _ hw
  have hml : (List.map (Nat.cast : Nat → F) (m.map (· % 2))).length = len := by
    simp only [List.length_map]; exact not_not.mp hlen
  refine ⟨?_, cast_bits _ ?_, ?_⟩
  · simp only [List.length_map, List.length_append, TypeSpec.inputLen, hwl]
    rw [not_not.mp hlen]
  · intro b hb
    rcases List.mem_append.mp hb with hb | hb
    · obtain ⟨a, _, rfl⟩ := List.mem_map.mp hb
      exact Nat.mod_two_eq_zero_or_one a
    · exact hwb b hb
  · show ((List.map (Nat.cast : Nat → F) (m.map (· % 2) ++ w)).take len).sum =
      decodeRangeCheckedInt ((List.map (Nat.cast : Nat → F) (m.map (· % 2) ++ w)).drop len) (C.ofNat lw)
    rw [List.map_append, List.take_left' hml, List.drop_left' hml, hC, hdec, ← Nat.cast_list_sum,
      sum_mod_two_eq_filter]

theorem encode_l1BoundSum (C : FieldCtx F) (hC : ∀ n, C.ofNat n = (n : F)) (mlen bits lw chunk : Nat)
    (hp : 1 ≤ bits ∧ lw ≤ 2 ^ (bits - 1)) (sumLW aux : Nat) (m enc : List Nat)
    (h : encodeMeasurement (.l1BoundSum mlen bits lw chunk) sumLW aux m = some enc) :
    InLanguage C (.l1BoundSum mlen bits lw chunk) (enc.map (Nat.cast : Nat → F)) := by
  simp only [encodeMeasurement] at h
  by_cases hlen : m.length ≠ mlen
  · rw [if_pos hlen] at h; cases h
  rw [if_neg hlen] at h
  have hlen' : m.length = mlen := not_not.mp hlen
  cases hes : (m.mapM fun v => encodeRangeChecked v bits lw) with
  | none => rw [hes] at h; cases h
  | some es =>
    cases hn : encodeRangeChecked m.sum bits lw with
    | none => rw [hes] at h; simp only [hn] at h; cases h
    | some n =>
      rw [hes] at h; simp only [hn] at h
      cases h
      have hf := mapM_some_forall₂ _ _ _ hes
      have hall : ∀ e ∈ es ++ [n], e.length = bits ∧ ∀ b ∈ e, b = 0 ∨ b = 1 := by
        intro e he
        rcases List.mem_append.mp he with he | he
        · obtain ⟨v, _, hv⟩ := forall₂_right hf e he
          exact encodeRangeChecked_shape _ _ _ hp.1 _ hv
        · rw [List.mem_singleton.mp he]
          exact encodeRangeChecked_shape _ _ _ hp.1 _ hn
      have hflat : es.flatten ++ n = (es ++ [n]).flatten := by simp
      -- the blocks over the field
      have hx : List.map (Nat.cast : Nat → F) (es.flatten ++ n) =
          ((es ++ [n]).map (List.map (Nat.cast : Nat → F))).flatten := by
        rw [hflat, List.map_flatten]
      have hbl : ∀ b ∈ (es ++ [n]).map (List.map (Nat.cast : Nat → F)), b.length = bits := by
        intro b hb
        obtain ⟨e, he, rfl⟩ := List.mem_map.mp hb
        rw [List.length_map]; exact (hall e he).1
      have hcount : ((es ++ [n]).map (List.map (Nat.cast : Nat → F))).length = mlen + 1 := by
        rw [List.length_map, List.length_append, ← hf.length_eq, hlen']; rfl
      have hxl : (List.map (Nat.cast : Nat → F) (es.flatten ++ n)).length = bits * (mlen + 1) := by
        rw [hx, length_flatten_const bits _ hbl, hcount]
      have hdecoded : l1Decoded C bits lw (List.map (Nat.cast : Nat → F) (es.flatten ++ n)) =
          m.map (Nat.cast : Nat → F) ++ [((m.sum : Nat) : F)] := by
        unfold l1Decoded
        rw [hxl, hx, chunksOf_flatten_blocks bits hp.1 _ _ hbl
          (by rw [hcount]; exact Nat.le_mul_of_pos_left _ (by omega)),
          List.map_map, List.map_append, List.map_singleton]
        congr 1
        · apply forall₂_map_eq hf
          intro v e hve
          simp only [Function.comp]
          rw [hC]; exact encodeRangeChecked_decode v bits lw hp.2 e hve
        · simp only [Function.comp]
          rw [hC, encodeRangeChecked_decode _ bits lw hp.2 n hn]
      refine ⟨hxl, cast_bits _ ?_, ?_⟩
      · intro b hb
        rw [hflat] at hb
        obtain ⟨e, he, hbe⟩ := List.mem_flatten.mp hb
        exact (hall e he).2 b hbe
      · show ((l1Decoded C bits lw _).take mlen).sum = (l1Decoded C bits lw _).getD mlen 0
        have hml : (m.map (Nat.cast : Nat → F)).length = mlen := by rw [List.length_map, hlen']
        rw [hdecoded, List.take_left' hml, ← Nat.cast_list_sum, List.getD_eq_getElem?_getD,
          List.getElem?_append_right (by omega), hml]
        simp

/-- **the encoders produce words of the language**: whenever `encode_measurement` accepts a measurement, the
    encoding (read in the field) is in the language of the type -/
theorem encode_inLanguage (C : FieldCtx F) (hC : ∀ n, C.ofNat n = (n : F)) (t : TypeSpec) (hp : t.EncParams)
    (sumLW aux : Nat) (m enc : List Nat) (h : encodeMeasurement t sumLW aux m = some enc) :
    InLanguage C t (enc.map (Nat.cast : Nat → F)) := by
  cases t with
  | count => exact encode_count C sumLW aux m enc h
  | sum bits => exact encode_sum C bits hp sumLW aux m enc h
  | histogram l c => exact encode_histogram C l c sumLW aux m enc h
  | multihot l b w c => exact encode_multihot C hC l b w c hp sumLW aux m enc h
  | sumVec l b w c => exact encode_sumVec C l b w c hp sumLW aux m enc h
  | l1BoundSum l b w c => exact encode_l1BoundSum C hC l b w c hp sumLW aux m enc h

/-- hence an honestly encoded measurement passes the validity circuit under every joint randomness -/
theorem encode_valid (C : FieldCtx F) (hC : ∀ n, C.ofNat n = (n : F)) (t : TypeSpec) (hp : t.EncParams)
    (sumLW aux : Nat) (m enc : List Nat) (h : encodeMeasurement t sumLW aux m = some enc)
    (jr : List F) (hjr : jr.length = t.jointRandLen) :
    ∃ o, valid C t (enc.map (Nat.cast : Nat → F)) jr 1 = .ok o ∧ ∀ e ∈ o, e = 0 :=
  valid_complete C hC t _ jr (encode_inLanguage C hC t hp sumLW aux m enc h) hjr

end encoders

/-! ## non-vacuity -/

/-- a one-hot word is in the language of `Histogram` -/
example (C : FieldCtx F) : InLanguage C (.histogram 3 2) [0, 1, 0] :=
  ⟨rfl, by simp, by simp⟩

/-- a word with the entry `2` is outside the language of `SumVec` (so the hypotheses of `valid_sound_count` are
    satisfiable: right length, not in the language, chunk length 1) -/
example (C : FieldCtx F) (h2 : (2 : F) ≠ 0) : ¬ InLanguage C (.sumVec 1 1 1 1) [2] := by
  rintro ⟨_, hb, _⟩
  rcases hb 2 (by simp) with h | h
  · exact h2 h
  · have : (1 : F) = 0 := by linear_combination h
    exact one_ne_zero this

end Prio.Flp

-- all depend only on [propext, Classical.choice, Quot.sound]:
-- #print axioms Prio.Flp.valid_complete
-- #print axioms Prio.Flp.count_language_sound
-- #print axioms Prio.Flp.sum_language_sound
-- #print axioms Prio.Flp.valid_iff_inLanguage_of_not_chunked
-- #print axioms Prio.Flp.valid_chunked
-- #print axioms Prio.Flp.valid_chunked_accept_iff
-- #print axioms Prio.Flp.valid_sound_count
-- #print axioms Prio.Flp.valid_sound_count'
-- #print axioms Prio.Flp.encode_inLanguage
-- #print axioms Prio.Flp.encode_valid
-- #print axioms Prio.Flp.nonbit_coord
-- #print axioms Prio.Flp.valid_linear_reject
-- #print axioms Prio.Flp.valid_forall_iff_inLanguage
-- #print axioms Prio.Flp.sumVec_chunk_zero_accepts
-- #print axioms Prio.Flp.chunkLen_pos_of_wellFormed
