import PrioModel.DriverInst
import PrioModel.DriverInst2
import PrioProofs.Bridge
import PrioProofs.Prio3E2E
import PrioProofs.Prio2Complete
import PrioProofs.Poplar1E2E
import PrioProofs.FpPrime
import Mathlib.Data.ZMod.Basic
import Mathlib.Algebra.Field.ZMod
import Mathlib.Tactic.NormNum.Prime

/-! # The bridge, part 2: Prio3, Prio2 and Poplar1 at the driver's executable instances; `2^255 − 19` is prime

`PrioProofs/Bridge.lean` identifies the FLP / NTT model functions as the driver (`Main.lean`) instantiates them — at
`Fin (q + 1)` with core instances and `Prio.finInv q` — with the same functions over the field `ZMod (q + 1)`, and shows that
the deployed contexts are `CtxOk`.  This file does the same for the protocol layers.

* Part 1 — **Prio3** (`handleP3`): `dP3Shard`, `dP3VerifyInit`, `dP3SharesToMessage`, `dP3VerifyNext`,
  `dP3TruncateWith`, `dP3Vadd`: the model functions of `PrioModel/Prio3.lean` applied to exactly the instance terms the
  Mathlib-free elaboration produces (`p3…_rfl`: equal to `Prio.Driver.p3…` of `PrioModel/DriverInst2.lean` by `rfl`); each
  equals the model function at the `Field` structure of `ZMod (q + 1)` (`rfl` where no inverse occurs, `finInv_eq`
  otherwise); `prio3_e2e_driver`, `prio3_e2e_FP64`, `prio3_e2e_FP128` (and `prio3_e2e_FP32`), and the same statements
  with the `Prio.Driver.…` symbols (`prio3_e2e_FP64_inst`, …).
* Part 2 — **Prio2** (`handleC19`): `dP2ConstructProof`, `dP2Vmsg`, `dP2IsValidShare`, `dP2LeaderShare`;
  `prio2_complete_driver`, `prio2_complete_FP32`, `prio2_complete_total_FP32`.
* Part 3 — **`2^255 − 19` is prime** (`p255_prime`, Pratt certificate, every step checked by the kernel), hence
  `ZMod (2^255 − 19)` is a field.
* Part 4 — **Poplar1** (`handlePop`): the driver runs the model at `FI := Fin (qi + 1)`, `FL := Fin (ql + 1)` with
  `qi + 1 = FP64.prime` and `ql + 1 = 2^255 − 19`; the model uses no inverse, so the identification with the
  `ZMod` instances is `rfl`; `poplar1_inner_e2e_deployed`, `poplar1_leaf_e2e_deployed`. -/
namespace Prio.Bridge2
open Prio Prio.Flp Prio.Ntt Prio.Bridge Prio.Prio3

/-! ## Part 1: Prio3 -/

section prio3
variable (q : Nat)

abbrev dP3Shard (C : FieldCtx (DF q)) (cfg : Cfg) (cv : Conv (DF q)) (xof : Xof) (ctx nonce random : Prio3.Bytes)
    (encoded : List (DF q)) : Prio.Res (ShardOut (DF q)) :=
  @Prio3.shard (Fin (q + 1)) (cAdd q) (cSub q) (cMul q) (cNeg q) (cZero q) (cOne q) (Prio.finInv q) (cBEq q) C cfg cv xof
    ctx nonce random encoded
abbrev dP3VerifyInit (C : FieldCtx (DF q)) (cfg : Cfg) (cv : Conv (DF q)) (xof : Xof) (sumLW : Nat)
    (verifyKey ctx : Prio3.Bytes) (aggId : Nat) (nonce : Prio3.Bytes) (pubParts : Option (List Prio3.Bytes))
    (msg : InputShare (DF q)) : Prio.Res (VerifyState (DF q) × VerifierShare (DF q)) :=
  @Prio3.verifyInit (Fin (q + 1)) (cAdd q) (cSub q) (cMul q) (cNeg q) (cZero q) (cOne q) (Prio.finInv q) (cBEq q) C cfg cv
    xof sumLW verifyKey ctx aggId nonce pubParts msg
abbrev dP3SharesToMessage (C : FieldCtx (DF q)) (cfg : Cfg) (xof : Xof) (ctx : Prio3.Bytes)
    (shares : List (VerifierShare (DF q))) : Prio.Res (Option Prio3.Bytes) :=
  @Prio3.sharesToMessage (Fin (q + 1)) (cAdd q) (cMul q) (cNeg q) (cZero q) (cOne q) (cBEq q) C cfg xof ctx shares
abbrev dP3VerifyNext (C : FieldCtx (DF q)) (cfg : Cfg) (cv : Conv (DF q)) (xof : Xof) (sumLW : Nat) (ctx : Prio3.Bytes)
    (st : VerifyState (DF q)) (msg : Option Prio3.Bytes) : Prio.Res (List (DF q)) :=
  @Prio3.verifyNext (Fin (q + 1)) (cAdd q) (cMul q) (cZero q) (cOne q) C cfg cv xof sumLW ctx st msg
abbrev dP3TruncateWith (C : FieldCtx (DF q)) (t : TypeSpec) (sumLW : Nat) (input : List (DF q)) : Prio.Res (List (DF q)) :=
  @Prio3.truncateWith (Fin (q + 1)) (cAdd q) (cMul q) (cZero q) (cOne q) C t sumLW input
abbrev dP3Vadd (a b : List (DF q)) : List (DF q) := @Prio3.vadd (Fin (q + 1)) (cAdd q) a b
abbrev dZero : DF q := @Zero.zero (Fin (q + 1)) (cZero q)

theorem p3shard_rfl : @Prio.Driver.p3shard q = @dP3Shard q := rfl
theorem p3verifyInit_rfl : @Prio.Driver.p3verifyInit q = @dP3VerifyInit q := rfl
theorem p3sharesToMessage_rfl : @Prio.Driver.p3sharesToMessage q = @dP3SharesToMessage q := rfl
theorem p3verifyNext_rfl : @Prio.Driver.p3verifyNext q = @dP3VerifyNext q := rfl
theorem p3truncateWith_rfl : @Prio.Driver.p3truncateWith q = @dP3TruncateWith q := rfl
theorem p3vadd_rfl : @Prio.Driver.p3vadd q = @dP3Vadd q := rfl
theorem zero_rfl : Prio.Driver.zero q = dZero q := rfl

theorem dP3SharesToMessage_eq (C : FieldCtx (ZMod (q + 1))) (cfg : Cfg) (xof : Xof) (ctx : Prio3.Bytes)
    (shares : List (VerifierShare (ZMod (q + 1)))) :
    dP3SharesToMessage q C cfg xof ctx shares = Prio3.sharesToMessage (F := ZMod (q + 1)) C cfg xof ctx shares := rfl
theorem dP3VerifyNext_eq (C : FieldCtx (ZMod (q + 1))) (cfg : Cfg) (cv : Conv (ZMod (q + 1))) (xof : Xof) (sumLW : Nat)
    (ctx : Prio3.Bytes) (st : VerifyState (ZMod (q + 1))) (msg : Option Prio3.Bytes) :
    dP3VerifyNext q C cfg cv xof sumLW ctx st msg = Prio3.verifyNext (F := ZMod (q + 1)) C cfg cv xof sumLW ctx st msg := rfl
theorem dP3TruncateWith_eq (C : FieldCtx (ZMod (q + 1))) (t : TypeSpec) (sumLW : Nat) (input : List (ZMod (q + 1))) :
    dP3TruncateWith q C t sumLW input = Prio3.truncateWith (F := ZMod (q + 1)) C t sumLW input := rfl
theorem dP3Vadd_eq (a b : List (ZMod (q + 1))) : dP3Vadd q a b = Prio3.vadd (F := ZMod (q + 1)) a b := rfl
theorem dZero_eq : dZero q = (0 : ZMod (q + 1)) := rfl

variable [Fact (Nat.Prime (q + 1))]

theorem dP3Shard_eq (hq : 2 ≤ q) (C : FieldCtx (ZMod (q + 1))) (cfg : Cfg) (cv : Conv (ZMod (q + 1))) (xof : Xof)
    (ctx nonce random : Prio3.Bytes) (encoded : List (ZMod (q + 1))) :
    dP3Shard q C cfg cv xof ctx nonce random encoded =
      Prio3.shard (F := ZMod (q + 1)) C cfg cv xof ctx nonce random encoded := by
  unfold dP3Shard
  rw [finInv_eq q hq]
  rfl
theorem dP3VerifyInit_eq (hq : 2 ≤ q) (C : FieldCtx (ZMod (q + 1))) (cfg : Cfg) (cv : Conv (ZMod (q + 1))) (xof : Xof)
    (sumLW : Nat) (verifyKey ctx : Prio3.Bytes) (aggId : Nat) (nonce : Prio3.Bytes) (pubParts : Option (List Prio3.Bytes))
    (msg : InputShare (ZMod (q + 1))) :
    dP3VerifyInit q C cfg cv xof sumLW verifyKey ctx aggId nonce pubParts msg =
      Prio3.verifyInit (F := ZMod (q + 1)) C cfg cv xof sumLW verifyKey ctx aggId nonce pubParts msg := by
  unfold dP3VerifyInit
  rw [finInv_eq q hq]
  rfl

/-- **Prio3 end to end at the driver's instance**, any odd prime modulus, any `CtxOk` context -/
theorem prio3_e2e_driver (hq : 2 ≤ q) (C : FieldCtx (DF q)) (ω : Nat → ZMod (q + 1))
    (hC : CtxOk (F := ZMod (q + 1)) C ω) (cfg : Cfg) (cv : Conv (DF q))
    (xof : Xof) (sumLW : Nat) (key ctx nonce random : Prio3.Bytes) (encoded : List (DF q)) (out : ShardOut (DF q))
    (hN : 1 ≤ cfg.numAgg) (hInv : ¬ (q + 1) ∣ cfg.numAgg) (hNP : 1 ≤ cfg.numProofs)
    (hwf : cfg.t.WellFormed)
    (hvalid : ∀ jr o, dValid q C cfg.t encoded jr 1 = .ok o → ∀ x ∈ o, x = dZero q)
    (hshard : dP3Shard q C cfg cv xof ctx nonce random encoded = .ok out)
    (states : List (VerifyState (DF q))) (vshares : List (VerifierShare (DF q)))
    (hSl : states.length = cfg.numAgg) (hVl : vshares.length = cfg.numAgg)
    (hinit : ∀ i (h1 : i < out.shares.length) (h2 : i < states.length) (h3 : i < vshares.length),
      dP3VerifyInit q C cfg cv xof sumLW key ctx i nonce out.jointRandParts out.shares[i] = .ok (states[i], vshares[i])) :
    out.shares.length = cfg.numAgg ∧
    ∃ m, dP3SharesToMessage q C cfg xof ctx vshares = .ok m ∧
      ∃ outs : List (List (DF q)), outs.length = cfg.numAgg ∧
        (∀ i (h1 : i < states.length) (h2 : i < outs.length),
          dP3VerifyNext q C cfg cv xof sumLW ctx states[i] m = .ok outs[i]) ∧
        dP3TruncateWith q C cfg.t sumLW encoded =
          .ok (outs.foldl (dP3Vadd q) (List.replicate cfg.t.outputLen (dZero q))) := by
  have hInv' : ((cfg.numAgg : Nat) : ZMod (q + 1)) ≠ 0 := by
    rw [Ne, ZMod.natCast_eq_zero_iff]; exact hInv
  have hvalid' : ∀ jr o, Flp.valid (F := ZMod (q + 1)) C cfg.t encoded jr 1 = .ok o → ∀ x ∈ o, x = 0 :=
    fun jr o h => hvalid jr o ((dValid_eq q hq C cfg.t encoded jr 1).trans h)
  have hshard' := (dP3Shard_eq q hq C cfg cv xof ctx nonce random encoded).symm.trans hshard
  have hinit' : ∀ i (h1 : i < out.shares.length) (h2 : i < states.length) (h3 : i < vshares.length),
      Prio3.verifyInit (F := ZMod (q + 1)) C cfg cv xof sumLW key ctx i nonce out.jointRandParts out.shares[i] =
        .ok (states[i], vshares[i]) :=
    fun i h1 h2 h3 => (dP3VerifyInit_eq q hq C cfg cv xof sumLW key ctx i nonce _ _).symm.trans (hinit i h1 h2 h3)
  exact @Prio.Prio3E2E.prio3_e2e (ZMod (q + 1)) _ (cBEq q) (cBEq_lawful q) C ω hC cfg cv xof sumLW key ctx nonce random
    encoded out hN hInv' hNP hwf hvalid' hshard' states vshares hSl hVl hinit'

end prio3
/-! ### the deployed fields -/

section deployed3
open Gen

/-- **Prio3 end to end at the driver's FP64 instance and context** (`handleP3` with field `"FP64"`): every function symbol is
    the driver's, the context is `Prio.fieldCtx "FP64" q64`; the number of aggregators only has to be below the modulus -/
theorem prio3_e2e_FP64 (cfg : Cfg) (cv : Conv (Fin (q64 + 1)))
    (xof : Xof) (sumLW : Nat) (key ctx nonce random : Prio3.Bytes) (encoded : List (Fin (q64 + 1)))
    (out : ShardOut (Fin (q64 + 1)))
    (hN : 1 ≤ cfg.numAgg) (hInv : cfg.numAgg < FP64.prime) (hNP : 1 ≤ cfg.numProofs)
    (hwf : cfg.t.WellFormed)
    (hvalid : ∀ jr o, dValid q64 (Prio.fieldCtx "FP64" q64) cfg.t encoded jr 1 = .ok o → ∀ x ∈ o, x = dZero q64)
    (hshard : dP3Shard q64 (Prio.fieldCtx "FP64" q64) cfg cv xof ctx nonce random encoded = .ok out)
    (states : List (VerifyState (Fin (q64 + 1)))) (vshares : List (VerifierShare (Fin (q64 + 1))))
    (hSl : states.length = cfg.numAgg) (hVl : vshares.length = cfg.numAgg)
    (hinit : ∀ i (h1 : i < out.shares.length) (h2 : i < states.length) (h3 : i < vshares.length),
      dP3VerifyInit q64 (Prio.fieldCtx "FP64" q64) cfg cv xof sumLW key ctx i nonce out.jointRandParts out.shares[i] =
        .ok (states[i], vshares[i])) :
    out.shares.length = cfg.numAgg ∧
    ∃ m, dP3SharesToMessage q64 (Prio.fieldCtx "FP64" q64) cfg xof ctx vshares = .ok m ∧
      ∃ outs : List (List (Fin (q64 + 1))), outs.length = cfg.numAgg ∧
        (∀ i (h1 : i < states.length) (h2 : i < outs.length),
          dP3VerifyNext q64 (Prio.fieldCtx "FP64" q64) cfg cv xof sumLW ctx states[i] m = .ok outs[i]) ∧
        dP3TruncateWith q64 (Prio.fieldCtx "FP64" q64) cfg.t sumLW encoded =
          .ok (outs.foldl (dP3Vadd q64) (List.replicate cfg.t.outputLen (dZero q64))) := by
  refine prio3_e2e_driver q64 q64_ge _ _ FP64_ctxOk cfg cv xof sumLW key ctx nonce random encoded out hN ?_ hNP hwf hvalid
    hshard states vshares hSl hVl hinit
  intro hd
  have := Nat.le_of_dvd (by omega) hd
  have e := q64_succ
  omega

/-- the same statement with the import-free definitions of `PrioModel/DriverInst.lean` / `DriverInst2.lean` (what an
    elaboration without Mathlib, the driver's, produces) as function symbols -/
theorem prio3_e2e_FP64_inst (cfg : Cfg) (cv : Conv (Fin (q64 + 1)))
    (xof : Xof) (sumLW : Nat) (key ctx nonce random : Prio3.Bytes) (encoded : List (Fin (q64 + 1)))
    (out : ShardOut (Fin (q64 + 1)))
    (hN : 1 ≤ cfg.numAgg) (hInv : cfg.numAgg < FP64.prime) (hNP : 1 ≤ cfg.numProofs)
    (hwf : cfg.t.WellFormed)
    (hvalid : ∀ jr o, Prio.Driver.valid q64 (Prio.fieldCtx "FP64" q64) cfg.t encoded jr 1 = .ok o →
      ∀ x ∈ o, x = Prio.Driver.zero q64)
    (hshard : Prio.Driver.p3shard q64 (Prio.fieldCtx "FP64" q64) cfg cv xof ctx nonce random encoded = .ok out)
    (states : List (VerifyState (Fin (q64 + 1)))) (vshares : List (VerifierShare (Fin (q64 + 1))))
    (hSl : states.length = cfg.numAgg) (hVl : vshares.length = cfg.numAgg)
    (hinit : ∀ i (h1 : i < out.shares.length) (h2 : i < states.length) (h3 : i < vshares.length),
      Prio.Driver.p3verifyInit q64 (Prio.fieldCtx "FP64" q64) cfg cv xof sumLW key ctx i nonce out.jointRandParts
        out.shares[i] = .ok (states[i], vshares[i])) :
    out.shares.length = cfg.numAgg ∧
    ∃ m, Prio.Driver.p3sharesToMessage q64 (Prio.fieldCtx "FP64" q64) cfg xof ctx vshares = .ok m ∧
      ∃ outs : List (List (Fin (q64 + 1))), outs.length = cfg.numAgg ∧
        (∀ i (h1 : i < states.length) (h2 : i < outs.length),
          Prio.Driver.p3verifyNext q64 (Prio.fieldCtx "FP64" q64) cfg cv xof sumLW ctx states[i] m = .ok outs[i]) ∧
        Prio.Driver.p3truncateWith q64 (Prio.fieldCtx "FP64" q64) cfg.t sumLW encoded =
          .ok (outs.foldl (Prio.Driver.p3vadd q64) (List.replicate cfg.t.outputLen (Prio.Driver.zero q64))) :=
  prio3_e2e_FP64 cfg cv xof sumLW key ctx nonce random encoded out hN hInv hNP hwf hvalid hshard states vshares hSl hVl
    hinit

/-- **Prio3 end to end at the driver's FP128 instance and context** (`handleP3` with field `"FP128"`): every function symbol is
    the driver's, the context is `Prio.fieldCtx "FP128" q128`; the number of aggregators only has to be below the modulus -/
theorem prio3_e2e_FP128 (cfg : Cfg) (cv : Conv (Fin (q128 + 1)))
    (xof : Xof) (sumLW : Nat) (key ctx nonce random : Prio3.Bytes) (encoded : List (Fin (q128 + 1)))
    (out : ShardOut (Fin (q128 + 1)))
    (hN : 1 ≤ cfg.numAgg) (hInv : cfg.numAgg < FP128.prime) (hNP : 1 ≤ cfg.numProofs)
    (hwf : cfg.t.WellFormed)
    (hvalid : ∀ jr o, dValid q128 (Prio.fieldCtx "FP128" q128) cfg.t encoded jr 1 = .ok o → ∀ x ∈ o, x = dZero q128)
    (hshard : dP3Shard q128 (Prio.fieldCtx "FP128" q128) cfg cv xof ctx nonce random encoded = .ok out)
    (states : List (VerifyState (Fin (q128 + 1)))) (vshares : List (VerifierShare (Fin (q128 + 1))))
    (hSl : states.length = cfg.numAgg) (hVl : vshares.length = cfg.numAgg)
    (hinit : ∀ i (h1 : i < out.shares.length) (h2 : i < states.length) (h3 : i < vshares.length),
      dP3VerifyInit q128 (Prio.fieldCtx "FP128" q128) cfg cv xof sumLW key ctx i nonce out.jointRandParts out.shares[i] =
        .ok (states[i], vshares[i])) :
    out.shares.length = cfg.numAgg ∧
    ∃ m, dP3SharesToMessage q128 (Prio.fieldCtx "FP128" q128) cfg xof ctx vshares = .ok m ∧
      ∃ outs : List (List (Fin (q128 + 1))), outs.length = cfg.numAgg ∧
        (∀ i (h1 : i < states.length) (h2 : i < outs.length),
          dP3VerifyNext q128 (Prio.fieldCtx "FP128" q128) cfg cv xof sumLW ctx states[i] m = .ok outs[i]) ∧
        dP3TruncateWith q128 (Prio.fieldCtx "FP128" q128) cfg.t sumLW encoded =
          .ok (outs.foldl (dP3Vadd q128) (List.replicate cfg.t.outputLen (dZero q128))) := by
  refine prio3_e2e_driver q128 q128_ge _ _ FP128_ctxOk cfg cv xof sumLW key ctx nonce random encoded out hN ?_ hNP hwf hvalid
    hshard states vshares hSl hVl hinit
  intro hd
  have := Nat.le_of_dvd (by omega) hd
  have e := q128_succ
  omega

/-- the same statement with the import-free definitions of `PrioModel/DriverInst.lean` / `DriverInst2.lean` (what an
    elaboration without Mathlib, the driver's, produces) as function symbols -/
theorem prio3_e2e_FP128_inst (cfg : Cfg) (cv : Conv (Fin (q128 + 1)))
    (xof : Xof) (sumLW : Nat) (key ctx nonce random : Prio3.Bytes) (encoded : List (Fin (q128 + 1)))
    (out : ShardOut (Fin (q128 + 1)))
    (hN : 1 ≤ cfg.numAgg) (hInv : cfg.numAgg < FP128.prime) (hNP : 1 ≤ cfg.numProofs)
    (hwf : cfg.t.WellFormed)
    (hvalid : ∀ jr o, Prio.Driver.valid q128 (Prio.fieldCtx "FP128" q128) cfg.t encoded jr 1 = .ok o →
      ∀ x ∈ o, x = Prio.Driver.zero q128)
    (hshard : Prio.Driver.p3shard q128 (Prio.fieldCtx "FP128" q128) cfg cv xof ctx nonce random encoded = .ok out)
    (states : List (VerifyState (Fin (q128 + 1)))) (vshares : List (VerifierShare (Fin (q128 + 1))))
    (hSl : states.length = cfg.numAgg) (hVl : vshares.length = cfg.numAgg)
    (hinit : ∀ i (h1 : i < out.shares.length) (h2 : i < states.length) (h3 : i < vshares.length),
      Prio.Driver.p3verifyInit q128 (Prio.fieldCtx "FP128" q128) cfg cv xof sumLW key ctx i nonce out.jointRandParts
        out.shares[i] = .ok (states[i], vshares[i])) :
    out.shares.length = cfg.numAgg ∧
    ∃ m, Prio.Driver.p3sharesToMessage q128 (Prio.fieldCtx "FP128" q128) cfg xof ctx vshares = .ok m ∧
      ∃ outs : List (List (Fin (q128 + 1))), outs.length = cfg.numAgg ∧
        (∀ i (h1 : i < states.length) (h2 : i < outs.length),
          Prio.Driver.p3verifyNext q128 (Prio.fieldCtx "FP128" q128) cfg cv xof sumLW ctx states[i] m = .ok outs[i]) ∧
        Prio.Driver.p3truncateWith q128 (Prio.fieldCtx "FP128" q128) cfg.t sumLW encoded =
          .ok (outs.foldl (Prio.Driver.p3vadd q128) (List.replicate cfg.t.outputLen (Prio.Driver.zero q128))) :=
  prio3_e2e_FP128 cfg cv xof sumLW key ctx nonce random encoded out hN hInv hNP hwf hvalid hshard states vshares hSl hVl
    hinit

/-- **Prio3 end to end at the driver's FP32 instance and context** (`handleP3` with field `"FP32"`): every function symbol is
    the driver's, the context is `Prio.fieldCtx "FP32" q32`; the number of aggregators only has to be below the modulus -/
theorem prio3_e2e_FP32 (cfg : Cfg) (cv : Conv (Fin (q32 + 1)))
    (xof : Xof) (sumLW : Nat) (key ctx nonce random : Prio3.Bytes) (encoded : List (Fin (q32 + 1)))
    (out : ShardOut (Fin (q32 + 1)))
    (hN : 1 ≤ cfg.numAgg) (hInv : cfg.numAgg < FP32.prime) (hNP : 1 ≤ cfg.numProofs)
    (hwf : cfg.t.WellFormed)
    (hvalid : ∀ jr o, dValid q32 (Prio.fieldCtx "FP32" q32) cfg.t encoded jr 1 = .ok o → ∀ x ∈ o, x = dZero q32)
    (hshard : dP3Shard q32 (Prio.fieldCtx "FP32" q32) cfg cv xof ctx nonce random encoded = .ok out)
    (states : List (VerifyState (Fin (q32 + 1)))) (vshares : List (VerifierShare (Fin (q32 + 1))))
    (hSl : states.length = cfg.numAgg) (hVl : vshares.length = cfg.numAgg)
    (hinit : ∀ i (h1 : i < out.shares.length) (h2 : i < states.length) (h3 : i < vshares.length),
      dP3VerifyInit q32 (Prio.fieldCtx "FP32" q32) cfg cv xof sumLW key ctx i nonce out.jointRandParts out.shares[i] =
        .ok (states[i], vshares[i])) :
    out.shares.length = cfg.numAgg ∧
    ∃ m, dP3SharesToMessage q32 (Prio.fieldCtx "FP32" q32) cfg xof ctx vshares = .ok m ∧
      ∃ outs : List (List (Fin (q32 + 1))), outs.length = cfg.numAgg ∧
        (∀ i (h1 : i < states.length) (h2 : i < outs.length),
          dP3VerifyNext q32 (Prio.fieldCtx "FP32" q32) cfg cv xof sumLW ctx states[i] m = .ok outs[i]) ∧
        dP3TruncateWith q32 (Prio.fieldCtx "FP32" q32) cfg.t sumLW encoded =
          .ok (outs.foldl (dP3Vadd q32) (List.replicate cfg.t.outputLen (dZero q32))) := by
  refine prio3_e2e_driver q32 q32_ge _ _ FP32_ctxOk cfg cv xof sumLW key ctx nonce random encoded out hN ?_ hNP hwf hvalid
    hshard states vshares hSl hVl hinit
  intro hd
  have := Nat.le_of_dvd (by omega) hd
  have e := q32_succ
  omega

/-- the same statement with the import-free definitions of `PrioModel/DriverInst.lean` / `DriverInst2.lean` (what an
    elaboration without Mathlib, the driver's, produces) as function symbols -/
theorem prio3_e2e_FP32_inst (cfg : Cfg) (cv : Conv (Fin (q32 + 1)))
    (xof : Xof) (sumLW : Nat) (key ctx nonce random : Prio3.Bytes) (encoded : List (Fin (q32 + 1)))
    (out : ShardOut (Fin (q32 + 1)))
    (hN : 1 ≤ cfg.numAgg) (hInv : cfg.numAgg < FP32.prime) (hNP : 1 ≤ cfg.numProofs)
    (hwf : cfg.t.WellFormed)
    (hvalid : ∀ jr o, Prio.Driver.valid q32 (Prio.fieldCtx "FP32" q32) cfg.t encoded jr 1 = .ok o →
      ∀ x ∈ o, x = Prio.Driver.zero q32)
    (hshard : Prio.Driver.p3shard q32 (Prio.fieldCtx "FP32" q32) cfg cv xof ctx nonce random encoded = .ok out)
    (states : List (VerifyState (Fin (q32 + 1)))) (vshares : List (VerifierShare (Fin (q32 + 1))))
    (hSl : states.length = cfg.numAgg) (hVl : vshares.length = cfg.numAgg)
    (hinit : ∀ i (h1 : i < out.shares.length) (h2 : i < states.length) (h3 : i < vshares.length),
      Prio.Driver.p3verifyInit q32 (Prio.fieldCtx "FP32" q32) cfg cv xof sumLW key ctx i nonce out.jointRandParts
        out.shares[i] = .ok (states[i], vshares[i])) :
    out.shares.length = cfg.numAgg ∧
    ∃ m, Prio.Driver.p3sharesToMessage q32 (Prio.fieldCtx "FP32" q32) cfg xof ctx vshares = .ok m ∧
      ∃ outs : List (List (Fin (q32 + 1))), outs.length = cfg.numAgg ∧
        (∀ i (h1 : i < states.length) (h2 : i < outs.length),
          Prio.Driver.p3verifyNext q32 (Prio.fieldCtx "FP32" q32) cfg cv xof sumLW ctx states[i] m = .ok outs[i]) ∧
        Prio.Driver.p3truncateWith q32 (Prio.fieldCtx "FP32" q32) cfg.t sumLW encoded =
          .ok (outs.foldl (Prio.Driver.p3vadd q32) (List.replicate cfg.t.outputLen (Prio.Driver.zero q32))) :=
  prio3_e2e_FP32 cfg cv xof sumLW key ctx nonce random encoded out hN hInv hNP hwf hvalid hshard states vshares hSl hVl
    hinit

end deployed3

/-! ## Part 2: Prio2 -/

section prio2
open Prio.Prio2
variable (q : Nat)

/-- the Prio2 model functions with exactly the instance arguments the driver's elaboration supplies -/
abbrev dP2ConstructProof (C : FieldCtx (DF q)) (data : List (DF q)) (f0 g0 : DF q) : Ntt.R (List (DF q)) :=
  @Prio2.constructProof (Fin (q + 1)) (cAdd q) (cSub q) (cMul q) (cZero q) (cOne q) (Prio.finInv q) C data f0 g0
abbrev dP2Vmsg (C : FieldCtx (DF q)) (dim : Nat) (evalAt : DF q) (proof : List (DF q)) (isFirst : Bool) :
    Flp.Res (VerificationMessage (DF q)) :=
  @Prio2.generateVerificationMessage (Fin (q + 1)) (cAdd q) (cSub q) (cMul q) (cZero q) (cOne q) (Prio.finInv q) C dim
    evalAt proof isFirst
abbrev dP2IsValidShare (v1 v2 : VerificationMessage (DF q)) : Bool :=
  @Prio2.isValidShare (Fin (q + 1)) (cAdd q) (cMul q) (cBEq q) v1 v2
abbrev dP2LeaderShare (proof helper : List (DF q)) : List (DF q) := @Prio2.leaderShare (Fin (q + 1)) (cSub q) proof helper
abbrev dOne : DF q := @One.one (Fin (q + 1)) (cOne q)

theorem p2constructProof_rfl : @Prio.Driver.p2constructProof q = @dP2ConstructProof q := rfl
theorem p2generateVerificationMessage_rfl : @Prio.Driver.p2generateVerificationMessage q = @dP2Vmsg q := rfl
theorem p2isValidShare_rfl : @Prio.Driver.p2isValidShare q = @dP2IsValidShare q := rfl
theorem p2leaderShare_rfl : @Prio.Driver.p2leaderShare q = @dP2LeaderShare q := rfl
theorem one_rfl : Prio.Driver.one q = dOne q := rfl

/-- no inverse involved: definitional -/
theorem dP2IsValidShare_eq (v1 v2 : VerificationMessage (ZMod (q + 1))) :
    dP2IsValidShare q v1 v2 = Prio2.isValidShare (F := ZMod (q + 1)) v1 v2 := rfl
theorem dP2LeaderShare_eq (proof helper : List (ZMod (q + 1))) :
    dP2LeaderShare q proof helper = Prio2.leaderShare (F := ZMod (q + 1)) proof helper := rfl
theorem dOne_eq : dOne q = (1 : ZMod (q + 1)) := rfl

variable [Fact (Nat.Prime (q + 1))]

/-- with the inverse: after rewriting the `Inv` instance (`finInv_eq`, Fermat) -/
theorem dP2ConstructProof_eq (hq : 2 ≤ q) (C : FieldCtx (ZMod (q + 1))) (data : List (ZMod (q + 1)))
    (f0 g0 : ZMod (q + 1)) :
    dP2ConstructProof q C data f0 g0 = Prio2.constructProof (F := ZMod (q + 1)) C data f0 g0 := by
  unfold dP2ConstructProof
  rw [finInv_eq q hq]
  rfl
theorem dP2Vmsg_eq (hq : 2 ≤ q) (C : FieldCtx (ZMod (q + 1))) (dim : Nat) (evalAt : ZMod (q + 1))
    (proof : List (ZMod (q + 1))) (isFirst : Bool) :
    dP2Vmsg q C dim evalAt proof isFirst =
      Prio2.generateVerificationMessage (F := ZMod (q + 1)) C dim evalAt proof isFirst := by
  unfold dP2Vmsg
  rw [finInv_eq q hq]
  rfl

/-- **completeness of Prio2 at the driver's instance**, any odd prime modulus, any `CtxOk` context -/
theorem prio2_complete_driver (hq : 2 ≤ q) (C : FieldCtx (DF q)) (ω : Nat → ZMod (q + 1))
    (hC : CtxOk (F := ZMod (q + 1)) C ω) (data : List (DF q))
    (hbin : ∀ x ∈ data, x = dZero q ∨ x = dOne q)
    (f0 g0 r : DF q) (proof helper : List (DF q)) (v1 v2 : VerificationMessage (DF q))
    (hc : dP2ConstructProof q C data f0 g0 = .ok proof) (hl : helper.length = proof.length)
    (hv1 : dP2Vmsg q C data.length r (dP2LeaderShare q proof helper) true = .ok v1)
    (hv2 : dP2Vmsg q C data.length r helper false = .ok v2) :
    dP2IsValidShare q v1 v2 = true := by
  have hc' := (dP2ConstructProof_eq q hq C data f0 g0).symm.trans hc
  have hv1' := (dP2Vmsg_eq q hq C data.length r _ true).symm.trans hv1
  have hv2' := (dP2Vmsg_eq q hq C data.length r helper false).symm.trans hv2
  exact @Prio.Prio2Complete.prio2_complete (ZMod (q + 1)) _ (cBEq q) (cBEq_lawful q) ω C hC.ofNat hC.two hC.roots
    hC.avail data hbin f0 g0 r proof helper v1 v2 hc' hl hv1' hv2'

/-- the same with nothing assumed to succeed (the dimension must fit the largest transform) -/
theorem prio2_complete_total_driver (hq : 2 ≤ q) (C : FieldCtx (DF q)) (ω : Nat → ZMod (q + 1))
    (hC : CtxOk (F := ZMod (q + 1)) C ω) (data : List (DF q))
    (hbin : ∀ x ∈ data, x = dZero q ∨ x = dOne q) (hsmall : 2 * nextPow2 (data.length + 1) ≤ 2 ^ maxRoots)
    (f0 g0 r : DF q) (helper : List (DF q)) (hl : helper.length = proofLength data.length) :
    ∃ proof v1 v2, dP2ConstructProof q C data f0 g0 = .ok proof ∧
      dP2Vmsg q C data.length r (dP2LeaderShare q proof helper) true = .ok v1 ∧
      dP2Vmsg q C data.length r helper false = .ok v2 ∧
      dP2IsValidShare q v1 v2 = true := by
  obtain ⟨proof, v1, v2, h1, h2, h3, h4⟩ :=
    @Prio.Prio2Complete.prio2_complete_total (ZMod (q + 1)) _ (cBEq q) (cBEq_lawful q) ω C hC.ofNat hC.two hC.roots
      hC.avail data hbin hsmall f0 g0 r helper hl
  exact ⟨proof, v1, v2, (dP2ConstructProof_eq q hq C data f0 g0).trans h1,
    (dP2Vmsg_eq q hq C data.length r _ true).trans h2, (dP2Vmsg_eq q hq C data.length r helper false).trans h3, h4⟩

end prio2

/-- **completeness of Prio2 at the driver's FP32 instance and context** (`handleC19`): the verification messages the two
    servers compute from any additive sharing of the honest proof of a 0/1 vector are accepted, at every evaluation point -/
theorem prio2_complete_FP32 (data : List (Fin (q32 + 1)))
    (hbin : ∀ x ∈ data, x = dZero q32 ∨ x = dOne q32)
    (f0 g0 r : Fin (q32 + 1)) (proof helper : List (Fin (q32 + 1))) (v1 v2 : Prio2.VerificationMessage (Fin (q32 + 1)))
    (hc : dP2ConstructProof q32 (Prio.fieldCtx "FP32" q32) data f0 g0 = .ok proof) (hl : helper.length = proof.length)
    (hv1 : dP2Vmsg q32 (Prio.fieldCtx "FP32" q32) data.length r (dP2LeaderShare q32 proof helper) true = .ok v1)
    (hv2 : dP2Vmsg q32 (Prio.fieldCtx "FP32" q32) data.length r helper false = .ok v2) :
    dP2IsValidShare q32 v1 v2 = true :=
  prio2_complete_driver q32 q32_ge _ _ FP32_ctxOk data hbin f0 g0 r proof helper v1 v2 hc hl hv1 hv2

/-- … with nothing assumed to succeed: for a dimension that fits the largest transform the proof and both verification
    messages exist, and the decision is to accept -/
theorem prio2_complete_total_FP32 (data : List (Fin (q32 + 1)))
    (hbin : ∀ x ∈ data, x = dZero q32 ∨ x = dOne q32) (hsmall : 2 * nextPow2 (data.length + 1) ≤ 2 ^ maxRoots)
    (f0 g0 r : Fin (q32 + 1)) (helper : List (Fin (q32 + 1))) (hl : helper.length = Prio2.proofLength data.length) :
    ∃ proof v1 v2, dP2ConstructProof q32 (Prio.fieldCtx "FP32" q32) data f0 g0 = .ok proof ∧
      dP2Vmsg q32 (Prio.fieldCtx "FP32" q32) data.length r (dP2LeaderShare q32 proof helper) true = .ok v1 ∧
      dP2Vmsg q32 (Prio.fieldCtx "FP32" q32) data.length r helper false = .ok v2 ∧
      dP2IsValidShare q32 v1 v2 = true :=
  prio2_complete_total_driver q32 q32_ge _ _ FP32_ctxOk data hbin hsmall f0 g0 r helper hl

/-- the same statement with the import-free definitions of `PrioModel/DriverInst2.lean` as function symbols -/
theorem prio2_complete_FP32_inst (data : List (Fin (q32 + 1)))
    (hbin : ∀ x ∈ data, x = Prio.Driver.zero q32 ∨ x = Prio.Driver.one q32)
    (f0 g0 r : Fin (q32 + 1)) (proof helper : List (Fin (q32 + 1))) (v1 v2 : Prio2.VerificationMessage (Fin (q32 + 1)))
    (hc : Prio.Driver.p2constructProof q32 (Prio.fieldCtx "FP32" q32) data f0 g0 = .ok proof)
    (hl : helper.length = proof.length)
    (hv1 : Prio.Driver.p2generateVerificationMessage q32 (Prio.fieldCtx "FP32" q32) data.length r
      (Prio.Driver.p2leaderShare q32 proof helper) true = .ok v1)
    (hv2 : Prio.Driver.p2generateVerificationMessage q32 (Prio.fieldCtx "FP32" q32) data.length r helper false = .ok v2) :
    Prio.Driver.p2isValidShare q32 v1 v2 = true :=
  prio2_complete_FP32 data hbin f0 g0 r proof helper v1 v2 hc hl hv1 hv2

/-! ## Part 3: `2^255 − 19` is prime

A Pratt certificate, checked with the machinery of `PrioProofs/FpPrime.lean` (`FpPrime.pratt`: Lucas' criterion through
`lucas_primality`; `prattCheck` evaluated by the kernel, `decide +kernel`; the small primes by `norm_num`).
`p − 1 = 2² · 3 · 65147 · 74058212732561358302231226437062788676166966415465897661863160754340907`, and recursively for the
large factors.  Witness 2. -/

section p255
open FpPrime

theorem prime_2773320623 : Nat.Prime 2773320623 :=
  pratt 2773320623 5 [(2, 1), (2437, 1), (569003, 1)]
    (by simp only [List.mem_cons, List.not_mem_nil, or_false]
        rintro x (rfl | rfl | rfl) <;> norm_num)
    (by decide +kernel)

theorem prime_72106336199 : Nat.Prime 72106336199 :=
  pratt 72106336199 7 [(2, 1), (13, 1), (2773320623, 1)]
    (by simp only [List.mem_cons, List.not_mem_nil, or_false]
        rintro x (rfl | rfl | rfl)
        · norm_num
        · norm_num
        · exact prime_2773320623)
    (by decide +kernel)

theorem prime_1919519569386763 : Nat.Prime 1919519569386763 :=
  pratt 1919519569386763 2 [(2, 1), (3, 1), (7, 1), (19, 1), (47, 2), (127, 1), (8574133, 1)]
    (by simp only [List.mem_cons, List.not_mem_nil, or_false]
        rintro x (rfl | rfl | rfl | rfl | rfl | rfl | rfl) <;> norm_num)
    (by decide +kernel)

theorem prime_31757755568855353 : Nat.Prime 31757755568855353 :=
  pratt 31757755568855353 10 [(2, 3), (3, 1), (31, 1), (107, 1), (223, 1), (4153, 1), (430751, 1)]
    (by simp only [List.mem_cons, List.not_mem_nil, or_false]
        rintro x (rfl | rfl | rfl | rfl | rfl | rfl | rfl) <;> norm_num)
    (by decide +kernel)

theorem prime_75445702479781427272750846543864801 : Nat.Prime 75445702479781427272750846543864801 :=
  pratt 75445702479781427272750846543864801 7
    [(2, 5), (3, 2), (5, 2), (75707, 1), (72106336199, 1), (1919519569386763, 1)]
    (by simp only [List.mem_cons, List.not_mem_nil, or_false]
        rintro x (rfl | rfl | rfl | rfl | rfl | rfl)
        · norm_num
        · norm_num
        · norm_num
        · norm_num
        · exact prime_72106336199
        · exact prime_1919519569386763)
    (by decide +kernel)

theorem prime_74058212732561358302231226437062788676166966415465897661863160754340907 :
    Nat.Prime 74058212732561358302231226437062788676166966415465897661863160754340907 :=
  pratt 74058212732561358302231226437062788676166966415465897661863160754340907 2
    [(2, 1), (3, 1), (353, 1), (57467, 1), (132049, 1), (1923133, 1), (31757755568855353, 1),
      (75445702479781427272750846543864801, 1)]
    (by simp only [List.mem_cons, List.not_mem_nil, or_false]
        rintro x (rfl | rfl | rfl | rfl | rfl | rfl | rfl | rfl)
        · norm_num
        · norm_num
        · norm_num
        · norm_num
        · norm_num
        · norm_num
        · exact prime_31757755568855353
        · exact prime_75445702479781427272750846543864801)
    (by decide +kernel)

theorem prime_p255_lit :
    Nat.Prime 57896044618658097711785492504343953926634992332820282019728792003956564819949 :=
  pratt 57896044618658097711785492504343953926634992332820282019728792003956564819949 2
    [(2, 2), (3, 1), (65147, 1), (74058212732561358302231226437062788676166966415465897661863160754340907, 1)]
    (by simp only [List.mem_cons, List.not_mem_nil, or_false]
        rintro x (rfl | rfl | rfl | rfl)
        · norm_num
        · norm_num
        · norm_num
        · exact prime_74058212732561358302231226437062788676166966415465897661863160754340907)
    (by decide +kernel)

theorem p255_prime : Nat.Prime (2 ^ 255 - 19) := by
  have e : 2 ^ 255 - 19 = 57896044618658097711785492504343953926634992332820282019728792003956564819949 := by
    norm_num
  rw [e]
  exact prime_p255_lit


/-- the modulus the driver takes from the message layer for `"F255"` -/
theorem P255_prime : Nat.Prime Msg.P255 := p255_prime

instance fact_p255 : Fact (Nat.Prime (2 ^ 255 - 19)) := ⟨p255_prime⟩

/-- Consequently `ZMod (2^255 - 19)` is a field (`ZMod.instField`, through `fact_p255`), as is `ZMod FP64.prime`
    (`FpPrime.FP64_prime`): the hypotheses `[Field FI] [Field FL]` of `Prio.Poplar1.E2E.poplar1_inner_e2e` /
    `poplar1_leaf_e2e` hold with `FI := ZMod FP64.prime`, `FL := ZMod (2^255 - 19)` — Part 4. -/
example : Field (ZMod (2 ^ 255 - 19)) := inferInstance

/-- the `q` that the driver's `withField "F255"` extracts from `Msg.fieldSpec "F255"` (`F.p = q + 1`) -/
def q255 : Nat := 2 ^ 255 - 19 - 1

theorem q255_succ : q255 + 1 = 2 ^ 255 - 19 := by decide +kernel
theorem q255_succ' : q255 + 1 = Msg.P255 := q255_succ
theorem fieldSpec_F255 : Msg.fieldSpec "F255" = some ⟨q255 + 1, 32⟩ := by
  rw [q255_succ']; rfl

instance fact255 : Fact (Nat.Prime (q255 + 1)) := ⟨by rw [q255_succ]; exact p255_prime⟩

end p255

/-! ## Part 4: Poplar1

`handlePop` runs the model of `PrioModel/Poplar1.lean` at `FI := Fin (qi + 1)`, `FL := Fin (ql + 1)`, where `qi + 1` and
`ql + 1` are the moduli of `Msg.fieldSpec "FP64"` and `Msg.fieldSpec "F255"` (`fieldSpec_FP64`, `fieldSpec_F255`), with
`ofI := Fin.ofNat (qi + 1)`, `ofL := Fin.ofNat (ql + 1)`, the table-driven XOF and IDPF PRGs.  The model uses only
`Add Sub Mul Neg Zero One BEq`, no `Inv`: the identification with the `ZMod` instances is by `rfl`. -/

section poplar1
open Prio.Idpf Prio.Poplar1 Prio.Poplar1.E2E
variable (qi ql : Nat)

/-- the Poplar1 model functions with exactly the instance arguments the driver's elaboration supplies -/
abbrev dPopShard (cfg : Poplar1.Cfg) (ofI : Nat → DF qi) (ofL : Nat → DF ql) (xof : Poplar1.Xof)
    (gI : Prg Poplar1.Bytes (Pair (DF qi))) (gL : Prg Poplar1.Bytes (Pair (DF ql)))
    (ctx : Poplar1.Bytes) (input : List Bool) (nonce k0 k1 pr0 pr1 pr2 : Poplar1.Bytes) :
    Poplar1.Res (PubShare (DF qi) (DF ql) × Poplar1.InputShare (DF qi) (DF ql) × Poplar1.InputShare (DF qi) (DF ql)) :=
  @Poplar1.shard (Fin (qi + 1)) (Fin (ql + 1)) (cAdd qi) (cSub qi) (cMul qi) (cNeg qi) (cOne qi)
    (cAdd ql) (cSub ql) (cMul ql) (cNeg ql) (cOne ql) cfg ofI ofL xof gI gL ctx input nonce k0 k1 pr0 pr1 pr2
abbrev dPopVerifyInit (cfg : Poplar1.Cfg) (ofI : Nat → DF qi) (ofL : Nat → DF ql) (xof : Poplar1.Xof)
    (gI : Prg Poplar1.Bytes (Pair (DF qi))) (gL : Prg Poplar1.Bytes (Pair (DF ql)))
    (verifyKey ctx : Poplar1.Bytes) (aggId : Nat) (ap : AggParam) (nonce : Poplar1.Bytes)
    (pub : PubShare (DF qi) (DF ql)) (share : Poplar1.InputShare (DF qi) (DF ql)) :
    Poplar1.Res (State (DF qi) (DF ql) × Poplar1.FieldVec (DF qi) (DF ql)) :=
  @Poplar1.verifyInit (Fin (qi + 1)) (Fin (ql + 1)) (cAdd qi) (cMul qi) (cNeg qi) (cZero qi)
    (cAdd ql) (cMul ql) (cNeg ql) (cZero ql) cfg ofI ofL xof gI gL verifyKey ctx aggId ap nonce pub share
abbrev dPopSharesToMessage (shares : List (Poplar1.FieldVec (DF qi) (DF ql))) : Poplar1.Res (Message (DF qi) (DF ql)) :=
  @Poplar1.sharesToMessage (Fin (qi + 1)) (Fin (ql + 1)) (cAdd qi) (cZero qi) (cBEq qi) (cAdd ql) (cZero ql) (cBEq ql)
    shares
abbrev dPopVerifyNext (st : State (DF qi) (DF ql)) (msg : Message (DF qi) (DF ql)) :
    Poplar1.Res (Transition (DF qi) (DF ql)) :=
  @Poplar1.verifyNext (Fin (qi + 1)) (Fin (ql + 1)) (cAdd qi) (cSub qi) (cMul qi) (cAdd ql) (cSub ql) (cMul ql) st msg
abbrev dPopAdd (q : Nat) (a b : List (DF q)) : List (DF q) :=
  List.zipWith (fun x y => @HAdd.hAdd _ _ _ (@instHAdd _ (cAdd q)) x y) a b

theorem popShard_rfl : @Prio.Driver.popShard qi ql = @dPopShard qi ql := rfl
theorem popVerifyInit_rfl : @Prio.Driver.popVerifyInit qi ql = @dPopVerifyInit qi ql := rfl
theorem popSharesToMessage_rfl : @Prio.Driver.popSharesToMessage qi ql = @dPopSharesToMessage qi ql := rfl
theorem popVerifyNext_rfl : @Prio.Driver.popVerifyNext qi ql = @dPopVerifyNext qi ql := rfl
theorem popAddI_rfl : @Prio.Driver.popAddI qi = @dPopAdd qi := rfl
theorem popAddL_rfl : @Prio.Driver.popAddL ql = @dPopAdd ql := rfl

variable [Fact (Nat.Prime (qi + 1))] [Fact (Nat.Prime (ql + 1))]

/-- no inverse involved: the driver's functions are definitionally the model functions at the fields `ZMod (qi + 1)`,
    `ZMod (ql + 1)` -/
theorem dPopShard_eq (cfg : Poplar1.Cfg) (ofI : Nat → ZMod (qi + 1)) (ofL : Nat → ZMod (ql + 1)) (xof : Poplar1.Xof)
    (gI : Prg Poplar1.Bytes (Pair (ZMod (qi + 1)))) (gL : Prg Poplar1.Bytes (Pair (ZMod (ql + 1))))
    (ctx : Poplar1.Bytes) (input : List Bool) (nonce k0 k1 pr0 pr1 pr2 : Poplar1.Bytes) :
    dPopShard qi ql cfg ofI ofL xof gI gL ctx input nonce k0 k1 pr0 pr1 pr2 =
      Poplar1.shard (FI := ZMod (qi + 1)) (FL := ZMod (ql + 1)) cfg ofI ofL xof gI gL ctx input nonce k0 k1 pr0 pr1 pr2 :=
  rfl
theorem dPopVerifyInit_eq (cfg : Poplar1.Cfg) (ofI : Nat → ZMod (qi + 1)) (ofL : Nat → ZMod (ql + 1)) (xof : Poplar1.Xof)
    (gI : Prg Poplar1.Bytes (Pair (ZMod (qi + 1)))) (gL : Prg Poplar1.Bytes (Pair (ZMod (ql + 1))))
    (verifyKey ctx : Poplar1.Bytes) (aggId : Nat) (ap : AggParam) (nonce : Poplar1.Bytes)
    (pub : PubShare (ZMod (qi + 1)) (ZMod (ql + 1))) (share : Poplar1.InputShare (ZMod (qi + 1)) (ZMod (ql + 1))) :
    dPopVerifyInit qi ql cfg ofI ofL xof gI gL verifyKey ctx aggId ap nonce pub share =
      Poplar1.verifyInit (FI := ZMod (qi + 1)) (FL := ZMod (ql + 1)) cfg ofI ofL xof gI gL verifyKey ctx aggId ap nonce
        pub share := rfl
theorem dPopSharesToMessage_eq (shares : List (Poplar1.FieldVec (ZMod (qi + 1)) (ZMod (ql + 1)))) :
    dPopSharesToMessage qi ql shares =
      @Poplar1.sharesToMessage (ZMod (qi + 1)) (ZMod (ql + 1)) _ _ (cBEq qi) _ _ (cBEq ql) shares := rfl
theorem dPopVerifyNext_eq (st : State (ZMod (qi + 1)) (ZMod (ql + 1))) (msg : Message (ZMod (qi + 1)) (ZMod (ql + 1))) :
    dPopVerifyNext qi ql st msg = Poplar1.verifyNext (FI := ZMod (qi + 1)) (FL := ZMod (ql + 1)) st msg := rfl

/-- **Poplar1 end to end, inner levels, at the driver's instance** (any two prime moduli) -/
theorem poplar1_inner_e2e_driver (n : Nat) (cfg : Poplar1.Cfg) (ofI : Nat → DF qi) (ofL : Nat → DF ql)
    (xof : Poplar1.Xof) (gI : Prg Poplar1.Bytes (Pair (DF qi))) (gL : Prg Poplar1.Bytes (Pair (DF ql)))
    (hI : SeedPres n gI) (hL : SeedPres n gL)
    (ctx : Poplar1.Bytes) (input : List Bool) (nonce k0 k1 pr0 pr1 pr2 : Poplar1.Bytes)
    (hk0 : k0.length = n) (hk1 : k1.length = n)
    (pub : PubShare (DF qi) (DF ql)) (s0 s1 : Poplar1.InputShare (DF qi) (DF ql))
    (hshard : dPopShard qi ql cfg ofI ofL xof gI gL ctx input nonce k0 k1 pr0 pr1 pr2 = .ok (pub, s0, s1))
    (ap : AggParam) (hlev : ap.level + 1 < cfg.bits)
    (hpl : ∀ p ∈ ap.prefixes, p.length = ap.level + 1) (hnd : ap.prefixes.Nodup)
    (verifyKey : Poplar1.Bytes) (rs : List Nat) (g : Rng)
    (hrs : (Rng.init xof verifyKey usageVerify ctx (nonce ++ beBytes ap.level 2) cfg.fi.sz).take cfg.fi
      ap.prefixes.length = some (rs, g)) :
    ∃ (st0 : State (DF qi) (DF ql)) (sh0 : Poplar1.FieldVec (DF qi) (DF ql)) (st1 : State (DF qi) (DF ql))
      (sh1 : Poplar1.FieldVec (DF qi) (DF ql)) (s : DF qi × DF qi × DF qi) (st0' : State (DF qi) (DF ql))
      (r0 : Poplar1.FieldVec (DF qi) (DF ql)) (st1' : State (DF qi) (DF ql)) (r1 : Poplar1.FieldVec (DF qi) (DF ql))
      (o0 o1 : List (DF qi)),
      dPopVerifyInit qi ql cfg ofI ofL xof gI gL verifyKey ctx 0 ap nonce pub s0 = .ok (st0, sh0) ∧
      dPopVerifyInit qi ql cfg ofI ofL xof gI gL verifyKey ctx 1 ap nonce pub s1 = .ok (st1, sh1) ∧
      dPopSharesToMessage qi ql [sh0, sh1] = .ok (.sketchInner s) ∧
      dPopVerifyNext qi ql st0 (.sketchInner s) = .ok (.continue st0' r0) ∧
      dPopVerifyNext qi ql st1 (.sketchInner s) = .ok (.continue st1' r1) ∧
      dPopSharesToMessage qi ql [r0, r1] = .ok .done ∧
      dPopVerifyNext qi ql st0' .done = .ok (.finish (.inner o0)) ∧
      dPopVerifyNext qi ql st1' .done = .ok (.finish (.inner o1)) ∧
      dPopAdd qi o0 o1 = ap.prefixes.map (fun p => if p <+: input then dOne qi else dZero qi) :=
  @Prio.Poplar1.E2E.poplar1_inner_e2e (ZMod (qi + 1)) (ZMod (ql + 1)) _ (cBEq qi) (cBEq_lawful qi) _ (cBEq ql) 
    n cfg ofI ofL xof gI gL hI hL ctx input nonce k0 k1 pr0 pr1 pr2 hk0 hk1 pub s0 s1 hshard ap hlev hpl hnd verifyKey rs g hrs

/-- **Poplar1 end to end, leaf level, at the driver's instance** (any two prime moduli) -/
theorem poplar1_leaf_e2e_driver (n : Nat) (cfg : Poplar1.Cfg) (ofI : Nat → DF qi) (ofL : Nat → DF ql)
    (xof : Poplar1.Xof) (gI : Prg Poplar1.Bytes (Pair (DF qi))) (gL : Prg Poplar1.Bytes (Pair (DF ql)))
    (hI : SeedPres n gI) (hL : SeedPres n gL)
    (ctx : Poplar1.Bytes) (input : List Bool) (nonce k0 k1 pr0 pr1 pr2 : Poplar1.Bytes)
    (hk0 : k0.length = n) (hk1 : k1.length = n)
    (pub : PubShare (DF qi) (DF ql)) (s0 s1 : Poplar1.InputShare (DF qi) (DF ql))
    (hshard : dPopShard qi ql cfg ofI ofL xof gI gL ctx input nonce k0 k1 pr0 pr1 pr2 = .ok (pub, s0, s1))
    (ap : AggParam) (hlev : ap.level + 1 = cfg.bits)
    (hpl : ∀ p ∈ ap.prefixes, p.length = ap.level + 1) (hnd : ap.prefixes.Nodup)
    (verifyKey : Poplar1.Bytes) (rs : List Nat) (g : Rng)
    (hrs : (Rng.init xof verifyKey usageVerify ctx (nonce ++ beBytes ap.level 2) cfg.fl.sz).take cfg.fl
      ap.prefixes.length = some (rs, g)) :
    ∃ (st0 : State (DF qi) (DF ql)) (sh0 : Poplar1.FieldVec (DF qi) (DF ql)) (st1 : State (DF qi) (DF ql))
      (sh1 : Poplar1.FieldVec (DF qi) (DF ql)) (s : DF ql × DF ql × DF ql) (st0' : State (DF qi) (DF ql))
      (r0 : Poplar1.FieldVec (DF qi) (DF ql)) (st1' : State (DF qi) (DF ql)) (r1 : Poplar1.FieldVec (DF qi) (DF ql))
      (o0 o1 : List (DF ql)),
      dPopVerifyInit qi ql cfg ofI ofL xof gI gL verifyKey ctx 0 ap nonce pub s0 = .ok (st0, sh0) ∧
      dPopVerifyInit qi ql cfg ofI ofL xof gI gL verifyKey ctx 1 ap nonce pub s1 = .ok (st1, sh1) ∧
      dPopSharesToMessage qi ql [sh0, sh1] = .ok (.sketchLeaf s) ∧
      dPopVerifyNext qi ql st0 (.sketchLeaf s) = .ok (.continue st0' r0) ∧
      dPopVerifyNext qi ql st1 (.sketchLeaf s) = .ok (.continue st1' r1) ∧
      dPopSharesToMessage qi ql [r0, r1] = .ok .done ∧
      dPopVerifyNext qi ql st0' .done = .ok (.finish (.leaf o0)) ∧
      dPopVerifyNext qi ql st1' .done = .ok (.finish (.leaf o1)) ∧
      dPopAdd ql o0 o1 = ap.prefixes.map (fun p => if p <+: input then dOne ql else dZero ql) :=
  @Prio.Poplar1.E2E.poplar1_leaf_e2e (ZMod (qi + 1)) (ZMod (ql + 1)) _ (cBEq qi) _ (cBEq ql) (cBEq_lawful ql) 
    n cfg ofI ofL xof gI gL hI hL ctx input nonce k0 k1 pr0 pr1 pr2 hk0 hk1 pub s0 s1 hshard ap hlev hpl hnd verifyKey rs g hrs

end poplar1

/-! ### the deployed fields: `"FP64"` for the inner levels, `"F255"` for the leaf level -/

section deployedPop
open Prio.Idpf Prio.Poplar1 Prio.Poplar1.E2E

/-- **Poplar1 end to end, inner levels, at the deployed fields** — the instantiation of
    `Prio.Poplar1.E2E.poplar1_inner_e2e` that `handlePop` runs: inner field `Fin (q64 + 1)`, `q64 + 1 = FP64.prime`, leaf field
    `Fin (q255 + 1)`, `q255 + 1 = 2^255 − 19`, every function symbol the driver's.  (The driver's `ofI = Fin.ofNat (q64 + 1)`,
    `ofL = Fin.ofNat (q255 + 1)`, `cfg = ⟨bits, ⟨q64 + 1, 2^64 − 1, 8⟩, ⟨q255 + 1, 2^255 − 1, 32⟩⟩` are instances.) -/
theorem poplar1_inner_e2e_deployed (n : Nat) (cfg : Poplar1.Cfg) (ofI : Nat → Fin (q64 + 1)) (ofL : Nat → Fin (q255 + 1))
    (xof : Poplar1.Xof) (gI : Prg Poplar1.Bytes (Pair (Fin (q64 + 1)))) (gL : Prg Poplar1.Bytes (Pair (Fin (q255 + 1))))
    (hI : SeedPres n gI) (hL : SeedPres n gL)
    (ctx : Poplar1.Bytes) (input : List Bool) (nonce k0 k1 pr0 pr1 pr2 : Poplar1.Bytes)
    (hk0 : k0.length = n) (hk1 : k1.length = n)
    (pub : PubShare (Fin (q64 + 1)) (Fin (q255 + 1))) (s0 s1 : Poplar1.InputShare (Fin (q64 + 1)) (Fin (q255 + 1)))
    (hshard : dPopShard q64 q255 cfg ofI ofL xof gI gL ctx input nonce k0 k1 pr0 pr1 pr2 = .ok (pub, s0, s1))
    (ap : AggParam) (hlev : ap.level + 1 < cfg.bits)
    (hpl : ∀ p ∈ ap.prefixes, p.length = ap.level + 1) (hnd : ap.prefixes.Nodup)
    (verifyKey : Poplar1.Bytes) (rs : List Nat) (g : Rng)
    (hrs : (Rng.init xof verifyKey usageVerify ctx (nonce ++ beBytes ap.level 2) cfg.fi.sz).take cfg.fi
      ap.prefixes.length = some (rs, g)) :
    ∃ (st0 : State (Fin (q64 + 1)) (Fin (q255 + 1))) (sh0 : Poplar1.FieldVec (Fin (q64 + 1)) (Fin (q255 + 1))) (st1 : State (Fin (q64 + 1)) (Fin (q255 + 1)))
      (sh1 : Poplar1.FieldVec (Fin (q64 + 1)) (Fin (q255 + 1))) (s : Fin (q64 + 1) × Fin (q64 + 1) × Fin (q64 + 1)) (st0' : State (Fin (q64 + 1)) (Fin (q255 + 1)))
      (r0 : Poplar1.FieldVec (Fin (q64 + 1)) (Fin (q255 + 1))) (st1' : State (Fin (q64 + 1)) (Fin (q255 + 1))) (r1 : Poplar1.FieldVec (Fin (q64 + 1)) (Fin (q255 + 1)))
      (o0 o1 : List (Fin (q64 + 1))),
      dPopVerifyInit q64 q255 cfg ofI ofL xof gI gL verifyKey ctx 0 ap nonce pub s0 = .ok (st0, sh0) ∧
      dPopVerifyInit q64 q255 cfg ofI ofL xof gI gL verifyKey ctx 1 ap nonce pub s1 = .ok (st1, sh1) ∧
      dPopSharesToMessage q64 q255 [sh0, sh1] = .ok (.sketchInner s) ∧
      dPopVerifyNext q64 q255 st0 (.sketchInner s) = .ok (.continue st0' r0) ∧
      dPopVerifyNext q64 q255 st1 (.sketchInner s) = .ok (.continue st1' r1) ∧
      dPopSharesToMessage q64 q255 [r0, r1] = .ok .done ∧
      dPopVerifyNext q64 q255 st0' .done = .ok (.finish (.inner o0)) ∧
      dPopVerifyNext q64 q255 st1' .done = .ok (.finish (.inner o1)) ∧
      dPopAdd q64 o0 o1 = ap.prefixes.map (fun p => if p <+: input then dOne q64 else dZero q64) :=
  poplar1_inner_e2e_driver q64 q255 n cfg ofI ofL xof gI gL hI hL ctx input nonce k0 k1 pr0 pr1 pr2 hk0 hk1 pub s0 s1 hshard ap hlev hpl hnd verifyKey rs g hrs

/-- **Poplar1 end to end, leaf level, at the deployed fields** — the instantiation of
    `Prio.Poplar1.E2E.poplar1_leaf_e2e` that `handlePop` runs: inner field `Fin (q64 + 1)`, `q64 + 1 = FP64.prime`, leaf field
    `Fin (q255 + 1)`, `q255 + 1 = 2^255 − 19`, every function symbol the driver's.  (The driver's `ofI = Fin.ofNat (q64 + 1)`,
    `ofL = Fin.ofNat (q255 + 1)`, `cfg = ⟨bits, ⟨q64 + 1, 2^64 − 1, 8⟩, ⟨q255 + 1, 2^255 − 1, 32⟩⟩` are instances.) -/
theorem poplar1_leaf_e2e_deployed (n : Nat) (cfg : Poplar1.Cfg) (ofI : Nat → Fin (q64 + 1)) (ofL : Nat → Fin (q255 + 1))
    (xof : Poplar1.Xof) (gI : Prg Poplar1.Bytes (Pair (Fin (q64 + 1)))) (gL : Prg Poplar1.Bytes (Pair (Fin (q255 + 1))))
    (hI : SeedPres n gI) (hL : SeedPres n gL)
    (ctx : Poplar1.Bytes) (input : List Bool) (nonce k0 k1 pr0 pr1 pr2 : Poplar1.Bytes)
    (hk0 : k0.length = n) (hk1 : k1.length = n)
    (pub : PubShare (Fin (q64 + 1)) (Fin (q255 + 1))) (s0 s1 : Poplar1.InputShare (Fin (q64 + 1)) (Fin (q255 + 1)))
    (hshard : dPopShard q64 q255 cfg ofI ofL xof gI gL ctx input nonce k0 k1 pr0 pr1 pr2 = .ok (pub, s0, s1))
    (ap : AggParam) (hlev : ap.level + 1 = cfg.bits)
    (hpl : ∀ p ∈ ap.prefixes, p.length = ap.level + 1) (hnd : ap.prefixes.Nodup)
    (verifyKey : Poplar1.Bytes) (rs : List Nat) (g : Rng)
    (hrs : (Rng.init xof verifyKey usageVerify ctx (nonce ++ beBytes ap.level 2) cfg.fl.sz).take cfg.fl
      ap.prefixes.length = some (rs, g)) :
    ∃ (st0 : State (Fin (q64 + 1)) (Fin (q255 + 1))) (sh0 : Poplar1.FieldVec (Fin (q64 + 1)) (Fin (q255 + 1))) (st1 : State (Fin (q64 + 1)) (Fin (q255 + 1)))
      (sh1 : Poplar1.FieldVec (Fin (q64 + 1)) (Fin (q255 + 1))) (s : Fin (q255 + 1) × Fin (q255 + 1) × Fin (q255 + 1)) (st0' : State (Fin (q64 + 1)) (Fin (q255 + 1)))
      (r0 : Poplar1.FieldVec (Fin (q64 + 1)) (Fin (q255 + 1))) (st1' : State (Fin (q64 + 1)) (Fin (q255 + 1))) (r1 : Poplar1.FieldVec (Fin (q64 + 1)) (Fin (q255 + 1)))
      (o0 o1 : List (Fin (q255 + 1))),
      dPopVerifyInit q64 q255 cfg ofI ofL xof gI gL verifyKey ctx 0 ap nonce pub s0 = .ok (st0, sh0) ∧
      dPopVerifyInit q64 q255 cfg ofI ofL xof gI gL verifyKey ctx 1 ap nonce pub s1 = .ok (st1, sh1) ∧
      dPopSharesToMessage q64 q255 [sh0, sh1] = .ok (.sketchLeaf s) ∧
      dPopVerifyNext q64 q255 st0 (.sketchLeaf s) = .ok (.continue st0' r0) ∧
      dPopVerifyNext q64 q255 st1 (.sketchLeaf s) = .ok (.continue st1' r1) ∧
      dPopSharesToMessage q64 q255 [r0, r1] = .ok .done ∧
      dPopVerifyNext q64 q255 st0' .done = .ok (.finish (.leaf o0)) ∧
      dPopVerifyNext q64 q255 st1' .done = .ok (.finish (.leaf o1)) ∧
      dPopAdd q255 o0 o1 = ap.prefixes.map (fun p => if p <+: input then dOne q255 else dZero q255) :=
  poplar1_leaf_e2e_driver q64 q255 n cfg ofI ofL xof gI gL hI hL ctx input nonce k0 k1 pr0 pr1 pr2 hk0 hk1 pub s0 s1 hshard ap hlev hpl hnd verifyKey rs g hrs

/-- the same statement with the import-free definitions of `PrioModel/DriverInst2.lean` as function symbols -/
theorem poplar1_inner_e2e_deployed_inst (n : Nat) (cfg : Poplar1.Cfg) (ofI : Nat → Fin (q64 + 1)) (ofL : Nat → Fin (q255 + 1))
    (xof : Poplar1.Xof) (gI : Prg Poplar1.Bytes (Pair (Fin (q64 + 1)))) (gL : Prg Poplar1.Bytes (Pair (Fin (q255 + 1))))
    (hI : SeedPres n gI) (hL : SeedPres n gL)
    (ctx : Poplar1.Bytes) (input : List Bool) (nonce k0 k1 pr0 pr1 pr2 : Poplar1.Bytes)
    (hk0 : k0.length = n) (hk1 : k1.length = n)
    (pub : PubShare (Fin (q64 + 1)) (Fin (q255 + 1))) (s0 s1 : Poplar1.InputShare (Fin (q64 + 1)) (Fin (q255 + 1)))
    (hshard : Prio.Driver.popShard q64 q255 cfg ofI ofL xof gI gL ctx input nonce k0 k1 pr0 pr1 pr2 = .ok (pub, s0, s1))
    (ap : AggParam) (hlev : ap.level + 1 < cfg.bits)
    (hpl : ∀ p ∈ ap.prefixes, p.length = ap.level + 1) (hnd : ap.prefixes.Nodup)
    (verifyKey : Poplar1.Bytes) (rs : List Nat) (g : Rng)
    (hrs : (Rng.init xof verifyKey usageVerify ctx (nonce ++ beBytes ap.level 2) cfg.fi.sz).take cfg.fi
      ap.prefixes.length = some (rs, g)) :
    ∃ (st0 : State (Fin (q64 + 1)) (Fin (q255 + 1))) (sh0 : Poplar1.FieldVec (Fin (q64 + 1)) (Fin (q255 + 1))) (st1 : State (Fin (q64 + 1)) (Fin (q255 + 1)))
      (sh1 : Poplar1.FieldVec (Fin (q64 + 1)) (Fin (q255 + 1))) (s : Fin (q64 + 1) × Fin (q64 + 1) × Fin (q64 + 1)) (st0' : State (Fin (q64 + 1)) (Fin (q255 + 1)))
      (r0 : Poplar1.FieldVec (Fin (q64 + 1)) (Fin (q255 + 1))) (st1' : State (Fin (q64 + 1)) (Fin (q255 + 1))) (r1 : Poplar1.FieldVec (Fin (q64 + 1)) (Fin (q255 + 1)))
      (o0 o1 : List (Fin (q64 + 1))),
      Prio.Driver.popVerifyInit q64 q255 cfg ofI ofL xof gI gL verifyKey ctx 0 ap nonce pub s0 = .ok (st0, sh0) ∧
      Prio.Driver.popVerifyInit q64 q255 cfg ofI ofL xof gI gL verifyKey ctx 1 ap nonce pub s1 = .ok (st1, sh1) ∧
      Prio.Driver.popSharesToMessage q64 q255 [sh0, sh1] = .ok (.sketchInner s) ∧
      Prio.Driver.popVerifyNext q64 q255 st0 (.sketchInner s) = .ok (.continue st0' r0) ∧
      Prio.Driver.popVerifyNext q64 q255 st1 (.sketchInner s) = .ok (.continue st1' r1) ∧
      Prio.Driver.popSharesToMessage q64 q255 [r0, r1] = .ok .done ∧
      Prio.Driver.popVerifyNext q64 q255 st0' .done = .ok (.finish (.inner o0)) ∧
      Prio.Driver.popVerifyNext q64 q255 st1' .done = .ok (.finish (.inner o1)) ∧
      Prio.Driver.popAddI q64 o0 o1 = ap.prefixes.map (fun p => if p <+: input then Prio.Driver.one q64 else Prio.Driver.zero q64) :=
  poplar1_inner_e2e_deployed n cfg ofI ofL xof gI gL hI hL ctx input nonce k0 k1 pr0 pr1 pr2 hk0 hk1 pub s0 s1 hshard ap hlev hpl hnd verifyKey rs g hrs


/-- the same statement with the import-free definitions of `PrioModel/DriverInst2.lean` as function symbols -/
theorem poplar1_leaf_e2e_deployed_inst (n : Nat) (cfg : Poplar1.Cfg) (ofI : Nat → Fin (q64 + 1)) (ofL : Nat → Fin (q255 + 1))
    (xof : Poplar1.Xof) (gI : Prg Poplar1.Bytes (Pair (Fin (q64 + 1)))) (gL : Prg Poplar1.Bytes (Pair (Fin (q255 + 1))))
    (hI : SeedPres n gI) (hL : SeedPres n gL)
    (ctx : Poplar1.Bytes) (input : List Bool) (nonce k0 k1 pr0 pr1 pr2 : Poplar1.Bytes)
    (hk0 : k0.length = n) (hk1 : k1.length = n)
    (pub : PubShare (Fin (q64 + 1)) (Fin (q255 + 1))) (s0 s1 : Poplar1.InputShare (Fin (q64 + 1)) (Fin (q255 + 1)))
    (hshard : Prio.Driver.popShard q64 q255 cfg ofI ofL xof gI gL ctx input nonce k0 k1 pr0 pr1 pr2 = .ok (pub, s0, s1))
    (ap : AggParam) (hlev : ap.level + 1 = cfg.bits)
    (hpl : ∀ p ∈ ap.prefixes, p.length = ap.level + 1) (hnd : ap.prefixes.Nodup)
    (verifyKey : Poplar1.Bytes) (rs : List Nat) (g : Rng)
    (hrs : (Rng.init xof verifyKey usageVerify ctx (nonce ++ beBytes ap.level 2) cfg.fl.sz).take cfg.fl
      ap.prefixes.length = some (rs, g)) :
    ∃ (st0 : State (Fin (q64 + 1)) (Fin (q255 + 1))) (sh0 : Poplar1.FieldVec (Fin (q64 + 1)) (Fin (q255 + 1))) (st1 : State (Fin (q64 + 1)) (Fin (q255 + 1)))
      (sh1 : Poplar1.FieldVec (Fin (q64 + 1)) (Fin (q255 + 1))) (s : Fin (q255 + 1) × Fin (q255 + 1) × Fin (q255 + 1)) (st0' : State (Fin (q64 + 1)) (Fin (q255 + 1)))
      (r0 : Poplar1.FieldVec (Fin (q64 + 1)) (Fin (q255 + 1))) (st1' : State (Fin (q64 + 1)) (Fin (q255 + 1))) (r1 : Poplar1.FieldVec (Fin (q64 + 1)) (Fin (q255 + 1)))
      (o0 o1 : List (Fin (q255 + 1))),
      Prio.Driver.popVerifyInit q64 q255 cfg ofI ofL xof gI gL verifyKey ctx 0 ap nonce pub s0 = .ok (st0, sh0) ∧
      Prio.Driver.popVerifyInit q64 q255 cfg ofI ofL xof gI gL verifyKey ctx 1 ap nonce pub s1 = .ok (st1, sh1) ∧
      Prio.Driver.popSharesToMessage q64 q255 [sh0, sh1] = .ok (.sketchLeaf s) ∧
      Prio.Driver.popVerifyNext q64 q255 st0 (.sketchLeaf s) = .ok (.continue st0' r0) ∧
      Prio.Driver.popVerifyNext q64 q255 st1 (.sketchLeaf s) = .ok (.continue st1' r1) ∧
      Prio.Driver.popSharesToMessage q64 q255 [r0, r1] = .ok .done ∧
      Prio.Driver.popVerifyNext q64 q255 st0' .done = .ok (.finish (.leaf o0)) ∧
      Prio.Driver.popVerifyNext q64 q255 st1' .done = .ok (.finish (.leaf o1)) ∧
      Prio.Driver.popAddL q255 o0 o1 = ap.prefixes.map (fun p => if p <+: input then Prio.Driver.one q255 else Prio.Driver.zero q255) :=
  poplar1_leaf_e2e_deployed n cfg ofI ofL xof gI gL hI hL ctx input nonce k0 k1 pr0 pr1 pr2 hk0 hk1 pub s0 s1 hshard ap hlev hpl hnd verifyKey rs g hrs

end deployedPop

-- all depend only on [propext, Classical.choice, Quot.sound] (checked):
-- #print axioms dP3Shard_eq
-- #print axioms dP3VerifyInit_eq
-- #print axioms prio3_e2e_driver
-- #print axioms prio3_e2e_FP64
-- #print axioms prio3_e2e_FP128
-- #print axioms prio3_e2e_FP32
-- #print axioms prio3_e2e_FP64_inst
-- #print axioms prio3_e2e_FP128_inst
-- #print axioms prio3_e2e_FP32_inst
-- #print axioms dP2ConstructProof_eq
-- #print axioms dP2Vmsg_eq
-- #print axioms prio2_complete_driver
-- #print axioms prio2_complete_FP32
-- #print axioms prio2_complete_total_FP32
-- #print axioms prio2_complete_FP32_inst
-- #print axioms p255_prime
-- #print axioms fact_p255
-- #print axioms fieldSpec_F255
-- #print axioms poplar1_inner_e2e_driver
-- #print axioms poplar1_leaf_e2e_driver
-- #print axioms poplar1_inner_e2e_deployed
-- #print axioms poplar1_leaf_e2e_deployed
-- #print axioms poplar1_inner_e2e_deployed_inst
-- #print axioms poplar1_leaf_e2e_deployed_inst

end Prio.Bridge2
