import PrioModel.Idpf
import Mathlib.Tactic.Abel
import Mathlib.Algebra.Group.Basic
import Mathlib.Data.List.Basic

/-! Correctness of the IDPF for any PRG and any commutative group of payloads. -/
namespace Prio.Idpf

class LawfulXor (S : Type) [XorLike S] : Prop where
  xor_cancel_left : ∀ a b : S, XorLike.xor a (XorLike.xor a b) = b
  xor_comm : ∀ a b : S, XorLike.xor a b = XorLike.xor b a

variable {S V : Type} [XorLike S] [LawfulXor S] [AddCommGroup V]

theorem xor_cancel_right (a b : S) : XorLike.xor b (XorLike.xor a b) = a := by
  rw [LawfulXor.xor_comm a b, LawfulXor.xor_cancel_left]

/-- on the programmed path: control bits stay different, the evaluators' nodes are the generator's
    nodes, and the two output shares add up to the programmed value -/
theorem level_on_path (g : Prg S V) (bit : Bool) (value : V) (n0 n1 : Node S) (ht : xor n0.2 n1.2 = true) :
    let r := genLevel g bit value n0 n1
    let o0 := evalLevel g true r.1 bit n0
    let o1 := evalLevel g false r.1 bit n1
    o0.2 = r.2.1 ∧ o1.2 = r.2.2 ∧ xor r.2.1.2 r.2.2.2 = true ∧ o0.1 + o1.1 = value := by
  obtain ⟨k0, t0⟩ := n0
  obtain ⟨k1, t1⟩ := n1
  cases bit <;> cases t0 <;> cases t1 <;> simp at ht <;>
    simp [genLevel, evalLevel, sel, cxor, cneg] <;>
    (try cases (g.extend k0).1.2) <;> (try cases (g.extend k1).1.2) <;>
    (try cases (g.extend k0).2.2) <;> (try cases (g.extend k1).2.2) <;> simp <;> abel

/-- leaving the programmed path: both evaluators reach the same node and the shares cancel -/
theorem level_off_path (g : Prg S V) (bit : Bool) (value : V) (n0 n1 : Node S) (ht : xor n0.2 n1.2 = true) :
    let r := genLevel g bit value n0 n1
    let o0 := evalLevel g true r.1 (!bit) n0
    let o1 := evalLevel g false r.1 (!bit) n1
    o0.2 = o1.2 ∧ o0.1 + o1.1 = 0 := by
  obtain ⟨k0, t0⟩ := n0
  obtain ⟨k1, t1⟩ := n1
  cases bit <;> cases t0 <;> cases t1 <;> simp at ht <;>
    simp [genLevel, evalLevel, sel, cxor, cneg, LawfulXor.xor_cancel_left, xor_cancel_right] <;>
    (try cases (g.extend k0).1.2) <;> (try cases (g.extend k1).1.2) <;>
    (try cases (g.extend k0).2.2) <;> (try cases (g.extend k1).2.2) <;> simp <;> (try abel)

/-- from a common node the two evaluators stay together and their shares cancel, for any correction word -/
theorem level_same_node (g : Prg S V) (cw : CW S V) (bit : Bool) (n : Node S) :
    (evalLevel g true cw bit n).2 = (evalLevel g false cw bit n).2 ∧
    (evalLevel g true cw bit n).1 + (evalLevel g false cw bit n).1 = 0 := by
  simp [evalLevel, cneg]

theorem evalPath_cons (g : Prg S V) (isL : Bool) (cw : CW S V) (cws : List (CW S V)) (b : Bool) (bs : List Bool)
    (n : Node S) :
    evalPath g isL (cw :: cws) (b :: bs) n =
      ((evalLevel g isL cw b n).1 :: (evalPath g isL cws bs (evalLevel g isL cw b n).2).1,
       (evalPath g isL cws bs (evalLevel g isL cw b n).2).2) := rfl

theorem genLevels_cons (g : Prg S V) (a : Bool) (as : List Bool) (v : V) (vs : List V) (n0 n1 : Node S) :
    genLevels g (a :: as) (v :: vs) n0 n1 =
      ((genLevel g a v n0 n1).1 :: (genLevels g as vs (genLevel g a v n0 n1).2.1 (genLevel g a v n0 n1).2.2).1,
       (genLevels g as vs (genLevel g a v n0 n1).2.1 (genLevel g a v n0 n1).2.2).2) := rfl

theorem evalPath_length (g : Prg S V) : ∀ (cws : List (CW S V)) (bs : List Bool) (isL : Bool) (n : Node S),
    (evalPath g isL cws bs n).1.length = min cws.length bs.length := by
  intro cws
  induction cws with
  | nil => intro bs isL n; simp [evalPath]
  | cons c cs ih =>
    intro bs isL n
    cases bs with
    | nil => simp [evalPath]
    | cons b bs => rw [evalPath_cons]; simp [ih]

theorem genLevels_length (g : Prg S V) : ∀ (al : List Bool) (vl : List V) (m0 m1 : Node S),
    al.length = vl.length → (genLevels g al vl m0 m1).1.length = al.length := by
  intro al
  induction al with
  | nil => intro vl m0 m1 _; simp [genLevels]
  | cons x xs ih =>
    intro vl m0 m1 h
    cases vl with
    | nil => simp at h
    | cons y ys => rw [genLevels_cons]; simp [ih ys _ _ (by simpa using h)]

/-- below a common node every level's shares cancel and the nodes stay equal -/
theorem path_same_node (g : Prg S V) : ∀ (cws : List (CW S V)) (bs : List Bool) (n : Node S),
    (evalPath g true cws bs n).2 = (evalPath g false cws bs n).2 ∧
    ∀ i, (evalPath g true cws bs n).1.getD i 0 + (evalPath g false cws bs n).1.getD i 0 = 0 := by
  intro cws
  induction cws with
  | nil => intro bs n; simp [evalPath]
  | cons cw cws ih =>
    intro bs n
    cases bs with
    | nil => simp [evalPath]
    | cons b bs =>
      obtain ⟨hn, hv⟩ := level_same_node g cw b n
      rw [evalPath_cons, evalPath_cons, hn]
      obtain ⟨h1, h3⟩ := ih bs (evalLevel g false cw b n).2
      refine ⟨h1, ?_⟩
      intro i
      cases i with
      | zero => simpa using hv
      | succ i => simpa using h3 i

/-- the value the point function takes at depth `i` on prefix `bs` of a tree programmed along `alpha` -/
def pointValue (alpha bs : List Bool) (vs : List V) (i : Nat) : V :=
  if bs.take (i + 1) = alpha.take (i + 1) then vs.getD i 0 else 0

/-- **all inner levels at once**: along any query path, at every depth the two shares add up to the
    programmed value if the path still agrees with `alpha` and to zero otherwise; if the whole query
    agrees with `alpha` the evaluators end in the generator's nodes (with different control bits),
    otherwise in a common node -/
theorem path_correct (g : Prg S V) : ∀ (alpha : List Bool) (vs : List V) (bs : List Bool) (n0 n1 : Node S),
    alpha.length = vs.length → bs.length ≤ alpha.length → xor n0.2 n1.2 = true →
    (∀ i, i < bs.length →
      (evalPath g true (genLevels g alpha vs n0 n1).1 bs n0).1.getD i 0 +
      (evalPath g false (genLevels g alpha vs n0 n1).1 bs n1).1.getD i 0 = pointValue alpha bs vs i) ∧
    (bs = alpha.take bs.length →
      (evalPath g true (genLevels g alpha vs n0 n1).1 bs n0).2
        = (genLevels g (alpha.take bs.length) (vs.take bs.length) n0 n1).2.1 ∧
      (evalPath g false (genLevels g alpha vs n0 n1).1 bs n1).2
        = (genLevels g (alpha.take bs.length) (vs.take bs.length) n0 n1).2.2 ∧
      xor (evalPath g true (genLevels g alpha vs n0 n1).1 bs n0).2.2
          (evalPath g false (genLevels g alpha vs n0 n1).1 bs n1).2.2 = true) ∧
    (bs ≠ alpha.take bs.length →
      (evalPath g true (genLevels g alpha vs n0 n1).1 bs n0).2
        = (evalPath g false (genLevels g alpha vs n0 n1).1 bs n1).2) := by
  intro alpha
  induction alpha with
  | nil =>
    intro vs bs n0 n1 hl hb ht
    have : bs = [] := List.eq_nil_of_length_eq_zero (by simpa using hb)
    subst this
    simp [genLevels, evalPath, ht]
  | cons a alpha ih =>
    intro vs bs n0 n1 hl hb ht
    cases vs with
    | nil => simp at hl
    | cons v vs =>
      cases bs with
      | nil => simp [genLevels, evalPath, ht]
      | cons b bs =>
        rw [genLevels_cons, evalPath_cons, evalPath_cons]
        have hl' : alpha.length = vs.length := by simpa using hl
        have hb' : bs.length ≤ alpha.length := by simpa using hb
        by_cases hba : b = a
        · subst hba
          obtain ⟨h0, h1, hx, hv⟩ := level_on_path g b v n0 n1 ht
          rw [h0, h1]
          obtain ⟨hsum, hon, hoff⟩ := ih vs bs _ _ hl' hb' hx
          refine ⟨?_, ?_, ?_⟩
          · intro i hi
            cases i with
            | zero => simp [pointValue, hv]
            | succ i =>
              have := hsum i (by simpa using hi)
              simp only [List.getD_cons_succ]
              rw [this]; simp [pointValue]
          · intro heq
            have heq' : bs = alpha.take bs.length := by simpa using heq
            obtain ⟨e0, e1, ex⟩ := hon heq'
            simp only [List.length_cons, List.take_succ_cons]
            rw [genLevels_cons]
            exact ⟨e0, e1, ex⟩
          · intro hne
            apply hoff
            intro h; apply hne
            rw [List.length_cons, List.take_succ_cons, ← h]
        · have hb2 : b = !a := by
            cases a <;> cases b <;> first | rfl | exact absurd rfl hba
          subst hb2
          obtain ⟨hn, hv⟩ := level_off_path g a v n0 n1 ht
          rw [hn]
          obtain ⟨s1, s3⟩ := path_same_node g (genLevels g alpha vs (genLevel g a v n0 n1).2.1 (genLevel g a v n0 n1).2.2).1 bs
            (evalLevel g false (genLevel g a v n0 n1).1 (!a) n1).2
          refine ⟨?_, ?_, ?_⟩
          · intro i hi
            cases i with
            | zero =>
              have : ¬ ([!a] = [a]) := by cases a <;> simp
              simp [pointValue, hv, this]
            | succ i =>
              simp only [List.getD_cons_succ]
              rw [s3 i]
              have : ¬ ((!a) :: bs.take (i + 1) = a :: alpha.take (i + 1)) := by cases a <;> simp
              simp [pointValue, this]
          · intro heq
            exfalso
            rw [List.length_cons, List.take_succ_cons] at heq
            have : (!a) = a := (List.cons.inj heq).1
            cases a <;> simp at this
          · intro _; exact s1

end Prio.Idpf
