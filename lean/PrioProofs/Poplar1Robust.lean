import PrioProofs.Poplar1E2E
import PrioProofs.Props.C04Counting

/-! # Poplar1 robustness on the executable model

For an ARBITRARY public share and ARBITRARY input shares: if both aggregators get through `verifyInit`,
the round-one combination, `verifyNext` and the round-two combination says `done`, then the sketch
polynomial `Props.C04.P` of the summed evaluated IDPF shares vanishes at the verification randomness both
aggregators derive. -/
namespace Prio.Poplar1.Robust
open Prio.Idpf Props.C04 Finset

section generic
variable {F : Type} [Field F]

theorem dot_eq_sum (f : Pair F → F → F) : ∀ (n : Nat) (ys : List (Pair F)) (rs : List F),
    ys.length = n → rs.length = n →
    dot f ys rs = ∑ i : Fin n, f (ys.getD i 0) (rs.getD i 0) := by
  intro n
  induction n with
  | zero =>
    intro ys rs hy hr
    cases ys with
    | nil => simp [dot]
    | cons _ _ => simp at hy
  | succ n ih =>
    intro ys rs hy hr
    cases ys with
    | nil => simp at hy
    | cons y ys =>
      cases rs with
      | nil => simp at hr
      | cons r rs =>
        rw [Fin.sum_univ_succ]
        simp only [dot, Fin.val_zero, List.getD_cons_zero, Fin.val_succ, List.getD_cons_succ]
        rw [ih ys rs (by simpa using hy) (by simpa using hr)]

/-- summed data components of the two aggregators' evaluated IDPF shares, over `Fin n` -/
def ySum (n : Nat) (ys0 ys1 : List (Pair F)) : Fin n → F := fun i => (ys0.getD i 0).a + (ys1.getD i 0).a
/-- summed authenticator components -/
def wSum (n : Nat) (ys0 ys1 : List (Pair F)) : Fin n → F := fun i => (ys0.getD i 0).b + (ys1.getD i 0).b
/-- the verification randomness as a vector over `Fin n` -/
def rVec (n : Nat) (rs : List F) : Fin n → F := fun i => rs.getD i 0

/-- the linear coefficient `K = A + 2a` of the sketch polynomial (`a = a₀ + a₁`, `A = A₀ + A₁`) -/
def Kof (a0 a1 A0 A1 : F) : F := (A0 + A1) + 2 * (a0 + a1)
/-- the constant coefficient `c₀ = A·a + B + a² − b − c` of the sketch polynomial -/
def c0of (a0 b0 c0 a1 b1 c1 A0 B0 A1 B1 : F) : F :=
  (A0 + A1) * (a0 + a1) + (B0 + B1) + (a0 + a1) * (a0 + a1) - (b0 + b1) - (c0 + c1)

/-- the sum of the two round-two shares IS the sketch polynomial at the verification randomness -/
theorem round2_sum_eq_P [BEq F] (n : Nat) (ys0 ys1 : List (Pair F)) (rs : List F)
    (h0 : ys0.length = n) (h1 : ys1.length = n) (hr : rs.length = n)
    (a0 b0 c0 a1 b1 c1 A0 B0 A1 B1 : F) :
    finishSketch ((sketchLoop (a0, b0, c0) ys0 rs).1 + (sketchLoop (a1, b1, c1) ys1 rs).1,
        (sketchLoop (a0, b0, c0) ys0 rs).2.1 + (sketchLoop (a1, b1, c1) ys1 rs).2.1,
        (sketchLoop (a0, b0, c0) ys0 rs).2.2 + (sketchLoop (a1, b1, c1) ys1 rs).2.2) A0 B0 true +
      finishSketch ((sketchLoop (a0, b0, c0) ys0 rs).1 + (sketchLoop (a1, b1, c1) ys1 rs).1,
        (sketchLoop (a0, b0, c0) ys0 rs).2.1 + (sketchLoop (a1, b1, c1) ys1 rs).2.1,
        (sketchLoop (a0, b0, c0) ys0 rs).2.2 + (sketchLoop (a1, b1, c1) ys1 rs).2.2) A1 B1 false =
      P (ySum n ys0 ys1) (wSum n ys0 ys1) (Kof a0 a1 A0 A1) (c0of a0 b0 c0 a1 b1 c1 A0 B0 A1 B1) (rVec n rs) := by
  rw [finish_sum, sketchLoop_eq, sketchLoop_eq]
  simp only
  rw [dot_eq_sum f0 n ys0 rs h0 hr, dot_eq_sum f0 n ys1 rs h1 hr, dot_eq_sum f1 n ys0 rs h0 hr,
    dot_eq_sum f1 n ys1 rs h1 hr, dot_eq_sum f2 n ys0 rs h0 hr, dot_eq_sum f2 n ys1 rs h1 hr]
  unfold P ySum wSum rVec Kof c0of
  simp only [f0, f1, f2]
  have e1 : ∑ i : Fin n, rs.getD i 0 * ((ys0.getD i 0).a + (ys1.getD i 0).a) =
      ∑ i : Fin n, (ys0.getD i 0).a * rs.getD i 0 + ∑ i : Fin n, (ys1.getD i 0).a * rs.getD i 0 := by
    rw [← Finset.sum_add_distrib]; apply Finset.sum_congr rfl; intro i _; ring
  have e2 : ∑ i : Fin n, rs.getD i 0 ^ 2 * ((ys0.getD i 0).a + (ys1.getD i 0).a) =
      ∑ i : Fin n, (ys0.getD i 0).a * rs.getD i 0 * rs.getD i 0 +
        ∑ i : Fin n, (ys1.getD i 0).a * rs.getD i 0 * rs.getD i 0 := by
    rw [← Finset.sum_add_distrib]; apply Finset.sum_congr rfl; intro i _; ring
  have e3 : ∑ i : Fin n, rs.getD i 0 * ((ys0.getD i 0).b + (ys1.getD i 0).b) =
      ∑ i : Fin n, (ys0.getD i 0).b * rs.getD i 0 + ∑ i : Fin n, (ys1.getD i 0).b * rs.getD i 0 := by
    rw [← Finset.sum_add_distrib]; apply Finset.sum_congr rfl; intro i _; ring
  rw [e1, e2, e3]
  ring

/-- the data components of the two output shares add up to `ySum` -/
theorem outputs_add (n : Nat) (ys0 ys1 : List (Pair F)) (h0 : ys0.length = n) (h1 : ys1.length = n) :
    List.zipWith (· + ·) (ys0.map (·.a)) (ys1.map (·.a)) = List.ofFn (ySum n ys0 ys1) := by
  apply List.ext_getElem
  · simp [h0, h1]
  · intro i hi1 hi2
    have hi : i < n := by simpa using hi2
    simp only [List.getElem_zipWith, List.getElem_map, List.getElem_ofFn, ySum]
    rw [List.getD_eq_getElem _ _ (by omega), List.getD_eq_getElem _ _ (by omega)]

end generic

/-! ## inversion of the executable functions -/
section inv
variable {FI FL : Type} [Field FI] [Field FL]

theorem evalPrefixes_length (gI : Prg Bytes (Pair FI)) (gL : Prg Bytes (Pair FL)) (aggId : Nat)
    (pub : PubShare FI FL) (key : Bytes) (cap : Nat) :
    ∀ (ps : List (List Bool)) (c : List (List Bool × Node Bytes)) (outs : List (Output (Pair FI) (Pair FL))),
      evalPrefixes gI gL aggId pub key cap ps c = .ok outs → outs.length = ps.length := by
  intro ps
  induction ps with
  | nil => intro c outs h; simp only [evalPrefixes, Res.ok.injEq] at h; subst h; rfl
  | cons p rest ih =>
    intro c outs h
    unfold evalPrefixes at h
    split at h
    · rename_i o c' _
      split at h
      · rename_i os hos
        simp only [Res.ok.injEq] at h
        subst h
        simp [ih c' os hos]
      · cases h
      · cases h
    · cases h
    · cases h

omit [Field FI] [Field FL] in
theorem innerOnly_length : ∀ (outs : List (Output (Pair FI) (Pair FL))) (vals : List (Pair FI)),
    innerOnly outs = some vals → vals.length = outs.length := by
  intro outs
  induction outs with
  | nil => intro vals h; simp only [innerOnly, Option.some.injEq] at h; subst h; rfl
  | cons o rest ih =>
    intro vals h
    cases o with
    | inner v =>
      simp only [innerOnly, Option.map_eq_some_iff] at h
      obtain ⟨vs, hvs, rfl⟩ := h
      simp [ih vs hvs]
    | leaf v => simp [innerOnly] at h

omit [Field FI] [Field FL] in
theorem leafOnly_length : ∀ (outs : List (Output (Pair FI) (Pair FL))) (vals : List (Pair FL)),
    leafOnly outs = some vals → vals.length = outs.length := by
  intro outs
  induction outs with
  | nil => intro vals h; simp only [leafOnly, Option.some.injEq] at h; subst h; rfl
  | cons o rest ih =>
    intro vals h
    cases o with
    | leaf v =>
      simp only [leafOnly, Option.map_eq_some_iff] at h
      obtain ⟨vs, hvs, rfl⟩ := h
      simp [ih vs hvs]
    | inner v => simp [leafOnly] at h

/-- everything a successful inner-level `verifyInit` did -/
theorem verifyInit_inner_inv (cfg : Cfg) (ofI : Nat → FI) (ofL : Nat → FL) (xof : Xof)
    (gI : Prg Bytes (Pair FI)) (gL : Prg Bytes (Pair FL)) (verifyKey ctx : Bytes) (j : Nat)
    (ap : AggParam) (nonce : Bytes) (pub : PubShare FI FL) (share : InputShare FI FL)
    (hlev : ap.level + 1 < cfg.bits) (st : State FI FL) (sh : FieldVec FI FL)
    (h : verifyInit cfg ofI ofL xof gI gL verifyKey ctx j ap nonce pub share = .ok (st, sh)) :
    ∃ (pre : List Nat) (g g' : Rng) (a b c : Nat) (outs : List (Output (Pair FI) (Pair FL)))
      (vals : List (Pair FI)) (rs : List Nat) (gv : Rng) (aS bS : FI),
      (Rng.init xof share.corrSeed usageCorrInner ctx ([j] ++ nonce) cfg.fi.sz).take cfg.fi (3 * ap.level)
        = some (pre, g) ∧
      g.take cfg.fi 3 = some ([a, b, c], g') ∧
      evalPrefixes gI gL j pub share.idpfKey ap.prefixes.length ap.prefixes [] = .ok outs ∧
      innerOnly outs = some vals ∧
      (Rng.init xof verifyKey usageVerify ctx (nonce ++ beBytes ap.level 2) cfg.fi.sz).take cfg.fi vals.length
        = some (rs, gv) ∧
      share.corrInner[ap.level]? = some (aS, bS) ∧
      st = .inner (.roundOne aS bS (j == 0)) (vals.map (·.a)) ∧
      sh = .inner [(sketchLoop (ofI a, ofI b, ofI c) vals (rs.map ofI)).1,
                   (sketchLoop (ofI a, ofI b, ofI c) vals (rs.map ofI)).2.1,
                   (sketchLoop (ofI a, ofI b, ofI c) vals (rs.map ofI)).2.2] := by
  unfold verifyInit at h
  split at h
  · cases h
  split at h
  · cases h
  dsimp only at h
  split at h
  · cases h
  rename_i pre g hpre
  split at h
  · rename_i a b c g' hg
    split at h
    · cases h
    · cases h
    rename_i outs houts
    split at h
    · cases h
    rename_i vals hvals
    split at h
    · cases h
    rename_i rs gv hrs
    split at h
    · cases h
    rename_i aS bS hc
    simp only [Res.ok.injEq, Prod.mk.injEq] at h
    exact ⟨pre, g, g', a, b, c, outs, vals, rs, gv, aS, bS, hpre, hg, houts, hvals, hrs, hc, h.1.symm, h.2.symm⟩
  · cases h

/-- everything a successful leaf-level `verifyInit` did -/
theorem verifyInit_leaf_inv (cfg : Cfg) (ofI : Nat → FI) (ofL : Nat → FL) (xof : Xof)
    (gI : Prg Bytes (Pair FI)) (gL : Prg Bytes (Pair FL)) (verifyKey ctx : Bytes) (j : Nat)
    (ap : AggParam) (nonce : Bytes) (pub : PubShare FI FL) (share : InputShare FI FL)
    (hlev : ¬ ap.level + 1 < cfg.bits) (st : State FI FL) (sh : FieldVec FI FL)
    (h : verifyInit cfg ofI ofL xof gI gL verifyKey ctx j ap nonce pub share = .ok (st, sh)) :
    ∃ (g' : Rng) (a b c : Nat) (outs : List (Output (Pair FI) (Pair FL)))
      (vals : List (Pair FL)) (rs : List Nat) (gv : Rng),
      (Rng.init xof share.corrSeed usageCorrLeaf ctx ([j] ++ nonce) cfg.fl.sz).take cfg.fl 3
        = some ([a, b, c], g') ∧
      evalPrefixes gI gL j pub share.idpfKey ap.prefixes.length ap.prefixes [] = .ok outs ∧
      leafOnly outs = some vals ∧
      (Rng.init xof verifyKey usageVerify ctx (nonce ++ beBytes ap.level 2) cfg.fl.sz).take cfg.fl vals.length
        = some (rs, gv) ∧
      st = .leaf (.roundOne share.corrLeaf.1 share.corrLeaf.2 (j == 0)) (vals.map (·.a)) ∧
      sh = .leaf [(sketchLoop (ofL a, ofL b, ofL c) vals (rs.map ofL)).1,
                  (sketchLoop (ofL a, ofL b, ofL c) vals (rs.map ofL)).2.1,
                  (sketchLoop (ofL a, ofL b, ofL c) vals (rs.map ofL)).2.2] := by
  unfold verifyInit at h
  split at h
  · cases h
  split at h
  · cases h
  dsimp only at h
  split at h
  · rename_i a b c g' hg
    split at h
    · cases h
    · cases h
    rename_i outs houts
    split at h
    · cases h
    rename_i vals hvals
    split at h
    · cases h
    rename_i rs gv hrs
    simp only [Res.ok.injEq, Prod.mk.injEq] at h
    exact ⟨g', a, b, c, outs, vals, rs, gv, hg, houts, hvals, hrs, h.1.symm, h.2.symm⟩
  · cases h

end inv

/-! ## the quantities read off the (arbitrary) report -/
section extract
variable {FI FL : Type} [Field FI] [Field FL]

/-- aggregator `j`'s evaluated IDPF shares at the candidate prefixes (the `vals` of `verifyInit` at an
    inner level); `[]` when the evaluation fails -/
def innerVals (gI : Prg Bytes (Pair FI)) (gL : Prg Bytes (Pair FL)) (j : Nat) (ap : AggParam)
    (pub : PubShare FI FL) (share : InputShare FI FL) : List (Pair FI) :=
  match evalPrefixes gI gL j pub share.idpfKey ap.prefixes.length ap.prefixes [] with
  | .ok outs => (innerOnly outs).getD []
  | _ => []

/-- the offsets `(a_j, b_j, c_j)` aggregator `j` reads from its own correlated-randomness stream at
    level `ap.level` (zero when the stream gives up) -/
def innerOffsets (cfg : Cfg) (ofI : Nat → FI) (xof : Xof) (ctx : Bytes) (j : Nat) (ap : AggParam) (nonce : Bytes)
    (share : InputShare FI FL) : FI × FI × FI :=
  match (Rng.init xof share.corrSeed usageCorrInner ctx ([j] ++ nonce) cfg.fi.sz).take cfg.fi (3 * ap.level) with
  | some (_, g) =>
    match g.take cfg.fi 3 with
    | some ([a, b, c], _) => (ofI a, ofI b, ofI c)
    | _ => (0, 0, 0)
  | none => (0, 0, 0)

/-- the mask shares `(A_j, B_j) = corrInner[level]` stored in the input share -/
def innerMasks (ap : AggParam) (share : InputShare FI FL) : FI × FI :=
  (share.corrInner[ap.level]?).getD (0, 0)

/-- the verification randomness both aggregators derive for `n` candidates at an inner level -/
def innerRand (cfg : Cfg) (ofI : Nat → FI) (xof : Xof) (verifyKey ctx : Bytes) (ap : AggParam) (nonce : Bytes)
    (n : Nat) : List FI :=
  match (Rng.init xof verifyKey usageVerify ctx (nonce ++ beBytes ap.level 2) cfg.fi.sz).take cfg.fi n with
  | some (rs, _) => rs.map ofI
  | none => []

omit [Field FI] [Field FL] in
theorem innerOnly_eq_some_iff (outs : List (Output (Pair FI) (Pair FL))) (vals : List (Pair FI)) :
    innerOnly outs = some vals ↔ outs = vals.map .inner := by
  constructor
  · induction outs generalizing vals with
    | nil => intro h; simp only [innerOnly, Option.some.injEq] at h; subst h; rfl
    | cons o rest ih =>
      intro h
      cases o with
      | inner v =>
        simp only [innerOnly, Option.map_eq_some_iff] at h
        obtain ⟨vs, hvs, rfl⟩ := h
        rw [List.map_cons, ← ih vs hvs]
      | leaf v => simp [innerOnly] at h
  · rintro rfl; exact E2E.innerOnly_map vals

/-- `innerVals` are the values `vals` with `evalPrefixes … = .ok (vals.map .inner)` -/
theorem innerVals_spec (gI : Prg Bytes (Pair FI)) (gL : Prg Bytes (Pair FL)) (j : Nat) (ap : AggParam)
    (pub : PubShare FI FL) (share : InputShare FI FL) (vals : List (Pair FI))
    (h : evalPrefixes gI gL j pub share.idpfKey ap.prefixes.length ap.prefixes [] = .ok (vals.map .inner)) :
    innerVals gI gL j ap pub share = vals := by
  unfold innerVals
  rw [h]
  simp only [E2E.innerOnly_map, Option.getD_some]

/-- leaf level: aggregator `j`'s evaluated IDPF shares at the candidates -/
def leafVals (gI : Prg Bytes (Pair FI)) (gL : Prg Bytes (Pair FL)) (j : Nat) (ap : AggParam)
    (pub : PubShare FI FL) (share : InputShare FI FL) : List (Pair FL) :=
  match evalPrefixes gI gL j pub share.idpfKey ap.prefixes.length ap.prefixes [] with
  | .ok outs => (leafOnly outs).getD []
  | _ => []

/-- leaf level: the offsets `(a_j, b_j, c_j)` aggregator `j` reads from its leaf correlated-randomness stream -/
def leafOffsets (cfg : Cfg) (ofL : Nat → FL) (xof : Xof) (ctx : Bytes) (j : Nat) (nonce : Bytes)
    (share : InputShare FI FL) : FL × FL × FL :=
  match (Rng.init xof share.corrSeed usageCorrLeaf ctx ([j] ++ nonce) cfg.fl.sz).take cfg.fl 3 with
  | some ([a, b, c], _) => (ofL a, ofL b, ofL c)
  | _ => (0, 0, 0)

/-- leaf level: the verification randomness both aggregators derive for `n` candidates -/
def leafRand (cfg : Cfg) (ofL : Nat → FL) (xof : Xof) (verifyKey ctx : Bytes) (ap : AggParam) (nonce : Bytes)
    (n : Nat) : List FL :=
  match (Rng.init xof verifyKey usageVerify ctx (nonce ++ beBytes ap.level 2) cfg.fl.sz).take cfg.fl n with
  | some (rs, _) => rs.map ofL
  | none => []

omit [Field FI] [Field FL] in
theorem leafOnly_eq_some_iff (outs : List (Output (Pair FI) (Pair FL))) (vals : List (Pair FL)) :
    leafOnly outs = some vals ↔ outs = vals.map .leaf := by
  constructor
  · induction outs generalizing vals with
    | nil => intro h; simp only [leafOnly, Option.some.injEq] at h; subst h; rfl
    | cons o rest ih =>
      intro h
      cases o with
      | leaf v =>
        simp only [leafOnly, Option.map_eq_some_iff] at h
        obtain ⟨vs, hvs, rfl⟩ := h
        rw [List.map_cons, ← ih vs hvs]
      | inner v => simp [leafOnly] at h
  · rintro rfl; exact E2E.leafOnly_map vals

/-- `leafVals` are the values `vals` with `evalPrefixes … = .ok (vals.map .leaf)` -/
theorem leafVals_spec (gI : Prg Bytes (Pair FI)) (gL : Prg Bytes (Pair FL)) (j : Nat) (ap : AggParam)
    (pub : PubShare FI FL) (share : InputShare FI FL) (vals : List (Pair FL))
    (h : evalPrefixes gI gL j pub share.idpfKey ap.prefixes.length ap.prefixes [] = .ok (vals.map .leaf)) :
    leafVals gI gL j ap pub share = vals := by
  unfold leafVals
  rw [h]
  simp only [E2E.leafOnly_map, Option.getD_some]

/-! ### the arguments of the sketch polynomial, bundled (none of `y w K c0` depends on the verification key) -/

/-- inner level: `y_i = ys_0[i].a + ys_1[i].a` over `Fin ap.prefixes.length` -/
def innerY (gI : Prg Bytes (Pair FI)) (gL : Prg Bytes (Pair FL)) (ap : AggParam) (pub : PubShare FI FL)
    (s0 s1 : InputShare FI FL) : Fin ap.prefixes.length → FI :=
  ySum ap.prefixes.length (innerVals gI gL 0 ap pub s0) (innerVals gI gL 1 ap pub s1)
/-- inner level: `w_i = ys_0[i].b + ys_1[i].b` -/
def innerW (gI : Prg Bytes (Pair FI)) (gL : Prg Bytes (Pair FL)) (ap : AggParam) (pub : PubShare FI FL)
    (s0 s1 : InputShare FI FL) : Fin ap.prefixes.length → FI :=
  wSum ap.prefixes.length (innerVals gI gL 0 ap pub s0) (innerVals gI gL 1 ap pub s1)
/-- inner level: `K = (A_0 + A_1) + 2 (a_0 + a_1)` -/
def innerK (cfg : Cfg) (ofI : Nat → FI) (xof : Xof) (ctx : Bytes) (ap : AggParam) (nonce : Bytes)
    (s0 s1 : InputShare FI FL) : FI :=
  Kof (innerOffsets cfg ofI xof ctx 0 ap nonce s0).1 (innerOffsets cfg ofI xof ctx 1 ap nonce s1).1
    (innerMasks ap s0).1 (innerMasks ap s1).1
/-- inner level: `c0 = A a + B + a² − b − c` with `a = a_0 + a_1`, …, `B = B_0 + B_1` -/
def innerC0 (cfg : Cfg) (ofI : Nat → FI) (xof : Xof) (ctx : Bytes) (ap : AggParam) (nonce : Bytes)
    (s0 s1 : InputShare FI FL) : FI :=
  c0of (innerOffsets cfg ofI xof ctx 0 ap nonce s0).1 (innerOffsets cfg ofI xof ctx 0 ap nonce s0).2.1
    (innerOffsets cfg ofI xof ctx 0 ap nonce s0).2.2
    (innerOffsets cfg ofI xof ctx 1 ap nonce s1).1 (innerOffsets cfg ofI xof ctx 1 ap nonce s1).2.1
    (innerOffsets cfg ofI xof ctx 1 ap nonce s1).2.2
    (innerMasks ap s0).1 (innerMasks ap s0).2 (innerMasks ap s1).1 (innerMasks ap s1).2
/-- inner level: the verification randomness as a vector over `Fin ap.prefixes.length` -/
def innerR (cfg : Cfg) (ofI : Nat → FI) (xof : Xof) (verifyKey ctx : Bytes) (ap : AggParam) (nonce : Bytes) :
    Fin ap.prefixes.length → FI :=
  rVec ap.prefixes.length (innerRand cfg ofI xof verifyKey ctx ap nonce ap.prefixes.length)

/-- leaf level: `y_i` -/
def leafY (gI : Prg Bytes (Pair FI)) (gL : Prg Bytes (Pair FL)) (ap : AggParam) (pub : PubShare FI FL)
    (s0 s1 : InputShare FI FL) : Fin ap.prefixes.length → FL :=
  ySum ap.prefixes.length (leafVals gI gL 0 ap pub s0) (leafVals gI gL 1 ap pub s1)
/-- leaf level: `w_i` -/
def leafW (gI : Prg Bytes (Pair FI)) (gL : Prg Bytes (Pair FL)) (ap : AggParam) (pub : PubShare FI FL)
    (s0 s1 : InputShare FI FL) : Fin ap.prefixes.length → FL :=
  wSum ap.prefixes.length (leafVals gI gL 0 ap pub s0) (leafVals gI gL 1 ap pub s1)
/-- leaf level: `K`, with `(A_j, B_j) = corrLeaf` of input share `j` -/
def leafK (cfg : Cfg) (ofL : Nat → FL) (xof : Xof) (ctx : Bytes) (nonce : Bytes)
    (s0 s1 : InputShare FI FL) : FL :=
  Kof (leafOffsets cfg ofL xof ctx 0 nonce s0).1 (leafOffsets cfg ofL xof ctx 1 nonce s1).1
    s0.corrLeaf.1 s1.corrLeaf.1
/-- leaf level: `c0` -/
def leafC0 (cfg : Cfg) (ofL : Nat → FL) (xof : Xof) (ctx : Bytes) (nonce : Bytes)
    (s0 s1 : InputShare FI FL) : FL :=
  c0of (leafOffsets cfg ofL xof ctx 0 nonce s0).1 (leafOffsets cfg ofL xof ctx 0 nonce s0).2.1
    (leafOffsets cfg ofL xof ctx 0 nonce s0).2.2
    (leafOffsets cfg ofL xof ctx 1 nonce s1).1 (leafOffsets cfg ofL xof ctx 1 nonce s1).2.1
    (leafOffsets cfg ofL xof ctx 1 nonce s1).2.2
    s0.corrLeaf.1 s0.corrLeaf.2 s1.corrLeaf.1 s1.corrLeaf.2
/-- leaf level: the verification randomness vector -/
def leafR (cfg : Cfg) (ofL : Nat → FL) (xof : Xof) (verifyKey ctx : Bytes) (ap : AggParam) (nonce : Bytes) :
    Fin ap.prefixes.length → FL :=
  rVec ap.prefixes.length (leafRand cfg ofL xof verifyKey ctx ap nonce ap.prefixes.length)

end extract

/-! ## the run -/
section run
variable {F : Type} [Field F] [BEq F] [LawfulBEq F]

theorem nextMessage_one_iff (u v : F) : nextMessage [u] [v] = .ok none ↔ u + v = 0 := by
  unfold nextMessage
  simp only [List.length_cons, List.length_nil, ne_eq, not_true_eq_false, if_false, List.zipWith_cons_cons,
    List.zipWith_nil_right]
  by_cases h : u + v = 0
  · simp [h]
  · simp [h]

end run

section main
variable {FI FL : Type} [Field FI] [BEq FI] [LawfulBEq FI] [Field FL] [BEq FL] [LawfulBEq FL]

omit [LawfulBEq FL] in
theorem sharesToMessage_inner_one_iff (u v : FI) :
    sharesToMessage (FL := FL) [.inner [u], .inner [v]] = .ok .done ↔ u + v = 0 := by
  rw [← nextMessage_one_iff]
  unfold sharesToMessage
  simp only
  cases nextMessage [u] [v] with
  | ok o => cases o <;> simp
  | err => simp
  | panic => simp

omit [LawfulBEq FL] in
/-- **the inner-level run for an arbitrary report**: once both `verifyInit`s, the round-one combination and
    both `verifyNext`s succeed, the round-two shares are single field elements whose sum is the sketch
    polynomial of the summed evaluated shares at the common verification randomness -/
theorem inner_run (cfg : Cfg) (ofI : Nat → FI) (ofL : Nat → FL) (xof : Xof)
    (gI : Prg Bytes (Pair FI)) (gL : Prg Bytes (Pair FL)) (verifyKey ctx : Bytes)
    (ap : AggParam) (nonce : Bytes) (pub : PubShare FI FL) (s0 s1 : InputShare FI FL)
    (hlev : ap.level + 1 < cfg.bits)
    (st0 st1 st0' st1' : State FI FL) (sh0 sh1 r0 r1 : FieldVec FI FL) (m1 : Message FI FL)
    (h0 : verifyInit cfg ofI ofL xof gI gL verifyKey ctx 0 ap nonce pub s0 = .ok (st0, sh0))
    (h1 : verifyInit cfg ofI ofL xof gI gL verifyKey ctx 1 ap nonce pub s1 = .ok (st1, sh1))
    (hm : sharesToMessage [sh0, sh1] = .ok m1)
    (hn0 : verifyNext st0 m1 = .ok (.continue st0' r0))
    (hn1 : verifyNext st1 m1 = .ok (.continue st1' r1)) :
    (innerVals gI gL 0 ap pub s0).length = ap.prefixes.length ∧
    (innerVals gI gL 1 ap pub s1).length = ap.prefixes.length ∧
    (innerRand cfg ofI xof verifyKey ctx ap nonce ap.prefixes.length).length = ap.prefixes.length ∧
    st0' = .inner .roundTwo ((innerVals gI gL 0 ap pub s0).map (·.a)) ∧
    st1' = .inner .roundTwo ((innerVals gI gL 1 ap pub s1).map (·.a)) ∧
    ∃ f0 f1 : FI, r0 = .inner [f0] ∧ r1 = .inner [f1] ∧
      f0 + f1 = P (ySum ap.prefixes.length (innerVals gI gL 0 ap pub s0) (innerVals gI gL 1 ap pub s1))
        (wSum ap.prefixes.length (innerVals gI gL 0 ap pub s0) (innerVals gI gL 1 ap pub s1))
        (Kof (innerOffsets cfg ofI xof ctx 0 ap nonce s0).1 (innerOffsets cfg ofI xof ctx 1 ap nonce s1).1
          (innerMasks ap s0).1 (innerMasks ap s1).1)
        (c0of (innerOffsets cfg ofI xof ctx 0 ap nonce s0).1 (innerOffsets cfg ofI xof ctx 0 ap nonce s0).2.1
          (innerOffsets cfg ofI xof ctx 0 ap nonce s0).2.2
          (innerOffsets cfg ofI xof ctx 1 ap nonce s1).1 (innerOffsets cfg ofI xof ctx 1 ap nonce s1).2.1
          (innerOffsets cfg ofI xof ctx 1 ap nonce s1).2.2
          (innerMasks ap s0).1 (innerMasks ap s0).2 (innerMasks ap s1).1 (innerMasks ap s1).2)
        (rVec ap.prefixes.length (innerRand cfg ofI xof verifyKey ctx ap nonce ap.prefixes.length)) := by
  obtain ⟨pre0, g0, g0', a0, b0, c0, outs0, vals0, rs0, gv0, A0, B0, e01, e02, e03, e04, e05, e06, rfl, rfl⟩ :=
    verifyInit_inner_inv cfg ofI ofL xof gI gL verifyKey ctx 0 ap nonce pub s0 hlev st0 sh0 h0
  obtain ⟨pre1, g1, g1', a1, b1, c1, outs1, vals1, rs1, gv1, A1, B1, e11, e12, e13, e14, e15, e16, rfl, rfl⟩ :=
    verifyInit_inner_inv cfg ofI ofL xof gI gL verifyKey ctx 1 ap nonce pub s1 hlev st1 sh1 h1
  have hl0 : vals0.length = ap.prefixes.length := by
    rw [innerOnly_length outs0 vals0 e04, evalPrefixes_length gI gL 0 pub _ _ _ _ outs0 e03]
  have hl1 : vals1.length = ap.prefixes.length := by
    rw [innerOnly_length outs1 vals1 e14, evalPrefixes_length gI gL 1 pub _ _ _ _ outs1 e13]
  rw [hl0] at e05
  rw [hl1, e05] at e15
  simp only [Option.some.injEq, Prod.mk.injEq] at e15
  obtain ⟨rfl, rfl⟩ := e15
  have hv0 : innerVals gI gL 0 ap pub s0 = vals0 := by unfold innerVals; rw [e03]; simp only [e04, Option.getD_some]
  have hv1 : innerVals gI gL 1 ap pub s1 = vals1 := by unfold innerVals; rw [e13]; simp only [e14, Option.getD_some]
  have ho0 : innerOffsets cfg ofI xof ctx 0 ap nonce s0 = (ofI a0, ofI b0, ofI c0) := by
    unfold innerOffsets; rw [e01]; simp only [e02]
  have ho1 : innerOffsets cfg ofI xof ctx 1 ap nonce s1 = (ofI a1, ofI b1, ofI c1) := by
    unfold innerOffsets; rw [e11]; simp only [e12]
  have hM0 : innerMasks ap s0 = (A0, B0) := by unfold innerMasks; rw [e06]; rfl
  have hM1 : innerMasks ap s1 = (A1, B1) := by unfold innerMasks; rw [e16]; rfl
  have hR : innerRand cfg ofI xof verifyKey ctx ap nonce ap.prefixes.length = rs0.map ofI := by
    unfold innerRand; rw [e05]
  have hrl : (rs0.map ofI).length = ap.prefixes.length := by
    rw [List.length_map]; exact E2E.take_length cfg.fi _ _ _ _ e05
  rw [hv0, hv1, ho0, ho1, hM0, hM1, hR]
  -- round one
  simp only [sharesToMessage, Props.C03.round1_combines, Res.ok.injEq] at hm
  subst hm
  simp only [verifyNext, Res.ok.injEq, Transition.continue.injEq] at hn0 hn1
  obtain ⟨rfl, rfl⟩ := hn0
  obtain ⟨rfl, rfl⟩ := hn1
  refine ⟨hl0, hl1, hrl, rfl, rfl, _, _, rfl, rfl, ?_⟩
  exact round2_sum_eq_P ap.prefixes.length vals0 vals1 (rs0.map ofI) hl0 hl1 hrl _ _ _ _ _ _ A0 B0 A1 B1

omit [LawfulBEq FL] in
/-- acceptance of the round-two combination is exactly the vanishing of the sketch polynomial -/
theorem poplar1_inner_done_iff (cfg : Cfg) (ofI : Nat → FI) (ofL : Nat → FL) (xof : Xof)
    (gI : Prg Bytes (Pair FI)) (gL : Prg Bytes (Pair FL)) (verifyKey ctx : Bytes)
    (ap : AggParam) (nonce : Bytes) (pub : PubShare FI FL) (s0 s1 : InputShare FI FL)
    (hlev : ap.level + 1 < cfg.bits)
    (st0 st1 st0' st1' : State FI FL) (sh0 sh1 r0 r1 : FieldVec FI FL) (m1 : Message FI FL)
    (h0 : verifyInit cfg ofI ofL xof gI gL verifyKey ctx 0 ap nonce pub s0 = .ok (st0, sh0))
    (h1 : verifyInit cfg ofI ofL xof gI gL verifyKey ctx 1 ap nonce pub s1 = .ok (st1, sh1))
    (hm : sharesToMessage [sh0, sh1] = .ok m1)
    (hn0 : verifyNext st0 m1 = .ok (.continue st0' r0))
    (hn1 : verifyNext st1 m1 = .ok (.continue st1' r1)) :
    sharesToMessage [r0, r1] = .ok .done ↔
      P (innerY gI gL ap pub s0 s1) (innerW gI gL ap pub s0 s1) (innerK cfg ofI xof ctx ap nonce s0 s1)
        (innerC0 cfg ofI xof ctx ap nonce s0 s1) (innerR cfg ofI xof verifyKey ctx ap nonce) = 0 := by
  obtain ⟨_, _, _, _, _, f0, f1, rfl, rfl, hP⟩ :=
    inner_run cfg ofI ofL xof gI gL verifyKey ctx ap nonce pub s0 s1 hlev st0 st1 st0' st1' sh0 sh1 r0 r1 m1
      h0 h1 hm hn0 hn1
  rw [sharesToMessage_inner_one_iff, hP]
  rfl

omit [LawfulBEq FL] in
theorem sharesToMessage_inner_one_err (u v : FI) (h : u + v ≠ 0) :
    sharesToMessage (FL := FL) [.inner [u], .inner [v]] = .err := by
  unfold sharesToMessage nextMessage
  simp [h]

omit [LawfulBEq FL] in
/-- … and a non-zero value of the sketch polynomial makes the round-two combination fail -/
theorem poplar1_inner_rejects (cfg : Cfg) (ofI : Nat → FI) (ofL : Nat → FL) (xof : Xof)
    (gI : Prg Bytes (Pair FI)) (gL : Prg Bytes (Pair FL)) (verifyKey ctx : Bytes)
    (ap : AggParam) (nonce : Bytes) (pub : PubShare FI FL) (s0 s1 : InputShare FI FL)
    (hlev : ap.level + 1 < cfg.bits)
    (st0 st1 st0' st1' : State FI FL) (sh0 sh1 r0 r1 : FieldVec FI FL) (m1 : Message FI FL)
    (h0 : verifyInit cfg ofI ofL xof gI gL verifyKey ctx 0 ap nonce pub s0 = .ok (st0, sh0))
    (h1 : verifyInit cfg ofI ofL xof gI gL verifyKey ctx 1 ap nonce pub s1 = .ok (st1, sh1))
    (hm : sharesToMessage [sh0, sh1] = .ok m1)
    (hn0 : verifyNext st0 m1 = .ok (.continue st0' r0))
    (hn1 : verifyNext st1 m1 = .ok (.continue st1' r1))
    (hP : P (innerY gI gL ap pub s0 s1) (innerW gI gL ap pub s0 s1) (innerK cfg ofI xof ctx ap nonce s0 s1)
        (innerC0 cfg ofI xof ctx ap nonce s0 s1) (innerR cfg ofI xof verifyKey ctx ap nonce) ≠ 0) :
    sharesToMessage [r0, r1] = .err := by
  obtain ⟨_, _, _, _, _, f0, f1, rfl, rfl, hf⟩ :=
    inner_run cfg ofI ofL xof gI gL verifyKey ctx ap nonce pub s0 s1 hlev st0 st1 st0' st1' sh0 sh1 r0 r1 m1
      h0 h1 hm hn0 hn1
  apply sharesToMessage_inner_one_err
  rw [hf]
  exact hP

omit [LawfulBEq FL] in
/-- **Poplar1 robustness on the executable model, inner level**: for an arbitrary public share and arbitrary
    input shares, if both aggregators get through `verifyInit`, round one, `verifyNext` and the round-two
    combination is `done`, then the sketch polynomial of the summed evaluated IDPF shares vanishes at the
    verification randomness, both aggregators finish, and their output shares add up to `y` -/
theorem poplar1_inner_robust (cfg : Cfg) (ofI : Nat → FI) (ofL : Nat → FL) (xof : Xof)
    (gI : Prg Bytes (Pair FI)) (gL : Prg Bytes (Pair FL)) (verifyKey ctx : Bytes)
    (ap : AggParam) (nonce : Bytes) (pub : PubShare FI FL) (s0 s1 : InputShare FI FL)
    (hlev : ap.level + 1 < cfg.bits)
    (st0 st1 st0' st1' : State FI FL) (sh0 sh1 r0 r1 : FieldVec FI FL) (m1 : Message FI FL)
    (h0 : verifyInit cfg ofI ofL xof gI gL verifyKey ctx 0 ap nonce pub s0 = .ok (st0, sh0))
    (h1 : verifyInit cfg ofI ofL xof gI gL verifyKey ctx 1 ap nonce pub s1 = .ok (st1, sh1))
    (hm : sharesToMessage [sh0, sh1] = .ok m1)
    (hn0 : verifyNext st0 m1 = .ok (.continue st0' r0))
    (hn1 : verifyNext st1 m1 = .ok (.continue st1' r1))
    (hd : sharesToMessage [r0, r1] = .ok .done) :
    P (innerY gI gL ap pub s0 s1) (innerW gI gL ap pub s0 s1) (innerK cfg ofI xof ctx ap nonce s0 s1)
      (innerC0 cfg ofI xof ctx ap nonce s0 s1) (innerR cfg ofI xof verifyKey ctx ap nonce) = 0 ∧
    (innerVals gI gL 0 ap pub s0).length = ap.prefixes.length ∧
    (innerVals gI gL 1 ap pub s1).length = ap.prefixes.length ∧
    (innerRand cfg ofI xof verifyKey ctx ap nonce ap.prefixes.length).length = ap.prefixes.length ∧
    verifyNext st0' .done = .ok (.finish (.inner ((innerVals gI gL 0 ap pub s0).map (·.a)))) ∧
    verifyNext st1' .done = .ok (.finish (.inner ((innerVals gI gL 1 ap pub s1).map (·.a)))) ∧
    List.zipWith (· + ·) ((innerVals gI gL 0 ap pub s0).map (·.a)) ((innerVals gI gL 1 ap pub s1).map (·.a))
      = List.ofFn (innerY gI gL ap pub s0 s1) := by
  have hP := (poplar1_inner_done_iff cfg ofI ofL xof gI gL verifyKey ctx ap nonce pub s0 s1 hlev st0 st1 st0' st1'
    sh0 sh1 r0 r1 m1 h0 h1 hm hn0 hn1).mp hd
  obtain ⟨l0, l1, lr, rfl, rfl, _⟩ :=
    inner_run cfg ofI ofL xof gI gL verifyKey ctx ap nonce pub s0 s1 hlev st0 st1 st0' st1' sh0 sh1 r0 r1 m1
      h0 h1 hm hn0 hn1
  exact ⟨hP, l0, l1, lr, rfl, rfl, outputs_add _ _ _ l0 l1⟩

/-! ### leaf level -/

omit [LawfulBEq FI] in
theorem sharesToMessage_leaf_one_iff (u v : FL) :
    sharesToMessage (FI := FI) [.leaf [u], .leaf [v]] = .ok .done ↔ u + v = 0 := by
  rw [← nextMessage_one_iff]
  unfold sharesToMessage
  simp only
  cases nextMessage [u] [v] with
  | ok o => cases o <;> simp
  | err => simp
  | panic => simp

omit [LawfulBEq FI] in
/-- the leaf-level run for an arbitrary report -/
theorem leaf_run (cfg : Cfg) (ofI : Nat → FI) (ofL : Nat → FL) (xof : Xof)
    (gI : Prg Bytes (Pair FI)) (gL : Prg Bytes (Pair FL)) (verifyKey ctx : Bytes)
    (ap : AggParam) (nonce : Bytes) (pub : PubShare FI FL) (s0 s1 : InputShare FI FL)
    (hlev : ¬ ap.level + 1 < cfg.bits)
    (st0 st1 st0' st1' : State FI FL) (sh0 sh1 r0 r1 : FieldVec FI FL) (m1 : Message FI FL)
    (h0 : verifyInit cfg ofI ofL xof gI gL verifyKey ctx 0 ap nonce pub s0 = .ok (st0, sh0))
    (h1 : verifyInit cfg ofI ofL xof gI gL verifyKey ctx 1 ap nonce pub s1 = .ok (st1, sh1))
    (hm : sharesToMessage [sh0, sh1] = .ok m1)
    (hn0 : verifyNext st0 m1 = .ok (.continue st0' r0))
    (hn1 : verifyNext st1 m1 = .ok (.continue st1' r1)) :
    (leafVals gI gL 0 ap pub s0).length = ap.prefixes.length ∧
    (leafVals gI gL 1 ap pub s1).length = ap.prefixes.length ∧
    (leafRand cfg ofL xof verifyKey ctx ap nonce ap.prefixes.length).length = ap.prefixes.length ∧
    st0' = .leaf .roundTwo ((leafVals gI gL 0 ap pub s0).map (·.a)) ∧
    st1' = .leaf .roundTwo ((leafVals gI gL 1 ap pub s1).map (·.a)) ∧
    ∃ f0 f1 : FL, r0 = .leaf [f0] ∧ r1 = .leaf [f1] ∧
      f0 + f1 = P (leafY gI gL ap pub s0 s1) (leafW gI gL ap pub s0 s1) (leafK cfg ofL xof ctx nonce s0 s1)
        (leafC0 cfg ofL xof ctx nonce s0 s1) (leafR cfg ofL xof verifyKey ctx ap nonce) := by
  obtain ⟨g0', a0, b0, c0, outs0, vals0, rs0, gv0, e02, e03, e04, e05, rfl, rfl⟩ :=
    verifyInit_leaf_inv cfg ofI ofL xof gI gL verifyKey ctx 0 ap nonce pub s0 hlev st0 sh0 h0
  obtain ⟨g1', a1, b1, c1, outs1, vals1, rs1, gv1, e12, e13, e14, e15, rfl, rfl⟩ :=
    verifyInit_leaf_inv cfg ofI ofL xof gI gL verifyKey ctx 1 ap nonce pub s1 hlev st1 sh1 h1
  have hl0 : vals0.length = ap.prefixes.length := by
    rw [leafOnly_length outs0 vals0 e04, evalPrefixes_length gI gL 0 pub _ _ _ _ outs0 e03]
  have hl1 : vals1.length = ap.prefixes.length := by
    rw [leafOnly_length outs1 vals1 e14, evalPrefixes_length gI gL 1 pub _ _ _ _ outs1 e13]
  rw [hl0] at e05
  rw [hl1, e05] at e15
  simp only [Option.some.injEq, Prod.mk.injEq] at e15
  obtain ⟨rfl, rfl⟩ := e15
  have hv0 : leafVals gI gL 0 ap pub s0 = vals0 := by unfold leafVals; rw [e03]; simp only [e04, Option.getD_some]
  have hv1 : leafVals gI gL 1 ap pub s1 = vals1 := by unfold leafVals; rw [e13]; simp only [e14, Option.getD_some]
  have ho0 : leafOffsets cfg ofL xof ctx 0 nonce s0 = (ofL a0, ofL b0, ofL c0) := by
    unfold leafOffsets; rw [e02]
  have ho1 : leafOffsets cfg ofL xof ctx 1 nonce s1 = (ofL a1, ofL b1, ofL c1) := by
    unfold leafOffsets; rw [e12]
  have hR : leafRand cfg ofL xof verifyKey ctx ap nonce ap.prefixes.length = rs0.map ofL := by
    unfold leafRand; rw [e05]
  have hrl : (rs0.map ofL).length = ap.prefixes.length := by
    rw [List.length_map]; exact E2E.take_length cfg.fl _ _ _ _ e05
  unfold leafY leafW leafK leafC0 leafR
  rw [hv0, hv1, ho0, ho1, hR]
  simp only [sharesToMessage, Props.C03.round1_combines, Res.ok.injEq] at hm
  subst hm
  simp only [verifyNext, Res.ok.injEq, Transition.continue.injEq] at hn0 hn1
  obtain ⟨rfl, rfl⟩ := hn0
  obtain ⟨rfl, rfl⟩ := hn1
  refine ⟨hl0, hl1, hrl, rfl, rfl, _, _, rfl, rfl, ?_⟩
  exact round2_sum_eq_P ap.prefixes.length vals0 vals1 (rs0.map ofL) hl0 hl1 hrl _ _ _ _ _ _ _ _ _ _

omit [LawfulBEq FI] in
theorem poplar1_leaf_done_iff (cfg : Cfg) (ofI : Nat → FI) (ofL : Nat → FL) (xof : Xof)
    (gI : Prg Bytes (Pair FI)) (gL : Prg Bytes (Pair FL)) (verifyKey ctx : Bytes)
    (ap : AggParam) (nonce : Bytes) (pub : PubShare FI FL) (s0 s1 : InputShare FI FL)
    (hlev : ¬ ap.level + 1 < cfg.bits)
    (st0 st1 st0' st1' : State FI FL) (sh0 sh1 r0 r1 : FieldVec FI FL) (m1 : Message FI FL)
    (h0 : verifyInit cfg ofI ofL xof gI gL verifyKey ctx 0 ap nonce pub s0 = .ok (st0, sh0))
    (h1 : verifyInit cfg ofI ofL xof gI gL verifyKey ctx 1 ap nonce pub s1 = .ok (st1, sh1))
    (hm : sharesToMessage [sh0, sh1] = .ok m1)
    (hn0 : verifyNext st0 m1 = .ok (.continue st0' r0))
    (hn1 : verifyNext st1 m1 = .ok (.continue st1' r1)) :
    sharesToMessage [r0, r1] = .ok .done ↔
      P (leafY gI gL ap pub s0 s1) (leafW gI gL ap pub s0 s1) (leafK cfg ofL xof ctx nonce s0 s1)
        (leafC0 cfg ofL xof ctx nonce s0 s1) (leafR cfg ofL xof verifyKey ctx ap nonce) = 0 := by
  obtain ⟨_, _, _, _, _, f0, f1, rfl, rfl, hP⟩ :=
    leaf_run cfg ofI ofL xof gI gL verifyKey ctx ap nonce pub s0 s1 hlev st0 st1 st0' st1' sh0 sh1 r0 r1 m1
      h0 h1 hm hn0 hn1
  rw [sharesToMessage_leaf_one_iff, hP]

omit [LawfulBEq FI] in
theorem sharesToMessage_leaf_one_err (u v : FL) (h : u + v ≠ 0) :
    sharesToMessage (FI := FI) [.leaf [u], .leaf [v]] = .err := by
  unfold sharesToMessage nextMessage
  simp [h]

omit [LawfulBEq FI] in
theorem poplar1_leaf_rejects (cfg : Cfg) (ofI : Nat → FI) (ofL : Nat → FL) (xof : Xof)
    (gI : Prg Bytes (Pair FI)) (gL : Prg Bytes (Pair FL)) (verifyKey ctx : Bytes)
    (ap : AggParam) (nonce : Bytes) (pub : PubShare FI FL) (s0 s1 : InputShare FI FL)
    (hlev : ¬ ap.level + 1 < cfg.bits)
    (st0 st1 st0' st1' : State FI FL) (sh0 sh1 r0 r1 : FieldVec FI FL) (m1 : Message FI FL)
    (h0 : verifyInit cfg ofI ofL xof gI gL verifyKey ctx 0 ap nonce pub s0 = .ok (st0, sh0))
    (h1 : verifyInit cfg ofI ofL xof gI gL verifyKey ctx 1 ap nonce pub s1 = .ok (st1, sh1))
    (hm : sharesToMessage [sh0, sh1] = .ok m1)
    (hn0 : verifyNext st0 m1 = .ok (.continue st0' r0))
    (hn1 : verifyNext st1 m1 = .ok (.continue st1' r1))
    (hP : P (leafY gI gL ap pub s0 s1) (leafW gI gL ap pub s0 s1) (leafK cfg ofL xof ctx nonce s0 s1)
        (leafC0 cfg ofL xof ctx nonce s0 s1) (leafR cfg ofL xof verifyKey ctx ap nonce) ≠ 0) :
    sharesToMessage [r0, r1] = .err := by
  obtain ⟨_, _, _, _, _, f0, f1, rfl, rfl, hf⟩ :=
    leaf_run cfg ofI ofL xof gI gL verifyKey ctx ap nonce pub s0 s1 hlev st0 st1 st0' st1' sh0 sh1 r0 r1 m1
      h0 h1 hm hn0 hn1
  apply sharesToMessage_leaf_one_err
  rw [hf]
  exact hP

omit [LawfulBEq FI] in
/-- **Poplar1 robustness on the executable model, leaf level** -/
theorem poplar1_leaf_robust (cfg : Cfg) (ofI : Nat → FI) (ofL : Nat → FL) (xof : Xof)
    (gI : Prg Bytes (Pair FI)) (gL : Prg Bytes (Pair FL)) (verifyKey ctx : Bytes)
    (ap : AggParam) (nonce : Bytes) (pub : PubShare FI FL) (s0 s1 : InputShare FI FL)
    (hlev : ¬ ap.level + 1 < cfg.bits)
    (st0 st1 st0' st1' : State FI FL) (sh0 sh1 r0 r1 : FieldVec FI FL) (m1 : Message FI FL)
    (h0 : verifyInit cfg ofI ofL xof gI gL verifyKey ctx 0 ap nonce pub s0 = .ok (st0, sh0))
    (h1 : verifyInit cfg ofI ofL xof gI gL verifyKey ctx 1 ap nonce pub s1 = .ok (st1, sh1))
    (hm : sharesToMessage [sh0, sh1] = .ok m1)
    (hn0 : verifyNext st0 m1 = .ok (.continue st0' r0))
    (hn1 : verifyNext st1 m1 = .ok (.continue st1' r1))
    (hd : sharesToMessage [r0, r1] = .ok .done) :
    P (leafY gI gL ap pub s0 s1) (leafW gI gL ap pub s0 s1) (leafK cfg ofL xof ctx nonce s0 s1)
      (leafC0 cfg ofL xof ctx nonce s0 s1) (leafR cfg ofL xof verifyKey ctx ap nonce) = 0 ∧
    (leafVals gI gL 0 ap pub s0).length = ap.prefixes.length ∧
    (leafVals gI gL 1 ap pub s1).length = ap.prefixes.length ∧
    (leafRand cfg ofL xof verifyKey ctx ap nonce ap.prefixes.length).length = ap.prefixes.length ∧
    verifyNext st0' .done = .ok (.finish (.leaf ((leafVals gI gL 0 ap pub s0).map (·.a)))) ∧
    verifyNext st1' .done = .ok (.finish (.leaf ((leafVals gI gL 1 ap pub s1).map (·.a)))) ∧
    List.zipWith (· + ·) ((leafVals gI gL 0 ap pub s0).map (·.a)) ((leafVals gI gL 1 ap pub s1).map (·.a))
      = List.ofFn (leafY gI gL ap pub s0 s1) := by
  have hP := (poplar1_leaf_done_iff cfg ofI ofL xof gI gL verifyKey ctx ap nonce pub s0 s1 hlev st0 st1 st0' st1'
    sh0 sh1 r0 r1 m1 h0 h1 hm hn0 hn1).mp hd
  obtain ⟨l0, l1, lr, rfl, rfl, _⟩ :=
    leaf_run cfg ofI ofL xof gI gL verifyKey ctx ap nonce pub s0 s1 hlev st0 st1 st0' st1' sh0 sh1 r0 r1 m1
      h0 h1 hm hn0 hn1
  exact ⟨hP, l0, l1, lr, rfl, rfl, outputs_add _ _ _ l0 l1⟩

end main

/-! ## the counting corollary (Schwartz–Zippel, `Props.C04.robust_counting`)

`y w K c0` do not depend on the verification key; the verification randomness does.  If the summed
evaluated shares are not honest-shaped, the verification-randomness vectors for which both aggregators can
finish lie in a set of at most `2·|F|^(n-1)` of the `|F|^n` vectors.  (That the derived randomness is
uniform over `F^n` is the random-oracle step, outside the model.) -/
section counting

/-- the honest shape of `(y, w, K, c0)`: verbatim the conclusion of `Props.C04.robust_core` -/
def HonestShape {F : Type} [Field F] {n : Nat} (y w : Fin n → F) (K c0 : F) : Prop :=
  c0 = 0 ∧ (∀ i, y i = 0 ∨ y i = 1) ∧ (∀ i j, i ≠ j → y i * y j = 0) ∧ (∀ i, w i = K * y i)

/-- inner level: a report whose summed evaluated shares are not honest-shaped can be completed only for
    verification randomness in a set `Z` with `|Z|·|F| ≤ 2·|F|^n` -/
theorem poplar1_inner_robust_counting {FI FL : Type} [Field FI] [Fintype FI] [DecidableEq FI]
    [Field FL] [BEq FL] (h2 : (2 : FI) ≠ 0)
    (cfg : Cfg) (ofI : Nat → FI) (ofL : Nat → FL) (xof : Xof)
    (gI : Prg Bytes (Pair FI)) (gL : Prg Bytes (Pair FL)) (ctx : Bytes)
    (ap : AggParam) (nonce : Bytes) (pub : PubShare FI FL) (s0 s1 : InputShare FI FL)
    (hlev : ap.level + 1 < cfg.bits)
    (hbad : ¬ HonestShape (innerY gI gL ap pub s0 s1) (innerW gI gL ap pub s0 s1)
      (innerK cfg ofI xof ctx ap nonce s0 s1) (innerC0 cfg ofI xof ctx ap nonce s0 s1)) :
    (Finset.univ.filter fun r : Fin ap.prefixes.length → FI =>
        P (innerY gI gL ap pub s0 s1) (innerW gI gL ap pub s0 s1) (innerK cfg ofI xof ctx ap nonce s0 s1)
          (innerC0 cfg ofI xof ctx ap nonce s0 s1) r = 0).card * Fintype.card FI
      ≤ 2 * Fintype.card FI ^ ap.prefixes.length ∧
    ∀ (verifyKey : Bytes) (st0 st1 st0' st1' : State FI FL) (sh0 sh1 r0 r1 : FieldVec FI FL) (m1 : Message FI FL),
      verifyInit cfg ofI ofL xof gI gL verifyKey ctx 0 ap nonce pub s0 = .ok (st0, sh0) →
      verifyInit cfg ofI ofL xof gI gL verifyKey ctx 1 ap nonce pub s1 = .ok (st1, sh1) →
      sharesToMessage [sh0, sh1] = .ok m1 →
      verifyNext st0 m1 = .ok (.continue st0' r0) →
      verifyNext st1 m1 = .ok (.continue st1' r1) →
      sharesToMessage [r0, r1] = .ok .done →
      innerR cfg ofI xof verifyKey ctx ap nonce ∈ Finset.univ.filter fun r : Fin ap.prefixes.length → FI =>
        P (innerY gI gL ap pub s0 s1) (innerW gI gL ap pub s0 s1) (innerK cfg ofI xof ctx ap nonce s0 s1)
          (innerC0 cfg ofI xof ctx ap nonce s0 s1) r = 0 := by
  refine ⟨robust_counting h2 _ _ _ _ hbad, ?_⟩
  intro verifyKey st0 st1 st0' st1' sh0 sh1 r0 r1 m1 h0 h1 hm hn0 hn1 hd
  rw [Finset.mem_filter]
  exact ⟨Finset.mem_univ _, (poplar1_inner_robust cfg ofI ofL xof gI gL verifyKey ctx ap nonce pub s0 s1 hlev
    st0 st1 st0' st1' sh0 sh1 r0 r1 m1 h0 h1 hm hn0 hn1 hd).1⟩

/-- leaf level: the same -/
theorem poplar1_leaf_robust_counting {FI FL : Type} [Field FI] [BEq FI]
    [Field FL] [Fintype FL] [DecidableEq FL] (h2 : (2 : FL) ≠ 0)
    (cfg : Cfg) (ofI : Nat → FI) (ofL : Nat → FL) (xof : Xof)
    (gI : Prg Bytes (Pair FI)) (gL : Prg Bytes (Pair FL)) (ctx : Bytes)
    (ap : AggParam) (nonce : Bytes) (pub : PubShare FI FL) (s0 s1 : InputShare FI FL)
    (hlev : ¬ ap.level + 1 < cfg.bits)
    (hbad : ¬ HonestShape (leafY gI gL ap pub s0 s1) (leafW gI gL ap pub s0 s1)
      (leafK cfg ofL xof ctx nonce s0 s1) (leafC0 cfg ofL xof ctx nonce s0 s1)) :
    (Finset.univ.filter fun r : Fin ap.prefixes.length → FL =>
        P (leafY gI gL ap pub s0 s1) (leafW gI gL ap pub s0 s1) (leafK cfg ofL xof ctx nonce s0 s1)
          (leafC0 cfg ofL xof ctx nonce s0 s1) r = 0).card * Fintype.card FL
      ≤ 2 * Fintype.card FL ^ ap.prefixes.length ∧
    ∀ (verifyKey : Bytes) (st0 st1 st0' st1' : State FI FL) (sh0 sh1 r0 r1 : FieldVec FI FL) (m1 : Message FI FL),
      verifyInit cfg ofI ofL xof gI gL verifyKey ctx 0 ap nonce pub s0 = .ok (st0, sh0) →
      verifyInit cfg ofI ofL xof gI gL verifyKey ctx 1 ap nonce pub s1 = .ok (st1, sh1) →
      sharesToMessage [sh0, sh1] = .ok m1 →
      verifyNext st0 m1 = .ok (.continue st0' r0) →
      verifyNext st1 m1 = .ok (.continue st1' r1) →
      sharesToMessage [r0, r1] = .ok .done →
      leafR cfg ofL xof verifyKey ctx ap nonce ∈ Finset.univ.filter fun r : Fin ap.prefixes.length → FL =>
        P (leafY gI gL ap pub s0 s1) (leafW gI gL ap pub s0 s1) (leafK cfg ofL xof ctx nonce s0 s1)
          (leafC0 cfg ofL xof ctx nonce s0 s1) r = 0 := by
  refine ⟨robust_counting h2 _ _ _ _ hbad, ?_⟩
  intro verifyKey st0 st1 st0' st1' sh0 sh1 r0 r1 m1 h0 h1 hm hn0 hn1 hd
  rw [Finset.mem_filter]
  exact ⟨Finset.mem_univ _, (poplar1_leaf_robust cfg ofI ofL xof gI gL verifyKey ctx ap nonce pub s0 s1 hlev
    st0 st1 st0' st1' sh0 sh1 r0 r1 m1 h0 h1 hm hn0 hn1 hd).1⟩

/-- conversely (`Props.C04.robust_core`): if the run can be completed for EVERY verification-randomness
    vector, i.e. the sketch polynomial vanishes identically, the summed evaluated shares are honest-shaped -/
theorem honestShape_of_forall {F : Type} [Field F] {n : Nat} (h2 : (2 : F) ≠ 0) (y w : Fin n → F) (K c0 : F)
    (h : ∀ r : Fin n → F, P y w K c0 r = 0) : HonestShape y w K c0 :=
  robust_core h2 y w K c0 h

end counting

end Prio.Poplar1.Robust

-- #print axioms Prio.Poplar1.Robust.round2_sum_eq_P
-- #print axioms Prio.Poplar1.Robust.inner_run
-- #print axioms Prio.Poplar1.Robust.poplar1_inner_done_iff
-- #print axioms Prio.Poplar1.Robust.poplar1_inner_robust
-- #print axioms Prio.Poplar1.Robust.leaf_run
-- #print axioms Prio.Poplar1.Robust.poplar1_leaf_done_iff
-- #print axioms Prio.Poplar1.Robust.poplar1_leaf_robust
-- #print axioms Prio.Poplar1.Robust.poplar1_inner_robust_counting
-- #print axioms Prio.Poplar1.Robust.poplar1_leaf_robust_counting
-- #print axioms Prio.Poplar1.Robust.honestShape_of_forall
-- #print axioms Prio.Poplar1.Robust.poplar1_inner_rejects
-- #print axioms Prio.Poplar1.Robust.poplar1_leaf_rejects
