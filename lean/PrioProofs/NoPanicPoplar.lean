import PrioModel.Poplar1
import PrioModel.Prio2
import PrioProofs.NttDft
import Mathlib.Tactic.Ring
import Mathlib.Tactic.Linarith
import Mathlib.Data.Nat.Log

/-! # Poplar1 and Prio2 protocol operations never panic on malformed arguments (model level) -/

set_option linter.unusedSectionVars false
set_option linter.unusedVariables false

/-! ## IDPF evaluation: outcome shape for every argument, every cache, every cache state -/
namespace Prio.Idpf

variable {S VI VL : Type} [XorLike S]
  [Add VI] [Sub VI] [Neg VI] [Zero VI] [Add VL] [Sub VL] [Neg VL] [Zero VL]

/-- a cache hit of the upward probe is at a length between 1 and the bound -/
theorem probe_bound {C : Type} (cache : Cache C S) (c : C) (pfx : List Bool) :
    ∀ (len L : Nat) (n : Node S), probe cache c pfx len = some (L, n) → 1 ≤ L ∧ L ≤ len := by
  intro len
  induction len with
  | zero => intro L n h; simp [probe] at h
  | succ len ih =>
    intro L n h
    simp only [probe] at h
    cases hg : cache.get c (pfx.take (len + 1)) with
    | some m =>
      simp only [hg, Option.some.injEq, Prod.mk.injEq] at h
      obtain ⟨rfl, rfl⟩ := h
      exact ⟨by omega, le_refl _⟩
    | none =>
      simp only [hg] at h
      obtain ⟨h1, h2⟩ := ih L n h
      exact ⟨h1, by omega⟩

/-- the inner loop yields a value as soon as it runs once (or was handed one) -/
theorem evalInnerLoop_some {C : Type} (cache : Cache C S) (gI : Prg S VI) (isL : Bool) (pfx : List Bool) :
    ∀ (cws : List (CW S VI)) (bs : List Bool) (level : Nat) (n : Node S) (last : Option VI) (c : C),
      ((cws ≠ [] ∧ bs ≠ []) ∨ last ≠ none) →
      (evalInnerLoop cache gI isL pfx cws bs level n last c).1 ≠ none := by
  intro cws
  induction cws with
  | nil =>
    intro bs level n last c h
    rcases h with h | h
    · exact absurd rfl h.1
    · simpa [evalInnerLoop] using h
  | cons cw cws ih =>
    intro bs level n last c h
    cases bs with
    | nil =>
      rcases h with h | h
      · exact absurd rfl h.2
      · simpa [evalInnerLoop] using h
    | cons b bs =>
      simp only [evalInnerLoop]
      exact ih bs _ _ _ _ (Or.inr (by simp))

/-- `eval_from_node` from a start level below the prefix length, on a prefix no longer than the tree:
    a leaf value exactly at full length, an inner value otherwise — never the `unwrap()` panic -/
theorem evalFromNode_shape {C : Type} (cache : Cache C S) (gI : Prg S VI) (gL : Prg S VL) (isL : Bool)
    (ps : PublicShare S VI VL) (L : Nat) (n : Node S) (pfx : List Bool) (c : C)
    (hL : L < pfx.length) (hp : pfx.length ≤ ps.inner.length + 1) :
    (pfx.length = ps.inner.length + 1 → ∃ v, (evalFromNode cache gI gL isL ps L n pfx c).1 = some (.leaf v)) ∧
    (pfx.length ≠ ps.inner.length + 1 → ∃ v, (evalFromNode cache gI gL isL ps L n pfx c).1 = some (.inner v)) := by
  unfold evalFromNode
  constructor
  · intro h
    simp only [h, if_true]
    exact ⟨_, rfl⟩
  · intro h
    simp only [h, if_false]
    have h1 : ps.inner.drop L ≠ [] := by
      intro e
      have := congrArg List.length e
      simp at this; omega
    have h2 : pfx.drop L ≠ [] := by
      intro e
      have := congrArg List.length e
      simp at this; omega
    have := evalInnerLoop_some cache gI isL pfx (ps.inner.drop L) (pfx.drop L) L n none c (Or.inl ⟨h1, h2⟩)
    cases hv : (evalInnerLoop cache gI isL pfx (ps.inner.drop L) (pfx.drop L) L n none c).1 with
    | none => exact absurd hv this
    | some v => exact ⟨v, rfl⟩

/-- `Idpf::eval` reports `InvalidParameter` exactly for an aggregator id above 1, the empty prefix and a
    prefix longer than the tree -/
theorem eval_error_iff {C : Type} (cache : Cache C S) (gI : Prg S VI) (gL : Prg S VL) (aggId : Nat)
    (ps : PublicShare S VI VL) (key : S) (pfx : List Bool) (c : C) :
    (eval cache gI gL aggId ps key pfx c).1 = .error ↔
      (aggId > 1 ∨ pfx = [] ∨ pfx.length > ps.inner.length + 1) := by
  unfold eval
  simp only
  by_cases h1 : aggId > 1
  · simp [h1]
  by_cases h2 : pfx = []
  · simp [h1, h2]
  by_cases h3 : pfx.length > ps.inner.length + 1
  · simp [h1, h3]
  have h2' : pfx.isEmpty = false := by cases pfx <;> simp_all
  simp only [h1, h2, h2', h3, if_false, Bool.false_eq_true, or_self, iff_false]
  split <;> simp

/-- the outcome of `Idpf::eval` on a well-sized prefix: `ok`, of leaf type exactly at full length -/
theorem eval_ok_shape {C : Type} (cache : Cache C S) (gI : Prg S VI) (gL : Prg S VL) (aggId : Nat)
    (ps : PublicShare S VI VL) (key : S) (pfx : List Bool) (c : C)
    (ha : aggId ≤ 1) (hp1 : pfx ≠ []) (hp2 : pfx.length ≤ ps.inner.length + 1) :
    (pfx.length = ps.inner.length + 1 → ∃ v, (eval cache gI gL aggId ps key pfx c).1 = .ok (.leaf v)) ∧
    (pfx.length ≠ ps.inner.length + 1 → ∃ v, (eval cache gI gL aggId ps key pfx c).1 = .ok (.inner v)) := by
  have hlen : 1 ≤ pfx.length := by
    cases pfx with
    | nil => exact absurd rfl hp1
    | cons => simp
  unfold eval
  have h1 : ¬ aggId > 1 := by omega
  have h2 : pfx.isEmpty = false := by cases pfx <;> simp_all
  have h3 : ¬ pfx.length > ps.inner.length + 1 := by omega
  simp only [h1, if_false, h2, Bool.false_eq_true, h3]
  -- the start of the walk is strictly below the prefix length
  have key' : ∀ (L : Nat) (n : Node S), L < pfx.length →
      (pfx.length = ps.inner.length + 1 → ∃ v,
        (match evalFromNode cache gI gL (aggId == 0) ps L n pfx c with
          | (some o, c') => (EvalResult.ok o, c')
          | (none, c') => (EvalResult.panic, c')).1 = .ok (.leaf v)) ∧
      (pfx.length ≠ ps.inner.length + 1 → ∃ v,
        (match evalFromNode cache gI gL (aggId == 0) ps L n pfx c with
          | (some o, c') => (EvalResult.ok o, c')
          | (none, c') => (EvalResult.panic, c')).1 = .ok (.inner v)) := by
    intro L n hL
    obtain ⟨s1, s2⟩ := evalFromNode_shape cache gI gL (aggId == 0) ps L n pfx c hL hp2
    generalize evalFromNode cache gI gL (aggId == 0) ps L n pfx c = r at s1 s2
    obtain ⟨o, c'⟩ := r
    constructor
    · intro h
      obtain ⟨v, hv⟩ := s1 h
      simp only at hv; subst hv
      exact ⟨v, rfl⟩
    · intro h
      obtain ⟨v, hv⟩ := s2 h
      simp only at hv; subst hv
      exact ⟨v, rfl⟩
  cases hpr : probe cache c pfx (pfx.length - 1) with
  | none => exact key' 0 _ (by omega)
  | some hit =>
    obtain ⟨L, n⟩ := hit
    obtain ⟨hL1, hL2⟩ := probe_bound cache c pfx _ L n hpr
    exact key' L n (by omega)

/-- **`Idpf::eval` never reaches its `unwrap()`**: for every aggregator id, public share, key, prefix,
    cache implementation and cache state -/
theorem eval_no_panic {C : Type} (cache : Cache C S) (gI : Prg S VI) (gL : Prg S VL) (aggId : Nat)
    (ps : PublicShare S VI VL) (key : S) (pfx : List Bool) (c : C) :
    (eval cache gI gL aggId ps key pfx c).1 ≠ .panic := by
  by_cases h : aggId > 1 ∨ pfx = [] ∨ pfx.length > ps.inner.length + 1
  · rw [(eval_error_iff cache gI gL aggId ps key pfx c).mpr h]; simp
  · simp only [not_or] at h
    obtain ⟨h1, h2, h3⟩ := h
    obtain ⟨s1, s2⟩ := eval_ok_shape cache gI gL aggId ps key pfx c (by omega) h2 (by omega)
    by_cases hl : pfx.length = ps.inner.length + 1
    · obtain ⟨v, hv⟩ := s1 hl; rw [hv]; simp
    · obtain ⟨v, hv⟩ := s2 hl; rw [hv]; simp

/-- what an `ok` outcome of `Idpf::eval` says about the arguments and the type of the value -/
theorem eval_ok_inv {C : Type} (cache : Cache C S) (gI : Prg S VI) (gL : Prg S VL) (aggId : Nat)
    (ps : PublicShare S VI VL) (key : S) (pfx : List Bool) (c : C) (o : Output VI VL)
    (h : (eval cache gI gL aggId ps key pfx c).1 = .ok o) :
    aggId ≤ 1 ∧ pfx ≠ [] ∧ pfx.length ≤ ps.inner.length + 1 ∧
      ((pfx.length = ps.inner.length + 1 ∧ ∃ v, o = .leaf v) ∨
       (pfx.length ≠ ps.inner.length + 1 ∧ ∃ v, o = .inner v)) := by
  have hne : ¬ (aggId > 1 ∨ pfx = [] ∨ pfx.length > ps.inner.length + 1) := by
    intro hc
    rw [(eval_error_iff cache gI gL aggId ps key pfx c).mpr hc] at h
    cases h
  simp only [not_or] at hne
  obtain ⟨h1, h2, h3⟩ := hne
  refine ⟨by omega, h2, by omega, ?_⟩
  obtain ⟨s1, s2⟩ := eval_ok_shape cache gI gL aggId ps key pfx c (by omega) h2 (by omega)
  by_cases hl : pfx.length = ps.inner.length + 1
  · obtain ⟨v, hv⟩ := s1 hl
    rw [hv] at h
    injection h with h
    exact Or.inl ⟨hl, v, h.symm⟩
  · obtain ⟨v, hv⟩ := s2 hl
    rw [hv] at h
    injection h with h
    exact Or.inr ⟨hl, v, h.symm⟩

end Prio.Idpf

namespace Prio.Poplar1
open Prio.Idpf

section rounds
variable {F : Type} [Add F] [Sub F] [Mul F] [Neg F] [Zero F] [One F] [BEq F]

theorem nextMessage_no_panic (s0 s1 : List F) : nextMessage s0 s1 ≠ .panic := by
  unfold nextMessage
  split
  · simp
  · simp only
    split
    · split <;> simp
    · simp
    · simp

end rounds

section protocol
variable {FI FL : Type}
  [Add FI] [Sub FI] [Mul FI] [Neg FI] [Zero FI] [One FI] [BEq FI]
  [Add FL] [Sub FL] [Mul FL] [Neg FL] [Zero FL] [One FL] [BEq FL]

theorem sharesToMessage_no_panic (shares : List (FieldVec FI FL)) :
    sharesToMessage shares ≠ .panic := by
  unfold sharesToMessage
  split
  · rename_i a b
    have := nextMessage_no_panic a b
    cases h : nextMessage a b with
    | panic => exact absurd h this
    | err => simp
    | ok o => cases o <;> simp
  · rename_i a b
    have := nextMessage_no_panic a b
    cases h : nextMessage a b with
    | panic => exact absurd h this
    | err => simp
    | ok o => cases o <;> simp
  · simp

theorem verifyNext_no_panic (st : State FI FL) (msg : Message FI FL) :
    verifyNext st msg ≠ .panic := by
  unfold verifyNext
  split <;> simp

/-! ### the pseudorandom generators -/

theorem Rng.take_length (fp : FieldP) : ∀ (n : Nat) (g : Rng) (xs : List Nat) (g' : Rng),
    Rng.take g fp n = some (xs, g') → xs.length = n := by
  intro n
  induction n with
  | zero => intro g xs g' h; simp only [Rng.take, Option.some.injEq, Prod.mk.injEq] at h; rw [← h.1]; rfl
  | succ n ih =>
    intro g xs g' h
    simp only [Rng.take] at h
    cases hg : g.get fp with
    | none => simp [hg] at h
    | some r =>
      obtain ⟨x, g1⟩ := r
      simp only [hg] at h
      cases ht : Rng.take g1 fp n with
      | none => simp [ht] at h
      | some r2 =>
        obtain ⟨ys, g2⟩ := r2
        simp only [ht, Option.some.injEq, Prod.mk.injEq] at h
        rw [← h.1, List.length_cons, ih g1 ys g2 ht]

/-- `m + n` draws succeed only if the first `m` do and then `n` more from the generator reached -/
theorem Rng.take_split (fp : FieldP) : ∀ (m n : Nat) (g : Rng), Rng.take g fp (m + n) ≠ none →
    ∃ xs g', Rng.take g fp m = some (xs, g') ∧ Rng.take g' fp n ≠ none := by
  intro m
  induction m with
  | zero => intro n g h; exact ⟨[], g, rfl, by simpa using h⟩
  | succ m ih =>
    intro n g h
    have e : m + 1 + n = (m + n) + 1 := by omega
    rw [e] at h
    simp only [Rng.take] at h ⊢
    cases hg : g.get fp with
    | none => simp [hg] at h
    | some r =>
      obtain ⟨x, g1⟩ := r
      simp only [hg] at h ⊢
      have h' : Rng.take g1 fp (m + n) ≠ none := by
        intro e; simp [e] at h
      obtain ⟨xs, g', e1, e2⟩ := ih n g1 h'
      exact ⟨x :: xs, g', by simp [e1], e2⟩

/-- three successful draws are a three-element list -/
theorem Rng.take_three (fp : FieldP) (g : Rng) (h : Rng.take g fp 3 ≠ none) :
    ∃ a b c g', Rng.take g fp 3 = some ([a, b, c], g') := by
  cases ht : Rng.take g fp 3 with
  | none => exact absurd ht h
  | some r =>
    obtain ⟨xs, g'⟩ := r
    have hl := Rng.take_length fp 3 g xs g' ht
    match xs, hl with
    | [a, b, c], _ => exact ⟨a, b, c, g', rfl⟩

/-- if every `Prng::get` on a stream terminates within the fuel, so does every `take` -/
theorem Rng.take_ne_none_of_get (fp : FieldP) (S : Stream) (h : ∀ st : PrngState, Rng.get ⟨S, st⟩ fp ≠ none) :
    ∀ (n : Nat) (st : PrngState), Rng.take ⟨S, st⟩ fp n ≠ none := by
  intro n
  induction n with
  | zero => intro st; simp [Rng.take]
  | succ n ih =>
    intro st
    simp only [Rng.take]
    cases hg : Rng.get ⟨S, st⟩ fp with
    | none => exact absurd hg (h st)
    | some r =>
      obtain ⟨x, g1⟩ := r
      have hS : g1 = ⟨S, g1.st⟩ := by
        unfold Rng.get at hg
        simp only at hg
        split at hg
        · simp only [Option.some.injEq, Prod.mk.injEq] at hg
          rw [← hg.2]
        · cases hg
      simp only
      have := ih g1.st
      rw [← hS] at this
      cases ht : Rng.take g1 fp n with
      | none => exact absurd ht this
      | some r2 => simp

/-! ### evaluation of the candidate prefixes -/

theorem evalPrefixes_no_panic (gI : Prg Bytes (Pair FI)) (gL : Prg Bytes (Pair FL)) (aggId : Nat)
    (pub : PubShare FI FL) (key : Bytes) (cap : Nat) :
    ∀ (ps : List (List Bool)) (c : List (List Bool × Node Bytes)),
      evalPrefixes gI gL aggId pub key cap ps c ≠ .panic := by
  intro ps
  induction ps with
  | nil => intro c; simp [evalPrefixes]
  | cons p rest ih =>
    intro c
    unfold evalPrefixes
    have hnp := eval_no_panic (ringBufferCache cap) gI gL aggId pub key p c
    generalize eval (ringBufferCache cap) gI gL aggId pub key p c = r at hnp
    obtain ⟨o, c'⟩ := r
    cases o with
    | panic => exact absurd rfl hnp
    | error => simp
    | ok o =>
      simp only
      have := ih c'
      cases hr : evalPrefixes gI gL aggId pub key cap rest c' with
      | panic => exact absurd hr this
      | err => simp
      | ok os => simp

/-- the prefixes all evaluate iff each is non-empty and no longer than the tree (for a valid aggregator id) -/
theorem evalPrefixes_ok_iff (gI : Prg Bytes (Pair FI)) (gL : Prg Bytes (Pair FL)) (aggId : Nat)
    (pub : PubShare FI FL) (key : Bytes) (cap : Nat) (ha : aggId ≤ 1) :
    ∀ (ps : List (List Bool)) (c : List (List Bool × Node Bytes)),
      (∃ outs, evalPrefixes gI gL aggId pub key cap ps c = .ok outs) ↔
        ∀ p ∈ ps, p ≠ [] ∧ p.length ≤ pub.inner.length + 1 := by
  intro ps
  induction ps with
  | nil => intro c; simp [evalPrefixes]
  | cons p rest ih =>
    intro c
    unfold evalPrefixes
    have herr := eval_error_iff (ringBufferCache cap) gI gL aggId pub key p c
    have hnp := eval_no_panic (ringBufferCache cap) gI gL aggId pub key p c
    generalize eval (ringBufferCache cap) gI gL aggId pub key p c = r at herr hnp
    obtain ⟨o, c'⟩ := r
    simp only [List.mem_cons, forall_eq_or_imp]
    cases o with
    | panic => exact absurd rfl hnp
    | error =>
      have := herr.mp rfl
      simp only [reduceCtorEq, exists_false, false_iff, not_and]
      intro h1
      rcases this with h | h | h
      · omega
      · exact absurd h h1.1
      · omega
    | ok o =>
      have hgood : p ≠ [] ∧ p.length ≤ pub.inner.length + 1 := by
        have : ¬ (aggId > 1 ∨ p = [] ∨ p.length > pub.inner.length + 1) := fun hc => by
          have := herr.mpr hc; cases this
        simp only [not_or] at this
        exact ⟨this.2.1, by omega⟩
      simp only
      rw [← ih c']
      cases hr : evalPrefixes gI gL aggId pub key cap rest c' with
      | panic => simp
      | err => simp
      | ok os => simp [hgood]

/-- the types of the values returned: an inner-field conversion fails iff some prefix has full length,
    a leaf-field conversion fails iff some prefix has not -/
theorem evalPrefixes_ok_shape (gI : Prg Bytes (Pair FI)) (gL : Prg Bytes (Pair FL)) (aggId : Nat)
    (pub : PubShare FI FL) (key : Bytes) (cap : Nat) :
    ∀ (ps : List (List Bool)) (c : List (List Bool × Node Bytes)) (outs : List (Output (Pair FI) (Pair FL))),
      evalPrefixes gI gL aggId pub key cap ps c = .ok outs →
        (innerOnly outs = none ↔ ∃ p ∈ ps, p.length = pub.inner.length + 1) ∧
        (leafOnly outs = none ↔ ∃ p ∈ ps, p.length ≠ pub.inner.length + 1) ∧
        (∀ vals, innerOnly outs = some vals → vals.length = ps.length) ∧
        (∀ vals, leafOnly outs = some vals → vals.length = ps.length) := by
  intro ps
  induction ps with
  | nil =>
    intro c outs h
    simp only [evalPrefixes, Res.ok.injEq] at h
    subst h
    simp [innerOnly, leafOnly]
  | cons p rest ih =>
    intro c outs h
    unfold evalPrefixes at h
    have hinv := eval_ok_inv (ringBufferCache cap) gI gL aggId pub key p c
    generalize eval (ringBufferCache cap) gI gL aggId pub key p c = r at h hinv
    obtain ⟨o, c'⟩ := r
    cases o with
    | panic => cases h
    | error => cases h
    | ok o =>
      simp only at h
      cases hr : evalPrefixes gI gL aggId pub key cap rest c' with
      | panic => rw [hr] at h; cases h
      | err => rw [hr] at h; cases h
      | ok os =>
        rw [hr] at h
        simp only [Res.ok.injEq] at h
        subst h
        obtain ⟨i1, i2, i3, i4⟩ := ih c' os hr
        obtain ⟨_, _, _, hsh⟩ := hinv o rfl
        simp only [List.mem_cons, exists_eq_or_imp, List.length_cons]
        rcases hsh with ⟨hl, v, rfl⟩ | ⟨hl, v, rfl⟩
        · simp only [innerOnly, leafOnly, hl, true_or, ne_eq, not_true_eq_false, false_or,
            Option.map_eq_none_iff, reduceCtorEq, false_imp_iff, implies_true, true_and]
          refine ⟨i2, ?_⟩
          intro vals hv
          cases hlo : leafOnly os with
          | none => simp [hlo] at hv
          | some w =>
            simp only [hlo, Option.map_some, Option.some.injEq] at hv
            rw [← hv, List.length_cons, i4 w hlo]
        · simp only [innerOnly, leafOnly, hl, false_or, ne_eq, not_false_eq_true, true_or,
            Option.map_eq_none_iff, reduceCtorEq, false_imp_iff, implies_true, and_true, true_and]
          refine ⟨i1, ?_⟩
          intro vals hv
          cases hlo : innerOnly os with
          | none => simp [hlo] at hv
          | some w =>
            simp only [hlo, Option.map_some, Option.some.injEq] at hv
            rw [← hv, List.length_cons, i3 w hlo]


/-- a uniform form: no stream of the XOF ever exhausts the fuel, in either field -/
def XofLive (cfg : Cfg) (xof : Xof) : Prop :=
  ∀ (seed d binder : Bytes) (st : PrngState),
    Rng.get ⟨xof seed d binder, st⟩ cfg.fi ≠ none ∧ Rng.get ⟨xof seed d binder, st⟩ cfg.fl ≠ none

/-! ### `shard_with_random`: its only panic points are the PRNG draws -/

/-- every `get` on the stream of `g`, from any buffer state, terminates within the fuel -/
def Rng.Live (g : Rng) (fp : FieldP) : Prop := ∀ st : PrngState, Rng.get ⟨g.S, st⟩ fp ≠ none

theorem Rng.get_of_live (g : Rng) (fp : FieldP) (h : g.Live fp) :
    ∃ x g', g.get fp = some (x, g') ∧ g'.S = g.S := by
  have hg : g.get fp ≠ none := h g.st
  unfold Rng.get at hg ⊢
  split
  · exact ⟨_, _, rfl, rfl⟩
  · rename_i hn; rw [hn] at hg; exact absurd rfl hg

theorem Rng.live_congr {g g' : Rng} (fp : FieldP) (hS : g'.S = g.S) (h : g.Live fp) : g'.Live fp := by
  unfold Rng.Live at *; rw [hS]; exact h

theorem Rng.take_of_live (fp : FieldP) : ∀ (n : Nat) (g : Rng), g.Live fp →
    ∃ xs g', Rng.take g fp n = some (xs, g') ∧ g'.S = g.S := by
  intro n
  induction n with
  | zero => intro g _; exact ⟨[], g, rfl, rfl⟩
  | succ n ih =>
    intro g h
    obtain ⟨x, g1, e1, s1⟩ := Rng.get_of_live g fp h
    obtain ⟨xs, g2, e2, s2⟩ := ih g1 (Rng.live_congr fp s1 h)
    exact ⟨x :: xs, g2, by simp [Rng.take, e1, e2], by rw [s2, s1]⟩

section corr
variable {F : Type} [Add F] [Sub F] [Mul F] [Neg F] [Zero F] [One F] [BEq F]

theorem nextCorrShares_of_live (ofNat : Nat → F) (fp : FieldP) (prng c0 c1 : Rng) (auth : F)
    (hp : prng.Live fp) (h0 : c0.Live fp) (h1 : c1.Live fp) :
    ∃ x0 x1 p' c0' c1', nextCorrShares ofNat fp prng c0 c1 auth = some (x0, x1, p', c0', c1') ∧
      p'.S = prng.S ∧ c0'.S = c0.S ∧ c1'.S = c1.S := by
  obtain ⟨a0, c0a, e1, s1⟩ := Rng.get_of_live c0 fp h0
  obtain ⟨a1, c1a, e2, t1⟩ := Rng.get_of_live c1 fp h1
  obtain ⟨b0, c0b, e3, s2⟩ := Rng.get_of_live c0a fp (Rng.live_congr fp s1 h0)
  obtain ⟨b1, c1b, e4, t2⟩ := Rng.get_of_live c1a fp (Rng.live_congr fp t1 h1)
  obtain ⟨d0, c0c, e5, s3⟩ := Rng.get_of_live c0b fp (Rng.live_congr fp (by rw [s2, s1]) h0)
  obtain ⟨d1, c1c, e6, t3⟩ := Rng.get_of_live c1b fp (Rng.live_congr fp (by rw [t2, t1]) h1)
  obtain ⟨x, pa, e7, u1⟩ := Rng.get_of_live prng fp hp
  obtain ⟨y, pb, e8, u2⟩ := Rng.get_of_live pa fp (Rng.live_congr fp u1 hp)
  have e : ∃ x0 x1, nextCorrShares ofNat fp prng c0 c1 auth = some (x0, x1, pb, c0c, c1c) := by
    simp [nextCorrShares, e1, e2, e3, e4, e5, e6, e7, e8]
  obtain ⟨x0, x1, e⟩ := e
  exact ⟨x0, x1, pb, c0c, c1c, e, by rw [u2, u1], by rw [s3, s2, s1], by rw [t3, t2, t1]⟩

end corr

theorem corrInnerLoop_of_live (ofI : Nat → FI) (fp : FieldP) :
    ∀ (auths : List FI) (prng c0 c1 : Rng), prng.Live fp → c0.Live fp → c1.Live fp →
      ∃ l0 l1 p', corrInnerLoop ofI fp auths prng c0 c1 = some (l0, l1, p') ∧ p'.S = prng.S := by
  intro auths
  induction auths with
  | nil => intro prng c0 c1 _ _ _; exact ⟨[], [], prng, rfl, rfl⟩
  | cons a rest ih =>
    intro prng c0 c1 hp h0 h1
    obtain ⟨x0, x1, p', c0', c1', e, sp, s0, s1⟩ := nextCorrShares_of_live ofI fp prng c0 c1 a hp h0 h1
    obtain ⟨l0, l1, p'', e', sp'⟩ := ih p' c0' c1' (Rng.live_congr fp sp hp) (Rng.live_congr fp s0 h0)
      (Rng.live_congr fp s1 h1)
    exact ⟨x0 :: l0, x1 :: l1, p'', by simp [corrInnerLoop, e, e'], by rw [sp', sp]⟩

/-- **`shard` never panics** when the XOF streams do not exhaust the sampling fuel: any input length,
    any `bits` (including 0), any keys and seeds -/
theorem shard_no_panic (cfg : Cfg) (ofI : Nat → FI) (ofL : Nat → FL) (xof : Xof)
    (gI : Prg Bytes (Pair FI)) (gL : Prg Bytes (Pair FL))
    (ctx : Bytes) (input : List Bool) (nonce k0 k1 pr0 pr1 pr2 : Bytes) (hx : XofLive cfg xof) :
    shard cfg ofI ofL xof gI gL ctx input nonce k0 k1 pr0 pr1 pr2 ≠ .panic := by
  have liveI : ∀ seed usage binder sz, (Rng.init xof seed usage ctx binder sz).Live cfg.fi :=
    fun seed usage binder sz st => (hx seed (dst usage ctx) binder st).1
  have liveL : ∀ seed usage binder sz, (Rng.init xof seed usage ctx binder sz).Live cfg.fl :=
    fun seed usage binder sz st => (hx seed (dst usage ctx) binder st).2
  have liveL' : ∀ (g : Rng) seed usage binder sz, g.S = (Rng.init xof seed usage ctx binder sz).S → g.Live cfg.fl :=
    fun g seed usage binder sz hS => Rng.live_congr cfg.fl hS (liveL seed usage binder sz)
  have liveI' : ∀ (g : Rng) seed usage binder sz, g.S = (Rng.init xof seed usage ctx binder sz).S → g.Live cfg.fi :=
    fun g seed usage binder sz hS => Rng.live_congr cfg.fi hS (liveI seed usage binder sz)
  unfold shard
  split
  · simp
  split
  · simp
  simp only
  obtain ⟨authsN, p1, e1, s1⟩ := Rng.take_of_live cfg.fi (cfg.bits - 1) _ (liveI pr2 usageShard nonce cfg.fi.sz)
  rw [e1]
  simp only
  obtain ⟨al, p2, e2, s2⟩ := Rng.get_of_live p1 cfg.fl (liveL' p1 _ _ _ _ s1)
  rw [e2]
  simp only
  split
  · simp
  · obtain ⟨l0, l1, p3, e3, s3⟩ := corrInnerLoop_of_live ofI cfg.fi (authsN.map ofI) p2
      (Rng.init xof pr0 usageCorrInner ctx ([0] ++ nonce) cfg.fi.sz)
      (Rng.init xof pr1 usageCorrInner ctx ([1] ++ nonce) cfg.fi.sz)
      (liveI' p2 _ _ _ _ (by rw [s2, s1])) (liveI _ _ _ _) (liveI _ _ _ _)
    rw [e3]
    simp only
    obtain ⟨x0, x1, p4, c0', c1', e4, _, _, _⟩ := nextCorrShares_of_live ofL cfg.fl p3
      (Rng.init xof pr0 usageCorrLeaf ctx ([0] ++ nonce) cfg.fl.sz)
      (Rng.init xof pr1 usageCorrLeaf ctx ([1] ++ nonce) cfg.fl.sz) (ofL al)
      (liveL' p3 _ _ _ _ (by rw [s3, s2, s1])) (liveL _ _ _ _) (liveL _ _ _ _)
    rw [e4]
    simp

/-! ### `verify_init` -/

/-- the external hypothesis: the draws that `verify_init` makes from its two XOF streams (the
    correlated-randomness stream up to the level in use, the verification-randomness stream once per
    prefix) terminate within the fuel of the rejection-sampling loop -/
def VerifyFuel (cfg : Cfg) (xof : Xof) (verifyKey ctx : Bytes) (aggId : Nat) (ap : AggParam)
    (nonce corrSeed : Bytes) : Prop :=
  if ap.level + 1 < cfg.bits then
    Rng.take (Rng.init xof corrSeed usageCorrInner ctx ([aggId] ++ nonce) cfg.fi.sz) cfg.fi (3 * ap.level + 3) ≠ none ∧
    Rng.take (Rng.init xof verifyKey usageVerify ctx (nonce ++ beBytes ap.level 2) cfg.fi.sz) cfg.fi
      ap.prefixes.length ≠ none
  else
    Rng.take (Rng.init xof corrSeed usageCorrLeaf ctx ([aggId] ++ nonce) cfg.fl.sz) cfg.fl 3 ≠ none ∧
    Rng.take (Rng.init xof verifyKey usageVerify ctx (nonce ++ beBytes ap.level 2) cfg.fl.sz) cfg.fl
      ap.prefixes.length ≠ none

theorem verifyFuel_of_live (cfg : Cfg) (xof : Xof) (h : XofLive cfg xof) (verifyKey ctx : Bytes) (aggId : Nat)
    (ap : AggParam) (nonce corrSeed : Bytes) : VerifyFuel cfg xof verifyKey ctx aggId ap nonce corrSeed := by
  have hi : ∀ seed usage binder sz n, Rng.take (Rng.init xof seed usage ctx binder sz) cfg.fi n ≠ none := by
    intro seed usage binder sz n
    exact Rng.take_ne_none_of_get cfg.fi _ (fun st => (h seed (dst usage ctx) binder st).1) n _
  have hl : ∀ seed usage binder sz n, Rng.take (Rng.init xof seed usage ctx binder sz) cfg.fl n ≠ none := by
    intro seed usage binder sz n
    exact Rng.take_ne_none_of_get cfg.fl _ (fun st => (h seed (dst usage ctx) binder st).2) n _
  unfold VerifyFuel
  split
  · exact ⟨hi _ _ _ _ _, hi _ _ _ _ _⟩
  · exact ⟨hl _ _ _ _ _, hl _ _ _ _ _⟩

/-- the arguments on which the model of `verify_init` reaches a panic (given the fuel): the three guards
    pass, every prefix evaluates, and a prefix has the wrong type for the branch taken — a full-length
    prefix while `level + 1 < bits` ("leaf share converted into the inner field"), or a shorter one
    while `level + 1 ≥ bits` -/
def PanicArgs (cfg : Cfg) (aggId : Nat) (ap : AggParam) (pub : PubShare FI FL) (share : InputShare FI FL) : Prop :=
  aggId ≤ 1 ∧ pub.inner.length + 1 = cfg.bits ∧ share.corrInner.length + 1 = cfg.bits ∧
  (∀ p ∈ ap.prefixes, p ≠ [] ∧ p.length ≤ cfg.bits) ∧
  (if ap.level + 1 < cfg.bits then ∃ p ∈ ap.prefixes, p.length = cfg.bits
   else ∃ p ∈ ap.prefixes, p.length ≠ cfg.bits)

theorem verifyInit_panic_iff (cfg : Cfg) (ofI : Nat → FI) (ofL : Nat → FL) (xof : Xof)
    (gI : Prg Bytes (Pair FI)) (gL : Prg Bytes (Pair FL))
    (verifyKey ctx : Bytes) (aggId : Nat) (ap : AggParam) (nonce : Bytes)
    (pub : PubShare FI FL) (share : InputShare FI FL)
    (hf : VerifyFuel cfg xof verifyKey ctx aggId ap nonce share.corrSeed) :
    verifyInit cfg ofI ofL xof gI gL verifyKey ctx aggId ap nonce pub share = .panic ↔
      PanicArgs cfg aggId ap pub share := by
  unfold verifyInit PanicArgs
  by_cases h0 : aggId > 1
  · rw [if_pos h0]
    constructor
    · intro h; cases h
    · intro h; omega
  rw [if_neg h0]
  by_cases h1 : pub.inner.length + 1 ≠ cfg.bits ∨ share.corrInner.length + 1 ≠ cfg.bits
  · rw [if_pos h1]
    constructor
    · intro h; cases h
    · intro h; omega
  rw [if_neg h1]
  have hb1 : pub.inner.length + 1 = cfg.bits := by omega
  have hb2 : share.corrInner.length + 1 = cfg.bits := by omega
  have hok := evalPrefixes_ok_iff gI gL aggId pub share.idpfKey ap.prefixes.length (by omega : aggId ≤ 1)
    ap.prefixes []
  have hnp := evalPrefixes_no_panic gI gL aggId pub share.idpfKey ap.prefixes.length ap.prefixes []
  have hsh := evalPrefixes_ok_shape gI gL aggId pub share.idpfKey ap.prefixes.length ap.prefixes []
  rw [hb1] at hok hsh
  simp only [show aggId ≤ 1 from by omega, hb1, hb2, true_and]
  unfold VerifyFuel at hf
  by_cases hlev : ap.level + 1 < cfg.bits
  · rw [if_pos hlev] at hf ⊢
    rw [if_pos hlev]
    obtain ⟨hf1, hf2⟩ := hf
    obtain ⟨xs, corr', e1, e2⟩ := Rng.take_split cfg.fi (3 * ap.level) 3 _ hf1
    obtain ⟨a, b, c, g', e3⟩ := Rng.take_three cfg.fi corr' e2
    simp only [e1, e3]
    cases hev : evalPrefixes gI gL aggId pub share.idpfKey ap.prefixes.length ap.prefixes [] with
    | panic => exact absurd hev hnp
    | err =>
      simp only [reduceCtorEq, false_iff, not_and]
      intro hall
      obtain ⟨outs, ho⟩ := hok.mpr hall
      rw [ho] at hev; cases hev
    | ok outs =>
      have hall := hok.mp ⟨outs, hev⟩
      obtain ⟨s1, _, s3, _⟩ := hsh outs hev
      simp only
      cases hio : innerOnly outs with
      | none =>
        simp only [true_iff]
        exact ⟨hall, s1.mp hio⟩
      | some vals =>
        simp only
        rw [s3 vals hio]
        cases hvt : Rng.take (Rng.init xof verifyKey usageVerify ctx (nonce ++ beBytes ap.level 2) cfg.fi.sz) cfg.fi
            ap.prefixes.length with
        | none => exact absurd hvt hf2
        | some r =>
          obtain ⟨rs, g''⟩ := r
          simp only
          have hlt : ap.level < share.corrInner.length := by omega
          rw [List.getElem?_eq_getElem hlt]
          simp only [reduceCtorEq, false_iff, not_and]
          intro _ hex
          have := s1.mpr hex
          rw [hio] at this; cases this
  · rw [if_neg hlev] at hf ⊢
    rw [if_neg hlev]
    obtain ⟨hf1, hf2⟩ := hf
    obtain ⟨a, b, c, g', e3⟩ := Rng.take_three cfg.fl _ hf1
    simp only [e3]
    cases hev : evalPrefixes gI gL aggId pub share.idpfKey ap.prefixes.length ap.prefixes [] with
    | panic => exact absurd hev hnp
    | err =>
      simp only [reduceCtorEq, false_iff, not_and]
      intro hall
      obtain ⟨outs, ho⟩ := hok.mpr hall
      rw [ho] at hev; cases hev
    | ok outs =>
      have hall := hok.mp ⟨outs, hev⟩
      obtain ⟨_, s2, _, s4⟩ := hsh outs hev
      simp only
      cases hio : leafOnly outs with
      | none =>
        simp only [true_iff]
        exact ⟨hall, s2.mp hio⟩
      | some vals =>
        simp only
        rw [s4 vals hio]
        cases hvt : Rng.take (Rng.init xof verifyKey usageVerify ctx (nonce ++ beBytes ap.level 2) cfg.fl.sz) cfg.fl
            ap.prefixes.length with
        | none => exact absurd hvt hf2
        | some r =>
          obtain ⟨rs, g''⟩ := r
          simp only [reduceCtorEq, false_iff, not_and]
          intro _ hex
          have := s2.mpr hex
          rw [hio] at this; cases this


/-- **`verify_init` never panics on a well-formed aggregation parameter** (all prefixes of length
    `level + 1`, which `Poplar1AggregationParam::try_from_prefixes` and its decoder enforce): whatever
    the aggregator id, the shapes of the public share and input share, the level, the number of prefixes,
    the keys and seeds -/
theorem verifyInit_no_panic (cfg : Cfg) (ofI : Nat → FI) (ofL : Nat → FL) (xof : Xof)
    (gI : Prg Bytes (Pair FI)) (gL : Prg Bytes (Pair FL))
    (verifyKey ctx : Bytes) (aggId : Nat) (ap : AggParam) (nonce : Bytes)
    (pub : PubShare FI FL) (share : InputShare FI FL)
    (hf : VerifyFuel cfg xof verifyKey ctx aggId ap nonce share.corrSeed)
    (hap : ∀ p ∈ ap.prefixes, p.length = ap.level + 1) :
    verifyInit cfg ofI ofL xof gI gL verifyKey ctx aggId ap nonce pub share ≠ .panic := by
  intro h
  obtain ⟨_, _, _, hall, hbad⟩ := (verifyInit_panic_iff cfg ofI ofL xof gI gL verifyKey ctx aggId ap nonce pub share hf).mp h
  split at hbad
  · obtain ⟨p, hp, hl⟩ := hbad
    have := hap p hp
    omega
  · obtain ⟨p, hp, hl⟩ := hbad
    have := hap p hp
    have := (hall p hp).2
    omega

/-- the same with the uniform hypothesis on the XOF -/
theorem verifyInit_no_panic_of_live (cfg : Cfg) (ofI : Nat → FI) (ofL : Nat → FL) (xof : Xof)
    (gI : Prg Bytes (Pair FI)) (gL : Prg Bytes (Pair FL))
    (verifyKey ctx : Bytes) (aggId : Nat) (ap : AggParam) (nonce : Bytes)
    (pub : PubShare FI FL) (share : InputShare FI FL)
    (hx : XofLive cfg xof) (hap : ∀ p ∈ ap.prefixes, p.length = ap.level + 1) :
    verifyInit cfg ofI ofL xof gI gL verifyKey ctx aggId ap nonce pub share ≠ .panic :=
  verifyInit_no_panic cfg ofI ofL xof gI gL verifyKey ctx aggId ap nonce pub share
    (verifyFuel_of_live cfg xof hx verifyKey ctx aggId ap nonce share.corrSeed) hap

/-- the weakest precondition on the prefixes, when the guards pass: no full-length prefix below the
    leaf level and only full-length prefixes at it, or some prefix that `Idpf::eval` rejects -/
theorem verifyInit_no_panic_iff (cfg : Cfg) (ofI : Nat → FI) (ofL : Nat → FL) (xof : Xof)
    (gI : Prg Bytes (Pair FI)) (gL : Prg Bytes (Pair FL))
    (verifyKey ctx : Bytes) (aggId : Nat) (ap : AggParam) (nonce : Bytes)
    (pub : PubShare FI FL) (share : InputShare FI FL)
    (hf : VerifyFuel cfg xof verifyKey ctx aggId ap nonce share.corrSeed)
    (ha : aggId ≤ 1) (hb1 : pub.inner.length + 1 = cfg.bits) (hb2 : share.corrInner.length + 1 = cfg.bits) :
    verifyInit cfg ofI ofL xof gI gL verifyKey ctx aggId ap nonce pub share ≠ .panic ↔
      ((∃ p ∈ ap.prefixes, p = [] ∨ p.length > cfg.bits) ∨
       (if ap.level + 1 < cfg.bits then ∀ p ∈ ap.prefixes, p.length ≠ cfg.bits
        else ∀ p ∈ ap.prefixes, p.length = cfg.bits)) := by
  rw [ne_eq, verifyInit_panic_iff cfg ofI ofL xof gI gL verifyKey ctx aggId ap nonce pub share hf]
  unfold PanicArgs
  simp only [ha, hb1, hb2, true_and, not_and]
  constructor
  · intro h
    by_cases hall : ∀ p ∈ ap.prefixes, p ≠ [] ∧ p.length ≤ cfg.bits
    · right
      have := h hall
      split
      · rename_i hl
        rw [if_pos hl] at this
        intro p hp hlen; exact this ⟨p, hp, hlen⟩
      · rename_i hl
        rw [if_neg hl] at this
        intro p hp
        by_contra hne
        exact this ⟨p, hp, hne⟩
    · left
      simp only [not_forall] at hall
      obtain ⟨p, hp, hbad⟩ := hall
      refine ⟨p, hp, ?_⟩
      by_cases hpe : p = []
      · exact Or.inl hpe
      · right
        simp only [hpe, ne_eq, not_false_eq_true, true_and] at hbad
        omega
  · intro h hall
    rcases h with ⟨p, hp, hbad⟩ | h
    · have := hall p hp
      rcases hbad with hbad | hbad
      · exact absurd hbad this.1
      · omega
    · split
      · rename_i hl
        rw [if_pos hl] at h
        rintro ⟨p, hp, hlen⟩; exact h p hp hlen
      · rename_i hl
        rw [if_neg hl] at h
        rintro ⟨p, hp, hlen⟩; exact hlen (h p hp)

/-- **reachable in the model**: below the leaf level, a full-length prefix among otherwise evaluable
    prefixes makes `verify_init` panic ("leaf share converted into the inner field").  The Rust type
    `Poplar1AggregationParam` excludes it (its fields are private and both constructors force every
    prefix to `level + 1` bits); nothing in `verify_init` itself checks it. -/
theorem verifyInit_panics_on_full_length_prefix (cfg : Cfg) (ofI : Nat → FI) (ofL : Nat → FL) (xof : Xof)
    (gI : Prg Bytes (Pair FI)) (gL : Prg Bytes (Pair FL))
    (verifyKey ctx : Bytes) (aggId : Nat) (ap : AggParam) (nonce : Bytes)
    (pub : PubShare FI FL) (share : InputShare FI FL)
    (hf : VerifyFuel cfg xof verifyKey ctx aggId ap nonce share.corrSeed)
    (ha : aggId ≤ 1) (hb1 : pub.inner.length + 1 = cfg.bits) (hb2 : share.corrInner.length + 1 = cfg.bits)
    (hlev : ap.level + 1 < cfg.bits)
    (hall : ∀ p ∈ ap.prefixes, p ≠ [] ∧ p.length ≤ cfg.bits)
    (p : List Bool) (hp : p ∈ ap.prefixes) (hlen : p.length = cfg.bits) :
    verifyInit cfg ofI ofL xof gI gL verifyKey ctx aggId ap nonce pub share = .panic := by
  rw [verifyInit_panic_iff cfg ofI ofL xof gI gL verifyKey ctx aggId ap nonce pub share hf]
  exact ⟨ha, hb1, hb2, hall, by rw [if_pos hlev]; exact ⟨p, hp, hlen⟩⟩

/-- **reachable in the model**: at (or beyond) the leaf level, a shorter prefix among otherwise evaluable
    prefixes makes `verify_init` panic (inner share converted into the leaf field) -/
theorem verifyInit_panics_on_short_prefix (cfg : Cfg) (ofI : Nat → FI) (ofL : Nat → FL) (xof : Xof)
    (gI : Prg Bytes (Pair FI)) (gL : Prg Bytes (Pair FL))
    (verifyKey ctx : Bytes) (aggId : Nat) (ap : AggParam) (nonce : Bytes)
    (pub : PubShare FI FL) (share : InputShare FI FL)
    (hf : VerifyFuel cfg xof verifyKey ctx aggId ap nonce share.corrSeed)
    (ha : aggId ≤ 1) (hb1 : pub.inner.length + 1 = cfg.bits) (hb2 : share.corrInner.length + 1 = cfg.bits)
    (hlev : ¬ ap.level + 1 < cfg.bits)
    (hall : ∀ p ∈ ap.prefixes, p ≠ [] ∧ p.length ≤ cfg.bits)
    (p : List Bool) (hp : p ∈ ap.prefixes) (hlen : p.length < cfg.bits) :
    verifyInit cfg ofI ofL xof gI gL verifyKey ctx aggId ap nonce pub share = .panic := by
  rw [verifyInit_panic_iff cfg ofI ofL xof gI gL verifyKey ctx aggId ap nonce pub share hf]
  exact ⟨ha, hb1, hb2, hall, by rw [if_neg hlev]; exact ⟨p, hp, by omega⟩⟩

/-- the guards alone settle the remaining panic points: an empty prefix list, any level, any number of
    prefixes never panic -/
theorem verifyInit_no_panic_nil (cfg : Cfg) (ofI : Nat → FI) (ofL : Nat → FL) (xof : Xof)
    (gI : Prg Bytes (Pair FI)) (gL : Prg Bytes (Pair FL))
    (verifyKey ctx : Bytes) (aggId : Nat) (level : Nat) (nonce : Bytes)
    (pub : PubShare FI FL) (share : InputShare FI FL)
    (hf : VerifyFuel cfg xof verifyKey ctx aggId ⟨level, []⟩ nonce share.corrSeed) :
    verifyInit cfg ofI ofL xof gI gL verifyKey ctx aggId ⟨level, []⟩ nonce pub share ≠ .panic :=
  verifyInit_no_panic cfg ofI ofL xof gI gL verifyKey ctx aggId ⟨level, []⟩ nonce pub share hf (by simp)

end protocol
end Prio.Poplar1

/-! ## NTT: success whenever the roots of unity are available -/
namespace Prio.Ntt

variable {F : Type} [Add F] [Sub F] [Mul F] [Neg F] [Zero F] [One F]

/-- the level loop finds every root it asks for when levels `1 … top` are available -/
theorem lLoop_ne_none (root : Nat → Option F) (size : Nat) (setS : Bool) (top : Nat)
    (hroot : ∀ k, 1 ≤ k → k ≤ top → root k ≠ none) :
    ∀ (n l : Nat) (a : Array F), 1 ≤ l → l + n ≤ top + 1 → (setS = true → l + n ≤ top) →
      lLoop root size setS n l a ≠ none := by
  intro n
  induction n with
  | zero => intro l a _ _ _; simp [lLoop]
  | succ n ih =>
    intro l a hl h1 h2
    simp only [lLoop]
    have hr : root l ≠ none := hroot l hl (by omega)
    cases hrl : root l with
    | none => exact absurd hrl hr
    | some r =>
      cases setS with
      | false =>
        simp only [Bool.false_eq_true, if_false]
        exact ih (l + 1) _ (by omega) (by omega) (by simp)
      | true =>
        have h2' := h2 rfl
        have hr1 : root (l + 1) ≠ none := hroot (l + 1) (by omega) (by omega)
        cases hrl1 : root (l + 1) with
        | none => exact absurd hrl1 hr1
        | some w =>
          simp only [if_true]
          exact ih (l + 1) _ (by omega) (by omega) (fun _ => by omega)

/-- `ntt_internal` of a power-of-two size within the limits succeeds -/
theorem nttInternal_ok (root : Nat → Option F) (outLen : Nat) (outp inp : Array F) (d : Nat) (setS : Bool)
    (hol : 2 ^ d ≤ outLen) (hd : d ≤ maxRoots) (hds : setS = true → d + 1 ≤ maxRoots)
    (hin : d = 0 → inp.size ≠ 0) (hroot : ∀ k, 1 ≤ k → k ≤ maxRoots → root k ≠ none) :
    ∃ a, nttInternal root outLen outp inp (2 ^ d) setS = .ok a := by
  unfold nttInternal
  have hpos : 0 < 2 ^ d := Nat.pow_pos (by norm_num)
  rw [if_neg (by omega)]
  simp only [log2ceil_two_pow]
  rw [if_neg (by omega)]
  have hlim : ((setS && decide (2 ^ d > 2 ^ (maxRoots - 1))) || decide (2 ^ d > 2 ^ maxRoots)) = false := by
    have h1 : ¬ 2 ^ d > 2 ^ maxRoots := by
      have := Nat.pow_le_pow_right (by norm_num : 0 < 2) hd; omega
    cases hs : setS
    · simp [h1]
    · have h2 : ¬ 2 ^ d > 2 ^ (maxRoots - 1) := by
        have := Nat.pow_le_pow_right (by norm_num : 0 < 2) (show d ≤ maxRoots - 1 by have := hds hs; omega); omega
      simp [h1, h2]
  rw [hlim]
  simp only [Bool.false_eq_true, if_false, ne_eq, not_true_eq_false]
  have final : ∀ a0 : Array F, ∃ a, (match lLoop root (2 ^ d) setS d 1 a0 with
      | some r => R.ok r
      | none => R.panic) = R.ok a := by
    intro a0
    have := lLoop_ne_none root (2 ^ d) setS maxRoots hroot d 1 a0 (le_refl 1) (by omega)
      (fun hs => by have := hds hs; omega)
    cases hl : lLoop root (2 ^ d) setS d 1 a0 with
    | none => exact absurd hl this
    | some r => exact ⟨r, rfl⟩
  by_cases hd0 : d > 0
  · rw [if_pos hd0]; exact final _
  · rw [if_neg hd0, if_neg (hin (by omega))]; exact final _

/-- **`ntt_internal` returns `Ok` or `Err`, never panics**, for a non-zero size and a non-empty input
    whenever the roots of unity of levels `1 … MAX_ROOTS` exist -/
theorem nttInternal_no_panic (root : Nat → Option F) (outLen : Nat) (outp inp : Array F) (size : Nat) (setS : Bool)
    (h0 : size ≠ 0) (hin : size = 1 → inp.size ≠ 0) (hroot : ∀ k, 1 ≤ k → k ≤ maxRoots → root k ≠ none) :
    nttInternal root outLen outp inp size setS ≠ .panic := by
  by_cases h1 : size > outLen
  · unfold nttInternal; simp [h0, h1]
  by_cases h2 : ((setS && decide (size > 2 ^ (maxRoots - 1))) || decide (size > 2 ^ maxRoots)) = true
  · unfold nttInternal; simp only [h0, h1, if_false]; rw [if_pos h2]; simp
  by_cases h3 : size ≠ 2 ^ log2ceil size
  · unfold nttInternal; simp only [h0, h1, if_false]; rw [if_neg h2, if_pos h3]; simp
  simp only [ne_eq, not_not] at h3
  have h2a : ¬ size > 2 ^ maxRoots := by
    intro hc; apply h2; simp [hc]
  have h2b : setS = true → ¬ size > 2 ^ (maxRoots - 1) := by
    intro hs hc; apply h2; simp [hs, hc]
  have hd : log2ceil size ≤ maxRoots := by
    by_contra hc
    have : 2 ^ (maxRoots + 1) ≤ 2 ^ log2ceil size := Nat.pow_le_pow_right (by norm_num) (by omega)
    have h22 : 2 ^ (maxRoots + 1) = 2 * 2 ^ maxRoots := by rw [pow_succ]; ring
    have : 0 < 2 ^ maxRoots := Nat.pow_pos (by norm_num)
    omega
  have hds : setS = true → log2ceil size + 1 ≤ maxRoots := by
    intro hs
    by_contra hc
    have hm1 : 1 ≤ maxRoots := by decide
    have hmr : maxRoots - 1 + 1 ≤ log2ceil size := by omega
    have : 2 ^ (maxRoots - 1 + 1) ≤ 2 ^ log2ceil size := Nat.pow_le_pow_right (by norm_num) hmr
    have h22 : 2 ^ (maxRoots - 1 + 1) = 2 * 2 ^ (maxRoots - 1) := by rw [pow_succ]; ring
    have : 0 < 2 ^ (maxRoots - 1) := Nat.pow_pos (by norm_num)
    have := h2b hs
    omega
  have hin' : log2ceil size = 0 → inp.size ≠ 0 := by
    intro hz; apply hin; rw [h3, hz]; rfl
  obtain ⟨a, ha⟩ := nttInternal_ok root outLen outp inp (log2ceil size) setS (by rw [← h3]; omega) hd hds hin' hroot
  rw [← h3] at ha
  rw [ha]; simp

end Prio.Ntt

/-! ## Prio2 -/
namespace Prio.Prio2
open Prio.Ntt Prio.Flp

theorem nextPow2_eq_pow (n : Nat) : ∃ k, nextPow2 n = 2 ^ k := by
  unfold nextPow2; split
  · exact ⟨0, rfl⟩
  · exact ⟨_, rfl⟩

theorem le_nextPow2 (n : Nat) : n ≤ nextPow2 n := by
  unfold nextPow2; split
  · omega
  · rename_i h
    have h1 : n - 1 < 2 ^ (Nat.log2 (n - 1) + 1) := by
      rw [Nat.log2_eq_log_two]; exact Nat.lt_pow_succ_log_self (by norm_num) _
    omega

variable {F : Type} [Add F] [Sub F] [Mul F] [Neg F] [Zero F] [One F] [Inv F] [BEq F]

theorem padTo_length (n : Nat) (l : List F) : (padTo n l).length = l.length + (n - l.length) := by
  simp [padTo]

theorem flatMap_pair_length (l : List F) : (l.flatMap fun x => [0, x]).length = 2 * l.length := by
  induction l with
  | nil => rfl
  | cons a r ih => simp only [List.flatMap_cons, List.length_append, List.length_cons, List.length_nil, ih]; omega

theorem hPoints_length (h0 : F) (packed : List F) (hp : 1 ≤ packed.length) :
    (hPoints h0 packed).length = 2 * packed.length := by
  cases packed with
  | nil => simp at hp
  | cons p0 rest =>
    simp only [hPoints, List.length_cons, flatMap_pair_length]; omega

/-- `poly_interpret_eval` succeeds on `2^d ≤ 2^MAX_ROOTS` points -/
theorem polyInterpretEval_isSome (C : FieldCtx F) (points : Array F) (x : F) (d : Nat)
    (hsz : points.size = 2 ^ d) (hd : d ≤ maxRoots) (hroot : ∀ k, 1 ≤ k → k ≤ maxRoots → C.root k ≠ none) :
    ∃ v, polyInterpretEval C points x = some v := by
  unfold polyInterpretEval
  simp only
  rw [hsz]
  have hpos : 0 < 2 ^ d := Nat.pow_pos (by norm_num)
  obtain ⟨a, ha⟩ := nttInternal_ok C.root (2 ^ d) (Array.replicate (2 ^ d) 0) points d false (le_refl _) hd
    (by simp) (fun _ => by omega) hroot
  rw [ha]
  exact ⟨_, rfl⟩

/-- beyond the limit the transform reports `SizeTooLarge`, which `poly_interpret_eval` unwraps -/
theorem polyInterpretEval_none_of_large (C : FieldCtx F) (points : Array F) (x : F)
    (h : points.size > 2 ^ maxRoots) : polyInterpretEval C points x = none := by
  unfold polyInterpretEval nttInternal
  have h0 : points.size ≠ 0 := by have : 0 < 2 ^ maxRoots := Nat.pow_pos (by norm_num); omega
  simp [h0, h]

/-- **`generate_verification_message` within the transform limit never panics**: any proof share
    (any length), any evaluation point, either server -/
theorem generateVerificationMessage_no_panic (C : FieldCtx F) (dim : Nat) (evalAt : F) (proof : List F) (isFirst : Bool)
    (hlim : 2 * nextPow2 (dim + 1) ≤ 2 ^ maxRoots)
    (hroot : ∀ k, 1 ≤ k → k ≤ maxRoots → C.root k ≠ none) :
    generateVerificationMessage C dim evalAt proof isFirst ≠ .panic := by
  unfold generateVerificationMessage
  by_cases hlen : proof.length ≠ proofLength dim
  · rw [if_pos hlen]; simp
  rw [if_neg hlen]
  simp only [ne_eq, not_not] at hlen
  unfold proofLength at hlen
  obtain ⟨k, hk⟩ := nextPow2_eq_pow (dim + 1)
  have hle := le_nextPow2 (dim + 1)
  have hk1 : 2 ^ (k + 1) = 2 * 2 ^ k := by rw [pow_succ]; ring
  have hkm : k + 1 ≤ maxRoots := by
    by_contra hc
    have : 2 ^ (maxRoots + 1) ≤ 2 ^ (k + 1) := Nat.pow_le_pow_right (by norm_num) (by omega)
    have h22 : 2 ^ (maxRoots + 1) = 2 * 2 ^ maxRoots := by rw [pow_succ]; ring
    have : 0 < 2 ^ maxRoots := Nat.pow_pos (by norm_num)
    omega
  have htake : (proof.take dim).length = dim := by simp; omega
  have hdrop : (proof.drop (dim + 3)).length = 2 ^ k := by simp; omega
  have hkpos : 0 < 2 ^ k := Nat.pow_pos (by norm_num)
  simp only
  -- the three point vectors have sizes n, n, 2n
  have sF : ((padTo (nextPow2 (dim + 1)) (proof.getD dim 0 :: proof.take dim)).toArray).size = 2 ^ k := by
    rw [List.size_toArray, padTo_length, List.length_cons, htake, hk]; omega
  have sG : ((padTo (nextPow2 (dim + 1)) (proof.getD (dim + 1) 0 ::
      (if isFirst then (proof.take dim).map (· - 1) else proof.take dim))).toArray).size = 2 ^ k := by
    rw [List.size_toArray, padTo_length, List.length_cons]
    have : (if isFirst then (proof.take dim).map (· - 1) else proof.take dim).length = dim := by
      split
      · rw [List.length_map, htake]
      · exact htake
    rw [this, hk]; omega
  have sH : ((padTo (2 * nextPow2 (dim + 1)) (hPoints (proof.getD (dim + 2) 0) (proof.drop (dim + 3)))).toArray).size
      = 2 ^ (k + 1) := by
    rw [List.size_toArray, padTo_length, hPoints_length _ _ (by omega), hdrop, hk, hk1]; omega
  obtain ⟨f, hf⟩ := polyInterpretEval_isSome C _ evalAt k sF (by omega) hroot
  obtain ⟨g, hg⟩ := polyInterpretEval_isSome C _ evalAt k sG (by omega) hroot
  obtain ⟨h, hh⟩ := polyInterpretEval_isSome C _ evalAt (k + 1) sH hkm hroot
  rw [hf, hg, hh]
  simp

/-- **beyond the limit it panics** (in the model): a proof share of the right length for a dimension
    with `2 * next_pow2(dim + 1) > 2^MAX_ROOTS` reaches the `unwrap()` of `poly_interpret_eval` on the
    `SizeTooLarge` error.  `Prio2::new` rejects such a dimension, so only a hand-built instance gets here. -/
theorem generateVerificationMessage_panic_of_large (C : FieldCtx F) (dim : Nat) (evalAt : F) (proof : List F)
    (isFirst : Bool) (hlen : proof.length = proofLength dim)
    (hbig : 2 ^ maxRoots < 2 * nextPow2 (dim + 1)) :
    generateVerificationMessage C dim evalAt proof isFirst = .panic := by
  unfold generateVerificationMessage
  rw [if_neg (by simpa using hlen)]
  unfold proofLength at hlen
  have hle := le_nextPow2 (dim + 1)
  have hdrop : (proof.drop (dim + 3)).length = nextPow2 (dim + 1) := by simp; omega
  have sH : ((padTo (2 * nextPow2 (dim + 1)) (hPoints (proof.getD (dim + 2) 0) (proof.drop (dim + 3)))).toArray).size
      > 2 ^ maxRoots := by
    rw [List.size_toArray, padTo_length, hPoints_length _ _ (by omega), hdrop]; omega
  have hh := polyInterpretEval_none_of_large C _ evalAt sH
  simp only
  rw [hh]
  split
  · rename_i heq; cases heq
  · rfl

/-- with the roots of unity available, the panic of `generate_verification_message` is exactly the
    oversized dimension met with a proof share of matching length -/
theorem generateVerificationMessage_panic_iff (C : FieldCtx F) (dim : Nat) (evalAt : F) (proof : List F)
    (isFirst : Bool) (hroot : ∀ k, 1 ≤ k → k ≤ maxRoots → C.root k ≠ none) :
    generateVerificationMessage C dim evalAt proof isFirst = .panic ↔
      proof.length = proofLength dim ∧ 2 ^ maxRoots < 2 * nextPow2 (dim + 1) := by
  constructor
  · intro h
    by_cases hlen : proof.length = proofLength dim
    · refine ⟨hlen, ?_⟩
      by_contra hc
      exact generateVerificationMessage_no_panic C dim evalAt proof isFirst (by omega) hroot h
    · unfold generateVerificationMessage at h
      rw [if_pos hlen] at h; cases h
  · rintro ⟨h1, h2⟩
    exact generateVerificationMessage_panic_of_large C dim evalAt proof isFirst h1 h2

theorem verifyInitWithQueryRand_no_panic (C : FieldCtx F) (dim : Nat) (queryRand : F) (share : List F) (isLeader : Bool)
    (hlim : 2 * nextPow2 (dim + 1) ≤ 2 ^ maxRoots)
    (hroot : ∀ k, 1 ≤ k → k ≤ maxRoots → C.root k ≠ none) :
    verifyInitWithQueryRand C dim queryRand share isLeader ≠ .panic := by
  unfold verifyInitWithQueryRand
  have := generateVerificationMessage_no_panic C dim queryRand share isLeader hlim hroot
  cases h : generateVerificationMessage C dim queryRand share isLeader with
  | panic => exact absurd h this
  | err => simp
  | ok v => simp

end Prio.Prio2

/- axiom check (all: subsets of [propext, Classical.choice, Quot.sound])
#print axioms Prio.Poplar1.nextMessage_no_panic
#print axioms Prio.Poplar1.sharesToMessage_no_panic
#print axioms Prio.Poplar1.verifyNext_no_panic
#print axioms Prio.Idpf.eval_no_panic
#print axioms Prio.Idpf.eval_ok_inv
#print axioms Prio.Poplar1.shard_no_panic
#print axioms Prio.Poplar1.verifyInit_panic_iff
#print axioms Prio.Poplar1.verifyInit_no_panic
#print axioms Prio.Poplar1.verifyInit_no_panic_iff
#print axioms Prio.Ntt.nttInternal_no_panic
#print axioms Prio.Prio2.generateVerificationMessage_no_panic
#print axioms Prio.Prio2.generateVerificationMessage_panic_iff
#print axioms Prio.Prio2.verifyInitWithQueryRand_no_panic
-/
