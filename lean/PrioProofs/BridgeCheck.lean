import PrioModel.DriverInst
import PrioProofs.Bridge

/-! The instance terms spelled out in `PrioProofs/Bridge.lean` (`dValid`, `dProve`, `dQuery`, `dDecide`, `dNttInternal`,
    `dNttInv`) are exactly what an import-free elaboration — the driver's — produces (`PrioModel/DriverInst.lean`):
    every equation below is `rfl`.  Together with `Bridge.dQuery_eq` etc. this identifies the functions the driver runs
    with the functions the theorems are about, for every prime modulus above 2. -/
namespace Prio.BridgeCheck
open Prio.Bridge

theorem valid_eq (q : Nat) : @Prio.Driver.valid q = @dValid q := rfl
theorem prove_eq (q : Nat) : @Prio.Driver.prove q = @dProve q := rfl
theorem query_eq (q : Nat) : @Prio.Driver.query q = @dQuery q := rfl
theorem decide_eq (q : Nat) : @Prio.Driver.decide q = @dDecide q := rfl
theorem nttInternal_eq (q : Nat) : @Prio.Driver.nttInternal q = @dNttInternal q := rfl
theorem nttInv_eq (q : Nat) : @Prio.Driver.nttInv q = @dNttInv q := rfl

end Prio.BridgeCheck
