import PrioProofs.Prio2Linear
import PrioProofs.NttInv
import PrioProofs.LagrangeOps
import Mathlib.Algebra.Polynomial.Eval.Degree
import Mathlib.Algebra.Polynomial.BigOperators
import Mathlib.Algebra.Polynomial.Degree.Defs
import Mathlib.Data.List.GetD
import Mathlib.Algebra.Field.Rat

/-! # Prio2: completeness on the executable model

For a context whose table of roots is the right one (`Roots`, `RootsAvail`), whose `ofNat` is the
canonical map and a field with `2 ≠ 0`: the honest proof of a 0/1 vector, shared additively in any way,
is accepted at **every** evaluation point. -/

namespace Prio.Prio2Complete
open Prio.Ntt Prio.Prio2 Prio.Flp Prio Finset BigOperators

/-! ## Part 0: the product of two polynomials given by coefficient functions -/

section prod
variable {F : Type} [Field F]

open Polynomial in
/-- coefficients of the product: degree `< N` times degree `< N` has degree `< 2N` -/
theorem prod_coef (cf cg : ℕ → F) (N : ℕ) (hN : 0 < N) :
    ∃ ch : ℕ → F, ∀ x : F, ∑ t ∈ range (2 * N), ch t * x ^ t =
      (∑ t ∈ range N, cf t * x ^ t) * (∑ t ∈ range N, cg t * x ^ t) := by
  have hdeg : ∀ c : ℕ → F, (∑ t ∈ range N, Polynomial.C (c t) * X ^ t).natDegree ≤ N - 1 := by
    intro c
    apply natDegree_sum_le_of_forall_le
    intro t ht
    have := mem_range.mp ht
    exact (natDegree_C_mul_X_pow_le _ _).trans (by omega)
  have hev : ∀ (c : ℕ → F) (x : F), (∑ t ∈ range N, Polynomial.C (c t) * X ^ t).eval x = ∑ t ∈ range N, c t * x ^ t := by
    intro c x
    simp [eval_finsetSum]
  refine ⟨fun t => ((∑ t ∈ range N, Polynomial.C (cf t) * X ^ t) * (∑ t ∈ range N, Polynomial.C (cg t) * X ^ t)).coeff t,
    fun x => ?_⟩
  have hlt : ((∑ t ∈ range N, Polynomial.C (cf t) * X ^ t) * (∑ t ∈ range N, Polynomial.C (cg t) * X ^ t)).natDegree < 2 * N := by
    have h1 := hdeg cf
    have h2 := hdeg cg
    have := natDegree_mul_le (p := ∑ t ∈ range N, Polynomial.C (cf t) * X ^ t) (q := ∑ t ∈ range N, Polynomial.C (cg t) * X ^ t)
    omega
  rw [← eval_eq_sum_range' hlt x, eval_mul, hev, hev]

end prod

/-! ## Part 1: the transform leaves the buffer beyond its size untouched -/

section frame
variable {F : Type} [CommRing F]

theorem butterfly_frame (a : Array F) (x y : Nat) (w : F) (N p : Nat) (hx : x + y < N) (hp : N ≤ p) :
    (butterfly a x y w).getD p 0 = a.getD p 0 := by
  unfold butterfly
  simp only
  rw [getD_set, getD_set, if_neg (by omega), if_neg (by omega)]

theorem jLoop_frame (l y i : Nat) (w : F) (N : Nat) (hiy : i + y < 2 ^ l) :
    ∀ n j (a : Array F), (j + n) * 2 ^ l ≤ N → ∀ p, N ≤ p → (jLoop l y i w n j a).getD p 0 = a.getD p 0 := by
  intro n
  induction n with
  | zero => intro j a _ p _; rfl
  | succ n ih =>
    intro j a hN p hp
    simp only [jLoop]
    have e : j + 1 + n = j + (n + 1) := by omega
    rw [ih (j + 1) _ (by rw [e]; exact hN) p hp]
    apply butterfly_frame _ _ _ _ N p _ hp
    have h1 : (j + 1) * 2 ^ l ≤ (j + (n + 1)) * 2 ^ l := Nat.mul_le_mul_right _ (by omega)
    have h2 : (j + 1) * 2 ^ l = j * 2 ^ l + 2 ^ l := by ring
    omega

theorem iLoop_frame (l y chunk : Nat) (r : F) (N : Nat) (hB : 2 * y ≤ 2 ^ l) (hc : chunk * 2 ^ l ≤ N) :
    ∀ n i (w : F) (a : Array F), i + n ≤ y → ∀ p, N ≤ p → (iLoop l y chunk r n i w a).getD p 0 = a.getD p 0 := by
  intro n
  induction n with
  | zero => intro i w a _ p _; rfl
  | succ n ih =>
    intro i w a hi p hp
    simp only [iLoop]
    rw [ih (i + 1) _ _ (by omega) p hp, jLoop_frame l y i _ N (by omega) chunk 0 a (by simpa using hc) p hp]

theorem lLoop_frame (root : Nat → Option F) (d : Nat) (setS : Bool) :
    ∀ n l (a a' : Array F), 1 ≤ l → l + n = d + 1 → lLoop root (2 ^ d) setS n l a = some a' →
      ∀ p, 2 ^ d ≤ p → a'.getD p 0 = a.getD p 0 := by
  intro n
  induction n with
  | zero =>
    intro l a a' _ _ h p _
    simp only [lLoop, Option.some.injEq] at h
    rw [h]
  | succ n ih =>
    intro l a a' hl hln h p hp
    simp only [lLoop] at h
    generalize (if setS = true then root (l + 1) else some 1) = w0 at h
    cases w0 with
    | none => simp at h
    | some w =>
      cases hr : root l with
      | none => rw [hr] at h; simp at h
      | some r =>
        rw [hr] at h
        simp only at h
        have hchunk : 2 ^ d / 2 ^ (l - 1) / 2 = 2 ^ (d - l) := by
          rw [Nat.pow_div (by omega) (by norm_num)]
          have : d - (l - 1) = (d - l) + 1 := by omega
          rw [this, pow_succ]
          simp
        have hy : 2 * 2 ^ (l - 1) = 2 ^ l := by
          have : l = (l - 1) + 1 := by omega
          conv_rhs => rw [this, pow_succ]
          ring
        have hcl : 2 ^ (d - l) * 2 ^ l = 2 ^ d := by
          rw [← pow_add]; congr 1; omega
        have hpos : 0 < 2 ^ (l - 1) := Nat.pow_pos (by norm_num)
        rw [hchunk] at h
        rw [ih (l + 1) _ a' (by omega) (by omega) h p hp,
          iLoop_frame l (2 ^ (l - 1)) (2 ^ (d - l)) r (2 ^ d) (by omega) (by omega) _ _ _ _ (by omega) p hp,
          jLoop_frame l (2 ^ (l - 1)) 0 w (2 ^ d) (by omega) _ 0 a (by simpa using hcl.le) p hp]

theorem lLoop_size (root : Nat → Option F) (size : Nat) (setS : Bool) :
    ∀ n l (a a' : Array F), lLoop root size setS n l a = some a' → a'.size = a.size := by
  intro n
  induction n with
  | zero =>
    intro l a a' h
    simp only [lLoop, Option.some.injEq] at h
    rw [h]
  | succ n ih =>
    intro l a a' h
    simp only [lLoop] at h
    generalize (if setS = true then root (l + 1) else some 1) = w0 at h
    cases w0 with
    | none => simp at h
    | some w =>
      cases hr : root l with
      | none => rw [hr] at h; simp at h
      | some r =>
        rw [hr] at h
        simp only at h
        rw [ih (l + 1) _ a' h, iLoop_size, jLoop_size]

/-- `ntt_internal` of size `2^d` does not touch positions `≥ 2^d` of the output buffer -/
theorem nttInternal_frame (root : Nat → Option F) (setS : Bool) (d outLen : Nat) (outp inp a : Array F)
    (hop : 2 ^ d ≤ outp.size) (h : nttInternal root outLen outp inp (2 ^ d) setS = .ok a) :
    a.size = outp.size ∧ ∀ p, 2 ^ d ≤ p → a.getD p 0 = outp.getD p 0 := by
  have hpos : 0 < 2 ^ d := Nat.pow_pos (by norm_num)
  unfold nttInternal at h
  rw [if_neg (by omega)] at h
  simp only [log2ceil_two_pow] at h
  by_cases h1 : 2 ^ d > outLen
  · rw [if_pos h1] at h; cases h
  rw [if_neg h1] at h
  by_cases h2 : ((setS && decide (2 ^ d > 2 ^ (maxRoots - 1))) || decide (2 ^ d > 2 ^ maxRoots)) = true
  · rw [if_pos h2] at h; cases h
  rw [if_neg h2, if_neg (by simp)] at h
  have finish : ∀ a0 : Array F, a0.size = outp.size → (∀ p, 2 ^ d ≤ p → a0.getD p 0 = outp.getD p 0) →
      (match lLoop root (2 ^ d) setS d 1 a0 with
        | some r => R.ok r
        | none => R.panic) = R.ok a → a.size = outp.size ∧ ∀ p, 2 ^ d ≤ p → a.getD p 0 = outp.getD p 0 := by
    intro a0 hs0 h0 hm
    cases hl : lLoop root (2 ^ d) setS d 1 a0 with
    | none => rw [hl] at hm; cases hm
    | some x =>
      rw [hl] at hm
      simp only [R.ok.injEq] at hm
      subst hm
      refine ⟨by rw [lLoop_size root _ setS d 1 a0 x hl, hs0], fun p hp => ?_⟩
      rw [lLoop_frame root d setS d 1 a0 x (le_refl 1) (by omega) hl p hp, h0 p hp]
  by_cases hd : d > 0
  · rw [if_pos hd] at h
    simp only at h
    refine finish _ (init_fn d inp outp (2 ^ d) hop).1 ?_ h
    intro p hp
    have := (init_fn d inp outp (2 ^ d) hop).2 p
    unfold fn at this
    rw [this, if_neg (by omega)]
  · rw [if_neg hd] at h
    by_cases hz : inp.size = 0
    · rw [if_pos hz] at h; cases h
    rw [if_neg hz] at h
    simp only at h
    refine finish _ (by simp) ?_ h
    intro p hp
    rw [getD_set, if_neg (by omega)]

end frame

section frameInv
variable {F : Type} [Field F]

/-- `ntt_inv` of size `2^d` does not touch positions `≥ 2^d` of the output buffer -/
theorem nttInv_frame (root : Nat → Option F) (d : Nat) (outp inp c : Array F) (s : F)
    (hop : 2 ^ d ≤ outp.size) (h : nttInv root outp inp (2 ^ d) s = .ok c) :
    ∀ p, 2 ^ d ≤ p → c.getD p 0 = outp.getD p 0 := by
  intro p hp
  unfold nttInv at h
  cases hn : nttInternal root outp.size outp inp (2 ^ d) false with
  | err e => rw [hn] at h; cases h
  | panic => rw [hn] at h; cases h
  | ok a =>
    rw [hn] at h
    simp only [R.ok.injEq] at h
    subst h
    obtain ⟨hsz, hfr⟩ := nttInternal_frame root false d outp.size outp inp a hop hn
    rcases Nat.eq_zero_or_pos d with hd0 | hd0
    · subst hd0
      show (nttInvFinish a 1 s).getD p 0 = _
      rw [(nttInvFinish_one a s).2.2 p (by simpa using hp)]
      exact hfr p hp
    · rw [(nttInvFinish_spec a d hd0 s (by rw [hsz]; exact hop)).2.2 p hp]
      exact hfr p hp

end frameInv

/-! ## Part 2: `poly_interpret_eval` and `interpolate_and_evaluate_at_2n` -/

section interp
variable {F : Type} [Field F]

theorem toList_take_getD (c : Array F) (n t : Nat) (hc : c.size = n) : (c.toList.take n).getD t 0 = c.getD t 0 := by
  rw [List.take_of_length_le (by simp [hc])]
  simp [Array.getD_eq_getD_getElem?, List.getD_eq_getElem?_getD]

/-- `poly_interpret_eval` on the values of a polynomial of degree `< 2^d` at the nodes `ω_d^i`
    evaluates that polynomial -/
theorem pie_of_values {ω : Nat → F} (C : FieldCtx F) (hof : ∀ n, C.ofNat n = (n : F)) (h2 : (2 : F) ≠ 0)
    (d : Nat) (h : Roots ω d) (hr : RootsAvail C.root ω d) (hd : d ≤ maxRoots)
    (points : Array F) (hsz : points.size = 2 ^ d) (x : F) (coef : Nat → F)
    (hv : ∀ i, i < 2 ^ d → points.getD i 0 = ∑ t ∈ range (2 ^ d), coef t * (ω d ^ i) ^ t) :
    polyInterpretEval C points x = some (∑ t ∈ range (2 ^ d), coef t * x ^ t) := by
  have hpos : 0 < 2 ^ d := Nat.pow_pos (by norm_num)
  obtain ⟨c, e1, e2, e3⟩ := nttInv_of_values C.root d h h2 (Array.replicate (2 ^ d) 0) points (C.ofNat (2 ^ d))⁻¹
    (sizeInv_ok C hof h2 d) hd (by simp) hr (fun _ => by rw [hsz]; omega) coef hv
  unfold nttInv at e1
  simp only [Array.size_replicate] at e1 e2
  unfold polyInterpretEval
  simp only [hsz]
  cases hn : nttInternal C.root (2 ^ d) (Array.replicate (2 ^ d) 0) points (2 ^ d) false with
  | err e => rw [hn] at e1; cases e1
  | panic => rw [hn] at e1; cases e1
  | ok a =>
    rw [hn] at e1
    simp only [R.ok.injEq] at e1
    simp only [e1]
    rw [polyEvalMonomial_eq_sum]
    have hl : (c.toList.take (2 ^ d)).length = 2 ^ d := by simp [e2]
    rw [hl]
    congr 1
    apply sum_congr rfl
    intro t ht
    rw [toList_take_getD c _ t e2, e3 t (mem_range.mp ht)]

/-- `poly_interpret_eval` succeeds on any `2^d` points, and evaluates the interpolating polynomial -/
theorem pie_interp {ω : Nat → F} (C : FieldCtx F) (hof : ∀ n, C.ofNat n = (n : F)) (h2 : (2 : F) ≠ 0)
    (d : Nat) (h : Roots ω d) (hr : RootsAvail C.root ω d) (hd : d ≤ maxRoots)
    (points : Array F) (hsz : points.size = 2 ^ d) :
    ∃ coef : Nat → F, (∀ i, i < 2 ^ d → points.getD i 0 = ∑ t ∈ range (2 ^ d), coef t * (ω d ^ i) ^ t) ∧
      ∀ x, polyInterpretEval C points x = some (∑ t ∈ range (2 ^ d), coef t * x ^ t) := by
  have hpos : 0 < 2 ^ d := Nat.pow_pos (by norm_num)
  obtain ⟨c, _, _, e3⟩ := nttInv_interpolates C.root d h h2 (Array.replicate (2 ^ d) 0) points (C.ofNat (2 ^ d))⁻¹
    (sizeInv_ok C hof h2 d) hd (by simp) hr (fun _ => by rw [hsz]; omega)
  have hv : ∀ i, i < 2 ^ d → points.getD i 0 = ∑ t ∈ range (2 ^ d), c.getD t 0 * (ω d ^ i) ^ t :=
    fun i hi => (e3 i hi).symm
  exact ⟨fun t => c.getD t 0, hv, fun x => pie_of_values C hof h2 d h hr hd points hsz x _ hv⟩

/-- `interpolate_and_evaluate_at_2n`: the polynomial of degree `< 2^d` through the points, evaluated
    at the `2^(d+1)` nodes `ω_(d+1)^k` -/
theorem interp2n_spec {ω : Nat → F} (C : FieldCtx F) (hof : ∀ n, C.ofNat n = (n : F)) (h2 : (2 : F) ≠ 0)
    (d : Nat) (h : Roots ω (d + 1)) (hr : RootsAvail C.root ω (d + 1)) (hd : d + 1 ≤ maxRoots)
    (points : Array F) (hsz : points.size = 2 ^ d) (coef : Nat → F)
    (hv : ∀ i, i < 2 ^ d → points.getD i 0 = ∑ t ∈ range (2 ^ d), coef t * (ω d ^ i) ^ t) :
    ∃ e, interpolateAndEvaluateAt2n C (2 ^ d) points = .ok e ∧
      ∀ k, k < 2 ^ (d + 1) → e.getD k 0 = ∑ t ∈ range (2 ^ d), coef t * (ω (d + 1) ^ k) ^ t := by
  have hpos : 0 < 2 ^ d := Nat.pow_pos (by norm_num)
  have e2d : 2 * 2 ^ d = 2 ^ (d + 1) := by rw [pow_succ]; ring
  obtain ⟨c, e1, e2, e3⟩ := nttInv_of_values C.root d h.pred h2 (Array.replicate (2 * 2 ^ d) 0) points (C.ofNat (2 ^ d))⁻¹
    (sizeInv_ok C hof h2 d) (by omega) (by simp) hr.pred (fun _ => by rw [hsz]; omega) coef hv
  have e4 := nttInv_frame C.root d (Array.replicate (2 * 2 ^ d) 0) points c _ (by simp) e1
  obtain ⟨b, b1, _, b3⟩ := ntt_eq_dft (ω := ω) C.root false (d + 1) (2 * 2 ^ d) (by simpa using h)
    (Array.replicate (2 * 2 ^ d) 0) c hd (by simp) (by omega) (by simp; omega) (by simpa using hr)
    (fun hh => by omega)
  unfold interpolateAndEvaluateAt2n
  rw [e1]
  simp only
  rw [e2d] at b1 ⊢
  rw [b1]
  refine ⟨b, rfl, fun k hk => ?_⟩
  rw [b3 k hk]
  have : 2 ^ (d + 1) = 2 ^ d + 2 ^ d := by omega
  rw [this, sum_range_add]
  have hz : ∑ t ∈ range (2 ^ d), c.getD (2 ^ d + t) 0 * (sigma ω false (d + 1) * ω (d + 1) ^ k) ^ (2 ^ d + t) = 0 := by
    apply sum_eq_zero
    intro t _
    rw [e4 (2 ^ d + t) (by omega), getD_replicate_zero, zero_mul]
  rw [hz, add_zero]
  apply sum_congr rfl
  intro t ht
  rw [e3 t (mem_range.mp ht)]
  simp [sigma]

end interp

/-! ## Part 3: the client's proof and the servers' verification message -/

section main
variable {F : Type} [Field F]

theorem padTo_size (n : Nat) (l : List F) (h : l.length ≤ n) : (padTo n l).toArray.size = n := by
  simp only [padTo, List.size_toArray, List.length_append, List.length_replicate]
  omega

/-- at every node but the first, `f · g` vanishes: `x (x - 1) = 0` on the data, `0 · 0` on the padding -/
theorem binprod (data : List F) (hbin : ∀ x ∈ data, x = 0 ∨ x = 1) (f0 g0 : F) (k : Nat) (hk : 1 ≤ k) :
    (f0 :: data).getD k 0 * (g0 :: data.map (· - 1)).getD k 0 = 0 := by
  obtain ⟨j, rfl⟩ : ∃ j, k = j + 1 := ⟨k - 1, by omega⟩
  have e1 : (f0 :: data).getD (j + 1) 0 = data.getD j 0 := rfl
  have e2 : (g0 :: data.map (· - 1)).getD (j + 1) 0 = (data.map (· - 1)).getD j 0 := rfl
  rw [e1, e2, List.getD_eq_getElem?_getD, List.getD_eq_getElem?_getD, List.getElem?_map]
  cases hj : data[j]? with
  | none => simp
  | some x =>
    rcases hbin x (List.mem_of_getElem? hj) with rfl | rfl <;> simp

/-- **the client's proof**: `construct_proof` succeeds, and the packed part holds the values of `f · g`
    at the odd nodes `ω_(d+1)^(2j+1)`, `f` and `g` being the polynomials of degree `< 2^d` through
    `(f0, data…, 0…)` and `(g0, data - 1…, 0…)` -/
theorem constructProof_spec {ω : Nat → F} (C : FieldCtx F) (hof : ∀ n, C.ofNat n = (n : F)) (h2 : (2 : F) ≠ 0)
    (hR : Roots ω maxRoots) (hA : RootsAvail C.root ω maxRoots) (data : List F) (f0 g0 : F) (d : Nat)
    (hn : nextPow2 (data.length + 1) = 2 ^ d) (hd : d + 1 ≤ maxRoots) :
    ∃ (cf cg : Nat → F) (ef eg : Array F),
      (∀ i, i < 2 ^ d → (padTo (2 ^ d) (f0 :: data)).toArray.getD i 0 = ∑ t ∈ range (2 ^ d), cf t * (ω d ^ i) ^ t) ∧
      (∀ i, i < 2 ^ d → (padTo (2 ^ d) (g0 :: data.map (· - 1))).toArray.getD i 0 =
        ∑ t ∈ range (2 ^ d), cg t * (ω d ^ i) ^ t) ∧
      (∀ k, k < 2 ^ (d + 1) → ef.getD k 0 = ∑ t ∈ range (2 ^ d), cf t * (ω (d + 1) ^ k) ^ t) ∧
      (∀ k, k < 2 ^ (d + 1) → eg.getD k 0 = ∑ t ∈ range (2 ^ d), cg t * (ω (d + 1) ^ k) ^ t) ∧
      constructProof C data f0 g0 = .ok (data ++ [f0, g0, f0 * g0] ++
        (List.range (2 ^ d)).map fun j => ef.getD (2 * j + 1) 0 * eg.getD (2 * j + 1) 0) := by
  have hle := le_nextPow2 (data.length + 1)
  rw [hn] at hle
  have hsF : (padTo (2 ^ d) (f0 :: data)).toArray.size = 2 ^ d := padTo_size _ _ (by simpa using hle)
  have hsG : (padTo (2 ^ d) (g0 :: data.map (· - 1))).toArray.size = 2 ^ d := padTo_size _ _ (by simpa using hle)
  have h1 : Roots ω (d + 1) := hR.mono hd
  have hr1 : RootsAvail C.root ω (d + 1) := hA.mono hd
  obtain ⟨cf, hvF, _⟩ := pie_interp C hof h2 d h1.pred hr1.pred (by omega) _ hsF
  obtain ⟨cg, hvG, _⟩ := pie_interp C hof h2 d h1.pred hr1.pred (by omega) _ hsG
  obtain ⟨ef, f1, f2⟩ := interp2n_spec C hof h2 d h1 hr1 hd _ hsF cf hvF
  obtain ⟨eg, g1, g2⟩ := interp2n_spec C hof h2 d h1 hr1 hd _ hsG cg hvG
  refine ⟨cf, cg, ef, eg, hvF, hvG, f2, g2, ?_⟩
  unfold constructProof
  simp only [hn]
  rw [f1, g1]

/-- what `generate_verification_message` computes on a proof given by its parts (first server) -/
theorem gvm_of_parts (C : FieldCtx F) (dim : Nat) (r : F) (data : List F) (f0 g0 h0 : F) (packed : List F)
    (hd : data.length = dim) (hp : packed.length = nextPow2 (dim + 1)) (fr gr hr : F)
    (e1 : polyInterpretEval C (padTo (nextPow2 (dim + 1)) (f0 :: data)).toArray r = some fr)
    (e2 : polyInterpretEval C (padTo (nextPow2 (dim + 1)) (g0 :: data.map (· - 1))).toArray r = some gr)
    (e3 : polyInterpretEval C (padTo (2 * nextPow2 (dim + 1)) (hPoints h0 packed)).toArray r = some hr) :
    generateVerificationMessage C dim r (data ++ [f0, g0, h0] ++ packed) true = .ok ⟨fr, gr, hr⟩ := by
  have hlen : (data ++ [f0, g0, h0] ++ packed).length = proofLength dim := by
    simp [proofLength, hd, hp]; omega
  have ht : (data ++ [f0, g0, h0] ++ packed).take dim = data := by
    rw [List.append_assoc]; exact List.take_left' hd
  have hdr : (data ++ [f0, g0, h0] ++ packed).drop (dim + 3) = packed :=
    List.drop_left' (by simp [hd])
  have hg : ∀ k, k < 3 → (data ++ [f0, g0, h0] ++ packed).getD (dim + k) 0 = ([f0, g0, h0] ++ packed).getD k 0 := by
    intro k _
    rw [List.append_assoc, List.getD_append_right _ _ _ _ (by omega)]
    congr 1; omega
  have hf0 : (data ++ [f0, g0, h0] ++ packed).getD dim 0 = f0 := by simpa using hg 0 (by omega)
  have hg0 : (data ++ [f0, g0, h0] ++ packed).getD (dim + 1) 0 = g0 := by simpa using hg 1 (by omega)
  have hh0 : (data ++ [f0, g0, h0] ++ packed).getD (dim + 2) 0 = h0 := by simpa using hg 2 (by omega)
  unfold generateVerificationMessage
  rw [if_neg (by simpa using hlen)]
  simp only [ht, hdr, hf0, hg0, hh0, if_true]
  rw [e1, e2, e3]

/-- **the verification message of the whole honest proof**: `h(r) = f(r) · g(r)` at every `r` -/
theorem honest_vmsg [BEq F] [LawfulBEq F] {ω : Nat → F} (C : FieldCtx F) (hof : ∀ n, C.ofNat n = (n : F)) (h2 : (2 : F) ≠ 0)
    (hR : Roots ω maxRoots) (hA : RootsAvail C.root ω maxRoots) (data : List F)
    (hbin : ∀ x ∈ data, x = 0 ∨ x = 1) (hsmall : 2 * nextPow2 (data.length + 1) ≤ 2 ^ maxRoots) (f0 g0 r : F) :
    ∃ (proof : List F) (fr gr : F), constructProof C data f0 g0 = .ok proof ∧
      proof.length = proofLength data.length ∧
      generateVerificationMessage C data.length r proof true = .ok ⟨fr, gr, fr * gr⟩ := by
  obtain ⟨d, hn⟩ := nextPow2_is_pow (data.length + 1)
  have e2d : 2 * 2 ^ d = 2 ^ (d + 1) := by rw [pow_succ]; ring
  have hd : d + 1 ≤ maxRoots := by
    rw [hn, e2d] at hsmall
    exact (Nat.pow_le_pow_iff_right (by norm_num)).mp hsmall
  have hpos : 0 < 2 ^ d := Nat.pow_pos (by norm_num)
  have h1 : Roots ω (d + 1) := hR.mono hd
  have hr1 : RootsAvail C.root ω (d + 1) := hA.mono hd
  have hle := le_nextPow2 (data.length + 1)
  rw [hn] at hle
  obtain ⟨cf, cg, ef, eg, hvF, hvG, hef, heg, hcp⟩ := constructProof_spec C hof h2 hR hA data f0 g0 d hn hd
  obtain ⟨ch, hch⟩ := prod_coef cf cg (2 ^ d) hpos
  rw [e2d] at hch
  have hsF : (padTo (2 ^ d) (f0 :: data)).toArray.size = 2 ^ d := padTo_size _ _ (by simpa using hle)
  have hsG : (padTo (2 ^ d) (g0 :: data.map (· - 1))).toArray.size = 2 ^ d := padTo_size _ _ (by simpa using hle)
  set packed := (List.range (2 ^ d)).map fun j => ef.getD (2 * j + 1) 0 * eg.getD (2 * j + 1) 0 with hpk
  have hpl : packed.length = 2 ^ d := by simp [hpk]
  have hpne : packed ≠ [] := by
    intro e; rw [e] at hpl; simp at hpl; omega
  have hsH : (padTo (2 * 2 ^ d) (hPoints (f0 * g0) packed)).toArray.size = 2 ^ (d + 1) := by
    rw [padTo_size _ _ (by rw [Props.C19.hPoints_length _ _ hpne, hpl]), e2d]
  have hvH : ∀ i, i < 2 ^ (d + 1) → (padTo (2 * 2 ^ d) (hPoints (f0 * g0) packed)).toArray.getD i 0 =
      ∑ t ∈ range (2 ^ (d + 1)), ch t * (ω (d + 1) ^ i) ^ t := by
    intro i hi
    rw [Prio.Prio2Linear.padTo_getD, hch]
    obtain ⟨k, hik⟩ : ∃ k, i = 2 * k ∨ i = 2 * k + 1 := ⟨i / 2, by omega⟩
    obtain ⟨hl0, hl1, hl2⟩ := Props.C19.hPoints_layout (f0 * g0) packed k
    have hk : k < 2 ^ d := by omega
    rcases hik with rfl | rfl
    · -- an interpolation node of `f` and `g`
      rw [h1.pow_even, ← hvF _ hk, ← hvG _ hk, Prio.Prio2Linear.padTo_getD, Prio.Prio2Linear.padTo_getD]
      rcases Nat.eq_zero_or_pos k with hz | hz
      · subst hz
        rw [hl0]; simp
      · rw [binprod data hbin f0 g0 _ hz, hl1 hz (by rw [hpl]; exact hk)]
    · have hpk' : packed.getD k 0 = ef.getD (2 * k + 1) 0 * eg.getD (2 * k + 1) 0 := by
        simp [hpk, List.getD_eq_getElem?_getD, List.getElem?_map, List.getElem?_range hk]
      rw [hl2 (by rw [hpl]; exact hk), hpk', hef _ hi, heg _ hi]
  refine ⟨_, ∑ t ∈ range (2 ^ d), cf t * r ^ t, ∑ t ∈ range (2 ^ d), cg t * r ^ t, hcp, ?_, ?_⟩
  · simp [proofLength, hn, hpl]; omega
  · have eF := pie_of_values C hof h2 d h1.pred hr1.pred (by omega) _ hsF r cf hvF
    have eG := pie_of_values C hof h2 d h1.pred hr1.pred (by omega) _ hsG r cg hvG
    have eH := pie_of_values C hof h2 (d + 1) h1 hr1 hd _ hsH r ch hvH
    rw [hch] at eH
    exact gvm_of_parts C data.length r data f0 g0 (f0 * g0) packed rfl (by rw [hpl, hn]) _ _ _
      (by rw [hn]; exact eF) (by rw [hn]; exact eG) (by rw [hn]; exact eH)

end main

/-! ## Part 4: completeness -/

section final
variable {F : Type} [Field F]

/-- the bound on the dimension, as a bound on the exponent -/
theorem small_exp (dim d : Nat) (hn : nextPow2 (dim + 1) = 2 ^ d) (hsmall : 2 * nextPow2 (dim + 1) ≤ 2 ^ maxRoots) :
    d + 1 ≤ maxRoots := by
  have e2d : 2 * 2 ^ d = 2 ^ (d + 1) := by rw [pow_succ]; ring
  rw [hn, e2d] at hsmall
  exact (Nat.pow_le_pow_iff_right (by norm_num)).mp hsmall

/-- **`construct_proof` succeeds** (for any data, binary or not) and returns a proof of the right length -/
theorem constructProof_ok {ω : Nat → F} (C : FieldCtx F) (hof : ∀ n, C.ofNat n = (n : F)) (h2 : (2 : F) ≠ 0)
    (hR : Roots ω maxRoots) (hA : RootsAvail C.root ω maxRoots) (data : List F)
    (hsmall : 2 * nextPow2 (data.length + 1) ≤ 2 ^ maxRoots) (f0 g0 : F) :
    ∃ proof, constructProof C data f0 g0 = .ok proof ∧ proof.length = proofLength data.length := by
  obtain ⟨d, hn⟩ := nextPow2_is_pow (data.length + 1)
  obtain ⟨cf, cg, ef, eg, _, _, _, _, hcp⟩ :=
    constructProof_spec C hof h2 hR hA data f0 g0 d hn (small_exp _ d hn hsmall)
  exact ⟨_, hcp, by simp [proofLength, hn]; omega⟩

/-- **`generate_verification_message` succeeds** on every share of the right length -/
theorem gvm_total {ω : Nat → F} (C : FieldCtx F) (hof : ∀ n, C.ofNat n = (n : F)) (h2 : (2 : F) ≠ 0)
    (hR : Roots ω maxRoots) (hA : RootsAvail C.root ω maxRoots) (dim : Nat)
    (hsmall : 2 * nextPow2 (dim + 1) ≤ 2 ^ maxRoots) (r : F) (share : List F) (isFirst : Bool)
    (hlen : share.length = proofLength dim) :
    ∃ v, generateVerificationMessage C dim r share isFirst = .ok v := by
  obtain ⟨d, hn⟩ := nextPow2_is_pow (dim + 1)
  have hd := small_exp dim d hn hsmall
  have e2d : 2 * 2 ^ d = 2 ^ (d + 1) := by rw [pow_succ]; ring
  have hpos : 0 < 2 ^ d := Nat.pow_pos (by norm_num)
  have h1 : Roots ω (d + 1) := hR.mono hd
  have hr1 : RootsAvail C.root ω (d + 1) := hA.mono hd
  have hle := le_nextPow2 (dim + 1)
  rw [hn] at hle
  unfold proofLength at hlen
  rw [hn] at hlen
  have htk : (share.take dim).length = dim := by rw [List.length_take]; omega
  have hgl : (if isFirst = true then (share.take dim).map (· - 1) else share.take dim).length = dim := by
    cases isFirst <;> simp <;> omega
  have hdl : (share.drop (dim + 3)).length = 2 ^ d := by rw [List.length_drop]; omega
  have hdne : share.drop (dim + 3) ≠ [] := by
    intro e; rw [e] at hdl; simp at hdl; omega
  obtain ⟨c1, _, e1⟩ := pie_interp C hof h2 d h1.pred hr1.pred (by omega)
    (padTo (2 ^ d) (share.getD dim 0 :: share.take dim)).toArray (padTo_size _ _ (by simp; omega))
  obtain ⟨c2, _, e2⟩ := pie_interp C hof h2 d h1.pred hr1.pred (by omega)
    (padTo (2 ^ d) (share.getD (dim + 1) 0 ::
      (if isFirst = true then (share.take dim).map (· - 1) else share.take dim))).toArray
    (padTo_size _ _ (by rw [List.length_cons, hgl]; omega))
  obtain ⟨c3, _, e3⟩ := pie_interp C hof h2 (d + 1) h1 hr1 hd
    (padTo (2 * 2 ^ d) (hPoints (share.getD (dim + 2) 0) (share.drop (dim + 3)))).toArray
    (by
      classical
      rw [padTo_size _ _ (by rw [Props.C19.hPoints_length _ _ hdne, hdl]), e2d])
  unfold generateVerificationMessage
  rw [if_neg (by unfold proofLength; rw [hn]; simpa using hlen)]
  simp only [hn]
  rw [e1 r, e2 r, e3 r]
  exact ⟨_, rfl⟩

omit [Field F] in
/-- a successful unshifted transform had a size within the table of roots -/
theorem nttInternal_ok_size [Add F] [Sub F] [Mul F] [Zero F] [One F] [Neg F]
    (root : Nat → Option F) (outLen : Nat) (outp inp a : Array F) (size : Nat)
    (h : nttInternal root outLen outp inp size false = .ok a) : size ≤ 2 ^ maxRoots := by
  unfold nttInternal at h
  by_cases h0 : size = 0
  · rw [if_pos h0] at h; cases h
  rw [if_neg h0] at h
  simp only at h
  by_cases h1 : size > outLen
  · rw [if_pos h1] at h; cases h
  rw [if_neg h1] at h
  by_cases h2 : size > 2 ^ maxRoots
  · rw [if_pos (by simp [h2])] at h; cases h
  · omega

theorem interp2n_ok_size (C : FieldCtx F) (n : Nat) (points e : Array F)
    (h : interpolateAndEvaluateAt2n C n points = .ok e) : 2 * n ≤ 2 ^ maxRoots := by
  unfold interpolateAndEvaluateAt2n at h
  cases hn : nttInv C.root (Array.replicate (2 * n) 0) points n (C.ofNat n)⁻¹ with
  | ok c => rw [hn] at h; exact nttInternal_ok_size _ _ _ _ _ _ h
  | err e => rw [hn] at h; cases h
  | panic => rw [hn] at h; cases h

/-- if `construct_proof` succeeded, the dimension was small enough for the size-`2n` transform -/
theorem constructProof_ok_small (C : FieldCtx F) (data : List F) (f0 g0 : F) (proof : List F)
    (h : constructProof C data f0 g0 = .ok proof) : 2 * nextPow2 (data.length + 1) ≤ 2 ^ maxRoots := by
  unfold constructProof at h
  simp only at h
  cases hf : interpolateAndEvaluateAt2n C (nextPow2 (data.length + 1))
      (padTo (nextPow2 (data.length + 1)) (f0 :: data)).toArray with
  | ok ef => exact interp2n_ok_size _ _ _ _ hf
  | err e => rw [hf] at h; cases h
  | panic => rw [hf] at h; cases h

variable [BEq F] [LawfulBEq F]

/-- **completeness of Prio2 on the executable model**: the verification messages computed from any
    additive sharing of the honest proof of a 0/1 vector are accepted, at every evaluation point -/
theorem prio2_complete {ω : Nat → F} (C : FieldCtx F) (hof : ∀ n, C.ofNat n = (n : F)) (h2 : (2 : F) ≠ 0)
    (hR : Roots ω maxRoots) (hA : RootsAvail C.root ω maxRoots) (data : List F)
    (hbin : ∀ x ∈ data, x = 0 ∨ x = 1)
    (f0 g0 r : F) (proof helper : List F) (v1 v2 : VerificationMessage F)
    (hc : constructProof C data f0 g0 = .ok proof) (hl : helper.length = proof.length)
    (hv1 : generateVerificationMessage C data.length r (leaderShare proof helper) true = .ok v1)
    (hv2 : generateVerificationMessage C data.length r helper false = .ok v2) :
    isValidShare v1 v2 = true := by
  have hsmall := constructProof_ok_small C data f0 g0 proof hc
  obtain ⟨proof', fr, gr, hc', _, hv⟩ := honest_vmsg C hof h2 hR hA data hbin hsmall f0 g0 r
  rw [hc] at hc'
  simp only [R.ok.injEq] at hc'
  subst hc'
  have hls : (leaderShare proof helper).length = helper.length := by
    unfold leaderShare; rw [List.length_zipWith]; omega
  obtain ⟨a1, a2, a3⟩ := Prio.Prio2Linear.vmsg_additive_first C data.length r (leaderShare proof helper) helper
    v1 v2 ⟨fr, gr, fr * gr⟩ hls hv1 hv2 (by rw [Props.C19.leader_plus_helper proof helper hl.symm]; exact hv)
  rw [Props.C19.isValidShare_iff, ← a1, ← a2, ← a3]

/-- the same with nothing assumed to succeed: the client's proof exists, both servers' messages exist
    for any helper share of the right length, and the decision is to accept -/
theorem prio2_complete_total {ω : Nat → F} (C : FieldCtx F) (hof : ∀ n, C.ofNat n = (n : F)) (h2 : (2 : F) ≠ 0)
    (hR : Roots ω maxRoots) (hA : RootsAvail C.root ω maxRoots) (data : List F)
    (hbin : ∀ x ∈ data, x = 0 ∨ x = 1) (hsmall : 2 * nextPow2 (data.length + 1) ≤ 2 ^ maxRoots)
    (f0 g0 r : F) (helper : List F) (hl : helper.length = proofLength data.length) :
    ∃ proof v1 v2, constructProof C data f0 g0 = .ok proof ∧
      generateVerificationMessage C data.length r (leaderShare proof helper) true = .ok v1 ∧
      generateVerificationMessage C data.length r helper false = .ok v2 ∧
      isValidShare v1 v2 = true := by
  obtain ⟨proof, hc, hpl⟩ := constructProof_ok C hof h2 hR hA data hsmall f0 g0
  have hls : (leaderShare proof helper).length = proofLength data.length := by
    unfold leaderShare; rw [List.length_zipWith]; omega
  obtain ⟨v1, hv1⟩ := gvm_total C hof h2 hR hA data.length hsmall r (leaderShare proof helper) true hls
  obtain ⟨v2, hv2⟩ := gvm_total C hof h2 hR hA data.length hsmall r helper false hl
  exact ⟨proof, v1, v2, hc, hv1, hv2,
    prio2_complete C hof h2 hR hA data hbin f0 g0 r proof helper v1 v2 hc (by omega) hv1 hv2⟩

end final

/-- `Props.C19.prio2_complete_unhypothesised` with the hypotheses it needs: the table of roots of the
    context is a tower of square roots of `-1` present up to `maxRoots`, `ofNat` is the canonical map
    and `2 ≠ 0`.  (That the dimension is small enough for the size-`2n` transform,
    `2 * nextPow2 (data.length + 1) ≤ 2 ^ maxRoots`, follows from the success of `constructProof`:
    `constructProof_ok_small`.) -/
def prio2_complete_statement_corrected : Prop :=
  ∀ (F : Type) [Field F] [BEq F] [LawfulBEq F] (C : Flp.FieldCtx F) (ω : Nat → F) (data : List F) (f0 g0 r : F)
    (proof helper : List F) (v1 v2 : VerificationMessage F),
    Roots ω maxRoots → RootsAvail C.root ω maxRoots → (∀ n, C.ofNat n = (n : F)) → (2 : F) ≠ 0 →
    (∀ x ∈ data, x = 0 ∨ x = 1) →
    constructProof C data f0 g0 = .ok proof → helper.length = proof.length →
    generateVerificationMessage C data.length r (leaderShare proof helper) true = .ok v1 →
    generateVerificationMessage C data.length r helper false = .ok v2 →
    isValidShare v1 v2 = true

theorem prio2_complete_corrected : prio2_complete_statement_corrected := by
  intro F _ _ _ C ω data f0 g0 r proof helper v1 v2 hR hA hof h2 hbin hc hl hv1 hv2
  exact prio2_complete C hof h2 hR hA data hbin f0 g0 r proof helper v1 v2 hc hl hv1 hv2

/-- the same with nothing assumed to succeed (the size bound is then a hypothesis): the proof and both
    verification messages exist and are accepted -/
def prio2_complete_total_statement : Prop :=
  ∀ (F : Type) [Field F] [BEq F] [LawfulBEq F] (C : Flp.FieldCtx F) (ω : Nat → F) (data : List F) (f0 g0 r : F)
    (helper : List F),
    Roots ω maxRoots → RootsAvail C.root ω maxRoots → (∀ n, C.ofNat n = (n : F)) → (2 : F) ≠ 0 →
    2 * nextPow2 (data.length + 1) ≤ 2 ^ maxRoots →
    (∀ x ∈ data, x = 0 ∨ x = 1) → helper.length = proofLength data.length →
    ∃ proof v1 v2, constructProof C data f0 g0 = .ok proof ∧
      generateVerificationMessage C data.length r (leaderShare proof helper) true = .ok v1 ∧
      generateVerificationMessage C data.length r helper false = .ok v2 ∧
      isValidShare v1 v2 = true

theorem prio2_complete_total' : prio2_complete_total_statement := by
  intro F _ _ _ C ω data f0 g0 r helper hR hA hof h2 hsmall hbin hl
  exact prio2_complete_total C hof h2 hR hA data hbin hsmall f0 g0 r helper hl

/-! ## Part 5: the statement of C19 is false without hypotheses on the context -/

/-- a context over `ℚ` with the canonical `ofNat` and a table of roots that is present but wrong
    (`root l = 1` for every `l`) -/
def badCtx : FieldCtx ℚ := ⟨fun _ => some 1, 1 / 2, fun n => (n : ℚ)⟩

theorem bad_proof : constructProof badCtx [0] 1 1 = .ok [0, 1, 1, 1, 1, 0] := by
  with_unfolding_all rfl

theorem bad_v1 :
    generateVerificationMessage badCtx 1 3 (leaderShare [0, 1, 1, 1, 1, 0] [0, 0, 0, 0, 0, 0]) true = .ok ⟨2, 3, 14⟩ := by
  with_unfolding_all rfl

theorem bad_v2 : generateVerificationMessage badCtx 1 3 [0, 0, 0, 0, 0, 0] false = .ok ⟨0, 0, 0⟩ := by
  with_unfolding_all rfl

/-- **`Props.C19.prio2_complete_unhypothesised` is false as stated**: over `ℚ`, with the table of roots
    `fun _ => some 1`, the proof of the 0/1 vector `[0]` with `f0 = g0 = 1`, shared with a zero helper share, is
    rejected at `r = 3`: `f(r) g(r) = 2 · 3 ≠ 14 = h(r)` -/
theorem original_statement_false : ¬ Props.C19.prio2_complete_unhypothesised := by
  intro h
  have := h ℚ badCtx [0] 1 1 3 [0, 1, 1, 1, 1, 0] [0, 0, 0, 0, 0, 0] ⟨2, 3, 14⟩ ⟨0, 0, 0⟩ (by simp)
    bad_proof rfl bad_v1 bad_v2
  rw [Props.C19.isValidShare_iff] at this
  norm_num at this

end Prio.Prio2Complete

-- all of the following depend only on [propext, Classical.choice, Quot.sound]:
-- #print axioms Prio.Prio2Complete.prio2_complete_corrected
-- #print axioms Prio.Prio2Complete.prio2_complete_total'
-- #print axioms Prio.Prio2Complete.constructProof_ok
-- #print axioms Prio.Prio2Complete.gvm_total
-- #print axioms Prio.Prio2Complete.original_statement_false
