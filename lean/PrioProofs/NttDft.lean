import PrioModel.Ntt
import Mathlib.Algebra.BigOperators.Group.Finset.Basic
import Mathlib.Algebra.BigOperators.Ring.Finset
import Mathlib.Algebra.BigOperators.Intervals
import Mathlib.Algebra.Ring.Defs
import Mathlib.Tactic.Ring
import Mathlib.Tactic.Linarith
import Mathlib.Tactic.Set

/-! The NTT loops of `src/ntt.rs` compute the discrete Fourier transform (for C10).

Part 1: one level of butterflies, as the loops perform it on the array, equals the parallel
radix-2 step.  Part 2: the levels compose to the DFT. -/
namespace Prio.Ntt
open Finset BigOperators

variable {F : Type} [CommRing F]

/-- the array read as a function (zero outside) -/
def fn (a : Array F) : Nat → F := fun p => a.getD p 0

theorem getD_set (a : Array F) (i j : Nat) (v : F) :
    (a.setIfInBounds i v).getD j 0 = if i = j ∧ i < a.size then v else a.getD j 0 := by
  simp only [Array.getD_eq_getD_getElem?, Array.getElem?_setIfInBounds]
  by_cases h : i = j
  · subst h
    by_cases h2 : i < a.size
    · simp [h2]
    · simp [h2]
  · simp [h]

theorem butterfly_size (a : Array F) (x y : Nat) (w : F) : (butterfly a x y w).size = a.size := by
  unfold butterfly; simp

/-- positions are written as `block * B + offset` with `offset < B`; this decomposition is unique -/
theorem pos_unique (B j j' o o' : Nat) (ho : o < B) (ho' : o' < B) (h : j * B + o = j' * B + o') :
    j = j' ∧ o = o' := by
  have hB : 0 < B := by omega
  have h1 : (j * B + o) / B = j := by
    rw [Nat.mul_comm, Nat.mul_add_div hB, Nat.div_eq_of_lt ho]; simp
  have h2 : (j' * B + o') / B = j' := by
    rw [Nat.mul_comm, Nat.mul_add_div hB, Nat.div_eq_of_lt ho']; simp
  have hj : j = j' := by rw [← h1, ← h2, h]
  subst hj
  exact ⟨rfl, by omega⟩

/-- one butterfly, read block-wise -/
theorem butterfly_fn (a : Array F) (y i j0 : Nat) (w : F) (hi : i < y)
    (hb : j0 * (2 * y) + i + y < a.size) (jj off : Nat) (hoff : off < 2 * y) :
    fn (butterfly a (j0 * (2 * y) + i) y w) (jj * (2 * y) + off) =
      if jj = j0 ∧ off = i + y then fn a (j0 * (2 * y) + i) - w * fn a (j0 * (2 * y) + i + y)
      else if jj = j0 ∧ off = i then fn a (j0 * (2 * y) + i) + w * fn a (j0 * (2 * y) + i + y)
      else fn a (jj * (2 * y) + off) := by
  unfold butterfly fn
  simp only
  rw [getD_set, getD_set]
  simp only [Array.size_setIfInBounds]
  have e1 : (j0 * (2 * y) + i + y = jj * (2 * y) + off) ↔ (jj = j0 ∧ off = i + y) := by
    constructor
    · intro h
      have := pos_unique (2 * y) j0 jj (i + y) off (by omega) hoff (by omega)
      exact ⟨this.1.symm, this.2.symm⟩
    · rintro ⟨rfl, rfl⟩; omega
  have e2 : (j0 * (2 * y) + i = jj * (2 * y) + off) ↔ (jj = j0 ∧ off = i) := by
    constructor
    · intro h
      have := pos_unique (2 * y) j0 jj i off (by omega) hoff h
      exact ⟨this.1.symm, this.2.symm⟩
    · rintro ⟨rfl, rfl⟩; rfl
  by_cases c1 : jj = j0 ∧ off = i + y
  · rw [if_pos ⟨e1.mpr c1, hb⟩, if_pos c1]
  · have n1 : ¬ (j0 * (2 * y) + i + y = jj * (2 * y) + off ∧ j0 * (2 * y) + i + y < a.size) := fun h => c1 (e1.mp h.1)
    rw [if_neg n1, if_neg c1]
    by_cases c2 : jj = j0 ∧ off = i
    · rw [if_pos ⟨e2.mpr c2, by omega⟩, if_pos c2]
    · have n2 : ¬ (j0 * (2 * y) + i = jj * (2 * y) + off ∧ j0 * (2 * y) + i < a.size) := fun h => c2 (e2.mp h.1)
      rw [if_neg n2, if_neg c2]

theorem jLoop_size (l y i : Nat) (w : F) : ∀ n j (a : Array F), (jLoop l y i w n j a).size = a.size := by
  intro n
  induction n with
  | zero => intro j a; rfl
  | succ n ih => intro j a; simp only [jLoop]; rw [ih, butterfly_size]

/-- the inner loop: one butterfly in each of the blocks `j0 .. j0+n-1`, at offset `i` -/
theorem jLoop_fn (l y i : Nat) (w : F) (hB : 2 ^ l = 2 * y) (hi : i < y) :
    ∀ n j0 (a : Array F), (j0 + n) * (2 * y) ≤ a.size → ∀ jj off, off < 2 * y →
      fn (jLoop l y i w n j0 a) (jj * (2 * y) + off) =
        if j0 ≤ jj ∧ jj < j0 + n ∧ off = i + y then fn a (jj * (2 * y) + i) - w * fn a (jj * (2 * y) + i + y)
        else if j0 ≤ jj ∧ jj < j0 + n ∧ off = i then fn a (jj * (2 * y) + i) + w * fn a (jj * (2 * y) + i + y)
        else fn a (jj * (2 * y) + off) := by
  intro n
  induction n with
  | zero =>
    intro j0 a _ jj off _
    simp only [jLoop]
    rw [if_neg (by omega), if_neg (by omega)]
  | succ n ih =>
    intro j0 a hsz jj off hoff
    simp only [jLoop]
    rw [hB]
    have hb : j0 * (2 * y) + i + y < a.size := by
      have : (j0 + 1) * (2 * y) ≤ (j0 + (n + 1)) * (2 * y) := Nat.mul_le_mul_right _ (by omega)
      have : (j0 + 1) * (2 * y) = j0 * (2 * y) + 2 * y := by ring
      omega
    have hsz' : (j0 + 1 + n) * (2 * y) ≤ (butterfly a (j0 * (2 * y) + i) y w).size := by
      rw [butterfly_size]
      have : j0 + 1 + n = j0 + (n + 1) := by omega
      rw [this]; exact hsz
    rw [ih (j0 + 1) _ hsz' jj off hoff]
    -- values of the once-updated array at the three positions of block `jj`
    have v := butterfly_fn a y i j0 w hi hb
    have hio : i < 2 * y := by omega
    have hiy : i + y < 2 * y := by omega
    have e3 : jj * (2 * y) + i + y = jj * (2 * y) + (i + y) := by omega
    by_cases hj : jj = j0
    · subst hj
      rw [if_neg (by omega), if_neg (by omega), v jj off hoff]
      by_cases c1 : off = i + y
      · subst c1; simp
      · by_cases c2 : off = i
        · subst c2
          have : ¬ (off = off + y) := by omega
          simp [this]
        · simp [c1, c2]
    · -- other blocks are untouched by the first butterfly
      have u1 := v jj i hio
      have u2 := v jj (i + y) hiy
      have u3 := v jj off hoff
      rw [if_neg (fun h => hj h.1), if_neg (fun h => hj h.1)] at u1 u2 u3
      rw [e3, u1, u2, u3]
      have k1 : (j0 + 1 ≤ jj ∧ jj < j0 + 1 + n ∧ off = i + y) ↔ (j0 ≤ jj ∧ jj < j0 + (n + 1) ∧ off = i + y) := by omega
      have k2 : (j0 + 1 ≤ jj ∧ jj < j0 + 1 + n ∧ off = i) ↔ (j0 ≤ jj ∧ jj < j0 + (n + 1) ∧ off = i) := by omega
      simp only [k1, k2]

theorem iLoop_size (l y chunk : Nat) (r : F) : ∀ n i (w : F) (a : Array F), (iLoop l y chunk r n i w a).size = a.size := by
  intro n
  induction n with
  | zero => intro i w a; rfl
  | succ n ih => intro i w a; simp only [iLoop]; rw [ih, jLoop_size]

/-- the middle loop: offsets `i0 .. i0+n-1`, twiddle `w0 * r^(offset - i0 + 1)` -/
theorem iLoop_fn (l y chunk : Nat) (r : F) (hB : 2 ^ l = 2 * y) :
    ∀ n i0 (w0 : F) (a : Array F), i0 + n ≤ y → chunk * (2 * y) ≤ a.size → ∀ jj off, jj < chunk → off < 2 * y →
      fn (iLoop l y chunk r n i0 w0 a) (jj * (2 * y) + off) =
        if i0 ≤ off ∧ off < i0 + n then
          fn a (jj * (2 * y) + off) + w0 * r ^ (off - i0 + 1) * fn a (jj * (2 * y) + (off + y))
        else if i0 + y ≤ off ∧ off < i0 + n + y then
          fn a (jj * (2 * y) + (off - y)) - w0 * r ^ (off - y - i0 + 1) * fn a (jj * (2 * y) + off)
        else fn a (jj * (2 * y) + off) := by
  intro n
  induction n with
  | zero =>
    intro i0 w0 a _ _ jj off _ _
    simp only [iLoop]
    rw [if_neg (by omega), if_neg (by omega)]
  | succ n ih =>
    intro i0 w0 a hin hsz jj off hjj hoff
    simp only [iLoop]
    have hi0 : i0 < y := by omega
    have hsz' : chunk * (2 * y) ≤ (jLoop l y i0 (w0 * r) chunk 0 a).size := by rw [jLoop_size]; exact hsz
    rw [ih (i0 + 1) (w0 * r) _ (by omega) hsz' jj off hjj hoff]
    -- the array after the inner loop for offset `i0`, read at any offset of block `jj`
    have J : ∀ o, o < 2 * y → fn (jLoop l y i0 (w0 * r) chunk 0 a) (jj * (2 * y) + o) =
        if o = i0 + y then fn a (jj * (2 * y) + i0) - w0 * r * fn a (jj * (2 * y) + i0 + y)
        else if o = i0 then fn a (jj * (2 * y) + i0) + w0 * r * fn a (jj * (2 * y) + i0 + y)
        else fn a (jj * (2 * y) + o) := by
      intro o ho
      rw [jLoop_fn l y i0 (w0 * r) hB hi0 chunk 0 a (by simpa using hsz) jj o ho]
      have k1 : (0 ≤ jj ∧ jj < 0 + chunk ∧ o = i0 + y) ↔ o = i0 + y := by constructor <;> [exact fun h => h.2.2; exact fun h => ⟨by omega, by omega, h⟩]
      have k2 : (0 ≤ jj ∧ jj < 0 + chunk ∧ o = i0) ↔ o = i0 := by constructor <;> [exact fun h => h.2.2; exact fun h => ⟨by omega, by omega, h⟩]
      simp only [k1, k2]
    by_cases c1 : i0 + 1 ≤ off ∧ off < i0 + 1 + n
    · -- a later offset: both positions it reads are untouched by the `i0` pass
      rw [if_pos c1, if_pos ⟨by omega, by omega⟩]
      rw [J off hoff, J (off + y) (by omega)]
      rw [if_neg (by omega), if_neg (by omega), if_neg (by omega), if_neg (by omega)]
      have : off - (i0 + 1) + 1 = off - i0 := by omega
      rw [this]
      have : off - i0 + 1 = (off - i0) + 1 := rfl
      rw [pow_succ]
      ring
    · rw [if_neg c1]
      by_cases c2 : i0 + 1 + y ≤ off ∧ off < i0 + 1 + n + y
      · rw [if_pos c2, if_neg (by omega), if_pos ⟨by omega, by omega⟩]
        rw [J off hoff, J (off - y) (by omega)]
        rw [if_neg (by omega), if_neg (by omega), if_neg (by omega), if_neg (by omega)]
        have : off - y - (i0 + 1) + 1 = off - y - i0 := by omega
        rw [this, pow_succ]
        ring
      · rw [if_neg c2, J off hoff]
        by_cases c3 : off = i0 + y
        · subst c3
          rw [if_pos rfl, if_neg (by omega), if_pos ⟨by omega, by omega⟩]
          have e1 : i0 + y - y = i0 := by omega
          have e2 : i0 - i0 + 1 = 1 := by omega
          rw [e1, e2, pow_one]
          have e3 : jj * (2 * y) + i0 + y = jj * (2 * y) + (i0 + y) := by omega
          rw [e3]
        · rw [if_neg c3]
          by_cases c4 : off = i0
          · subst c4
            rw [if_pos rfl, if_pos ⟨by omega, by omega⟩]
            have e2 : off - off + 1 = 1 := by omega
            rw [e2, pow_one]
            have e3 : jj * (2 * y) + off + y = jj * (2 * y) + (off + y) := by omega
            rw [e3]
          · rw [if_neg c4, if_neg (by omega), if_neg (by omega)]

/-- **one level**: after the `i = 0` pass and the passes `i = 1 .. y-1`, every block `jj` holds the
    radix-2 combination of its two halves with twiddles `w * r^k` -/
theorem level_fn (l y chunk : Nat) (w r : F) (hB : 2 ^ l = 2 * y) (hy : 0 < y) (a : Array F)
    (hsz : chunk * (2 * y) ≤ a.size) (jj off : Nat) (hjj : jj < chunk) (hoff : off < 2 * y) :
    fn (iLoop l y chunk r (y - 1) 1 w (jLoop l y 0 w chunk 0 a)) (jj * (2 * y) + off) =
      if off < y then fn a (jj * (2 * y) + off) + w * r ^ off * fn a (jj * (2 * y) + (off + y))
      else fn a (jj * (2 * y) + (off - y)) - w * r ^ (off - y) * fn a (jj * (2 * y) + off) := by
  have hsz' : chunk * (2 * y) ≤ (jLoop l y 0 w chunk 0 a).size := by rw [jLoop_size]; exact hsz
  rw [iLoop_fn l y chunk r hB (y - 1) 1 w _ (by omega) hsz' jj off hjj hoff]
  have J : ∀ o, o < 2 * y → fn (jLoop l y 0 w chunk 0 a) (jj * (2 * y) + o) =
      if o = y then fn a (jj * (2 * y) + 0) - w * fn a (jj * (2 * y) + y)
      else if o = 0 then fn a (jj * (2 * y) + 0) + w * fn a (jj * (2 * y) + y)
      else fn a (jj * (2 * y) + o) := by
    intro o ho
    rw [jLoop_fn l y 0 w hB hy chunk 0 a (by simpa using hsz) jj o ho]
    have k1 : (0 ≤ jj ∧ jj < 0 + chunk ∧ o = 0 + y) ↔ o = y :=
      ⟨fun h => by omega, fun h => ⟨by omega, by omega, by omega⟩⟩
    have k2 : (0 ≤ jj ∧ jj < 0 + chunk ∧ o = 0) ↔ o = 0 :=
      ⟨fun h => h.2.2, fun h => ⟨by omega, by omega, h⟩⟩
    simp only [k1, k2, Nat.add_zero]
  by_cases c1 : 1 ≤ off ∧ off < 1 + (y - 1)
  · rw [if_pos c1, if_pos (by omega), J off hoff, J (off + y) (by omega)]
    rw [if_neg (by omega), if_neg (by omega), if_neg (by omega), if_neg (by omega)]
    have : off - 1 + 1 = off := by omega
    rw [this]
  · rw [if_neg c1]
    by_cases c2 : 1 + y ≤ off ∧ off < 1 + (y - 1) + y
    · rw [if_pos c2, if_neg (by omega), J off hoff, J (off - y) (by omega)]
      rw [if_neg (by omega), if_neg (by omega), if_neg (by omega), if_neg (by omega)]
      have : off - y - 1 + 1 = off - y := by omega
      rw [this]
    · rw [if_neg c2, J off hoff]
      by_cases c3 : off = y
      · subst c3
        rw [if_pos rfl, if_neg (by omega)]
        simp
      · have c4 : off = 0 := by omega
        subst c4
        rw [if_neg c3, if_pos rfl, if_pos hy]
        simp

/-! ## Part 2: the levels compose to the DFT -/

/-- what the table of roots must satisfy: `ω 1 = -1` and each root is the square of the next
    (C09 proves this for the tables of src/fp.rs) -/
structure Roots (ω : Nat → F) (top : Nat) : Prop where
  one_neg : ω 1 = -1
  sq : ∀ l, 1 ≤ l → l ≤ top → ω l * ω l = ω (l - 1)

theorem Roots.pow_half {ω : Nat → F} {top : Nat} (h : Roots ω top) : ∀ l, 1 ≤ l → l ≤ top → ω l ^ (2 ^ (l - 1)) = -1 := by
  intro l hl
  induction l with
  | zero => omega
  | succ l ih =>
    intro hlt
    by_cases h0 : l = 0
    · subst h0; simp [h.one_neg]
    · have e : 2 ^ (l + 1 - 1) = 2 * 2 ^ (l - 1) := by
        have : l + 1 - 1 = (l - 1) + 1 := by omega
        rw [this, pow_succ]; ring
      rw [e, pow_mul, pow_two, h.sq (l + 1) (by omega) hlt]
      simpa using ih (by omega) (by omega)

/-- the shift applied at level `l` (`set_s`): the next finer root, or 1 -/
def sigma (ω : Nat → F) (setS : Bool) (l : Nat) : F := if setS then ω (l + 1) else 1

theorem sigma_sq {ω : Nat → F} {top : Nat} (h : Roots ω top) (setS : Bool) (l : Nat) (hl : 1 ≤ l)
    (hlt : (if setS then l + 1 else l) ≤ top) :
    sigma ω setS l * sigma ω setS l = sigma ω setS (l - 1) := by
  unfold sigma
  cases setS
  · simp
  · simp only [if_true] at hlt ⊢
    rw [h.sq (l + 1) (by omega) hlt]
    congr 1; omega

theorem sum_even_odd (f : Nat → F) (y : Nat) :
    ∑ t ∈ range (2 * y), f t = ∑ u ∈ range y, f (2 * u) + ∑ u ∈ range y, f (2 * u + 1) := by
  induction y with
  | zero => simp
  | succ y ih =>
    have : 2 * (y + 1) = 2 * y + 1 + 1 := by ring
    rw [this, sum_range_succ, sum_range_succ, ih, sum_range_succ, sum_range_succ]
    ring

/-- the size-`2^l` transform of the stride-`2^(d-l)` subsequence that starts at `bitrev (d-l) jj`,
    evaluated at the `k`-th point `σ_l ω_l^k` -/
def dftBlock (ω : Nat → F) (setS : Bool) (xf : Nat → F) (d l jj k : Nat) : F :=
  ∑ t ∈ range (2 ^ l), xf (bitrev (d - l) jj + t * 2 ^ (d - l)) * (sigma ω setS l * ω l ^ k) ^ t

/-- the invariant after level `l` -/
def Inv (ω : Nat → F) (setS : Bool) (xf : Nat → F) (d l : Nat) (a : Array F) : Prop :=
  ∀ jj k, jj < 2 ^ (d - l) → k < 2 ^ l → fn a (jj * 2 ^ l + k) = dftBlock ω setS xf d l jj k

theorem bitrev_even (n i : Nat) : bitrev (n + 1) (2 * i) = bitrev n i := by
  simp [bitrev]

theorem bitrev_odd (n i : Nat) : bitrev (n + 1) (2 * i + 1) = 2 ^ n + bitrev n i := by
  simp only [bitrev]
  have h1 : (2 * i + 1) % 2 = 1 := by omega
  have h2 : (2 * i + 1) / 2 = i := by omega
  rw [h1, h2]; ring

/-- the radix-2 recursion of the transform: a block at level `l` from the two blocks below it -/
theorem dftBlock_step {ω : Nat → F} {top : Nat} (h : Roots ω top) (setS : Bool) (xf : Nat → F) (d l jj k : Nat)
    (hl : 1 ≤ l) (hld : l ≤ d) (hlt : (if setS then l + 1 else l) ≤ top) :
    dftBlock ω setS xf d l jj k =
      dftBlock ω setS xf d (l - 1) (2 * jj) k +
        (sigma ω setS l * ω l ^ k) * dftBlock ω setS xf d (l - 1) (2 * jj + 1) k := by
  unfold dftBlock
  have e2l : 2 ^ l = 2 * 2 ^ (l - 1) := by
    have : l = (l - 1) + 1 := by omega
    conv_lhs => rw [this, pow_succ]
    ring
  have edl : d - (l - 1) = (d - l) + 1 := by omega
  rw [e2l, sum_even_odd, edl, bitrev_even, bitrev_odd]
  have zsq : (sigma ω setS l * ω l ^ k) * (sigma ω setS l * ω l ^ k) = sigma ω setS (l - 1) * ω (l - 1) ^ k := by
    have : (sigma ω setS l * ω l ^ k) * (sigma ω setS l * ω l ^ k) = (sigma ω setS l * sigma ω setS l) * (ω l * ω l) ^ k := by
      rw [mul_pow]; ring
    rw [this, sigma_sq h setS l hl hlt, h.sq l hl (by cases setS <;> simp at hlt <;> omega)]
  congr 1
  · apply sum_congr rfl
    intro u _
    have e1 : 2 * u * 2 ^ (d - l) = u * 2 ^ (d - l + 1) := by rw [pow_succ]; ring
    rw [e1, pow_mul, pow_two, zsq]
  · rw [mul_sum]
    apply sum_congr rfl
    intro u _
    have e1 : bitrev (d - l) jj + (2 * u + 1) * 2 ^ (d - l) = 2 ^ (d - l) + bitrev (d - l) jj + u * 2 ^ (d - l + 1) := by
      rw [pow_succ]; ring
    have ez : (sigma ω setS l * ω l ^ k) ^ (2 * u + 1) =
        (sigma ω setS (l - 1) * ω (l - 1) ^ k) ^ u * (sigma ω setS l * ω l ^ k) := by
      rw [pow_succ, pow_mul, pow_two, zsq]
    rw [e1, ez]
    ring

theorem Roots.zero {ω : Nat → F} {top : Nat} (h : Roots ω top) (ht : 1 ≤ top) : ω 0 = 1 := by
  have := h.sq 1 (le_refl 1) ht
  rw [h.one_neg] at this
  simpa using this.symm

theorem Roots.pow_full {ω : Nat → F} {top : Nat} (h : Roots ω top) (ht : 1 ≤ top) (l : Nat) (hl' : l ≤ top) :
    ω l ^ (2 ^ l) = 1 := by
  by_cases hl : l = 0
  · subst hl; simp [h.zero ht]
  · have e : 2 ^ l = 2 ^ (l - 1) * 2 := by
      have : l = (l - 1) + 1 := by omega
      conv_lhs => rw [this, pow_succ]
    rw [e, pow_mul, h.pow_half l (by omega) hl']
    ring

/-- the block transform is periodic in the evaluation index with period `2^l` -/
theorem dftBlock_periodic {ω : Nat → F} {top : Nat} (h : Roots ω top) (ht : 1 ≤ top) (setS : Bool) (xf : Nat → F)
    (d l jj k : Nat) (hl : l ≤ top) :
    dftBlock ω setS xf d l jj (k + 2 ^ l) = dftBlock ω setS xf d l jj k := by
  unfold dftBlock
  rw [pow_add, h.pow_full ht l hl, mul_one]

/-- **level step**: if the array satisfies the invariant of level `l-1`, the array after the two
    loops of level `l` (twiddles `σ_l ω_l^k`) satisfies the invariant of level `l` -/
theorem inv_step {ω : Nat → F} {top : Nat} (h : Roots ω top) (setS : Bool) (xf : Nat → F) (d l : Nat) (hl : 1 ≤ l) (hld : l ≤ d)
    (hlt : (if setS then l + 1 else l) ≤ top) (a : Array F) (hsz : 2 ^ d ≤ a.size) (hinv : Inv ω setS xf d (l - 1) a) :
    Inv ω setS xf d l
      (iLoop l (2 ^ (l - 1)) (2 ^ (d - l)) (ω l) (2 ^ (l - 1) - 1) 1 (sigma ω setS l)
        (jLoop l (2 ^ (l - 1)) 0 (sigma ω setS l) (2 ^ (d - l)) 0 a)) := by
  intro jj k hjj hk
  have hltop : l ≤ top := by cases setS <;> simp at hlt <;> omega
  have htop : 1 ≤ top := by omega
  have e2l : 2 ^ l = 2 * 2 ^ (l - 1) := by
    have : l = (l - 1) + 1 := by omega
    conv_lhs => rw [this, pow_succ]
    ring
  have hy : 0 < 2 ^ (l - 1) := Nat.pow_pos (by norm_num)
  have hchunk : 2 ^ (d - l) * (2 * 2 ^ (l - 1)) ≤ a.size := by
    rw [← e2l, ← pow_add]
    have : d - l + l = d := by omega
    rw [this]; exact hsz
  have hk' : k < 2 * 2 ^ (l - 1) := by rw [← e2l]; exact hk
  have lv := level_fn l (2 ^ (l - 1)) (2 ^ (d - l)) (sigma ω setS l) (ω l) e2l hy a hchunk jj k hjj hk'
  rw [e2l, lv]
  -- positions of the two half blocks at level l-1
  have edl : 2 ^ (d - (l - 1)) = 2 * 2 ^ (d - l) := by
    have : d - (l - 1) = (d - l) + 1 := by omega
    rw [this, pow_succ]; ring
  have p0 : ∀ o, o < 2 ^ (l - 1) → fn a (jj * (2 * 2 ^ (l - 1)) + o) = dftBlock ω setS xf d (l - 1) (2 * jj) o := by
    intro o ho
    have := hinv (2 * jj) o (by rw [edl]; omega) ho
    rw [← this]; congr 1; ring
  have p1 : ∀ o, o < 2 ^ (l - 1) → fn a (jj * (2 * 2 ^ (l - 1)) + (o + 2 ^ (l - 1))) = dftBlock ω setS xf d (l - 1) (2 * jj + 1) o := by
    intro o ho
    have := hinv (2 * jj + 1) o (by rw [edl]; omega) ho
    rw [← this]; congr 1; ring
  by_cases c : k < 2 ^ (l - 1)
  · rw [if_pos c, p0 k c, p1 k c, dftBlock_step h setS xf d l jj k hl hld hlt]
  · rw [if_neg c]
    have hk2 : k - 2 ^ (l - 1) < 2 ^ (l - 1) := by omega
    have ek : k = (k - 2 ^ (l - 1)) + 2 ^ (l - 1) := by omega
    rw [p0 (k - 2 ^ (l - 1)) hk2]
    have := p1 (k - 2 ^ (l - 1)) hk2
    rw [← ek] at this
    rw [this, dftBlock_step h setS xf d l jj k hl hld hlt]
    -- index k = k' + y: the half-size blocks are periodic, and ω_l^y = -1
    have q0 : dftBlock ω setS xf d (l - 1) (2 * jj) k = dftBlock ω setS xf d (l - 1) (2 * jj) (k - 2 ^ (l - 1)) := by
      conv_lhs => rw [ek]
      exact dftBlock_periodic h htop setS xf d (l - 1) (2 * jj) _ (by omega)
    have q1 : dftBlock ω setS xf d (l - 1) (2 * jj + 1) k = dftBlock ω setS xf d (l - 1) (2 * jj + 1) (k - 2 ^ (l - 1)) := by
      conv_lhs => rw [ek]
      exact dftBlock_periodic h htop setS xf d (l - 1) (2 * jj + 1) _ (by omega)
    have qz : ω l ^ k = - ω l ^ (k - 2 ^ (l - 1)) := by
      conv_lhs => rw [ek]
      rw [pow_add, h.pow_half l hl hltop]; ring
    rw [q0, q1, qz]
    ring

/-- the roots the transform looks up are present in the table and are the `ω l` -/
def RootsAvail (root : Nat → Option F) (ω : Nat → F) (top : Nat) : Prop := ∀ l, l ≤ top → root l = some (ω l)

/-- **all levels**: running levels `l .. d` from an array that satisfies the invariant of level
    `l-1` succeeds and yields an array that satisfies the invariant of level `d` -/
theorem lLoop_dft {ω : Nat → F} (root : Nat → Option F) (setS : Bool) (xf : Nat → F) (d : Nat)
    (h : Roots ω (if setS then d + 1 else d))
    (hr : RootsAvail root ω (if setS then d + 1 else d)) :
    ∀ n l (a : Array F), 1 ≤ l → l + n = d + 1 → 2 ^ d ≤ a.size → Inv ω setS xf d (l - 1) a →
      ∃ a', lLoop root (2 ^ d) setS n l a = some a' ∧ Inv ω setS xf d d a' ∧ a'.size = a.size := by
  intro n
  induction n with
  | zero =>
    intro l a hl hln _ hinv
    have : l - 1 = d := by omega
    rw [this] at hinv
    exact ⟨a, rfl, hinv, rfl⟩
  | succ n ih =>
    intro l a hl hln hsz hinv
    have hld : l ≤ d := by omega
    simp only [lLoop]
    have hw : (if setS = true then root (l + 1) else some 1) = some (sigma ω setS l) := by
      unfold sigma
      cases setS
      · simp
      · simp only [if_true]
        exact hr (l + 1) (by simp; omega)
    have hrl : root l = some (ω l) := hr l (by cases setS <;> simp <;> omega)
    rw [hw, hrl]
    simp only
    have hchunk : 2 ^ d / 2 ^ (l - 1) / 2 = 2 ^ (d - l) := by
      rw [Nat.pow_div (by omega) (by norm_num)]
      have : d - (l - 1) = (d - l) + 1 := by omega
      rw [this, pow_succ]
      simp
    rw [hchunk]
    have step := inv_step h setS xf d l hl hld (by cases setS <;> simp <;> omega) a hsz hinv
    have hsize : (iLoop l (2 ^ (l - 1)) (2 ^ (d - l)) (ω l) (2 ^ (l - 1) - 1) 1 (sigma ω setS l)
        (jLoop l (2 ^ (l - 1)) 0 (sigma ω setS l) (2 ^ (d - l)) 0 a)).size = a.size := by
      rw [iLoop_size, jLoop_size]
    obtain ⟨a', e1, e2, e3⟩ := ih (l + 1) _ (by omega) (by omega) (by rw [hsize]; exact hsz) (by simpa using step)
    exact ⟨a', e1, e2, by rw [e3, hsize]⟩

theorem getD_pad (inp : Array F) (j : Nat) : (if j < inp.size then inp.getD j 0 else 0) = inp.getD j 0 := by
  by_cases h : j < inp.size
  · rw [if_pos h]
  · rw [if_neg h, Array.getD_eq_getD_getElem?, Array.getElem?_eq_none (by omega)]
    rfl

/-- the bit-reversal copy that starts the transform -/
theorem init_fn (d : Nat) (inp outp : Array F) :
    ∀ n, n ≤ outp.size →
      ((List.range n).foldl (fun (o : Array F) i =>
        o.setIfInBounds i (if bitrev d i < inp.size then inp.getD (bitrev d i) 0 else 0)) outp).size = outp.size ∧
      ∀ p, fn ((List.range n).foldl (fun (o : Array F) i =>
        o.setIfInBounds i (if bitrev d i < inp.size then inp.getD (bitrev d i) 0 else 0)) outp) p =
          if p < n then inp.getD (bitrev d p) 0 else fn outp p := by
  have key : (fun (o : Array F) i => o.setIfInBounds i (if bitrev d i < inp.size then inp.getD (bitrev d i) 0 else 0)) =
      (fun (o : Array F) i => o.setIfInBounds i (inp.getD (bitrev d i) 0)) := by
    funext o i; rw [getD_pad]
  rw [key]
  intro n
  induction n with
  | zero => intro _; exact ⟨rfl, fun p => by rw [if_neg (by omega)]; rfl⟩
  | succ n ih =>
    intro hn
    obtain ⟨s1, s2⟩ := ih (by omega)
    rw [List.range_succ, List.foldl_append]
    simp only [List.foldl_cons, List.foldl_nil]
    refine ⟨by rw [Array.size_setIfInBounds, s1], ?_⟩
    intro p
    show ((List.foldl (fun (o : Array F) i => o.setIfInBounds i (inp.getD (bitrev d i) 0)) outp (List.range n)).setIfInBounds n
      (inp.getD (bitrev d n) 0)).getD p 0 = _
    rw [getD_set]
    by_cases hp : n = p
    · subst hp
      rw [if_pos ⟨rfl, by rw [s1]; omega⟩, if_pos (by omega)]
    · rw [if_neg (fun hh => hp hh.1)]
      have := s2 p
      unfold fn at this
      rw [this]
      by_cases c : p < n
      · rw [if_pos c, if_pos (by omega)]
      · rw [if_neg c, if_neg (by omega)]; rfl

theorem log2ceil_two_pow (d : Nat) : log2ceil (2 ^ d) = d := by
  unfold log2ceil
  simp only [Nat.log2_two_pow]
  rw [if_neg (by omega)]
  rfl

/-- **the NTT is the discrete Fourier transform.**  For every ring, every table of roots with
    `ω 1 = -1` and `ω l ² = ω (l-1)`, every size `2^d` within the table, with or without the shift
    (`set_s`), every input (zero-padded or truncated to `2^d` by the index function) and every output
    buffer of sufficient length, `ntt_internal` succeeds and its `k`-th output is
    `Σ_t inp[t] · (σ_d · ω_d^k)^t`: the polynomial with coefficients `inp` evaluated at `σ_d · ω_d^k`,
    `σ_d` being `ω (d+1)` for the shifted transform and 1 otherwise.  Entries beyond `2^d` are untouched. -/
theorem ntt_eq_dft {ω : Nat → F} (root : Nat → Option F) (setS : Bool) (d outLen : Nat)
    (h : Roots ω (if setS then d + 1 else d))
    (outp inp : Array F) (hd : d ≤ maxRoots) (hds : setS = true → d ≤ maxRoots - 1)
    (hol : 2 ^ d ≤ outLen) (hop : 2 ^ d ≤ outp.size)
    (hr : RootsAvail root ω (if setS then d + 1 else d)) (hne : d = 0 → inp.size ≠ 0) :
    ∃ a, nttInternal root outLen outp inp (2 ^ d) setS = .ok a ∧ a.size = outp.size ∧
      ∀ k, k < 2 ^ d → a.getD k 0 = ∑ t ∈ range (2 ^ d), inp.getD t 0 * (sigma ω setS d * ω d ^ k) ^ t := by
  unfold nttInternal
  have hpos : 0 < 2 ^ d := Nat.pow_pos (by norm_num)
  rw [if_neg (by omega)]
  simp only [log2ceil_two_pow]
  rw [if_neg (by omega)]
  have hlim : ((setS && decide (2 ^ d > 2 ^ (maxRoots - 1))) || decide (2 ^ d > 2 ^ maxRoots)) = false := by
    have h1 : ¬ 2 ^ d > 2 ^ maxRoots := by
      have := Nat.pow_le_pow_right (by norm_num : 0 < 2) hd; omega
    cases hs : setS
    · simp [h1]
    · have h2 : ¬ 2 ^ d > 2 ^ (maxRoots - 1) := by
        have := Nat.pow_le_pow_right (by norm_num : 0 < 2) (hds hs); omega
      simp [h1, h2]
  rw [hlim]
  simp only [Bool.false_eq_true, if_false, ne_eq, not_true_eq_false]
  -- the array after the initial copy satisfies the invariant of level 0
  have final : ∀ a0 : Array F, a0.size = outp.size → (∀ p, p < 2 ^ d → fn a0 p = inp.getD (bitrev d p) 0) →
      ∃ a, (match lLoop root (2 ^ d) setS d 1 a0 with
            | some r => R.ok r
            | none => R.panic) = R.ok a ∧ a.size = outp.size ∧
        ∀ k, k < 2 ^ d → a.getD k 0 = ∑ t ∈ range (2 ^ d), inp.getD t 0 * (sigma ω setS d * ω d ^ k) ^ t := by
    intro a0 hs0 h0
    have inv0 : Inv ω setS (fun t => inp.getD t 0) d (1 - 1) a0 := by
      intro jj k hjj hk
      simp only [Nat.sub_self, pow_zero, Nat.lt_one_iff] at hk
      subst hk
      simp only [Nat.sub_self, pow_zero, mul_one, add_zero, Nat.sub_zero]
      rw [h0 jj (by simpa using hjj)]
      unfold dftBlock
      simp
    obtain ⟨a, e1, e2, e3⟩ := lLoop_dft root setS (fun t => inp.getD t 0) d h hr d 1 a0 (le_refl 1) (by omega)
      (by rw [hs0]; exact hop) inv0
    refine ⟨a, by rw [e1], by rw [e3, hs0], ?_⟩
    intro k hk
    have := e2 0 k (by simp) hk
    simp only [Nat.sub_self, pow_zero, zero_mul, zero_add, mul_one] at this
    unfold fn dftBlock at this
    rw [this]
    apply sum_congr rfl
    intro t _
    simp [bitrev]
  by_cases hd0 : d > 0
  · rw [if_pos hd0]
    simp only
    obtain ⟨s1, s2⟩ := init_fn d inp outp (2 ^ d) hop
    exact final _ s1 (fun p hp => by rw [s2 p, if_pos hp])
  · rw [if_neg hd0]
    have hd' : d = 0 := by omega
    rw [if_neg (hne hd')]
    simp only
    apply final
    · simp
    · intro p hp
      subst hd'
      have hp0 : p = 0 := by simpa using hp
      subst hp0
      have hsz0 : 0 < outp.size := by have := hop; simp at this; omega
      unfold fn
      rw [getD_set, if_pos ⟨rfl, hsz0⟩]
      simp [bitrev]

end Prio.Ntt
