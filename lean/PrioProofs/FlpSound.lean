import PrioProofs.FlpComplete
import Mathlib.LinearAlgebra.Lagrange
import Mathlib.Algebra.Polynomial.Roots
import Mathlib.Algebra.BigOperators.Fin
import Mathlib.Data.Fintype.BigOperators
import Mathlib.Data.List.OfFn
import Mathlib.Tactic.Ring
import Mathlib.Tactic.LinearCombination
import Mathlib.Tactic.FieldSimp

/-! Soundness of the FLP model (`PrioModel/Flp.lean`) as a counting theorem: an input that the validity circuit
    rejects is accepted for few choices of the verifier's randomness, WHATEVER the proof is.

    Outline.  For an arbitrary proof of the right length the verifier's wires depend on the input, the joint
    randomness and the seeds in the proof only (`verifierWires`); they are value tables of polynomials `W_k`.  The
    gadget-polynomial part of the proof (`2·2^d − 1` arbitrary values) is the value table of a polynomial `GP` with
    `2·2^d − 1` coefficients (`interp_coefs`), which `QueryShimGadget::new` extends to all `2^(d+1)` nodes
    (`queryShimPoly_any`); the verifier's circuit output (`verifierOutput`) is assembled from `GP(ω_d^c)` and the
    verifier message is `[check, W_1(r), …, W_a(r), GP(r)]` (`query_any`).  Acceptance means `check = 0` and
    `G(W_1(r), …, W_a(r)) = GP(r)` (`decide_true`).  So either `D = G∘W − GP` is the zero polynomial, the verifier's
    circuit output is the true one and the check value `∑ qrᵢ·oᵢ` vanishes, or `r` is one of the at most `2(2^d − 1)`
    roots of `D` (`flp_gadget_test`, `flp_gadget_dichotomy`, `flp_gadget_test_count`).  A non-zero linear form
    vanishes on `|F|^(m−1)` vectors (`flp_check_count`), a single non-zero output is rejected
    (`flp_single_output_reject`), and counting over the query randomness gives `flp_soundness`. -/
namespace Prio.Flp
open Prio.Ntt Finset BigOperators

variable {F : Type} [Field F]

/-! ## Part 0: interpolation and roots -/

/-- any `m` values at `m` distinct nodes are the values of a polynomial with `m` coefficients -/
theorem interp_coefs (m : Nat) (x y : Nat → F) (hinj : ∀ i j, i < m → j < m → x i = x j → i = j) :
    ∃ c : Nat → F, ∀ i, i < m → y i = ∑ t ∈ range m, c t * x i ^ t := by
  classical
  have hvs : Set.InjOn x (range m : Finset Nat) := by
    intro i hi j hj hij
    exact hinj i j (by simpa using hi) (by simpa using hj) hij
  rcases Nat.eq_zero_or_pos m with rfl | hm
  · exact ⟨fun _ => 0, fun i hi => by omega⟩
  have hdeg := Lagrange.degree_interpolate_lt (s := range m) (v := x) y hvs
  rw [card_range] at hdeg
  have hnd : (Lagrange.interpolate (range m) x y).natDegree < m := by
    by_cases h0 : Lagrange.interpolate (range m) x y = 0
    · rw [h0]; simpa using hm
    · exact (Polynomial.natDegree_lt_iff_degree_lt h0).mpr hdeg
  refine ⟨(Lagrange.interpolate (range m) x y).coeff, fun i hi => ?_⟩
  rw [← Polynomial.eval_eq_sum_range' hnd, Lagrange.eval_interpolate_at_node y hvs (mem_range.mpr hi)]

/-- the polynomial with the first `n` coefficients `c` -/
noncomputable def polyOf (n : Nat) (c : Nat → F) : Polynomial F :=
  ∑ t ∈ range n, Polynomial.C (c t) * Polynomial.X ^ t

theorem polyOf_eval (n : Nat) (c : Nat → F) (x : F) : (polyOf n c).eval x = ∑ t ∈ range n, c t * x ^ t := by
  simp [polyOf, Polynomial.eval_finsetSum]

theorem polyOf_natDegree_le (n : Nat) (c : Nat → F) : (polyOf n c).natDegree ≤ n - 1 := by
  apply Polynomial.natDegree_sum_le_of_forall_le
  intro i hi
  have := Polynomial.natDegree_C_mul_X_pow_le (c i) i
  have := mem_range.mp hi
  omega

theorem polyOf_natDegree_lt (n : Nat) (hn : 1 ≤ n) (c : Nat → F) : (polyOf n c).natDegree < n := by
  have := polyOf_natDegree_le n c
  omega

/-- a non-zero polynomial has at most `natDegree` roots in a finite field -/
theorem card_roots_le [Fintype F] (D : Polynomial F) (hD : D ≠ 0) (S : Finset F) (hS : ∀ r ∈ S, D.eval r = 0) :
    S.card ≤ D.natDegree := by
  apply Polynomial.card_le_degree_of_subset_roots
  intro r hr
  rw [Polynomial.mem_roots hD]
  exact hS r hr

/-! ## Part 1: the parts of the query randomness and of the proof; the shape of `query` -/

/-- the randomness of the linear-combination test, split off the query randomness as `query` does -/
def qrValidityOf (t : TypeSpec) (qr : List F) : List F :=
  if t.evalOutputLen > 1 then qr.take t.evalOutputLen else []

/-- the point at which the gadget test takes place, split off the query randomness as `query` does -/
def qrPointOf (t : TypeSpec) (qr : List F) : F :=
  (if t.evalOutputLen > 1 then qr.drop t.evalOutputLen else qr).getD 0 0

section WithBEq
variable [BEq F]

/-- the wire seeds of a proof -/
def proofSeeds (C : FieldCtx F) (t : TypeSpec) (proof : List F) : List F := proof.take (t.gadget C).arity

/-- the gadget-polynomial part of a proof -/
def proofGadgetPoly (C : FieldCtx F) (t : TypeSpec) (proof : List F) : List F :=
  (proof.take ((t.gadget C).arity + gadgetPolyLen (t.gadget C).degree (wirePolyLen (t.gadget C).calls))).drop
    (t.gadget C).arity

omit [BEq F] in
/-- the wires the verifier records: they depend on the input, the joint randomness and the seeds of the proof only -/
def verifierWires (C : FieldCtx F) (t : TypeSpec) (input jr proof : List F) : List (Array F) :=
  wiresOf (wirePolyLen (t.gadget C).calls) (proof.take (t.gadget C).arity) (gadgetArgs C t input jr 1)

/-- **the verifier's circuit output** (`validity` in `query`): the output of the validity circuit run on the
    verifier's shim gadget.  It does not depend on the query randomness. -/
def verifierOutput (C : FieldCtx F) (t : TypeSpec) (input proof jr : List F) : Res (List F) :=
  match queryShimPoly C (t.gadget C) (proofGadgetPoly C t proof) with
  | .err => .err
  | .panic => .panic
  | .ok (gp, step) =>
    match (validCircuit C t (queryShimEval gp step (wirePolyLen (t.gadget C).calls)) input jr 1).run
        (shimInit (wirePolyLen (t.gadget C).calls) (proofSeeds C t proof)) with
    | .err => .err
    | .panic => .panic
    | .ok (validity, _) => .ok validity

/-- `queryCore_shape` with the query randomness split explicitly -/
theorem queryCore_shape' (C : FieldCtx F) (t : TypeSpec) (input proof qr jr v : List F) (ns : Nat)
    (h : queryCore C t input proof qr jr ns = .ok v) :
    input.length = t.inputLen ∧ jr.length = t.jointRandLen ∧ qr.length = t.queryRandLen ∧
    proof.length = t.proofLen ∧
    (t.gadget C).arity + gadgetPolyLen (t.gadget C).degree (wirePolyLen (t.gadget C).calls) ≤ proof.length ∧
    ∃ gp step validity st rootsW rootsG,
      queryShimPoly C (t.gadget C) (proofGadgetPoly C t proof) = .ok (gp, step) ∧
      (validCircuit C t (queryShimEval gp step (wirePolyLen (t.gadget C).calls)) input jr ns).run
        (shimInit (wirePolyLen (t.gadget C).calls) (proofSeeds C t proof)) = .ok (validity, st) ∧
      validity.length = t.evalOutputLen ∧
      nthRootPowers C.root (Nat.log2 (wirePolyLen (t.gadget C).calls)) = some rootsW ∧
      nthRootPowers C.root (Nat.log2 gp.size) = some rootsG ∧
      v = [checkOf validity (qrValidityOf t qr)] ++
        st.wires.map (fun w => polyEvalLagrange rootsW C.half (Nat.log2 (wirePolyLen (t.gadget C).calls)) w
          (qrPointOf t qr)) ++
        [polyEvalLagrange rootsG C.half (Nat.log2 gp.size) gp (qrPointOf t qr)] := by
  unfold queryCore at h
  by_cases c1 : input.length ≠ t.inputLen
  · rw [if_pos c1] at h; cases h
  rw [if_neg c1] at h
  by_cases c2 : proof.length ≠ t.proofLen
  · rw [if_pos c2] at h; cases h
  rw [if_neg c2] at h
  by_cases c3 : qr.length ≠ t.queryRandLen
  · rw [if_pos c3] at h; cases h
  rw [if_neg c3] at h
  extract_lets eo qrV qrG g p r nextLen st0 at h
  by_cases c4 : qrG.length ≠ 1
  · rw [if_pos c4] at h; cases h
  rw [if_neg c4] at h
  by_cases c5 : jr.length ≠ t.jointRandLen
  · rw [if_pos c5] at h; cases h
  rw [if_neg c5] at h
  by_cases c6 : (fpow r p == 1) = true
  · rw [if_pos c6] at h; cases h
  rw [if_neg c6] at h
  by_cases c7 : nextLen > proof.length
  · rw [if_pos c7] at h; cases h
  rw [if_neg c7] at h
  refine ⟨by omega, by omega, by omega, by omega, by simp only [nextLen, g, p] at c7; omega, ?_⟩
  split at h
  · cases h
  · cases h
  · rename_i gp step hq
    simp only at h
    split at h
    · cases h
    · cases h
    · rename_i validity st hrun
      by_cases c8 : validity.length ≠ eo
      · rw [if_pos c8] at h; cases h
      rw [if_neg c8] at h
      split at h
      · rename_i rootsW rootsG hW hG
        cases h
        exact ⟨gp, step, validity, st, rootsW, rootsG, hq, hrun, by omega, hW, hG, rfl⟩
      · cases h

/-! ## Part 2: the verifier's gadget table for an arbitrary gadget polynomial -/

/-- **`QueryShimGadget::new`** on ANY list of `2·2^d − 1` values, seen as the values of a polynomial `cG` on the first
    nodes: the extension tabulates `cG` on all `2^(d+1)` nodes, no doubling takes place, the step is 2 -/
theorem queryShimPoly_any {ω : Nat → F} (C : FieldCtx F) (hC : CtxOk C ω) (g : Gadget F) (d : Nat)
    (hp : wirePolyLen g.calls = 2 ^ d) (hd1 : 1 ≤ d) (hd : d + 1 ≤ maxRoots) (hdeg : g.degree = 2)
    (gpoly : List F) (hlen : gpoly.length = 2 * 2 ^ d - 1) (cG : Nat → F)
    (hgc : ∀ i, i < 2 * 2 ^ d - 1 → gpoly.getD i 0 = ∑ t ∈ range (2 * 2 ^ d - 1), cG t * (ω (d + 1) ^ i) ^ t)
    (gp' : Array F) (step : Nat)
    (h : queryShimPoly C g gpoly = .ok (gp', step)) :
    step = 2 ∧ gp'.size = 2 ^ (d + 1) ∧
      ∀ k, k < 2 ^ (d + 1) → gp'.getD k 0 = ∑ t ∈ range (2 * 2 ^ d - 1), cG t * (ω (d + 1) ^ k) ^ t := by
  have e21 : 2 ^ (d + 1) = 2 * 2 ^ d := by rw [pow_succ]; ring
  have hpos : 0 < 2 ^ d := Nat.pow_pos (by norm_num)
  let gp : Array F := Array.ofFn (n := 2 ^ (d + 1)) fun k => ∑ t ∈ range (2 * 2 ^ d - 1), cG t * (ω (d + 1) ^ k.val) ^ t
  have hgs : gp.size = 2 ^ (d + 1) := by simp [gp]
  have hgv : ∀ k, k < 2 ^ (d + 1) → gp.getD k 0 = ∑ t ∈ range (2 * 2 ^ d - 1), cG t * (ω (d + 1) ^ k) ^ t := by
    intro k hk
    simp only [gp]
    rw [getD_ofFn _ k hk]
  have htake : gp.toList.take (2 * 2 ^ d - 1) = gpoly := by
    apply List.ext_getElem
    · rw [List.length_take, Array.length_toList, hgs, hlen, e21]; omega
    · intro i h1 h2
      have hi : i < 2 * 2 ^ d - 1 := by rw [hlen] at h2; exact h2
      have hi' : i < gp.size := by rw [hgs, e21]; omega
      have a1 := hgv i (by rw [e21]; omega)
      have a2 := hgc i hi
      rw [List.getD_eq_getElem _ _ h2] at a2
      rw [Array.getD_eq_getD_getElem?, Array.getElem?_eq_getElem hi', Option.getD_some] at a1
      rw [List.getElem_take, Array.getElem_toList, a1, a2]
  rw [← htake] at h
  obtain ⟨s1, s2, s3⟩ := queryShimPoly_analysis C hC g d hp hd1 hd hdeg gp hgs cG hgv gp' step h
  exact ⟨s1, s2, fun k hk => by rw [s3 k hk, hgv k hk]⟩

/-! ## Part 3: what acceptance means -/

theorem decide_true [LawfulBEq F] (C : FieldCtx F) (t : TypeSpec) (chk ge : F) (ws : List F)
    (hws : ws.length = (t.gadget C).arity)
    (h : decide C t ([chk] ++ ws ++ [ge]) = .ok true) :
    chk = 0 ∧ evalD (t.gadget C) ws = ge := by
  have hvl := verifierLen_eq C t
  have hlen : ([chk] ++ ws ++ [ge]).length = t.verifierLen := by
    simp only [List.length_append, List.length_cons, List.length_nil]; omega
  unfold decide at h
  rw [if_neg (by omega)] at h
  have h1 : ([chk] ++ ws ++ [ge]).headD 0 = chk := by simp
  rw [h1] at h
  by_cases hc : chk = 0
  · refine ⟨hc, ?_⟩
    subst hc
    simp only [beq_self_eq_true, Bool.not_true, Bool.false_eq_true, if_false] at h
    have h2 : (([(0 : F)] ++ ws ++ [ge]).drop 1).take (t.gadget C).arity = ws := by
      simp [← hws]
    rw [h2, if_neg (by rw [hlen]; omega)] at h
    have h3 : ([(0 : F)] ++ ws ++ [ge]).getD (1 + ws.length) 0 = ge := by
      rw [List.append_assoc, List.getD_append_right _ _ _ _ (by simp)]
      simp
    rw [h3] at h
    unfold evalD
    split at h
    · rename_i v hv
      rw [hv]
      simp only [Res.ok.injEq, beq_iff_eq] at h
      exact h
    · cases h
    · cases h
  · have : (!(chk == 0)) = true := by simp [hc]
    rw [if_pos this] at h
    cases h

/-! ## Part 4: the verifier on an arbitrary proof -/

omit [BEq F] in
/-- the outputs the verifier's shim gadget returns, for a gadget polynomial with coefficients `cG` -/
def shimOutputs (ω : Nat → F) (d : Nat) (cG : Nat → F) (calls : Nat) : List F :=
  (List.range calls).map fun i => ∑ t ∈ range (2 * 2 ^ d - 1), cG t * (ω d ^ (1 + i)) ^ t

/-- **the verifier on an arbitrary proof**: with `coefs` the coefficients of the polynomials that interpolate the
    verifier's wires and `cG` the coefficients of the polynomial that interpolates the gadget-polynomial part of the
    proof, the verifier's circuit output is assembled from the values of `cG` at the nodes `ω_d^c`, and the verifier
    message consists of the check value, the wire polynomials at the query point and `cG` at the query point -/
theorem query_any [LawfulBEq F] {ω : Nat → F} (C : FieldCtx F) (hC : CtxOk C ω) (t : TypeSpec)
    (ht : t.WellFormed) (input jr proof qr v : List F) (d : Nat)
    (hp : wirePolyLen (t.gadget C).calls = 2 ^ d) (hd1 : 1 ≤ d) (hd : d + 1 ≤ maxRoots)
    (hev : ∀ a ∈ gadgetArgs C t input jr 1, (t.gadget C).eval a = .ok (evalD (t.gadget C) a))
    (coefs : List (Nat → F)) (cG : Nat → F)
    (hco : List.Forall₂ (WireOf ω d) (verifierWires C t input jr proof) coefs)
    (hcG : ∀ i, i < 2 * 2 ^ d - 1 →
      (proofGadgetPoly C t proof).getD i 0 = ∑ t ∈ range (2 * 2 ^ d - 1), cG t * (ω (d + 1) ^ i) ^ t)
    (hquery : queryCore C t input proof qr jr 1 = .ok v) :
    verifierOutput C t input proof jr =
      .ok (assemble C t input 1 (shimOutputs ω d cG (gadgetArgs C t input jr 1).length)) ∧
    v = [checkOf (assemble C t input 1 (shimOutputs ω d cG (gadgetArgs C t input jr 1).length)) (qrValidityOf t qr)] ++
      coefs.map (fun c => ∑ j ∈ range (2 ^ d), c j * (qrPointOf t qr) ^ j) ++
      [∑ j ∈ range (2 * 2 ^ d - 1), cG j * (qrPointOf t qr) ^ j] := by
  have hpos : 0 < 2 ^ d := Nat.pow_pos (by norm_num)
  have e21 : 2 ^ (d + 1) = 2 * 2 ^ d := by rw [pow_succ]; ring
  have hA1 := gadget_arity_pos C t ht
  have hdeg := gadget_degree C t
  have egpl : gadgetPolyLen (t.gadget C).degree (wirePolyLen (t.gadget C).calls) = 2 * 2 ^ d - 1 := by
    rw [hp, hdeg, gadgetPolyLen_two]; omega
  obtain ⟨hin, hjr, _, _, hpl, gp', step, validity, st, rootsW, rootsG, hq, hrun, _, hW, hG, hv⟩ :=
    queryCore_shape' C t input proof qr jr v 1 hquery
  have hs : (proofSeeds C t proof).length = (t.gadget C).arity := by
    unfold proofSeeds; rw [List.length_take]; omega
  have hgl : (proofGadgetPoly C t proof).length = 2 * 2 ^ d - 1 := by
    unfold proofGadgetPoly
    rw [List.length_drop, List.length_take, Nat.min_eq_left hpl, egpl]; omega
  obtain ⟨hstep, hgs', hgv'⟩ := queryShimPoly_any C hC (t.gadget C) d hp hd1 hd hdeg _ hgl cG hcG gp' step hq
  subst hstep
  have hlen : (gadgetArgs C t input jr 1).length < 2 ^ d := by
    have h1 := args_length_le C t input jr 1 hin hjr
    have h2 := calls_lt_wirePolyLen (t.gadget C).calls
    omega
  have hall := args_length_all (t.gadget C) _ _ hs hev
  have hrun0 := hrun
  rw [hp, queryRun C t gp' 2 (2 ^ d) input jr 1 _ rfl hlen (by rw [hgs', e21]; omega)] at hrun
  have houts : (List.range (gadgetArgs C t input jr 1).length).map (fun i => gp'.getD ((1 + i) * 2) 0) =
      shimOutputs ω d cG (gadgetArgs C t input jr 1).length := by
    unfold shimOutputs
    apply List.map_congr_left
    intro i hi
    have hi' : i < (gadgetArgs C t input jr 1).length := List.mem_range.mp hi
    have hk : (1 + i) * 2 < 2 ^ (d + 1) := by rw [e21]; omega
    rw [hgv' _ hk, Nat.mul_comm (1 + i) 2, (hC.roots.mono hd).pow_even (1 + i)]
  rw [houts] at hrun
  have hval : validity = assemble C t input 1 (shimOutputs ω d cG (gadgetArgs C t input jr 1).length) := by
    cases hrun; rfl
  have hst : st.wires = wiresOf (2 ^ d) (proofSeeds C t proof) (gadgetArgs C t input jr 1) := by cases hrun; rfl
  have hco' : List.Forall₂ (WireOf ω d) (wiresOf (2 ^ d) (proofSeeds C t proof) (gadgetArgs C t input jr 1)) coefs := by
    have := hco
    unfold verifierWires at this
    rw [hp] at this
    exact this
  refine ⟨?_, ?_⟩
  · unfold verifierOutput
    rw [hq]
    simp only
    rw [hrun0, hval]
  · rw [hp, Nat.log2_two_pow] at hW
    rw [hgs', Nat.log2_two_pow] at hG
    obtain ⟨rW, w1, w2, w3⟩ := nthRootPowers_spec C.root d (hC.roots.mono (by omega)) (hC.avail.mono (by omega))
    rw [hW] at w1; cases w1
    obtain ⟨rG, g1, g2, g3⟩ := nthRootPowers_spec C.root (d + 1) (hC.roots.mono hd) (hC.avail.mono hd)
    rw [hG] at g1; cases g1
    rw [hv, hval, hst, hp, hgs', Nat.log2_two_pow, Nat.log2_two_pow,
      lagrange_wires C hC d (by omega) rootsW w2 w3 _ hco']
    congr 2
    rw [← sum_extend cG (2 * 2 ^ d - 1) (2 ^ (d + 1)) (by omega) (qrPointOf t qr)]
    apply polyEvalLagrange_spec (d + 1) (hC.roots.mono hd) hC.two rootsG g2 g3 C.half hC.half _ gp' (by rw [hgs'])
    intro i hi
    rw [if_pos (by rw [hgs']; exact hi), hgv' i hi, sum_extend cG _ _ (by omega)]

/-! ## Part 5: the polynomials of a proof; the honest case -/

omit [BEq F] in
/-- if the gadget polynomial `cG` agrees (as a function) with the gadget applied to the wire polynomials, the
    verifier's shim returns the true gadget outputs -/
theorem shimOutputs_honest {ω : Nat → F} (C : FieldCtx F) (t : TypeSpec) (input jr proof : List F) (d : Nat)
    (hp : wirePolyLen (t.gadget C).calls = 2 ^ d)
    (hin : input.length = t.inputLen) (hjr : jr.length = t.jointRandLen)
    (hpl : (t.gadget C).arity ≤ proof.length)
    (hev : ∀ a ∈ gadgetArgs C t input jr 1, (t.gadget C).eval a = .ok (evalD (t.gadget C) a))
    (coefs : List (Nat → F)) (cG : Nat → F)
    (hco : List.Forall₂ (WireOf ω d) (verifierWires C t input jr proof) coefs)
    (hagree : ∀ x, evalD (t.gadget C) (coefs.map fun c => ∑ j ∈ range (2 ^ d), c j * x ^ j) =
      ∑ j ∈ range (2 * 2 ^ d - 1), cG j * x ^ j) :
    shimOutputs ω d cG (gadgetArgs C t input jr 1).length = (gadgetArgs C t input jr 1).map (evalD (t.gadget C)) := by
  have hpos : 0 < 2 ^ d := Nat.pow_pos (by norm_num)
  have hlen : (gadgetArgs C t input jr 1).length < 2 ^ d := by
    have h1 := args_length_le C t input jr 1 hin hjr
    have h2 := calls_lt_wirePolyLen (t.gadget C).calls
    omega
  have hs : (proof.take (t.gadget C).arity).length = (t.gadget C).arity := by
    rw [List.length_take]; omega
  have hall := args_length_all (t.gadget C) _ _ hs hev
  unfold verifierWires at hco
  rw [hp] at hco
  unfold shimOutputs
  apply List.ext_getElem
  · simp
  · intro i h1 h2
    rw [List.length_map, List.length_range] at h1
    rw [List.getElem_map, List.getElem_map, List.getElem_range, ← hagree,
      coefs_at_node hco (1 + i) (by omega),
      wires_column (2 ^ d) hpos _ _ hall (1 + i) (by omega) (by omega) (by omega)]
    have e : 1 + i - 1 = i := by omega
    rw [e, List.getD_eq_getElem _ _ h1]

omit [BEq F] in
/-- the coefficients of the polynomials that belong to a proof: the wire polynomials `coefs` (from the verifier's
    wires), the gadget polynomial `cG` sent by the prover, and the gadget applied to the wire polynomials `cH` -/
theorem proof_polys {ω : Nat → F} (C : FieldCtx F) (hC : CtxOk C ω) (t : TypeSpec) (input jr proof : List F) (d : Nat)
    (hp : wirePolyLen (t.gadget C).calls = 2 ^ d) (hd : d + 1 ≤ maxRoots)
    (hpl : (t.gadget C).arity ≤ proof.length)
    (hev : ∀ a ∈ gadgetArgs C t input jr 1, (t.gadget C).eval a = .ok (evalD (t.gadget C) a))
    (gpoly : List F) :
    ∃ (coefs : List (Nat → F)) (cG cH : Nat → F),
      List.Forall₂ (WireOf ω d) (verifierWires C t input jr proof) coefs ∧
      (∀ i, i < 2 * 2 ^ d - 1 → gpoly.getD i 0 = ∑ j ∈ range (2 * 2 ^ d - 1), cG j * (ω (d + 1) ^ i) ^ j) ∧
      (∀ x, evalD (t.gadget C) (coefs.map fun c => ∑ j ∈ range (2 ^ d), c j * x ^ j) =
        ∑ j ∈ range (2 * 2 ^ d - 1), cH j * x ^ j) := by
  have hpos : 0 < 2 ^ d := Nat.pow_pos (by norm_num)
  have e21 : 2 ^ (d + 1) = 2 * 2 ^ d := by rw [pow_succ]; ring
  have hs : (proof.take (t.gadget C).arity).length = (t.gadget C).arity := by
    rw [List.length_take]; omega
  have hall := args_length_all (t.gadget C) _ _ hs hev
  obtain ⟨wl, wk⟩ := wiresOf_spec (2 ^ d) hpos _ _ hall
  obtain ⟨coefs, hco⟩ := wires_coefs C hC d (by omega) _
    (mem_size_of_getD _ (2 ^ d) (fun k hk => (wk k (by rw [← wl]; exact hk)).1))
  obtain ⟨cG, hcG⟩ := interp_coefs (2 * 2 ^ d - 1) (fun i => ω (d + 1) ^ i) (fun i => gpoly.getD i 0)
    (fun i j hi hj hij => roots_distinct (hC.roots.mono hd) hC.two i j (by omega) (by omega) hij)
  obtain ⟨cH, hcH⟩ := gadget_poly (t.gadget C) (gadget_quadratic C t) (2 ^ d) hpos coefs
  refine ⟨coefs, cG, cH, ?_, hcG, hcH⟩
  unfold verifierWires
  rw [hp]
  exact hco

omit [BEq F] in
theorem qr_split (t : TypeSpec) (qv : List F) (r : F) (h : (qv ++ [r]).length = t.queryRandLen) :
    qrValidityOf t (qv ++ [r]) = qv ∧ qrPointOf t (qv ++ [r]) = r := by
  unfold TypeSpec.queryRandLen at h
  rw [List.length_append, List.length_singleton] at h
  unfold qrValidityOf qrPointOf
  by_cases c : t.evalOutputLen > 1
  · rw [if_pos c] at h
    have hl : qv.length = t.evalOutputLen := by omega
    rw [if_pos c, if_pos c, ← hl]
    exact ⟨List.take_left' rfl, by rw [List.drop_left' rfl]; rfl⟩
  · rw [if_neg c] at h
    have hl : qv = [] := List.eq_nil_of_length_eq_zero (by omega)
    subst hl
    rw [if_neg c, if_neg c]
    exact ⟨rfl, rfl⟩

theorem proofLen_eq [LawfulBEq F] (C : FieldCtx F) (t : TypeSpec) :
    t.proofLen = (t.gadget C).arity + gadgetPolyLen (t.gadget C).degree (wirePolyLen (t.gadget C).calls) := by
  rw [gadget_degree C t, gadgetPolyLen_two]
  cases t <;> simp only [TypeSpec.proofLen, TypeSpec.gadget, Gadget.arity, wirePolyLen, TypeSpec.chunkLen,
    TypeSpec.gadgetCalls]
  · decide
  · omega
  all_goals omega

/-! ## Part 6: the gadget test (A) -/

/-- the gadget test in coefficient form: an accepted verifier message forces the prover's gadget polynomial `cG` and
    the gadget applied to the wire polynomials `cH` to agree at the query point; if they agree everywhere the
    verifier's circuit output is the true circuit output `o`, and the check value is `checkOf o qrValidity = 0` -/
theorem gadget_test_core [LawfulBEq F] {ω : Nat → F} (C : FieldCtx F) (hC : CtxOk C ω) (t : TypeSpec)
    (ht : t.WellFormed) (input jr proof o qr v : List F) (d : Nat)
    (hp : wirePolyLen (t.gadget C).calls = 2 ^ d) (hd1 : 1 ≤ d) (hd : d + 1 ≤ maxRoots)
    (hvalid : valid C t input jr 1 = .ok o)
    (coefs : List (Nat → F)) (cG cH : Nat → F)
    (hco : List.Forall₂ (WireOf ω d) (verifierWires C t input jr proof) coefs)
    (hcG : ∀ i, i < 2 * 2 ^ d - 1 →
      (proofGadgetPoly C t proof).getD i 0 = ∑ j ∈ range (2 * 2 ^ d - 1), cG j * (ω (d + 1) ^ i) ^ j)
    (hcH : ∀ x, evalD (t.gadget C) (coefs.map fun c => ∑ j ∈ range (2 ^ d), c j * x ^ j) =
      ∑ j ∈ range (2 * 2 ^ d - 1), cH j * x ^ j)
    (hquery : query C t input proof qr jr 1 = .ok v) (hdec : decide C t v = .ok true) :
    (∑ j ∈ range (2 * 2 ^ d - 1), cH j * (qrPointOf t qr) ^ j =
      ∑ j ∈ range (2 * 2 ^ d - 1), cG j * (qrPointOf t qr) ^ j) ∧
    ((∀ x, ∑ j ∈ range (2 * 2 ^ d - 1), cH j * x ^ j = ∑ j ∈ range (2 * 2 ^ d - 1), cG j * x ^ j) →
      verifierOutput C t input proof jr = .ok o ∧ v.headD 0 = checkOf o (qrValidityOf t qr) ∧
      checkOf o (qrValidityOf t qr) = 0) := by
  have hpos : 0 < 2 ^ d := Nat.pow_pos (by norm_num)
  obtain ⟨hin, hjr, hev, ho⟩ := valid_shape C t input jr o 1 hvalid
  obtain ⟨hqc, _⟩ := query_shape C t input proof qr jr v 1 hquery
  obtain ⟨_, _, _, _, hpl, _⟩ := queryCore_shape' C t input proof qr jr v 1 hqc
  obtain ⟨hvo, hv⟩ := query_any C hC t ht input jr proof qr v d hp hd1 hd hev coefs cG hco hcG hqc
  have hs : (proof.take (t.gadget C).arity).length = (t.gadget C).arity := by
    rw [List.length_take]; omega
  have hall := args_length_all (t.gadget C) _ _ hs hev
  have hcl : (coefs.map fun c => ∑ j ∈ range (2 ^ d), c j * (qrPointOf t qr) ^ j).length = (t.gadget C).arity := by
    rw [List.length_map, ← hco.length_eq]
    unfold verifierWires
    rw [hp, (wiresOf_spec (2 ^ d) hpos _ _ hall).1, hs]
  rw [hv] at hdec
  obtain ⟨hchk, hge⟩ := decide_true C t _ _ _ hcl hdec
  refine ⟨by rw [← hcH]; exact hge, fun hagree => ?_⟩
  have hout := shimOutputs_honest C t input jr proof d hp hin hjr (by omega) hev coefs cG hco
    (fun x => by rw [hcH x, hagree x])
  rw [hout, ← ho] at hvo hchk hv
  refine ⟨hvo, ?_, hchk⟩
  rw [hv]
  rfl

/-- `P` has fewer than `n` coefficients and takes the values `val i` at the nodes `x^i`, `i < n` -/
def Interpolates (x : F) (n : Nat) (val : Nat → F) (P : Polynomial F) : Prop :=
  P.natDegree < n ∧ ∀ i, i < n → P.eval (x ^ i) = val i

/-- **(A) the gadget test.**  For a proof of the right length, whatever its content: let `W_k` be the polynomials that
    interpolate the wires the verifier records (they depend on the input, the joint randomness and the seeds in the
    proof), `GP` the polynomial that interpolates the gadget-polynomial part of the proof, and
    `D = G(W_1, …, W_a) − GP`, of degree at most `2(p − 1)`, `p = 2^d` the wire polynomial length.  Whenever `query`
    succeeds and `decide` accepts, EITHER `D = 0`, the verifier's circuit output is the true circuit output `o` and
    the check value is `checkOf o qrValidity` (`∑ qrᵢ·oᵢ`, or `o₀`), which is zero, OR `D ≠ 0` and the gadget point of
    the query randomness is a root of `D`. -/
theorem flp_gadget_test [LawfulBEq F] {ω : Nat → F} (C : FieldCtx F) (hC : CtxOk C ω) (t : TypeSpec)
    (ht : t.WellFormed) (input jr proof o : List F) (d : Nat)
    (hp : wirePolyLen t.gadgetCalls = 2 ^ d) (hd : d + 1 ≤ maxRoots) (hpl : proof.length = t.proofLen)
    (hvalid : valid C t input jr 1 = .ok o) :
    ∃ (W : List (Polynomial F)) (GP D : Polynomial F),
      List.Forall₂ (fun w P => Interpolates (ω d) (2 ^ d) (fun i => w.getD i 0) P)
        (verifierWires C t input jr proof) W ∧
      Interpolates (ω (d + 1)) (2 * 2 ^ d - 1) (fun i => (proofGadgetPoly C t proof).getD i 0) GP ∧
      (∀ x, D.eval x = evalD (t.gadget C) (W.map fun P => P.eval x) - GP.eval x) ∧
      D.natDegree ≤ 2 * (2 ^ d - 1) ∧
      ∀ qr v, query C t input proof qr jr 1 = .ok v → decide C t v = .ok true →
        (D = 0 ∧ verifierOutput C t input proof jr = .ok o ∧ v.headD 0 = checkOf o (qrValidityOf t qr) ∧
          checkOf o (qrValidityOf t qr) = 0) ∨
        (D ≠ 0 ∧ D.eval (qrPointOf t qr) = 0) := by
  have hpos : 0 < 2 ^ d := Nat.pow_pos (by norm_num)
  rw [← gadget_calls C t] at hp
  have hd1 : 1 ≤ d := by
    have h1 := calls_lt_wirePolyLen (t.gadget C).calls
    rw [hp, gadget_calls] at h1
    unfold TypeSpec.WellFormed at ht
    rcases Nat.eq_zero_or_pos d with rfl | h
    · simp at h1; omega
    · exact h
  obtain ⟨_, _, hev, _⟩ := valid_shape C t input jr o 1 hvalid
  have hpl' : (t.gadget C).arity ≤ proof.length := by rw [hpl, proofLen_eq C t]; omega
  obtain ⟨coefs, cG, cH, hco, hcG, hcH⟩ := proof_polys C hC t input jr proof d hp hd hpl' hev (proofGadgetPoly C t proof)
  have hm : 1 ≤ 2 * 2 ^ d - 1 := by omega
  have hWmap : ∀ x, (coefs.map (polyOf (2 ^ d))).map (fun P => P.eval x) =
      coefs.map fun c => ∑ j ∈ range (2 ^ d), c j * x ^ j := by
    intro x
    rw [List.map_map]
    apply List.map_congr_left
    intro c _
    exact polyOf_eval _ c x
  refine ⟨coefs.map (polyOf (2 ^ d)), polyOf (2 * 2 ^ d - 1) cG,
    polyOf (2 * 2 ^ d - 1) cH - polyOf (2 * 2 ^ d - 1) cG, ?_, ?_, ?_, ?_, ?_⟩
  · rw [List.forall₂_map_right_iff]
    refine hco.imp fun w c hw => ⟨polyOf_natDegree_lt _ hpos c, fun i hi => ?_⟩
    rw [polyOf_eval]
    exact (hw.2 i hi).symm
  · exact ⟨polyOf_natDegree_lt _ hm cG, fun i hi => by rw [polyOf_eval]; exact (hcG i hi).symm⟩
  · intro x
    rw [Polynomial.eval_sub, hWmap, hcH, polyOf_eval, polyOf_eval]
  · refine le_trans (Polynomial.natDegree_sub_le _ _) ?_
    have h1 := polyOf_natDegree_le (2 * 2 ^ d - 1) cH
    have h2 := polyOf_natDegree_le (2 * 2 ^ d - 1) cG
    rw [max_le_iff]
    constructor <;> omega
  · intro qr v hquery hdec
    obtain ⟨hpt, hhon⟩ := gadget_test_core C hC t ht input jr proof o qr v d hp hd1 hd hvalid coefs cG cH hco hcG hcH
      hquery hdec
    by_cases hD : polyOf (2 * 2 ^ d - 1) cH - polyOf (2 * 2 ^ d - 1) cG = 0
    · left
      refine ⟨hD, hhon fun x => ?_⟩
      have := congrArg (Polynomial.eval x) hD
      rw [Polynomial.eval_sub, polyOf_eval, polyOf_eval, Polynomial.eval_zero] at this
      exact sub_eq_zero.mp this
    · right
      refine ⟨hD, ?_⟩
      rw [Polynomial.eval_sub, polyOf_eval, polyOf_eval, hpt, sub_self]

/-- what success of `query` says about the sizes -/
theorem query_ok_bounds [LawfulBEq F] (C : FieldCtx F) (t : TypeSpec) (ht : t.WellFormed)
    (input proof qr jr v : List F) (d : Nat) (hp : wirePolyLen t.gadgetCalls = 2 ^ d)
    (h : query C t input proof qr jr 1 = .ok v) :
    d + 1 ≤ maxRoots ∧ proof.length = t.proofLen ∧ qr.length = t.queryRandLen := by
  rw [← gadget_calls C t] at hp
  have hd1 : 1 ≤ d := by
    have h1 := calls_lt_wirePolyLen (t.gadget C).calls
    rw [hp, gadget_calls] at h1
    unfold TypeSpec.WellFormed at ht
    rcases Nat.eq_zero_or_pos d with rfl | h
    · simp at h1; omega
    · exact h
  obtain ⟨hqc, _⟩ := query_shape C t input proof qr jr v 1 h
  obtain ⟨_, _, h3, h4, _⟩ := queryCore_shape' C t input proof qr jr v 1 hqc
  exact ⟨query_size_bound C t input proof qr jr v 1 d hp hd1 hqc, h4, h3⟩

/-- the verifier's circuit output is what the check value of a successful `query` is computed from -/
theorem query_verifierOutput (C : FieldCtx F) (t : TypeSpec) (input proof qr jr v : List F)
    (h : query C t input proof qr jr 1 = .ok v) :
    ∃ validity, verifierOutput C t input proof jr = .ok validity ∧ validity.length = t.evalOutputLen ∧
      v.headD 0 = checkOf validity (qrValidityOf t qr) := by
  obtain ⟨hqc, _⟩ := query_shape C t input proof qr jr v 1 h
  obtain ⟨_, _, _, _, _, gp, step, validity, st, rootsW, rootsG, hq, hrun, hvl, _, _, hv⟩ :=
    queryCore_shape' C t input proof qr jr v 1 hqc
  refine ⟨validity, ?_, hvl, by rw [hv]; rfl⟩
  unfold verifierOutput
  rw [hq]
  simp only
  rw [hrun]

/-- **the gadget test as a dichotomy over all query randomness**: for every proof, EITHER every accepted run has the
    true circuit output and a vanishing check value `checkOf o qrValidity`, OR the gadget points of all accepted runs
    lie in one set of at most `2(p − 1)` field elements -/
theorem flp_gadget_dichotomy [Fintype F] [LawfulBEq F] {ω : Nat → F} (C : FieldCtx F) (hC : CtxOk C ω) (t : TypeSpec)
    (ht : t.WellFormed) (input jr proof o : List F) (hvalid : valid C t input jr 1 = .ok o) :
    (∀ qr v, query C t input proof qr jr 1 = .ok v → decide C t v = .ok true →
      verifierOutput C t input proof jr = .ok o ∧ checkOf o (qrValidityOf t qr) = 0) ∨
    (∃ S : Finset F, S.card ≤ 2 * (wirePolyLen t.gadgetCalls - 1) ∧
      ∀ qr v, query C t input proof qr jr 1 = .ok v → decide C t v = .ok true → qrPointOf t qr ∈ S) := by
  classical
  by_cases hex : ∃ qr v, query C t input proof qr jr 1 = .ok v ∧ decide C t v = .ok true
  · obtain ⟨qr0, v0, hq0, _⟩ := hex
    obtain ⟨d, hp, _⟩ := wirePolyLen_is_pow t.gadgetCalls
    obtain ⟨hd, hpl, _⟩ := query_ok_bounds C t ht input proof qr0 jr v0 d hp hq0
    obtain ⟨W, GP, D, _, _, _, hdeg, hdich⟩ := flp_gadget_test C hC t ht input jr proof o d hp hd hpl hvalid
    by_cases hD : D = 0
    · left
      intro qr v hq hdec
      rcases hdich qr v hq hdec with ⟨_, h1, _, h2⟩ | ⟨h, _⟩
      · exact ⟨h1, h2⟩
      · exact absurd hD h
    · right
      refine ⟨univ.filter fun r => D.eval r = 0, ?_, ?_⟩
      · rw [hp]
        exact le_trans (card_roots_le D hD _ (fun r hr => (mem_filter.mp hr).2)) hdeg
      · intro qr v hq hdec
        rcases hdich qr v hq hdec with ⟨h, _⟩ | ⟨_, h⟩
        · exact absurd h hD
        · exact mem_filter.mpr ⟨mem_univ _, h⟩
  · left
    intro qr v hq hdec
    exact absurd ⟨qr, v, hq, hdec⟩ hex

open Classical in
/-- **(A), counting form.**  For fixed input, joint randomness, proof and linear-combination randomness `qv`, the
    number of gadget points `r` for which `query` succeeds, `decide` accepts and the verifier's circuit output is NOT
    the true circuit output is at most `2(p − 1)`, `p` the wire polynomial length: a cheating gadget polynomial
    survives at no more than `2(p − 1)` points -/
theorem flp_gadget_test_count [Fintype F] [LawfulBEq F] {ω : Nat → F} (C : FieldCtx F) (hC : CtxOk C ω) (t : TypeSpec)
    (ht : t.WellFormed) (input jr proof o : List F) (hvalid : valid C t input jr 1 = .ok o) (qv : List F) :
    (univ.filter fun r : F => ∃ v, query C t input proof (qv ++ [r]) jr 1 = .ok v ∧ decide C t v = .ok true ∧
      verifierOutput C t input proof jr ≠ .ok o).card ≤ 2 * (wirePolyLen t.gadgetCalls - 1) := by
  rcases flp_gadget_dichotomy C hC t ht input jr proof o hvalid with h | ⟨S, hS, h⟩
  · rw [Finset.card_eq_zero.mpr]
    · exact Nat.zero_le _
    · rw [Finset.filter_eq_empty_iff]
      rintro r _ ⟨v, hq, hdec, hne⟩
      exact hne (h _ v hq hdec).1
  · refine le_trans (Finset.card_le_card ?_) hS
    intro r hr
    obtain ⟨v, hq, hdec, _⟩ := (mem_filter.mp hr).2
    obtain ⟨d, hp, _⟩ := wirePolyLen_is_pow t.gadgetCalls
    obtain ⟨_, _, hl⟩ := query_ok_bounds C t ht input proof _ jr v d hp hq
    have := h _ v hq hdec
    rwa [(qr_split t qv r hl).2] at this

/-! ## Part 7: the linear-combination test (B) -/

omit [BEq F] in
theorem foldl_check_acc : ∀ (l : List (F × F)) (a : F),
    l.foldl (fun acc vr => acc + vr.2 * vr.1) a = a + l.foldl (fun acc vr => acc + vr.2 * vr.1) 0
  | [], a => by simp
  | x :: xs, a => by
    rw [List.foldl_cons, List.foldl_cons, foldl_check_acc xs (a + x.2 * x.1), foldl_check_acc xs (0 + x.2 * x.1)]
    ring

omit [BEq F] in
/-- the random linear combination of `query` as a sum -/
theorem foldl_zip_eq_sum : ∀ (o : List F) (q : Fin o.length → F),
    (o.zip (List.ofFn q)).foldl (fun acc vr => acc + vr.2 * vr.1) 0 = ∑ i, q i * o.get i
  | [], _ => by simp
  | x :: xs, q => by
    rw [List.ofFn_succ, List.zip_cons_cons, List.foldl_cons, foldl_check_acc,
      foldl_zip_eq_sum xs (fun i => q i.succ)]
    have e := Fin.sum_univ_succ (n := xs.length) (fun i => q i * (x :: xs).get i)
    refine Eq.trans ?_ e.symm
    simp

omit [BEq F] in
theorem checkOf_eq_sum (o : List F) (h : 1 < o.length) (q : Fin o.length → F) :
    checkOf o (List.ofFn q) = ∑ i, q i * o.get i := by
  unfold checkOf
  rw [if_pos h, foldl_zip_eq_sum]

omit [BEq F] in
/-- a non-zero linear form on `F^(k+1)` vanishes on exactly `|F|^k` vectors -/
theorem linear_form_kernel_card [Fintype F] [DecidableEq F] (k : Nat) (o : Fin (k + 1) → F) (ho : ∃ j, o j ≠ 0) :
    (univ.filter fun q : Fin (k + 1) → F => ∑ i, q i * o i = 0).card = Fintype.card F ^ k := by
  obtain ⟨j, hj⟩ := ho
  have hcard : (univ : Finset (Fin k → F)).card = Fintype.card F ^ k := by
    rw [Finset.card_univ, Fintype.card_fun, Fintype.card_fin]
  rw [← hcard]
  apply Finset.card_nbij' (fun q => j.removeNth q)
    (fun g => j.insertNth (-(∑ i, g i * o (j.succAbove i)) / o j) g)
  · intro q _
    exact mem_coe.mpr (mem_univ _)
  · intro g _
    rw [mem_coe, mem_filter]
    refine ⟨mem_univ _, ?_⟩
    rw [Fin.sum_univ_succAbove _ j]
    simp only [Fin.insertNth_apply_same, Fin.insertNth_apply_succAbove]
    field_simp
    ring
  · intro q hq
    rw [mem_coe, mem_filter] at hq
    have h := hq.2
    rw [Fin.sum_univ_succAbove _ j] at h
    have e : -(∑ i, j.removeNth q i * o (j.succAbove i)) / o j = q j := by
      rw [div_eq_iff hj]
      simp only [Fin.removeNth_apply]
      linear_combination -h
    simp only
    rw [e]
    exact Fin.insertNth_self_removeNth j q
  · intro g _
    exact Fin.removeNth_insertNth (α := fun _ => F) j _ g

omit [BEq F] in
open Classical in
/-- **(B) the linear-combination test**: if the true circuit output `o` has more than one entry and is not zero, the
    check value `checkOf o qv` (`∑ qvᵢ·oᵢ`) vanishes for exactly `|F|^(m−1)` of the `|F|^m` vectors `qv`, `m = |o|` -/
theorem flp_check_count [Fintype F] (o : List F) (h : 1 < o.length) (hnz : ∃ x ∈ o, x ≠ 0) :
    (univ.filter fun q : Fin o.length → F => checkOf o (List.ofFn q) = 0).card = Fintype.card F ^ (o.length - 1) := by
  obtain ⟨k, hk⟩ : ∃ k, o.length = k + 1 := ⟨o.length - 1, by omega⟩
  have key : ∀ (n : Nat) (f : Fin n → F), n = k + 1 → (∃ j, f j ≠ 0) →
      (univ.filter fun q : Fin n → F => ∑ i, q i * f i = 0).card = Fintype.card F ^ (n - 1) := by
    intro n f hn hf
    subst hn
    have := linear_form_kernel_card k f hf
    rw [Nat.add_sub_cancel]
    convert this
  have hf : ∃ j, o.get j ≠ 0 := by
    obtain ⟨x, hx, hx0⟩ := hnz
    obtain ⟨i, rfl⟩ := List.get_of_mem hx
    exact ⟨i, hx0⟩
  rw [← key o.length o.get hk hf]
  congr 1
  apply Finset.filter_congr
  intro q _
  rw [checkOf_eq_sum o h q]

omit [BEq F] in
/-- (B), single output: the check value is the output itself; a non-zero check value is rejected -/
theorem flp_check_single (x : F) (qv : List F) : checkOf [x] qv = x := by
  unfold checkOf
  rw [if_neg (by simp)]
  rfl

/-- `decide` rejects every verifier message with a non-zero check value -/
theorem decide_check_ne_zero [LawfulBEq F] (C : FieldCtx F) (t : TypeSpec) (v : List F) (h : v.headD 0 ≠ 0) :
    decide C t v ≠ .ok true := by
  unfold decide
  split
  · intro h'; cases h'
  · have e : (v.headD 0 == 0) = false := by rw [beq_eq_false_iff_ne]; exact h
    have : (!(v.headD 0 == 0)) = true := by rw [e]; rfl
    rw [if_pos this]
    intro h'; cases h'

/-- (B), single output: if the verifier's circuit output is the single non-zero value `x` (as it is for an honest gadget
    polynomial and an invalid input), `decide` returns `false` -/
theorem flp_single_output_reject [LawfulBEq F] (C : FieldCtx F) (t : TypeSpec) (input proof qr jr v : List F) (x : F)
    (hx : x ≠ 0) (hvo : verifierOutput C t input proof jr = .ok [x])
    (hq : query C t input proof qr jr 1 = .ok v) : decide C t v = .ok false := by
  obtain ⟨validity, h1, _, h3⟩ := query_verifierOutput C t input proof qr jr v hq
  rw [hvo] at h1
  cases h1
  rw [flp_check_single] at h3
  obtain ⟨_, hl⟩ := query_shape C t input proof qr jr v 1 hq
  unfold decide
  rw [if_neg (by omega)]
  have e : (v.headD 0 == 0) = false := by rw [beq_eq_false_iff_ne, h3]; exact hx
  have : (!(v.headD 0 == 0)) = true := by rw [e]; rfl
  rw [if_pos this]

/-! ## Part 8: counting over the query randomness (C) -/

omit [BEq F] in
theorem valid_output_length (C : FieldCtx F) (t : TypeSpec) (input jr o : List F) (ns : Nat)
    (h : valid C t input jr ns = .ok o) : o.length = t.evalOutputLen := by
  obtain ⟨hin, _, _, ho⟩ := valid_shape C t input jr o ns h
  subst ho
  cases t <;> simp [assemble, TypeSpec.evalOutputLen, gadgetArgs]
  exact hin

omit [Field F] [BEq F] in
theorem ofFn_snoc_split {k : Nat} (a : Fin (k + 1) → F) :
    List.ofFn a = List.ofFn (Fin.init a) ++ [a (Fin.last k)] := by
  rw [List.ofFn_succ', List.concat_eq_append]
  rfl

omit [Field F] [BEq F] in
open Classical in
/-- counting over `F^(k+1)` by the first `k` coordinates -/
theorem card_filter_snoc_le [Fintype F] (k : Nat) (P : List F → Prop) (B : (Fin k → F) → Nat)
    (h : ∀ b : Fin k → F, (univ.filter fun r : F => P (List.ofFn b ++ [r])).card ≤ B b) :
    (univ.filter fun qr : Fin (k + 1) → F => P (List.ofFn qr)).card ≤ ∑ b, B b := by
  rw [Finset.card_eq_sum_card_fiberwise (f := fun a : Fin (k + 1) → F => Fin.init a)
    (t := (univ : Finset (Fin k → F))) (fun _ _ => mem_coe.mpr (mem_univ _))]
  apply Finset.sum_le_sum
  intro b _
  refine le_trans (Finset.card_le_card_of_injOn (fun a => a (Fin.last k)) ?_ ?_) (h b)
  · intro a ha
    rw [mem_coe, mem_filter, mem_filter] at ha
    rw [mem_coe, mem_filter]
    refine ⟨mem_univ _, ?_⟩
    have := ha.1.2
    rw [ofFn_snoc_split a, ha.2] at this
    exact this
  · intro a ha a' ha' hl
    rw [mem_coe, mem_filter] at ha ha'
    rw [← Fin.snoc_init_self a, ← Fin.snoc_init_self a', ha.2, ha'.2]
    simp only at hl
    rw [hl]

open Classical in
/-- **(C) soundness of the FLP as a counting theorem.**  For an input whose true circuit output `o` is not zero, and for
    EVERY proof, the number of query-randomness vectors for which `query` succeeds and `decide` accepts is at most
    `(2(p − 1) + 1)·|F|^(queryRandLen − 1)`, `p` the wire polynomial length: the acceptance probability is at most
    `(2(p − 1) + 1)/|F|`. -/
theorem flp_soundness [Fintype F] [LawfulBEq F] {ω : Nat → F} (C : FieldCtx F) (hC : CtxOk C ω) (t : TypeSpec)
    (ht : t.WellFormed) (input jr o : List F) (hvalid : valid C t input jr 1 = .ok o) (hnz : ∃ x ∈ o, x ≠ 0)
    (proof : List F) :
    (univ.filter fun qr : Fin t.queryRandLen → F =>
      ∃ v, query C t input proof (List.ofFn qr) jr 1 = .ok v ∧ decide C t v = .ok true).card ≤
      (2 * (wirePolyLen t.gadgetCalls - 1) + 1) * Fintype.card F ^ (t.queryRandLen - 1) := by
  have hol := valid_output_length C t input jr o 1 hvalid
  obtain ⟨d, hp, _⟩ := wirePolyLen_is_pow t.gadgetCalls
  -- the accepted query randomness has the declared length
  have hlen : ∀ qr v, query C t input proof qr jr 1 = .ok v → qr.length = t.queryRandLen :=
    fun qr v hq => (query_ok_bounds C t ht input proof qr jr v d hp hq).2.2
  -- generalise the dimension
  have key : ∀ (k n : Nat), n = k + 1 → t.queryRandLen = k + 1 → (t.evalOutputLen > 1 → k = o.length) →
      (univ.filter fun qr : Fin n → F =>
        ∃ v, query C t input proof (List.ofFn qr) jr 1 = .ok v ∧ decide C t v = .ok true).card ≤
      (2 * (wirePolyLen t.gadgetCalls - 1) + 1) * Fintype.card F ^ k := by
    intro k n hn hqrl hk
    subst hn
    rcases flp_gadget_dichotomy C hC t ht input jr proof o hvalid with h | ⟨S, hS, h⟩
    · -- the honest case: the linear-combination test
      by_cases heo : t.evalOutputLen > 1
      · have hk' := hk heo
        subst hk'
        refine le_trans (card_filter_snoc_le _
          (fun qr => ∃ v, query C t input proof qr jr 1 = .ok v ∧ decide C t v = .ok true)
          (fun b => if checkOf o (List.ofFn b) = 0 then Fintype.card F else 0) ?_) ?_
        · intro b
          by_cases hb : checkOf o (List.ofFn b) = 0
          · rw [if_pos hb]
            exact Finset.card_le_univ _
          · rw [if_neg hb, Nat.le_zero, Finset.card_eq_zero, Finset.filter_eq_empty_iff]
            rintro r _ ⟨v, hq, hdec⟩
            have := (h _ v hq hdec).2
            rw [(qr_split t _ r (hlen _ v hq)).1] at this
            exact hb this
        · rw [← Finset.sum_filter, Finset.sum_const, smul_eq_mul, flp_check_count o (by omega) hnz]
          have : Fintype.card F ^ (o.length - 1) * Fintype.card F = Fintype.card F ^ o.length := by
            rw [← pow_succ]; congr 1; omega
          rw [this]
          exact Nat.le_mul_of_pos_left _ (by omega)
      · -- a single output: the check value is the non-zero output itself
        rw [Finset.card_eq_zero.mpr]
        · exact Nat.zero_le _
        rw [Finset.filter_eq_empty_iff]
        rintro qr _ ⟨v, hq, hdec⟩
        have h0 := (h _ v hq hdec).2
        obtain ⟨x, hx, hx0⟩ := hnz
        have : o = [x] := by
          match o, hol, hx with
          | [y], _, hx => simp at hx; rw [hx]
          | [], _, hx => simp at hx
          | _ :: _ :: _, hol, _ => simp at hol; omega
        rw [this, flp_check_single] at h0
        exact hx0 h0
    · -- the cheating case: the gadget point lies in a set of at most 2(p − 1) elements
      refine le_trans (card_filter_snoc_le _
        (fun qr => ∃ v, query C t input proof qr jr 1 = .ok v ∧ decide C t v = .ok true)
        (fun _ => 2 * (wirePolyLen t.gadgetCalls - 1)) ?_) ?_
      · intro b
        refine le_trans (Finset.card_le_card ?_) hS
        intro r hr
        obtain ⟨v, hq, hdec⟩ := (mem_filter.mp hr).2
        have := h _ v hq hdec
        rwa [(qr_split t _ r (hlen _ v hq)).2] at this
      · rw [Finset.sum_const, Finset.card_univ, Fintype.card_fun, Fintype.card_fin, smul_eq_mul, Nat.mul_comm]
        exact Nat.mul_le_mul_right _ (by omega)
  have hq1 : t.queryRandLen = (if t.evalOutputLen > 1 then t.evalOutputLen else 0) + 1 := by
    unfold TypeSpec.queryRandLen; omega
  have := key (if t.evalOutputLen > 1 then t.evalOutputLen else 0) t.queryRandLen hq1 hq1
    (fun h => by rw [if_pos h, hol])
  rw [hq1, Nat.add_sub_cancel]
  rw [hq1] at this
  exact this

end WithBEq

open Classical in
/-- (C) for a finite field with decidable equality, `==` being the decidable equality (the instance the executable
    model is run with) -/
theorem flp_soundness_decEq [Fintype F] [DecidableEq F] {ω : Nat → F} (C : FieldCtx F) (hC : CtxOk C ω) (t : TypeSpec)
    (ht : t.WellFormed) (input jr o : List F) (hvalid : valid C t input jr 1 = .ok o) (hnz : ∃ x ∈ o, x ≠ 0)
    (proof : List F) :
    (univ.filter fun qr : Fin t.queryRandLen → F =>
      ∃ v, query C t input proof (List.ofFn qr) jr 1 = .ok v ∧ decide C t v = .ok true).card ≤
      (2 * (wirePolyLen t.gadgetCalls - 1) + 1) * Fintype.card F ^ (t.queryRandLen - 1) :=
  flp_soundness C hC t ht input jr o hvalid hnz proof

-- all depend only on [propext, Classical.choice, Quot.sound]:
-- #print axioms flp_gadget_test
-- #print axioms flp_gadget_dichotomy
-- #print axioms flp_gadget_test_count
-- #print axioms flp_check_count
-- #print axioms flp_single_output_reject
-- #print axioms flp_soundness
-- #print axioms flp_soundness_decEq
-- #print axioms query_verifierOutput
-- #print axioms query_any

end Prio.Flp
